"""Per-property configuration of the driver."""

def _c04_results(obs):
    return [o[0][0] for o in obs if isinstance(o, list) and o and isinstance(o[0], list) and o[0]]

def c04_nontrivial(inp, obs):
    # a history is non-trivial when it contains a successful insertion and an error
    if not isinstance(obs, list):
        return False
    tags = _c04_results(obs)
    ops = [o[0] for o in inp[1]]
    ins_ok = any(op in (0, 8, 9) and t == 0 for op, t in zip(ops, tags))
    err = any(t in (4, 5) for t in tags)
    return ins_ok and err

OPN = ['push', 'pop', 'pop2', 'pop3', 'top', 'top2', 'top3', 'discard', 'push_many', 'try_extend', 'set_max', 'size', 'is_empty', 'is_full', 'max']
RESN = {0: 'ok', 1: 'values', 2: 'number', 3: 'bool', 4: 'underflow', 5: 'overflow', 9: 'panic'}

def c04_bucket(inp, obs):
    out = ['elem_type=%s' % ['i64', 'bool', 'String'][inp[0]], 'history_len=%d' % (len(inp[1]) // 10 * 10)]
    if isinstance(obs, list):
        for op, o in zip(inp[1], obs):
            if isinstance(o, list) and o and isinstance(o[0], list):
                out.append('%s:%s' % (OPN[op[0]], RESN.get(o[0][0], '?')))
    return out

def c04_describe(inp, obs):
    return 'Stack<%s>::default(); ' % ['i64', 'bool', 'String'][inp[0]] + '; '.join(
        OPN[o[0]] + '(' + ','.join(str(x) for x in o[1:]) + ')' for o in inp[1]) + \
        '   -- observed per step: [result, contents top first, max]'

def c04_classify(inp, obs):
    # D6 shape: a push that succeeds on a stack already at or above its capacity
    if isinstance(obs, list):
        prev_len = 0
        for op, o in zip(inp[1], obs):
            if not (isinstance(o, list) and len(o) == 3):
                return 'panic-or-malformed'
            if op[0] == 0 and o[0] == [0] and prev_len >= o[2]:
                return 'push-on-overfull-stack'
            prev_len = len(o[1])
    return 'stack-history-mismatch'

PROPS = {
    'C04': dict(
        corr='CorrC04', judge='(judge_cases judge)', show='(show_cases show [])',
        coq_targets=['theories/Props/C04.vo', 'theories/Corr/CorrC04.vo'],
        nontrivial=c04_nontrivial, bucket=c04_bucket, describe=c04_describe, classify=c04_classify,
        rule='random operation histories on the real Stack<T> (T = i64, bool, String; length <= 40; capacity 0..8 set and changed mid-history; both bulk forms, also longer than the free space) plus all histories of length <= 3 (quick) / 4 (thorough) over a 9-operation alphabet at capacities 0,1,2; after every operation the result and the full contents (clone + pop all) and max_stack_size are recorded and compared in Coq with the LIFO model. Non-trivial = the history contains a successful insertion and an underflow/overflow error; distinct = distinct histories.',
        trusted=['finite iterators only (an infinite iterator handed to try_extend is not a Coq list)'],
        level_text='Theorems (Props/C04.v): the Vec-level transcription of stack.rs refines an abstract all-or-nothing LIFO over every history of operations (induction on the history), with LIFO order, bulk order, exact discard, error => unchanged stack, underflow payload, and `a successful insertion never exceeds the current maximum` without assuming the stack was within its maximum. Tied to the code by running recorded histories of the real Stack<T> against the model inside coqc.',
        level_note='Trusted: Coq kernel + vm_compute; the Rust harness and Python driver; finite iterators only; contents observed via clone+pop.',
        technique='Coq refinement proof (Vec-level stack -> abstract LIFO, all histories) + differential correspondence of operation histories evaluated in coqc',
        design_ref='DESIGN.md §4 C04',
        assumptions=['contents are observed through Stack::clone + pop (both themselves compared)', 'usize arithmetic overflow of sizes (> 2^63 elements) is outside any executable check'],
    ),
}

NOT_YET = {}
