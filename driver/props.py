"""Per-property configuration of the driver."""

def _c04_results(obs):
    return [o[0][0] for o in obs if isinstance(o, list) and o and isinstance(o[0], list) and o[0]]

def c04_nontrivial(inp, obs):
    # a history is non-trivial when it contains a successful insertion and an error
    if not isinstance(obs, list):
        return False
    tags = _c04_results(obs)
    ops = [o[0] for o in inp[1]]
    ins_ok = any(op in (0, 8, 9, 17, 19) and t == 0 for op, t in zip(ops, tags))
    err = any(t in (4, 5) for t in tags)
    return ins_ok and err

OPN = ['push', 'pop', 'pop2', 'pop3', 'top', 'top2', 'top3', 'discard', 'push_many', 'try_extend', 'set_max', 'size', 'is_empty', 'is_full', 'max', 'try_extend(iterator without upper size hint)', 'push_many(exact-size iterator of claimed length)', 'try_extend_from_slice', 'try_extend(iterator that resumes after its first None)', 'try_extend(iterator with a loose upper size hint)']
RESN = {0: 'ok', 1: 'values', 2: 'number', 3: 'bool', 4: 'underflow', 5: 'overflow', 9: 'panic'}

def c04_bucket(inp, obs):
    out = ['elem_type=%s' % ['i64', 'bool', 'String'][inp[0]], 'history_len=%d' % (len(inp[1]) // 10 * 10)]
    if isinstance(obs, list):
        for op, o in zip(inp[1], obs):
            if isinstance(o, list) and o and isinstance(o[0], list):
                out.append('%s:%s' % (OPN[op[0]], RESN.get(o[0][0], '?')))
    return out

def c04_describe(inp, obs):
    return 'Stack<%s>::default(); ' % ['i64', 'bool', 'String'][inp[0]] + '; '.join(
        OPN[o[0]] + '(' + ','.join(str(x) for x in o[1:]) + ')' for o in inp[1]) + \
        '   -- observed per step: [result, contents top first, max]'

def c04_classify(inp, obs):
    # D6 shape: a push that succeeds on a stack already at or above its capacity
    if isinstance(obs, list):
        prev_len = 0
        for op, o in zip(inp[1], obs):
            if not (isinstance(o, list) and len(o) == 3):
                return 'panic-or-malformed'
            if op[0] == 0 and o[0] == [0] and prev_len >= o[2]:
                return 'push-on-overfull-stack'
            prev_len = len(o[1])
    return 'stack-history-mismatch'

PROPS = {
    'C04': dict(
        corr='CorrC04', judge='(judge_cases judge)', show='(show_cases show [])',
        coq_targets=['theories/Props/C04.vo', 'theories/Corr/CorrC04.vo'],
        nontrivial=c04_nontrivial, bucket=c04_bucket, describe=c04_describe, classify=c04_classify,
        rule='random operation histories on the real Stack<T> (T = i64, bool, String; length <= 40; capacity 0..8 set and changed mid-history; both bulk forms, also longer than the free space; try_extend from an exact-size-hint iterator, from one that reports no upper bound and from one that is not fused (it resumes after its first None: all of what it offered before, or nothing and Overflow), try_extend_from_slice; push_many from an exact-size iterator of a claimed length near usize::MAX where it cannot fit) plus all histories of length <= 3 (quick) / 4 (thorough) over a 13-operation alphabet at capacities 0,1,2; after every operation the result and the full contents (clone + pop all) and max_stack_size are recorded and compared in Coq with the LIFO model. Non-trivial = the history contains a successful insertion and an underflow/overflow error; distinct = distinct histories.',
        trusted=['finite iterators only (an infinite iterator handed to try_extend is not a Coq list)'],
        level_text='Theorems (Props/C04.v): the Vec-level transcription of stack.rs refines an abstract all-or-nothing LIFO over every history of operations (induction on the history), with LIFO order, bulk order, exact discard, error => unchanged stack, underflow payload, and `a successful insertion never exceeds the current maximum` without assuming the stack was within its maximum. Tied to the code by running recorded histories of the real Stack<T> against the model inside coqc.',
        level_note='Trusted: Coq kernel + vm_compute; the Rust harness and Python driver; finite iterators only; contents observed via clone+pop.',
        technique='Coq refinement proof (Vec-level stack -> abstract LIFO, all histories) + differential correspondence of operation histories evaluated in coqc',
        design_ref='DESIGN.md §4 C04',
        assumptions=['contents are observed through Stack::clone + pop (both themselves compared)', 'usize arithmetic overflow of sizes (> 2^63 elements) is outside any executable check'],
    ),
}

NOT_YET = {}

# ---------------------------------------------------------------------------
# C01-C03: the Push VM
import os, subprocess, json as _json
_ROOT = os.path.dirname(os.path.dirname(os.path.abspath(__file__)))
_VH = os.path.join(_ROOT, 'work', 'target', 'debug', 'vh')

def _parse_tokens(flat):
    toks, i = [], 0
    while i + 1 < len(flat):
        toks.append((flat[i], flat[i + 1])); i += 2
    return toks

def render_floats(bits_set, tag='x'):
    """Rust std's own `{}` for f64 — the text oracle (DESIGN §3.2)"""
    if not bits_set:
        return {}
    wd = os.path.join(_ROOT, 'work')
    bits = sorted(bits_set)
    inp = os.path.join(wd, 'render_%s_%d.in' % (tag, os.getpid())); outp = inp[:-3] + '.out'
    with open(inp, 'w') as f:
        f.write('\n'.join(map(str, bits)) + '\n')
    subprocess.run([_VH, 'render', inp, outp], check=True, timeout=300)
    res = dict(zip(bits, open(outp).read().split('\n')))
    os.remove(inp); os.remove(outp)
    return res

def push_post_batch(inputs, obs, verdicts):
    """the model's output tokens rendered to bytes must equal the bytes the real state printed"""
    need = set()
    for v in verdicts:
        if v and v[0] in (0, 1):
            for k, x in _parse_tokens(v[1:]):
                if k == 2:
                    need.add(x)
    table = render_floats(need, 'push')
    for i, v in enumerate(verdicts):
        if not v or v[0] not in (0, 1):
            continue
        o = obs[i]
        if not (isinstance(o, list) and len(o) >= 2 and isinstance(o[1], list) and len(o[1]) == 10):
            continue
        strings = inputs[i][1]
        exp = bytearray()
        for k, x in _parse_tokens(v[1:]):
            if k == 1: exp += str(x).encode()
            elif k == 2: exp += table[x].encode()
            elif k == 3: exp += b'true' if x else b'false'
            elif k == 4: exp += bytes(strings[x])
            elif k == 5: exp += chr(x).encode()
        if list(exp) != o[1][8]:
            verdicts[i] = [2, 'output', bytes(exp).decode(errors='replace'), bytes(o[1][8]).decode(errors='replace')]

INSTR_NAMES = {0: 'Pop', 1: 'Dup', 2: 'Swap', 3: 'IsEmpty', 4: 'StackDepth', 5: 'Flush', 6: 'PushInt', 7: 'PushFloat', 8: 'PushBool', 9: 'PushExec',
               10: 'Print', 11: ['Inc', 'Dec', 'Square'], 12: ['Negate', 'Abs'], 13: ['Add', 'Subtract', 'Multiply', 'ProtectedDivide', 'Mod', 'Power'],
               14: ['Min', 'Max'], 15: 'Clamp', 16: ['IsZero', 'IsPositive', 'IsNegative', 'IsEven', 'IsOdd'],
               17: ['Equal', 'NotEqual', 'LessThan', 'LessThanEqual', 'GreaterThan', 'GreaterThanEqual'], 18: 'FromBoolean', 19: 'FromFloatApprox',
               20: ['FAdd', 'FSubtract', 'FMultiply', 'FProtectedDivide'], 21: ['FEqual', 'FNotEqual', 'FLessThan', 'FLessThanOrEqual', 'FGreaterThan', 'FGreaterThanOrEqual'],
               22: 'FromIntApprox', 23: 'Not', 24: ['And', 'Or', 'Xor', 'Implies'], 25: 'BoolFromInt', 26: 'Noop', 27: 'DupBlock', 28: 'When', 29: 'Unless', 30: 'IfElse',
               31: 'InputVar', 32: 'PrintSpace', 33: 'PrintNewline', 34: 'PrintPeriod', 35: 'PrintString', 100: 'Block'}
KNAMES = ['Int', 'Float', 'Bool', 'Exec']

def instr_name(t):
    if not isinstance(t, list) or not t:
        return '?'
    tag = t[0]
    n = INSTR_NAMES.get(tag, '?%s' % tag)
    if tag == 100:
        return '[' + ' '.join(instr_name(c) for c in t[1:]) + ']'
    if isinstance(n, list):
        return n[t[1]] if len(t) > 1 and 0 <= t[1] < len(n) else '?'
    if tag <= 5:
        return '%s%s' % (KNAMES[t[1]], n)
    if tag == 10:
        return '%sPrint%s' % (KNAMES[t[1]], 'Ln' if t[2] else '')
    if tag == 7:
        import struct
        return 'PushFloat(%r)' % struct.unpack('>d', struct.pack('>Q', t[1]))[0]
    if tag == 9:
        return 'PushExec(%s)' % instr_name(t[1])
    if len(t) > 1:
        return '%s(%s)' % (n, t[1])
    return n

def push_describe(inp, obs):
    st = inp[2]
    d = 'exec(cap %d)=[%s] int(cap %d)=%s float(cap %d)=%s bool(cap %d)=%s inputs=%s step_limit=%d' % (
        st[0], ' '.join(instr_name(p) for p in st[1]), st[2], st[3], st[4], st[5], st[6], st[7], st[8], st[9])
    if inp[0] == 1:
        return 'perform %s on state {%s}; stacks are top first' % (instr_name(inp[3]), d)
    if inp[0] == 3:
        return 'perform PrintChar<U+%04X> on state {%s}; stacks are top first' % (inp[3][0], d)
    if inp[0] == 2:
        return 'run_to_completion, look at the printed output (stdout_string on the state itself), run_to_completion again - of state {%s}; stacks are top first' % d
    return 'run_to_completion of state {%s}; stacks are top first' % d

def _walk_instrs(t, acc):
    if isinstance(t, list) and t and isinstance(t[0], int):
        if t[0] == 100:
            for c in t[1:]:
                _walk_instrs(c, acc)
        else:
            acc.append(t)
            if t[0] == 9:
                _walk_instrs(t[1], acc)

def push_bucket(inp, obs):
    out = ['mode=%s' % ('run' if inp[0] == 0 else 'two-phase run' if inp[0] == 2 else 'PrintChar' if inp[0] == 3 else 'perform')]
    cls = obs[0] if isinstance(obs, list) and obs else None
    out.append('outcome=%s' % {0: 'ok', 1: 'recoverable', 2: 'fatal', -1: 'panic', -2: 'abort', -3: 'hang'}.get(cls, cls))
    if inp[0] == 3:
        return out
    if inp[0] == 1:
        kind = obs[2] if isinstance(obs, list) and len(obs) > 2 else 0
        out.append('%s:%s' % (instr_name(inp[3]).split('(')[0] if inp[3][0] != 100 else 'Block',
                              {0: 'ok', 1: 'underflow', 2: 'overflow', 3: 'int-overflow'}.get(kind, kind)))
    else:
        out.append('program_len=%d' % (len(inp[2][1]) // 10 * 10))
    return out

def push_nontrivial(inp, obs):
    # single step: anything but a no-operand success is informative; run: the program executed at least 3 elements
    if not isinstance(obs, list) or not obs:
        return False
    if inp[0] in (1, 3):
        return True
    return len(inp[2][1]) >= 3 and inp[2][9] >= 3

def push_classify(inp, obs):
    if isinstance(obs, list) and obs and obs[0] in (-2, -3):
        return 'abort-or-hang'
    if inp[0] == 3:
        return 'perform:PrintChar'
    if inp[0] == 1:
        return 'perform:' + instr_name(inp[3]).split('(')[0]
    acc = []
    for p in inp[2][1]:
        _walk_instrs(p, acc)
    return 'run' if inp[0] == 0 else 'two-phase-run'

def push_cov_extra(inputs, obs, verdicts):
    per = {}
    for i, v in enumerate(verdicts):
        if v is None or inputs[i][0] != 1:
            continue
        n = instr_name(inputs[i][3]).split('(')[0]
        ok = isinstance(obs[i], list) and obs[i] and obs[i][0] == 0
        a = per.setdefault(n, [0, 0]); a[0] += 1; a[1] += 1 if ok else 0
    executed = sum(a[0] for a in per.values()); succ = sum(a[1] for a in per.values())
    return dict(single_step_success_rate=round(succ / executed, 3) if executed else None,
                instructions_never_successful=sorted(n for n, a in per.items() if a[1] == 0))

_PUSH_COMMON = dict(corr='CorrPush', show='(show_cases show [])', post_batch=push_post_batch, describe=push_describe,
                    bucket=push_bucket, nontrivial=push_nontrivial, classify=push_classify, cov_extra=push_cov_extra)

PROPS['C01'] = dict(_PUSH_COMMON,
    judge='(judge_cases judge_c01)',
    coq_targets=['theories/Props/C01.vo', 'theories/Corr/CorrPush.vo'],
    rule='(a) every non-literal instruction applied (Instruction::perform) to states whose operand positions run over boundary value lists (23 i64 values incl. MIN/MAX/2^32/sqrt boundaries; 22 f64 bit patterns incl. NaNs, infinities, signed zeros, subnormal, 2^53+1, i64 range edges): sampled pairs in the quick tier, all pairs in the thorough tier; (b) literals/blocks/input variables as single steps; (c) random nested programs (5-45 elements, nested blocks and exec literals to depth 5, bound input variables, random initial stacks, capacities from exactly-full upwards, step limits 0-150/400) through State::run_to_completion; (d) two-phase runs: a printing program under every step limit 0..14, and every fifth random program, is run until its limit, its printed output is LOOKED AT on the state itself (stdout_string), and it is run on from there - compared with running the model twice (looking at the output must not disturb it); (e) PrintChar at characters beyond ASCII (U+00E9, U+03BB, U+1F980, U+0080, U+00FF, ..): the character in UTF-8 is appended to the output. All four stacks, capacities, printed bytes and the outcome class/error kind are compared with Spec/Run evaluated in coqc. Non-trivial: every single-step case; a run whose program has >= 3 elements and step limit >= 3. Distinct = distinct inputs.',
    trusted=['Rust std f64 Display as the float-to-text oracle (second harness pass)', 'primitive floats of the Coq kernel (hardware binary64) for float instructions'],
    assumptions=['when an operand is missing AND the destination is full either report is accepted (run_alts)', 'PrintString contents limited to the case string table'],
    level_text='Theorems (Props/C01.v) over the executable semantics table Spec.v and the interpreter Run.v: per-clause theorems for ALL operand values (top-op-second arithmetic, /0 -> 1, %0 -> 0, overflow skips, saturating negate/abs, mathematical predicates that consume all operands incl. parity of negatives, conditional action tables, block unfolding order, checked_pow = mathematical power with range test). The instruction set is also modelled as the Rust composes it (Impl.v: pops, pushes, pre-checks, discards) and proved equal to the table on well-formed states, as is the interpreter loop over it (C01_refine, C01_run). The real PushState is tied to the table by differential execution of every instruction on boundary values and of random nested programs, judged inside coqc.',
    level_note='Trusted: Coq kernel incl. primitive floats; harness+driver; Rust std float Display. Dual-fault report order left open (both accepted).',
    technique='Coq theorems over an executable Push semantics + differential correspondence (every instruction x boundary values, random programs) evaluated in coqc',
    design_ref='DESIGN.md §4 C01, Appendix A',
)
PROPS['C02'] = dict(_PUSH_COMMON,
    judge='(judge_cases judge_c02)',
    coq_targets=['theories/Props/C02.vo', 'theories/Corr/CorrPush.vo'],
    rule='fault-point lattice: every instruction (plus literals, input variables, blocks) x sizes 0..4 of each stack x capacity slack 0..2 (sampled in quick, full grid of sizes x slack{0,1} in thorough), boundary values at the fault points, and sparse-operand programs run to completion. For an error the harness compares the state carried by the error with a clone of the input (PushState ==) and field-wise. Non-trivial: all single-step cases; distinct inputs.',
    trusted=['PushState::eq (derived) for the whole-state comparison, cross-checked field-wise'],
    assumptions=['wf (every stack within its capacity) — an invariant of reachable states proved in C03/C19'],
    level_text='Theorems (Props/C02.v): for every instruction and every well-formed state, an error outcome carries exactly the input state (record equality: all stacks, capacities, output, inputs, limits), recoverable errors are exactly operand/arithmetic faults and fatal ones overflows, and the interpreter after a recoverable error equals the interpreter on a no-op. The same for the code as composed (C02_err_state_impl, where well-formedness is needed and is an invariant). Tied to the code on the fault-point lattice through Instruction::perform.',
    level_note='Trusted: as C01. Hypothesis wf is discharged by C03_wf_invariant.',
    technique='Coq proof by case analysis over the instruction table (error => state unchanged) + fault-point lattice correspondence',
    design_ref='DESIGN.md §4 C02',
)
PROPS['C03'] = dict(_PUSH_COMMON,
    judge='(judge_cases judge_c03)',
    coq_targets=['theories/Props/C03.vo', 'theories/Corr/CorrPush.vo'],
    rule='self-replicating and exponentially growing programs (DupBlock / exec Dup / exec literals) x step limits 0..39 (119 thorough) x capacities 0,1,2,3,5,8,30; loop-heavy random programs, some with every limit 0..11; nesting depth 10..1000; an unbound input variable (expected panic). Each run under a process watchdog. Non-trivial: program >= 3 elements and limit >= 3.',
    trusted=['process-level watchdog of the driver for hangs/aborts'],
    assumptions=['native stack exhaustion at nesting depth of several thousand is outside the model (known finding D7)'],
    level_text='Theorems (Props/C03.v): evaluation is total by construction (structural recursion on a binary step budget proved equal to the while loop), takes at most max_steps steps, keeps every stack within its capacity at every step (wf is an inductive invariant), a fatal error is always an overflow of a destination that lacks room, underflow/arithmetic faults are never fatal, and no panic occurs when every mentioned input is bound. The same guarantees for the interpreter over the code as composed (C03_composed_code). Tied to the code by limit sweeps over looping programs.',
    level_note='Trusted: as C01; native stack exhaustion not modelled (D7 known finding).',
    technique='Coq invariant proofs over the interpreter loop (step bound, capacity invariant, fatal=>overflow) + limit-sweep correspondence under a watchdog',
    design_ref='DESIGN.md §4 C03',
)

# ---------------------------------------------------------------------------
# C05: Plushy -> program
def deep_probe(prop, tier, seed, known):
    """D7: native stack exhaustion on deeply nested genomes, probed in a child process on a plain
    8 MiB main-thread stack.  Depths up to 1000 must work; deeper aborts are the recorded finding."""
    import signal
    out = []
    ladder = [1000, 3000, 10000, 30000, 100000, 300000] + ([1000000] if tier == 'thorough' else [])
    first_abort = None
    for n in ladder:
        try:
            p = subprocess.run([_VH, 'deep', str(n)], stdout=subprocess.PIPE, stderr=subprocess.PIPE, timeout=600)
            rc = p.returncode
        except subprocess.TimeoutExpired:
            rc = -999
        if rc != 0:
            first_abort = (n, rc)
            break
    prop['_deep'] = dict(ladder=ladder, first_abort=first_abort)
    if first_abort is None:
        return out
    n, rc = first_abort
    kf = [k for k in known if k['key'] == 'native-stack-deep-nesting']
    desc = 'a genome of %d consecutive block-opening genes (nesting depth %d) kills the process (exit status %s) in Vec::<PushProgram>::from(Plushy)' % (n, n, rc)
    if n > 1000 and kf:
        out.append(('KNOWN-FINDING: property=%s %s [first aborting depth on this run: %d]' % (prop['id'], kf[0]['text'], n), False))
    else:
        from driver_main import write_replay
        path = write_replay(prop['id'], dict(property=prop['id'], kind='failing-input', key='native-stack-deep-nesting' if n > 1000 else 'abort-at-moderate-depth',
                                             input=[3, 'L(vec![When; %d])' % n], observed=[-2], description=desc,
                                             how='run `work/target/debug/vh deep %d` (child process, default main-thread stack)' % n))
        out.append(('VIOLATION property=%s replay=%s' % (prop['id'], path), True))
    return out

def c05_bucket(inp, obs):
    kinds = {0: 'exhaustive', 1: 'random', 2: 'num_opens-probe', 3: 'adversarial'}
    n = len(inp[1])
    return ['stream=%s' % kinds.get(inp[0], '?'), 'genes=%s' % (n if n < 10 else '%d+' % (n // 10 * 10))]

def c05_nontrivial(inp, obs):
    # at least one block-opening instruction and one close marker
    gs = inp[1]
    return any(g == -1 for g in gs) and any(isinstance(g, list) and g[0] in (27, 28, 29, 30) for g in gs)

def c05_describe(inp, obs):
    return 'genome: ' + ' '.join('}' if g == -1 else instr_name(g) for g in inp[1][:80]) + (' ...' if len(inp[1]) > 80 else '')

PROPS['C05'] = dict(
    corr='CorrC05', judge='(judge_cases judge)', show='(show_cases show [])',
    coq_targets=['theories/Props/C05.vo', 'theories/Corr/CorrC05.vo'],
    bucket=c05_bucket, nontrivial=c05_nontrivial, describe=c05_describe, classify=lambda i, o: 'parse-mismatch',
    extra=deep_probe,
    rule='num_opens of every instruction variant the code has (strum iteration) observed through the parse; ALL gene sequences of length <= 6 (quick) / 8 (thorough) over {close, position-tagged 0-opener, 1-opener (When), 2-opener (IfElse)}; random genomes up to 400 genes over the whole instruction set; adversarial shapes (all closes, all openers to depth 1000, alternating). The resulting Vec<PushProgram> is compared structurally with parse_top evaluated in coqc. Non-trivial: the genome has at least one opener and one close. The native-stack ladder (1000 .. 300000 nested openers) runs in a child process.',
    trusted=['structural observation of PushProgram through pattern matching'],
    assumptions=['nesting depth <= 1000 on the implementation side of the correspondence; deeper nesting: known finding native-stack-deep-nesting'],
    level_text='Theorems (Props/C05.v) about the fuelled recursive-descent model of parse_from_plushy: totality (fuel S(length g) always suffices, so no failure branch exists), flatten(parse g) = instructions of g in order, the shape invariant (an instruction opening k blocks is followed by exactly k blocks, blocks nowhere else), a top-level close is ignored, a trailing close changes nothing (open blocks are closed at the end). An independent printer is inverted by the parser on every well-shaped program (C05_roundtrip: a close ends the innermost open block). Tied to the code exhaustively on small genomes and on random/adversarial ones.',
    level_note='Trusted: Coq kernel; harness+driver. Native stack exhaustion on extreme nesting is outside the model (known finding).',
    technique='Coq proofs by induction on fuel over a recursive-descent parser model + exhaustive small-scope and random differential correspondence',
    design_ref='DESIGN.md §4 C05',
)
PROPS['C03']['extra'] = deep_probe

# ---------------------------------------------------------------------------
# C15
C15_KINDS = {0: 'Score', 1: 'Error', 2: 'TestResult', 3: 'TestResults<Score>', 4: 'TestResults<Error>', 5: 'EcIndividual<Score>', 6: 'EcIndividual<Error>',
             7: 'TestResults::from', 8: 'collect::<TestResults>', 9: 'GenomeScorer/IndividualGenerator',
             10: 'min/max/clamp [0 Score / 1 Error, x, y, z] -> [x.min(y), x.max(y), min(x,y), max(x,y), x.clamp(lo,hi) of (y,z), max of all, min of all]',
             11: 'clone_from [0 Score / 1 Error, target results, source results] -> [total, results.. , -7, the same through Vec::clone_from]',
             12: 'EcIndividual over a single TestResult [[genome, [0 score/1 error, value]], ..]',
             13: 'TestResults over f64 results [0 Score / 1 Error, [bit patterns]] -> [total bits, result bits..]',
             14: 'Score / Error at another integer type [type 0 i8 / 1 u8 / 2 i32 / 3 u64 / 4 i128 / 5 usize, 0 Score / 1 Error, x, y]',
             15: 'totals at another integer type [type, results] -> [Score total, Error total, results..]',
             16: 'comparison of f64 result collections [0 scores / 1 errors / 2 individuals, bit patterns, bit patterns]',
             17: 'is there a total order (Ord) on TestResult? -> [TestResult is Ord, cmp of a score with an error (2 = none), control: i64 is Ord, cmp 1 2]',
             18: 'TestResults collected from an iterator whose size hint is loose or absent [iterator shape 0 filter / 1 from_fn / 2 take_while / 3 chain / 4 filter_map over a longer range / 5 flat_map, results] -> [total, results..]'}
def c15_describe(inp, obs):
    return '%s on %s  -- observed [lt,le,gt,ge,eq,ne,cmp,partial_cmp] (cmp: -1 less, 0 equal, 1 greater, 2 n/a) or [total, results...]' % (C15_KINDS.get(inp[0]), inp[1:])
PROPS['C15'] = dict(
    corr='CorrC15', judge='(judge_cases judge)', show='(show_cases show [])',
    coq_targets=['theories/Props/C15.vo', 'theories/Corr/CorrC15.vo'],
    describe=c15_describe, bucket=lambda i, o: ['type=%s' % C15_KINDS.get(i[0])], classify=lambda i, o: 'order:%s' % C15_KINDS.get(i[0]),
    nontrivial=lambda i, o: True,
    rule='all ordered pairs over {MIN, MIN+1, -2, -1, 0, 1, 2, MAX-1, MAX} for Score<i64>, Error<i64>, TestResult<i64,i64> (all four tag combinations) and singleton TestResults; random result vectors incl. empty, reversed, equal-total-different-cases; EcIndividual pairs with equal and different genomes; TestResults::from / collect (results and total fields read back); GenomeScorer and IndividualGenerator with a probe genome maker and an FnScorer; min / max (method and free function) / clamp / Iterator::max / Iterator::min over boundary triples; clone_from (directly and through Vec::clone_from); individuals scored by a single score-or-error TestResult (only partially ordered); the operators and totals at i8 / u8 / i32 / u64 / i128 / usize result types over the boundary values of each type; f64 results (vectors of 0..70 values of very different magnitudes, total compared bit for bit with the left-to-right sum computed with Coq primitive floats; all comparison operators on collections and individuals whose totals may be NaN - incomparable); a method-resolution probe that TestResult offers no total order (a score is never comparable to an error). All of <, <=, >, >=, ==, !=, cmp, partial_cmp are observed and compared with Order.v in coqc. Every case is non-trivial; distinct inputs counted.',
    trusted=[], assumptions=['partial sums stay inside i64 (Iterator::sum overflow is Rust arithmetic: panics in debug, wraps in release) - outside the property domain, see DESIGN C15'],
    level_text='Theorems (Props/C15.v): Score is a lawful ascending total order, Error the reversed one (reflexive, antisymmetric, transitive, total, cmp b a = CompOpp (cmp a b)), the four comparison operators are consistent with the three-way comparison, a score is never comparable to an error, TestResults and individuals compare exactly as their totals (the genome is never consulted), the total is the sum of the cases kept in order (for floating-point results: the left-to-right sum, which no regrouping of the cases reproduces), and scoring a genome yields that genome with the scorer result. Tied to the code by observing all eight operators on boundary and random values.',
    level_note='Trusted: Coq kernel; harness+driver. `==` on aggregates is structural (derived), ordering is by total - as the code and the property say.',
    technique='Coq order-law proofs over Z + exhaustive boundary-pair and random differential correspondence of all comparison operators',
    design_ref='DESIGN.md §6 C15',
)

# ---------------------------------------------------------------------------
# C14
def c14_case_of(inp, obs):
    # the harness reports the description of the shape it ran and the input value it fed;
    # the Coq side interprets that description
    if isinstance(obs, list) and len(obs) == 5:
        return [[obs[0], obs[1], inp[2], inp[3]], [obs[2], obs[3], obs[4]]]
    return [[[99], [0, 0], inp[2], inp[3]], [[0, [0, 0]], [], 0]]

def c14_shape_str(t):
    n = {0: 'P', 10: 'Q', 11: 'D', 12: 'V', 13: 'R', 14: 'Select'}
    if t[0] in n: return '%s%d' % (n[t[0]], t[1])
    if t[0] == 1: return '(%s then %s)' % (c14_shape_str(t[1]), c14_shape_str(t[2]))
    if t[0] == 2: return '(%s and %s)' % (c14_shape_str(t[1]), c14_shape_str(t[2]))
    if t[0] == 3: return 'map_pair(%s)' % c14_shape_str(t[1])
    if t[0] == 5: return 'map_vec(%s)' % c14_shape_str(t[1])
    if t[0] == 6: return 'repeat%d(%s)' % (t[1], c14_shape_str(t[2]))
    if t[0] == 7: return 'Identity'
    if t[0] == 8: return 'Constant(%d)' % t[1]
    if t[0] == 9: return 'wrap(%s)' % c14_shape_str(t[1])
    if t[0] == 15: return 'GenomeExtractor'
    return '?'

def c14_describe(inp, obs):
    sh = c14_shape_str(obs[0]) if isinstance(obs, list) and len(obs) == 5 else 'shape#%d' % inp[0]
    return '%s applied to %d, probe call #%d fails (-1: none), words %s; observed [shape, input, result, log of (probe, input seen, word), words consumed]' % (sh, inp[1], inp[2], inp[3][:6])

def c14_nontrivial(inp, obs):
    # at least two probe calls happened
    return isinstance(obs, list) and len(obs) == 5 and len(obs[3]) >= 2

PROPS['C14'] = dict(
    corr='CorrC14', judge='(judge_cases judge)', show='(show_cases show [])', case_of=c14_case_of,
    coq_targets=['theories/Props/C14.vo', 'theories/Corr/CorrC14.vo'],
    describe=c14_describe, nontrivial=c14_nontrivial, no_shrink=True,
    bucket=lambda i, o: ['shape=%d' % i[0], 'outcome=%s' % ('ok' if isinstance(o, list) and len(o) == 5 and o[2][0] == 0 else 'err')],
    classify=lambda i, o: 'shape-%d' % i[0],
    rule='40 composition shapes covering then / and / map over tuple, array and vector / then_map / Composable::map / apply_twice / apply_n_times (0, 2, 3) / Identity / Constant / Mutate, Recombine, Select by value, by reference and around boxed / borrowed type-erased operators / GenomeExtractor, nested up to depth 4, built from probe operators that draw one word from the supplied generator (odd-numbered probes by a 32-bit draw whose provenance from the supplied generator is checked, the others by a 64-bit draw), log (probe id, input seen, word) and fail on command; failure injected at every probe call 0..11 and none; 4 (quick) / 25 (thorough) word streams each. Result, error path (read structurally off the Debug form; the messages along the source chain must not name another part or element than the one that failed), call log and number of words consumed are compared with the interpretation of the same shape through Compose.v in coqc. Non-trivial: at least two probe calls happened.',
    trusted=['error paths are read from the derived Debug rendering of ThenError/AndError/MapError (their fields are private)'],
    assumptions=['composition shapes are a fixed hand-written family (Rust types are static)'],
    level_text='Theorems (Props/C14.v) for ARBITRARY component operators and any threaded state: then feeds the first result to the second; and applies both to the same input in order and pairs; map visits elements in index order and its error names the failing index with everything before it done and nothing after it run; repeat = N applications to copies; the first failing part fixes the final state (later parts neither run nor draw); identity/constant/wrappers add nothing; then is associative up to error re-nesting. Tied to the code by probe operators over an explicit word stream on 40 shapes x every failure position.',
    level_note='Trusted: Coq kernel; harness+driver; Debug rendering of the error enums.',
    technique='Coq equational theorems over higher-order combinators (arbitrary components) + probe-operator correspondence at word level',
    design_ref='DESIGN.md §6 C14',
)

# ---------------------------------------------------------------------------
# C17
C17_TRAITS = ['DynSelector', 'DynMutator', 'DynRecombinator', 'DynOperator', 'DynChildMaker', 'DynWeighted as a consumer of erased selectors']
C17_IMPLS = [['Best', 'Worst', 'Random', 'Tournament(2)', 'Tournament(5)', 'WeightedPair(Best:1, Tournament(5):1)', 'draw-then-fail selector', 'forty selections at the same time through one shared Arc<dyn DynSelector + Send + Sync>'], ['WithRate(0.3)', 'WithOneOverLength', 'failing mutator'],
             ['UniformXo', 'TwoPointXo', 'failing recombinator'], ['AddWord', 'AddWord.then(AddWord)', 'failing operator', 'Mutate(WithRate(0.5))', 'operator failing with an error that has a source', '400 failing applications, then one more'],
             ['select+word', 'two parents', 'failing child maker']]
C17_PTR = ['&', '&mut', 'RefMut', 'Box', 'Arc', 'Rc', 'Ref']
C17_AUTO = ['', '+Send', '+Sync', '+Send+Sync']
def c17_describe(inp, obs):
    if inp[0] == 5:
        return ('DynWeighted (which keeps its options as Box<dyn DynSelector>) built from the forced list %s ([0, k]: a leaf that selects index k or, k < 0, fails with code -k; '
                '[1, [[member, weight]..]]: a list, a nested list handed over as the concrete DynWeighted value), one selection with seed %d; observed [55, [0, index] | [1, shape]] with shape '
                '[0] EmptyPopulation / [1] ZeroWeightSum / [2, shape] Other(inner, identified by downcasting) / [3, code] the leaf error' % (inp[4], inp[3]))
    return '%s behind %s<dyn %s%s>, seed %d, data %s; observed [concrete outcome, next word, erased outcome, next word]' % (
        C17_IMPLS[inp[0]][inp[1]], C17_PTR[(inp[2] % 28) // 4], C17_TRAITS[inp[0]], C17_AUTO[inp[2] % 4] + (' (method-call syntax)' if inp[2] >= 28 else ''), inp[3], inp[4])
PROPS['C17'] = dict(
    corr='CorrC17', judge='(judge_cases judge)',
    coq_targets=['theories/Props/C17.vo', 'theories/Corr/CorrC17.vo'],
    describe=c17_describe, no_shrink=True,
    nontrivial=lambda i, o: True,
    bucket=lambda i, o: ['trait=%s' % C17_TRAITS[i[0]], 'pointer=%s' % C17_PTR[(i[2] % 28) // 4], 'auto=%s' % (C17_AUTO[i[2] % 4] or 'none'), 'syntax=%s' % ('method call' if i[2] >= 28 else 'explicit impl'),
                         'outcome=%s' % ('ok' if isinstance(o, list) and ((len(o) == 4 and o[0][0] == 0) or (len(o) == 2 and o[0] == 55 and o[1][0] == 0)) else 'err')],
    classify=lambda i, o: '%s/%s' % (C17_TRAITS[i[0]], C17_PTR[(i[2] % 28) // 4]),
    rule='all five erasable traits x all 28 generated pointer flavours (7 pointer kinds x {none, Send, Sync, Send+Sync}), each called both through the generated impl named explicitly and with method-call syntax (where an inherent method on the trait object would win), x 3-5 wrapped implementations each (library selectors, mutators, recombinators, composed operators, child makers, and one failing implementation per trait) x 2 (quick) / 12 (thorough) seeded inputs incl. empty populations and length-mismatched parents (error paths). The concrete call and the erased call start from clones of one generator; the selected index (pointer identity) / genome / value, the error (its message, its debug form and the messages of its whole source chain - the erased error must still be the error of the wrapped implementation, not a rendering of it) and the next word of each generator are compared; the 32-bit draws of the generator are neither half of its 64-bit draws, so an adapter deriving one from the other shows. A flavour that stops compiling breaks the harness build (reported as broken correspondence). A CONSUMER of erased selectors, DynWeighted, on 11 fixed and 60 / 400 random forced lists (at most one option of positive weight, nested up to five deep): the structure of the error it reports (variant, and the payload of Other identified by downcasting) must be Other(the error of the option used), once per level of nesting - the model forced of Ec/Erased.v. Every case is non-trivial.',
    trusted=['error identity is observed as message + debug form + source-chain messages of the boxed error'],
    assumptions=['thin model by design: the property says the layer adds nothing'],
    level_text='Theorems (Props/C17.v): erase into f returns the same value, the image of the same error, and leaves the threaded state (random stream) exactly as f does, for every f; pointer flavours are the identity on behaviour; erasing twice composes the conversions; a consumer of erased selectors (the dynamic weighted list, on forced lists) reports the error of the option it used as Other(that error) - wrapped once per level of nesting, never un-nested, never as its own - and never uses an option of weight zero. Tied to the code by instantiating every generated flavour of every erasable trait around concrete implementations and comparing with the concrete call from a cloned generator.',
    level_note='Trusted: Coq kernel; harness+driver; generated instantiation code (harness/gen/gen_c17.py).',
    technique='Coq equational theorems for erase = map_err into + exhaustive flavour instantiation (5 traits x 28 flavours) differential correspondence',
    design_ref='DESIGN.md §6 C17',
)

# ---------------------------------------------------------------------------
# C10
C10_KINDS = ['TwoPointXo [Vec;2]', 'TwoPointXo (Vec,Vec)', 'TwoPointXo [Bitstring;2]', 'UniformXo [Vec;2]', 'UniformXo (Vec,Vec)', 'UniformXo [Bitstring;2]',
             'Bitstring::crossover_gene', 'Bitstring::crossover_segment', 'TwoPointXo (Bitstring,Bitstring)', 'UniformXo (Bitstring,Bitstring)',
             'TwoPointXo on long complementary parents', 'UniformXo on long complementary parents',
             'TwoPointXo [Vec<u8>;2]', 'UniformXo [Vec<u8>;2]', 'TwoPointXo (Vec<String>,Vec<String>)', 'UniformXo (Vec<String>,Vec<String>)']
C10_FORMS = ['[Vec;2]', '(Vec,Vec)', '[Bitstring;2]', '(Bitstring,Bitstring)']
def c10_describe(inp, obs):
    if inp[0] == 10:
        return 'TwoPointXo %s on parents 0^%d and 1^%d, %d seeded draws (seed %d): every child must take ONE contiguous segment from the second parent; observed [0, [[child, count]..]]' % (C10_FORMS[inp[3]], inp[4], inp[4], inp[6], inp[5])
    if inp[0] == 11:
        return 'UniformXo %s on parents 0^%d and 1^%d seen through positions %s, %d seeded draws (seed %d): every combination must occur; observed [0, [[genes at those positions, count]..]]' % (C10_FORMS[inp[3]], inp[4], inp[4], inp[5], inp[7], inp[6])
    if inp[0] < 6 or inp[0] in (8, 9, 12, 13, 14, 15):
        return '%s on parents %s and %s, %d seeded draws (seed %d)%s; observed [0, [[child, count]..]] or [1]=error' % (
            C10_KINDS[inp[0]], inp[1], inp[2], inp[4], inp[3], ', every possible child must occur' if inp[5] else '')
    return '%s on %s / %s with %s; observed [0|1(error), first genome after, second genome after]' % (C10_KINDS[inp[0]], inp[1], inp[2], inp[3:])
def c10_classify(inp, obs):
    if isinstance(obs, list) and obs and obs[0] == -1:
        return 'panic:%s' % C10_KINDS[inp[0]].split(' ')[0]
    return C10_KINDS[inp[0]]
PROPS['C10'] = dict(
    corr='CorrC10', judge='(judge_cases judge)', show='(show_cases show [])',
    coq_targets=['theories/Props/C10.vo', 'theories/Corr/CorrC10.vo'],
    describe=c10_describe, classify=c10_classify,
    nontrivial=lambda i, o: len(i[1]) >= 1 or len(i[2]) >= 1 or i[0] >= 10,
    bucket=lambda i, o: ['op=%s' % C10_KINDS[i[0]], 'len=%d/%d' % ((len(i[1]), len(i[2])) if i[0] < 10 else (i[4], i[4])), 'outcome=%s' % ({0: 'ok', 1: 'error', -1: 'panic'}.get(o[0] if isinstance(o, list) and o else None, '?'))],
    rule='TwoPointXo and UniformXo in all four argument forms ([Vec;2], (Vec,Vec), [Bitstring;2], (Bitstring,Bitstring)), plus byte genes ([Vec<u8>;2]) and string genes ((Vec<String>,Vec<String>)) through the generic vector impls, on position-tagged (vectors) / complementary (bitstrings) parents of length 0..6, 3000 (quick) / 50000 (thorough) seeded draws each: every child must lie in the model support (exact, per draw) and - where the rarest child has probability >= 1/64 - every child of the support must have been drawn (all (n+1)(n+2)/2 segments incl. those touching either end; all 2^n masks for n <= 5); parents of different lengths both ways (error expected); complementary parents of 65..200 genes in all four forms - every two-point child must take one contiguous segment from the second parent, uniform children seen through positions a machine word apart / neighbouring / far apart must show every combination; crossover_gene / crossover_segment exhaustively over lengths 0..4 (5 thorough) of both genomes x indices 0..7 x all ranges incl. reversed and out-of-range, plus indices and range ends at the top of usize, result and both genomes afterwards. Every returned error is rendered (message, debug form, source chain). Everything is repeated in the release build. Non-trivial: non-empty parents.',
    trusted=['rand::Rng::random_range / random::<bool> as oracles: only their support is used here'],
    assumptions=['the cut-point DISTRIBUTION is not pinned by the property (only which segments can occur)', 'completeness of the support is judged from a finite sample: miss probability < 1e-20 per case'],
    level_text='Theorems (Props/C10.v) about the support model: a two-point child has the parents length, is position-wise parental and takes ONE contiguous segment from the second parent; every segment 0 <= lo <= hi <= n is possible (both ends); empty parents give the empty child; uniform children are position-wise parental and every mask is possible; unequal lengths are errors; the exchange primitives swap exactly the addressed genes or report an error (reversed / out-of-range), never panic. Tied to the code by exact per-draw support membership, observed completeness of the support, and exhaustive exchange arguments.',
    level_note='Trusted: Coq kernel; harness+driver; rand primitives as oracles.',
    technique='Coq support-level theorems (splice / mask algebra) + exact support-membership and support-completeness correspondence, exhaustive exchange-primitive arguments',
    design_ref='DESIGN.md §7 C10',
)

# ---------------------------------------------------------------------------
# statistical comparison of seeded empirical frequencies with exact model laws (DESIGN §3.4)
import math
from fractions import Fraction
STAT_DELTA = 1e-12
STAT = {'max_dev': 0.0, 'cells': 0, 'resampled': 0, 'draws': 0}

def bernstein_threshold(p, n):
    L = math.log(2.0 / STAT_DELTA)
    return math.sqrt(2.0 * p * (1.0 - p) * L / n) + 2.0 * L / (3.0 * n)

def stat_decide(law, hist):
    """law: {code: Fraction}; hist: {code: count}.  Returns (impossible, flagged cells, max deviation / threshold)"""
    n = sum(hist.values())
    impossible = [c for c, k in hist.items() if k > 0 and law.get(c, 0) == 0]
    flagged, worst = [], 0.0
    for c, p in law.items():
        if p <= 0:
            continue
        pf = float(p)
        f = hist.get(c, 0) / n if n else 0.0
        thr = bernstein_threshold(pf, n) if n else 1.0
        dev = abs(f - pf) / thr
        worst = max(worst, dev)
        if dev > 1.0:
            flagged.append((c, f, pf, thr))
    return impossible, flagged, worst

def make_stat_post(pid, obs_code=None, hist_of=None):
    """builds a post_batch hook: verdict [4, code, num, den, ...] cases are decided statistically,
    a flagged cell is re-sampled once with 10x the draws and a fresh seed before it counts"""
    def post(inputs, obs, verdicts):
        from driver_main import run_inputs
        retry = []
        for i, v in enumerate(verdicts):
            if not v or v[0] != 4:
                continue
            law = {}
            m = v[1]
            cmap = v[2:2 + m]
            aux = v[2 + m:]
            code_of = (lambda inp, oc, cmap=cmap: (cmap[oc] if 0 <= oc < len(cmap) else (oc if oc < 0 else -100))) if m else obs_code
            for j in range(0, len(aux) - 2, 3):
                law[aux[j]] = law.get(aux[j], 0) + Fraction(aux[j + 1], aux[j + 2])
            o = obs[i]
            pairs = hist_of(inputs[i], o) if hist_of else (o if isinstance(o, list) and all(isinstance(e, list) and len(e) == 2 for e in o) else None)
            if not pairs:
                verdicts[i] = [2, 'no histogram (panic/abort?)', o]
                continue
            hist = {}
            for oc, k in pairs:
                c = code_of(inputs[i], oc)
                hist[c] = hist.get(c, 0) + k
            imp, flagged, worst = stat_decide(law, hist)
            STAT['cells'] += len(law); STAT['draws'] += sum(hist.values()); STAT['max_dev'] = max(STAT['max_dev'], worst)
            if imp:
                verdicts[i] = [2, 'outcome with model probability 0 observed', imp[:5]]
            elif flagged:
                retry.append((i, law, [c for c, *_ in flagged], code_of))
            else:
                verdicts[i] = [0]
        if retry:
            STAT['resampled'] += len(retry)
            new_inputs = []
            for i, law, cells, code_of in retry:
                inp = list(inputs[i]); inp[0] = (inp[0] * 6364136223846793005 + 1442695040888963407) % (1 << 62); inp[1] = inp[1] * 10
                new_inputs.append(inp)
            o2, valid = run_inputs(pid, new_inputs, tag='resample')
            for (i, law, cells, code_of), inp2, ob in zip(retry, new_inputs, o2):
                hist = {}
                try:
                    pairs2 = (hist_of(inp2, ob) if hist_of else ob) if isinstance(ob, list) else None
                    for oc, k in (pairs2 or []):
                        c = code_of(inp2, oc)
                        hist[c] = hist.get(c, 0) + k
                except (TypeError, ValueError, IndexError):
                    hist = {}
                imp, flagged, worst = stat_decide(law, hist)
                still = [f for f in flagged if f[0] in cells]
                if imp or still or not hist:
                    c, f, p, thr = (still or flagged or [(None, 0, 0, 0)])[0]
                    verdicts[i] = [2, 'frequency differs from the model law (confirmed on a 10x re-sample)', dict(cell=c, observed=f, model=p, threshold=thr)]
                else:
                    verdicts[i] = [0]
    return post

def stat_cov_extra(inputs, obs, verdicts):
    return dict(statistical_cells=STAT['cells'], statistical_draws=STAT['draws'], cases_resampled=STAT['resampled'],
                max_deviation_over_threshold=round(STAT['max_dev'], 3), delta_per_cell=STAT_DELTA)

# ---------------------------------------------------------------------------
# C06 / C07 / C08 / C13: selection
def sel_obs_code(inp, oc):
    if oc < 0:
        return oc
    pop = inp[2][1]
    if oc >= len(pop):
        return -100
    for j, r in enumerate(pop):
        if r == pop[oc]:
            return j
    return oc

def sel_hist_of(inp, o):
    """the histogram part of a selection observation ([-50, histogram, probe calls] when members are probed)"""
    if isinstance(o, list) and len(o) == 3 and o[0] == -50:
        o = o[1]
    return o if isinstance(o, list) and all(isinstance(e, list) and len(e) == 2 for e in o) else None

def sel_str(t):
    k = t[0]
    if k == 0: return 'Best'
    if k == 1: return 'Worst'
    if k == 2: return 'Random'
    if k == 3: return 'Tournament(%d)' % t[1]
    if k == 4: return 'Lexicase(%d)' % t[1]
    if k == 9: return 'probe(%s)' % sel_str(t[1])
    if k == 10: return 'chain built by %s with weights %s over probed best/worst/random' % (['one expression of with_item_and_weight', 'with_item_and_weight, unwrapped after every step', 'one expression of with_weighted_item', 'with_weighted_item, unwrapped after every step'][t[1]], t[2])
    if k == 5: return 'Weighted(%s, %d)' % (sel_str(t[2]), t[1])
    if k == 6: return 'Pair(%s, %s)' % (sel_str(t[1]), sel_str(t[2]))
    if k == 7: return 'end'
    if k == 8: return 'Dyn[%s:%d | %s]' % (sel_str(t[1]), t[2], sel_str(t[3]))
    return '?'

def sel_describe(inp, obs):
    p = inp[2]
    return '%s on population %s (%s per case), %d draws seed %d; observed [[index or error code, count]..]' % (
        sel_str(p[2]), p[1], ('scores' if p[0] % 2 else 'errors') + (', neighbouring individuals share a genome' if p[0] >= 2 else ''), inp[1], inp[0])

def sel_kind(t):
    return {0: 'best', 1: 'worst', 2: 'random', 3: 'tournament', 4: 'lexicase', 5: 'weighted', 6: 'weighted-pair', 8: 'dyn-weighted', 9: 'probe', 10: 'built-chain'}.get(t[0], '?')

def sel_bucket(inp, obs):
    p = inp[2]
    out = ['selector=%s' % sel_kind(p[2]), 'pop_size=%d' % len(p[1])]
    if isinstance(obs, list) and len(obs) == 3 and obs[0] == -50:
        out.append('members probed')
        obs = obs[1]
    if isinstance(obs, list):
        for o in obs:
            if isinstance(o, list) and o and isinstance(o[0], int) and o[0] < 0:
                out.append('error=%d' % o[0])
    return out

_SEL_COMMON = dict(corr='CorrSelect', judge='(judge_cases judge)', describe=sel_describe, bucket=sel_bucket, no_shrink=True,
                   classify=lambda i, o: 'select:%s' % sel_kind(i[2][2]), cov_extra=stat_cov_extra,
                   trusted=['rand 0.9 primitives (choose, choose_multiple, shuffle, Bernoulli::from_ratio, choose_weighted) as oracles with their documented laws',
                            'statistical tie: Bernstein threshold with delta = 1e-12 per cell, one 10x re-sample before a cell counts; support membership is exact'])
PROPS['C06'] = dict(_SEL_COMMON, post_batch=make_stat_post('C06', sel_obs_code, sel_hist_of),
    coq_targets=['theories/Props/C06.vo', 'theories/Corr/CorrSelect.vo'],
    nontrivial=lambda i, o: len(i[2][1]) >= 1,
    rule='populations (empty, singleton, all-equal, duplicate-laden, ragged with missing cases, random; up to 8 individuals; and one of 300 individuals under best / worst / random / tournament / lexicase / weighted combinations; dynamic lists whose usize weights do not sum within usize: an error value on every selection) x selector configurations (best, worst, random, tournament sizes 1..n+2, lexicase case counts 0..4 - smaller/equal/larger than the results available -, weighted trees of depth <= 2 and dynamic lists, also nested in each other, weights incl. 0) x 60 (quick) / 400 (thorough) seeded draws. Each returned reference is located in the population by pointer identity; every observed outcome (index class or documented error) must have positive probability in the model law computed in coqc, and frequencies are compared as well. Non-trivial: non-empty population.',
    assumptions=['errors are classified through From conversions of the library error enums (no string matching)'],
    level_text='Theorems (Props/C06.v) by induction over a deep embedding of ALL selector combinations (best, worst, random, tournament, lexicase, weighted leaves and pairs nested arbitrarily, dynamic lists): every selected index is an index of the given population, an empty-population error occurs only for an empty population, and the selection distribution is total (mass 1: no stuck or panicking outcome exists in the model). An error is reported only in its documented situation, for every combination (C06_documented), and those situations are reported with certainty. Tied to the code by exact support membership of every draw (pointer identity).',
    level_note='Trusted: Coq kernel; harness+driver; rand primitives as oracles.',
    technique='Coq induction over a deep embedding of selector combinations (support theorems) + exact support-membership correspondence with pointer identity',
    design_ref='DESIGN.md §5 C06')
PROPS['C07'] = dict(_SEL_COMMON, post_batch=make_stat_post('C07', sel_obs_code, sel_hist_of),
    coq_targets=['theories/Props/C07.vo', 'theories/Corr/CorrSelect.vo'],
    nontrivial=lambda i, o: len(i[2][1]) >= 2,
    rule='populations of 1..7 single-case individuals, with and without ties, both polarities; every tournament size k = 1..n with 20000 (quick) / 400000 (thorough) seeded draws of the real Tournament::select, frequencies per tie class against the law evaluated from the model definition (uniform k-subsets, best of the subset) - not from the closed form, which is the theorem; Best and Worst: membership in the maximal / minimal class; multi-case individuals whose vectors disagree with their totals, and individuals evaluated on different numbers of cases; populations of 40 and 300 (thorough: 1000) individuals with pairwise distinct totals under tournaments of size 1, 2, 3, 7 and n - far too many k-subsets to enumerate - judged by the rank law C(r-1,k-1)/C(n,k) of C07_rank_law, evaluated with the multiplicative binomial of Ec/BinomN.v (proved equal to the Pascal one). The measured selections run on another thread than the one that built the selector value. Non-trivial: at least two individuals.',
    assumptions=['ties inside a tournament are resolved in an unspecified way: comparison is per tie class'],
    level_text='Theorems (Props/C07.v): best/worst return a maximal/minimal individual; every drawn tournament is a k-sublist of the population (distinct individuals), all C(n,k) of them equally likely; the winner is maximal in its tournament, hence at least as good as k-1 others; the CDF of the winner including ties is C(#{<= v}, k) / C(n, k); size 1 is uniform choice and size n is best selection. (both as theorems: C07_size_1_is_uniform, C07_size_n_is_best). Tied to the code by exact support checks and seeded frequencies with an explicit error budget.',
    level_note='Trusted: Coq kernel; harness+driver; choose_multiple uniform over k-subsets (oracle).',
    technique='Coq counting proof (k-sublists, binomial CDF) over a distribution monad + exact support and statistical-law correspondence',
    design_ref='DESIGN.md §5 C07')
PROPS['C08'] = dict(_SEL_COMMON, post_batch=make_stat_post('C08', sel_obs_code, sel_hist_of),
    coq_targets=['theories/Props/C08.vo', 'theories/Corr/CorrSelect.vo'],
    nontrivial=lambda i, o: len(i[2][1]) >= 2 and i[2][2][1] >= 1,
    rule='result matrices up to 6 individuals x 4 cases with ties and duplicated individuals, zero cases, single individual, both polarities (Score / Error), configured case count = and < the results available, and 6 and 7 (thorough: 8) cases; exact law by enumerating all case orders in coqc (up to 5040; thorough 40320); matrices with 12, 20 and 50 cases in which every case has exactly one best individual, judged by the closed form of C08_decisive_cases (the first case of the order decides: #{cases whose best is i} / #cases); 1000 / 3000 / 24000 cases on which 5 / 3 / 2 individuals tie throughout (different only in a result that is not looked at), judged by the closed form of C08_all_tied_uniform (uniform over the population); 20000 (quick) / 400000 (thorough) seeded draws; support both ways (never a zero-probability winner; every individual with noticeable probability is seen) and per-individual frequencies. Non-trivial: >= 2 individuals and >= 1 case.',
    assumptions=['configured case counts not exceeding the results available (the property quantifier); larger counts are exercised under C06'],
    level_text='Theorems (Props/C08.v): lexicase filtering keeps, at each case, exactly the candidates with the best result on it (early exit included); a survivor is never Pareto-dominated on the considered cases (for either polarity: the proof is over the key order); with zero cases or a single individual the choice is uniform / that individual; when every case has a unique best individual the first case of the order decides, and when all individuals tie on every case considered the choice is uniform - for any number of cases. The selection probability is by definition the average over case orders of 1/|survivors|. Tied to the code by exact support checks and seeded frequencies.',
    level_note='Trusted: Coq kernel; harness+driver; shuffle uniform over permutations (oracle).',
    technique='Coq invariant proof (accompany lemma => non-dominance) over the filtering loop + exact law by permutation enumeration, statistical correspondence',
    design_ref='DESIGN.md §5 C08')
PROPS['C13'] = dict(_SEL_COMMON, post_batch=make_stat_post('C13', sel_obs_code, sel_hist_of),
    coq_targets=['theories/Props/C13.vo', 'theories/Corr/CorrSelect.vo'],
    nontrivial=lambda i, o: True,
    rule='marker members (best / worst / random over a fixed population), each wrapped in a probe that counts how often it is used (members under a weight of zero: never; every selection that is not a zero-weight error: exactly one member - judged in coqc by probes_ok), combined in left-nested chains (the with_item_and_weight idiom), right-nested chains, random trees (depth <= 3) and the dynamic list with the same weights; weights from {0,1,2,3,7} and the u32 boundaries {0, 1, 2^31, 2^32-2, 2^32-1}, plus large weights (2^29..2^31) whose totals are far from a power of two and the largest total that fits; statically typed chains of 2..4 members built with the builder idioms (with_item_and_weight / with_weighted_item, in one expression on the Result or unwrapped after every step, incl. zero weights and u32 overflow); delegation frequencies against w/total computed in coqc; build-time WeightSumOverflow compared exactly, including which pair is reported and overflow earlier in the chain.',
    assumptions=['Bernoulli::from_ratio realises wa/(wa+wb) on a 2^-64 grid - below any observable resolution'],
    level_text='Theorems (Props/C13.v): for EVERY tree shape of weighted pairs a leaf is delegated to with probability weight/total (so nesting and construction order do not matter), zero-weight members are never used, a structure of total weight zero reports ZeroWeight with certainty, the dynamic list picks entry i with probability w_i / sum, and a chain is rejected at build time exactly when some partial sum reaches 2^32 (also when the overflow happened earlier). Tied to the code by delegation frequencies and exact build-time errors.',
    level_note='Trusted: Coq kernel; harness+driver; Bernoulli / choose_weighted as oracles.',
    technique='Coq induction over weighted trees in a distribution monad over Q (field arithmetic) + statistical delegation-frequency correspondence, exact build errors',
    design_ref='DESIGN.md §5 C13')

# ---------------------------------------------------------------------------
# C11 / C12: mutation, uniform crossover, random bitstrings / genes
MUT_KINDS = {0: 'WithRate Vec<bool>', 1: 'WithRate Bitstring', 2: 'WithOneOverLength Vec<bool>', 3: 'WithOneOverLength Bitstring', 4: 'Umad Vector<i64>',
             5: 'Umad Bitstring', 6: 'UniformXo', 7: 'Bitstring::random_with_probability', 8: 'Plushy GeneGenerator', 9: 'WithRate Vec<i64>', 10: 'Umad Plushy',
             11: 'long genome through two positions [op (0/1 WithRate Vec<bool>/Bitstring, 2/3/4 UniformXo [Bitstring;2]/[Vec<bool>;2]/(Bitstring,Bitstring), 5 random bitstring, 6 WithOneOverLength), length, i, j, rate num, rate den]; child = [changed at i, changed at j]',
             12: 'very long genome, all genes of all children pooled [op (0/1 WithOneOverLength Bitstring/Vec<bool>, 2/3 WithRate Bitstring/Vec<bool>), length, rate num, rate den]; cells [1] = flipped genes, [0] = unflipped genes',
             14: 'UniformXo in every argument form [form 0 [Vec;2] / 1 (Vec,Vec) / 2 [Bitstring;2] / 3 (Bitstring,Bitstring), first parent, second parent]',
             13: 'whole random Plushy, one position [instructions, length, position, close kind, close num, close den]; child = [0] close / [i+1] instruction i'}
def mut_code(inp, child):
    if inp[2][0] in (8, 13):
        return child[0]
    c = 0
    for x in reversed(child):
        c = (x + 1) + 64 * c
    return c
def mut_hist_of(inp, obs):
    return [(tuple(c), k) for c, k in obs[1]] if isinstance(obs, list) and len(obs) == 2 and obs[0] == 0 else []
def mut_describe(inp, obs):
    p = inp[2]
    return '%s %s, %d seeded draws (seed %d); observed [0, [[child, count]..]]' % (MUT_KINDS.get(p[0]), p[1:], inp[1], inp[0])
_MUT_COMMON = dict(corr='CorrMut', describe=mut_describe, no_shrink=True, classify=lambda i, o: MUT_KINDS.get(i[2][0], '?'),
                   bucket=lambda i, o: ['op=%s' % MUT_KINDS.get(i[2][0], '?')])
PROPS['C11'] = dict(_MUT_COMMON, judge='(judge_cases judge_c11)',
    coq_targets=['theories/Props/C11.vo', 'theories/Corr/CorrMut.vo'],
    nontrivial=lambda i, o: True,
    rule='Vec<bool>, Bitstring, Vec<i64> (bitwise-not genes), Vector<i64> with position-tagged genes and a disjoint new-gene alphabet, and Plushy genomes (tagged PushInt genes, new genes from a gene generator incl. close markers), lengths 0..12; flip rates {0, 1/4, 1/2, 1, 3/16, 15/16, 3/2, 1000} and 1/len; UMAD addition/deletion rates incl. 0 and 1 and all three empty-genome modes; 1500 (quick) / 20000 (thorough) seeded draws per configuration. EVERY distinct child observed is judged in coqc by the shape predicate (length and per-position flip-or-keep; the UMAD language by a backtracking matcher; rate 0 = identity, flip rate >= 1 = all flipped, deletion 1 = empty, addition 1 / deletion 0 = exactly one new gene after every parent gene; empty parent: at most one new gene, none when disabled).',
    trusted=['rand primitives (random::<f32>, random_bool) as oracles: only their support matters here'],
    assumptions=['rates in [0,1] (the property quantifier); f32 rate granularity 2^-24'],
    level_text='Theorems (Props/C11.v) at support level in the distribution monad: a bit-flip child has the parent length and each gene is kept or negated; rate 0 is the identity and rate 1 flips everything (as equalities of event probabilities); every UMAD child lies in the language "per parent gene in order: optionally that gene, then optionally one gene from the generator"; an empty parent yields at most one new gene, none when disabled; deletion rate 1 yields the empty genome; addition 1 / deletion 0 keeps every gene followed by exactly one new gene. Tied to the code by evaluating the shape predicates in coqc on every child the real operators produced.',
    level_note='Trusted: Coq kernel; harness+driver; rand primitives as oracles.',
    technique='Coq support-level theorems in a finite-distribution monad + shape predicates evaluated in coqc on every observed child',
    design_ref='DESIGN.md §7 C11')
PROPS['C12'] = dict(_MUT_COMMON, judge='(judge_cases judge_c12)', post_batch=make_stat_post('C12', mut_code, mut_hist_of), cov_extra=stat_cov_extra,
    coq_targets=['theories/Props/C12.vo', 'theories/Corr/CorrMut.vo'],
    nontrivial=lambda i, o: True,
    rule='FULL child distributions (every possible child is a cell): bit-flip at rates {1/16, 1/4, 1/2, 7/8} and 1/len for lengths 1..8 (Vec<bool> and Bitstring alternating); UMAD at (a,d) in {(1/8,1/8), (1/4,1/5), (1/2,1/4), (1,0), (0,1), (1/2,1/3)} on 0..3 tagged genes with a 2-gene alphabet and all empty-genome modes; uniform crossover for lengths 1..6 (tagged vector parents, and complementary parents in all four argument forms); random bitstrings with p in {0, 1/8, 1/2, 7/8, 1}; Plushy gene generators over 1,2,3,5 instructions with the default (1/(n+1)) and explicit close probabilities, built through every constructor (into_ / to_gene_generator[_with_close_probability] on owned and borrowed instruction distributions, GeneGenerator::new and ::with_uniform_close_probability directly); genomes of 65..257 genes (bit-flip, 1/length flip, uniform crossover in every argument form, random bitstrings) judged through pairs of positions - neighbours and 32/63/64/65/128/256 apart - against the pair marginals proved in C12_flip_marginals / C12_bitstring_pairs / C12_uniform_xo_pairs; genomes of 2^16+1 .. 2^18 genes with the per-gene flip frequency pooled over all genes of all children (1/length and fixed small rates); whole random Plushy genomes observed at their first, an inner and their last position (collection_marginal: every position follows the gene law). 20000 (quick) / 400000 (thorough) seeded draws per configuration, compared cell by cell with the law computed from the model in coqc (independence and the new-genes-are-deleted-too clause are consequences of the joint law).',
    trusted=['rand primitives as oracles', 'statistical tie: Bernstein threshold with delta = 1e-12 per cell, one 10x re-sample before a cell counts; zero-probability children are an exact violation'],
    assumptions=['all rates are dyadic-representable or small rationals; f32/f64 granularity of the rates is far below the test resolution'],
    level_text='Theorems (Props/C12.v) in Q: the bit-flip child distribution is the product law r^h (1-r)^(n-h) (hence independent flips), r n expected flips and exactly one for the 1/length variant; UMAD expected child size n (1-d)(1+a) - new genes being deletable too - and size neutrality at d = a/(1+a); uniform crossover masks are uniform (each position 1/2, independently); random bitstrings follow the product Bernoulli law; a random Plushy gene is a close marker with probability c and otherwise drawn from the instruction distribution, and with the default c = 1/(n+1) all n+1 outcomes are equally likely. Tied to the code by comparing full empirical child distributions with the model law.',
    level_note='Trusted: Coq kernel; harness+driver; rand primitives as oracles; explicit statistical error budget.',
    technique='Coq exact-law theorems over Q (product laws, expectations) + statistical comparison of full child distributions with the model law',
    design_ref='DESIGN.md §7 C12')

# ---------------------------------------------------------------------------
# C18
C18_FL = ['Vec into->T', '&Vec into->&T', '&Vec into->T', 'Vec to->T', 'Vec to->&T', '[T;N] into->T', '&[T;N] into->&T', '&[T;N] into->T', '[T;N] to->T', '[T;N] to->&T',
          '&[T] into->&T', '&[T] into->T', '[T] to->&T', '[T] to->T', 'uniform_distribution_of!']
C18_K = ['Vec collection', 'Bitstring::random', 'Bitstring::random_with_probability', 'Plushy collection', 'population of scored individuals', '', '', 'choice over zero-sized members', 'choice over one-byte members', 'collection of zero-sized elements',
         'Bitstring::random through two positions', 'Bitstring::random_with_probability, all bits pooled', 'collection of 8 KiB elements']
def c18_describe(inp, obs):
    p = inp[2]
    if p[0] == 5:
        return 'uniform choice, flavour %s, source %s, %d draws; observed [num_choices, [[value, count]..]] or [-7]=EmptySlice' % (C18_FL[p[1]], p[2], inp[1])
    if p[0] == 7:
        return 'uniform choice, flavour %s, over %d zero-sized members; observed [-7]=EmptySlice or [num_choices, []]' % (C18_FL[p[1]], p[2])
    if p[0] == 8:
        return 'owning uniform choice over %d one-byte members (member i = i mod %d), %d draws; observed [num_choices, [[value, count]..]]' % (p[1], p[2], inp[1])
    if p[0] == 9:
        return 'collection of %d zero-sized elements, %d draws; observed [[length, elements ok, count]..]' % (p[1], inp[1])
    if p[0] == 10:
        return 'Bitstring::random(%d) seen through positions %d and %d, %d draws; observed [length, [[2*bit_i + bit_j, count]..]]' % (p[1], p[2], p[3], inp[1])
    if p[0] == 11:
        return 'Bitstring::random_with_probability(%d, %d/%d), %d draws, all bits pooled; observed [length, [[bit, count]..]]' % (p[1], p[2], p[3], inp[1])
    if p[0] == 6:
        return 'uniform choice, flavour %s, source = the %d members 0..%d, %d draws; observed [num_choices, [[chosen value mod %d (-1: not a member), count]..]]' % (C18_FL[p[1]], p[2], p[2] - 1, inp[1], p[3])
    return '%s of size %d, %d draws; observed [[length, elements ok, count]..]' % (C18_K[p[0]], p[1], inp[1])
def c18_hist_of(inp, obs):
    return [(v, k) for v, k in obs[1]] if isinstance(obs, list) and len(obs) == 2 and isinstance(obs[1], list) else []
PROPS['C18'] = dict(
    corr='CorrC18', judge='(judge_cases judge)', post_batch=make_stat_post('C18', lambda inp, oc: oc, c18_hist_of), cov_extra=stat_cov_extra,
    coq_targets=['theories/Props/C18.vo', 'theories/Corr/CorrC18.vo'],
    describe=c18_describe, no_shrink=True, nontrivial=lambda i, o: True,
    classify=lambda i, o: ('choice:%s' % C18_FL[i[2][1]]) if i[2][0] in (5, 6, 7) else ('collection:%s' % C18_K[i[2][0]]),
    bucket=lambda i, o: [('flavour=%s' % C18_FL[i[2][1]]) if i[2][0] in (5, 6, 7) else ('collection=%s' % C18_K[i[2][0]]), 'size=%d' % (len(i[2][2]) if i[2][0] == 5 else i[2][2] if i[2][0] in (6, 7) else i[2][1])],
    rule='collection generators for Vec, Bitstring (both constructors), Plushy and a population of scored individuals at sizes 0, 1, 2, 17, 1000 and around block boundaries (255..257, 1023..1025, 2048, 3072, 4096, 65536) (length of every sample and membership of every element compared exactly); uniform choices built through all 15 conversion flavours (Vec / array / slice, owning / borrowing / cloning, IntoDistribution / ToDistribution, and the uniform_distribution_of! macro) from empty sources (EmptySlice expected) and from sources of 1..6 members incl. duplicates: num_choices (asked directly and through the &T / &mut T forwarding impls, generically and as a trait object) compared exactly, members exactly (zero-probability values are violations), frequencies against 1/len per index; sources of 3*2^23, 2^25 and 2^24+1 members through the Vec and slice flavours, the chosen index judged by residue classes (mod 3, 2, 5) against the class law proved in C18_choice_uniform_classes; zero-sized elements (collections) and sources of 0, 1, 7, 2^32-1, 2^32, 2^32+1, 2^33 zero-sized members (num_choices exact, rejected only when empty); sources of 100, 192, 255, 257 members with 15x the draws; random bitstrings seen through pairs of positions 8 / 32 / 64 / 128 apart (four equally likely combinations) and with requested probabilities 0, 1, 0.1, 0.3, 1/256, 255/256, 2^-20 (all bits pooled against the exact binary fraction); (thorough) 2^32+2 one-byte members.',
    trusted=['rand Uniform / slice::Choose as oracles', 'statistical tie with delta = 1e-12 per cell'],
    assumptions=[],
    level_text='Theorems (Props/C18.v): a collection generator yields exactly n elements each drawn from the element generator (and is total); a uniform choice returns only indices of the source, each with probability exactly 1/length (duplicates handled by index), and an empty source is rejected at construction. The elements of a collection are independent draws (product law); the uniform law seen through residue classes of the index (for sources of millions of members). Tied to the code by exact length / membership / num_choices checks for every conversion flavour and by seeded frequencies.',
    level_note='Trusted: Coq kernel; harness+driver; rand primitives as oracles.',
    technique='Coq theorems over the distribution monad (collection length/membership, uniform-by-index) + exact and statistical correspondence over all conversion flavours',
    design_ref='DESIGN.md §6 C18')

# ---------------------------------------------------------------------------
# C09
def c09_describe(inp, obs):
    if 500 <= inp[0] < 600:
        return ('ISLANDS: two Generation values over population %s step with par_next at the same time, each in its own pool of %d rayon threads; the other one fails at its call #%d%s; '
                'observed, for the one that never fails: [result, population afterwards, log of [saw own population, saw old contents, word1, word2, failed?, child|error, tail of a 15-byte bulk draw]]' % (
                    inp[1][:8], inp[0] - 500, inp[2], ' (and the observed child maker yields to its pool in the middle of every child)' if inp[2] == 5 else ''))
    if 400 <= inp[0] < 500:
        return ('BULK step: %s on a population of %d scored individuals (genomes 0..n-1) through a GenomeScorer child maker, child-maker call #%d fails (-1: none); '
                'observed counts [result, [length afterwards, population afterwards is as it must be (children / old population, every individual scored)], '
                '[calls, every call saw the old population, DISTINCT (word1, word2) pairs drawn by the calls, children made]]' % (
                    'serial_next' if inp[0] == 400 else 'par_next (%d rayon threads)' % (inp[0] - 400), inp[1][0], inp[2]))
    return '%s on population %s, child-maker call #%d fails (-1 / >= size: none); observed [result, population afterwards, log of [saw own population, saw old contents, word1, word2, failed?, child|error]]' % (
        ('serial_next' if inp[0] % 100 == 0 else 'par_next (%d rayon threads)' % (inp[0] % 100)) + (' [scored individuals, child maker built through GenomeScorer]' if inp[0] >= 100 else ''), inp[1][:8], inp[2]) + (
        '; then, on the SAME Generation value, the steps [mode (0 serial / threads), failing call]: %s (observation: 4th element = their [result, population, log])' % inp[3] if len(inp) > 3 else '')
PROPS['C09'] = dict(
    corr='CorrC09', judge='(judge_cases judge)',
    coq_targets=['theories/Props/C09.vo', 'theories/Corr/CorrC09.vo'],
    describe=c09_describe, no_shrink=True,
    nontrivial=lambda i, o: len(i[1]) >= 1,
    classify=lambda i, o: ('parallel/islands' if i[0] >= 500 else ('serial' if i[0] % 100 == 0 else 'parallel') + ('/genome-scorer' if i[0] >= 100 else '') + ('/bulk' if i[0] >= 400 else '')),
    bucket=lambda i, o: ['mode=%s' % ('islands/%d' % (i[0] - 500) if i[0] >= 500 else ('serial' if i[0] % 100 == 0 else 'par/%d' % (i[0] % 100)) + ('/genome-scorer' if i[0] >= 100 else '') + ('/bulk' if i[0] >= 400 else '')),
                         'size=%d' % (i[1][0] if 400 <= i[0] < 500 else len(i[1])), 'failure=%s' % ('in the other value' if i[0] >= 500 else 'injected' if 0 <= i[2] < (i[1][0] if i[0] >= 400 else len(i[1])) else 'none')],
    rule='Generation::serial_next and par_next (rayon pools of 1, 2, 3, 4, 8, 16 threads, 6 / 100 repetitions each) over populations (Vec; also BTreeSet whose children collide so that the size changes between the steps of one Generation value, and VecDeque) of size 0, 1, 2, 7, 64 (and 3000 under pools of 8 and 16 threads) with an instrumented child maker that records the address and contents of the population it is shown and two words drawn from the generator it is handed, and fails at a chosen call; failure injected at every call position (sampled for size 64), at a position beyond the last call, and not at all. Judged in coqc: exactly n invocations on success, every invocation saw the generation\'s own, unmodified population, all drawn words pairwise distinct - within a step and across all steps of one Generation value (a failed step does not rewind the randomness) -, the new population is exactly the children (in call order for serial - computed by the model serial_next from the logged per-call behaviour - as a multiset for parallel), on failure the population equals the old one, the error is the failing child\'s, and serial stepping stops right there. Small populations: every child also makes a 15-byte bulk draw whose last 7 bytes count as a third word (a generator adapter that fills whole words only leaves them the same in every child). ISLANDS: two Generation values stepping with par_next at the same time in separate pools, one failing early - the step of the other one must be a complete successful step (nothing a step uses may be shared between values); in a third of these the observed child maker yields to its pool in the middle of every child (children then run nested on one thread and must still draw their own words). BULK steps: 400 000 (and 50 000 with an injected failure) scored individuals through a GenomeScorer child maker, serial and under pools of 8 / 16 threads; the log is reduced to counts by the harness and judged in coqc: n calls and n children, all calls saw the old population, the (word1, word2) pairs drawn by the calls are pairwise distinct (128 bits each: an honest generator collides with probability < 2^-90, children seeded from a 32-bit space collide about 18 times), the population afterwards is the children / the old population. Non-trivial: non-empty population.',
    trusted=['thread interleavings are SAMPLED, not enumerated; that children cannot mutate the shared population is Rust\'s &P / Sync typing (trusted)',
             'the randomness of Generation is rand::rng() (thread RNG): not seedable, so the judge is relational over the recorded words'],
    assumptions=['distinctness of 64-bit words drawn by different children stands for "own live randomness" (collision probability negligible)',
                 'bulk steps: the harness, not coqc, reduces the 400 000-entry log to counts (sorting and counting in c09.rs run_bulk is trusted); only three members and the length of the population are compared on each call'],
    level_text='Theorems (Props/C09.v) for an ARBITRARY child-making operator: serial stepping yields as many children as the population had and installs exactly them; on failure the population is exactly the old one; every call is made on the old population and is handed the generator state the previous call left (consecutive disjoint stretches of the stream), and nothing is made after a failure; the parallel relation (independent generator per child, any schedule) gives the same length / atomicity guarantees. The new population is exactly what the calls returned, in call order; the error reported is that of the last call made. For ANY population type (a size and a way to collect the children): exactly size-many children made from the old population are collected, a failure changes nothing, and over several steps of one Generation value every step follows the size the population has at that step (for an ordered set, modelled by sort_dedup - exactly the distinct children, sorted, never more than were made - that size changes from step to step). Tied to the code by an instrumented child maker under serial_next and par_next with failure at every position and several pool sizes.',
    level_note='Trusted: Coq kernel; harness+driver; rayon scheduling and Rust aliasing guarantees (schedules sampled).',
    technique='Coq theorems over the repeat combinator (atomic replace, call chain) + instrumented child-maker correspondence under serial and rayon-parallel stepping',
    design_ref='DESIGN.md §6 C09')

# ---------------------------------------------------------------------------
# C16
C16_OPS = ['Best', 'Worst', 'Random', 'Tournament(2)', 'Lexicase(2)', 'WeightedPair(Best:1, Random:2)', 'DynWeighted[Tournament(3):2, Lexicase(1):3]', 'WithRate Vec<bool>',
           'WithOneOverLength Bitstring', 'Umad Vector', 'Umad Bitstring (sometimes empty parent)', 'UniformXo [Vec;2]', 'TwoPointXo (Vec,Vec)', 'UniformXo [Bitstring;2]',
           'TwoPointXo [Bitstring;2]', 'collection generator Vec<i64>', 'Bitstring::random', 'Bitstring::random_with_probability', 'Plushy collection of a gene generator',
           'OneOfCloning', 'ChooseCloning', 'IndividualGenerator', 'Select(Tournament).then(GenomeExtractor).then(Mutate(WithRate))', 'GenomeScorer over a pipeline',
           'Bitstring collection of BoolGenerator', 'WithRate and UniformXo interleaved on one generator',
           'Tournament(2) on 8..47 individuals with many ties', 'Tournament(3) on 8..47 individuals with many ties', 'Lexicase(2) on 8..47 individuals with many ties',
           'Best on 8..47 individuals with many ties', 'DynWeighted[Tournament(2):2, Worst:1] on 8..47 individuals with many ties',
           'TwoPointXo [Vec;2], equal parents with exact / spare capacity', 'TwoPointXo (Vec,Vec), equal parents with exact / spare capacity', 'UniformXo [Vec;2], equal parents with exact / spare capacity',
           'WithOneOverLength Vec<bool> of 1..2 genes with exact / spare capacity', 'WithRate Vec<bool> with exact / spare capacity',
           'Umad::new_with_empty_rate(0.25, 0.95, ..) Bitstring, empty and non-empty genomes in turn (used value met them in the opposite order)',
           'Umad::new_with_empty_rate(0.9, 0.1, ..) Vector, empty and non-empty genomes in turn (used value met them in the opposite order)',
           'DynWeighted[Best:1, Worst:2, Random:3] built in one go vs used between its builder calls', 'DynWeighted[Best:0, Worst:2, Random:3] built in one go vs used between its builder calls',
           'collection generator Vec<i64> of 20000+ elements (hash)', 'Bitstring::random of 20000+ bits (hash)', 'Plushy collection of 20000+ genes (hash)',
           'Lexicase(2) whose past is the same population object with other contents (the next generation written into the same variable)',
           'Best on 10000 individuals in three tie classes', 'Worst on 10000 individuals in three tie classes', 'Tournament(3) on 10000 individuals in three tie classes', 'Lexicase(100) on 7 individuals x 100 cases']
def c16_describe(inp, obs):
    if inp[0] == 0:
        return '%s, seed %d, data %s; observed [run from a fresh value, the same on another thread, an already-used value inside a rayon pool, the used value again on the calling thread], each [[3 results], next generator word]' % (C16_OPS[inp[1]], inp[2], inp[3])
    if inp[0] == 3:
        return 'two distinct input names that collide under a common short hash (pair %d of the table in harness/src/c16.rs) bound to 11 and 22 and read in that order, declared in either order; observed per order: the int stack, top first' % inp[1]
    if inp[0] == 2:
        return 'a program reading %d distinctly named inputs (in0.., input i = 7i+1) once each, declared forwards / backwards / shuffled; observed per declaration order [int stack size, hash of the int stack]' % inp[1]
    return push_describe([0, inp[1], inp[2], []], obs) + ' -- run under every permutation of the %d input declarations; observed [class, state, errkind, all runs equal]' % inp[3]
def c16_case_of(inp, obs):
    return [inp, obs]
def c16_post_batch(inputs, obs, verdicts):
    # Push cases: the printed output must match the model too (same as C01)
    idx = [i for i, inp in enumerate(inputs) if inp[0] == 1]
    sub_in = [[0, inputs[i][1], inputs[i][2], []] for i in idx]
    sub_ob = [obs[i] for i in idx]
    sub_v = [verdicts[i] for i in idx]
    push_post_batch(sub_in, sub_ob, sub_v)
    for i, v in zip(idx, sub_v):
        verdicts[i] = v
PROPS['C16'] = dict(
    corr='CorrC16', judge='(judge_cases judge)', post_batch=c16_post_batch,
    coq_targets=['theories/Props/C16.vo', 'theories/Corr/CorrC16.vo'],
    describe=c16_describe, no_shrink=True, nontrivial=lambda i, o: True,
    classify=lambda i, o: ('op:%s' % C16_OPS[i[1]]) if i[0] == 0 else ('push-input-order' if i[0] == 1 else 'push-many-names' if i[0] == 2 else 'push-colliding-names'),
    bucket=lambda i, o: [('op=%s' % C16_OPS[i[1]]) if i[0] == 0 else ('push permutations=%d' % i[3] if i[0] == 1 else 'push inputs=%d' % i[1] if i[0] == 2 else 'push colliding names')],
    rule='48 selectors, mutators, recombinators, generators and compositions (selectors also on populations of 8..47 distinct individuals with many ties - where hash order or a cache could decide; vector genomes that are equal as values but differ in spare capacity) exported by the three crates (table in harness/src/c16.rs) x 12 (quick) / 200 (thorough) seeds: a counting loop evaluated for 1.2 million steps (about a second of wall-clock time) must equal the model run; three consecutive calls from (A) a fresh operator value, (B) another fresh value with a generator cloned from the same seed - built and used on ANOTHER THREAD -, (C) a value that was already used five times with another generator, run inside a rayon pool of three workers, and (D) the used value once more on the calling thread, where run A, the warm-up and earlier cases of the process have run - results and the next word of the generator must all coincide (a consult of the thread RNG, global state, or a cache inside the operator shows up as a difference); one entry interleaves two operators on one generator; three entries generate collections of 20000+ elements and three select from 10000 individuals with many ties (sizes at which a blocked or parallel implementation would kick in; results compared through a hash); five entries give the used value a PAST of other kinds of calls (a Lexicase value whose past is the same population object with other contents; (UMAD with distinct empty-genome rate on empty / non-empty genomes in the opposite order; a dynamic weighted selector that was used between its builder calls, also with a zero first weight)). Push: programs reading 1, 3, 1000 and 3000 (thorough: 20000) distinctly named inputs, declared forwards, backwards and shuffled, against the closed-form result (length and hash of the int stack); 15 pairs of distinct names that collide under common short hash functions (FNV-1a 32, CRC-32, Java hashCode, djb2) or differ only in case / spacing / Unicode normalisation, bound to different values and declared in either order; 80 (quick) / 600 (thorough) random nested programs with 2-3 bound inputs, evaluated under EVERY permutation of the input declarations and twice from each built state, and once with the program built on another thread than the one that declares the inputs: all runs must coincide and equal the model run (stacks, output bytes, outcome).',
    trusted=['that equal observable results and an equal next word mean equal generator states (SplitMix64 state = one word)'],
    assumptions=['"the code is a function of its arguments" is decided code-against-code: a Gallina model is deterministic by construction and cannot carry that claim'],
    level_text='Theorems (Props/C16.v): named inputs resolve independently of declaration order (lookup is invariant under permutation of a duplicate-free list) and therefore the whole evaluation of any program is - same stacks, output, limits, outcome, step count; a program that reads any number of distinctly named integer inputs once each ends, for every declaration order, with exactly their values on the int stack (C16_reads_any_declaration_order - the closed form the many-names cases are compared with; for up to 3000 inputs the judge also runs the interpreter model on that program); combinators have no hidden state (the threaded state after a composition is what its parts left). Stream locality: an operator that uses only the generator it is handed depends only on the consumed stretch of the stream; drawing is local and every combinator preserves locality, so equal generator states give equal results and equal positions for every composition (C16_combinators_preserve_locality, C16_equal_generator_states_equal_results). The remaining half - no randomness or state other than the generator handed in - is decided by double runs from cloned generators on fresh and on used operator values, and by permuting input declarations.',
    level_note='Proof for input-order independence and state threading; correspondence-only (code against code) for "nothing else influences the outcome". Trusted: Coq kernel; harness+driver.',
    technique='Coq simulation proof (evaluation invariant under permutation of input declarations) + code-against-code double-run / reuse / permutation correspondence',
    design_ref='DESIGN.md §6 C16')

# ---------------------------------------------------------------------------
# C19: the generated builder
import random as _random, shutil as _shutil
import c19gen

C19_PROBE = {'codes': {}, 'n': 0}

def c19_gen_extra(tier, seed):
    """compile probes: well-typed sequences and their ill-typed neighbours, plus raw random sequences"""
    rng = _random.Random(seed * 7919 + 19)
    n = 25 if tier != 'thorough' else 150
    out, seen = [], set()
    def add(sid, nst, cs):
        key = (sid, _json.dumps(cs))
        if key not in seen and len(cs) > 0:
            seen.add(key); out.append([1, 3, cs, sid])
    for i in range(n):
        sid, spec = (0, c19gen.PUSHSTATE) if i % 3 else (1, c19gen.MINI)
        stacks = sorted(spec['stacks'])
        cs = c19gen.typed_sequence(rng, stacks, maxlen=5)
        add(sid, 3, cs)
        ms = c19gen.mutants(cs, rng, stacks)
        rng.shuffle(ms)
        for m in ms[:3 if tier != 'thorough' else 6]:
            add(sid, 3, m)
        raw = [c19gen.rand_call(rng, stacks) for _ in range(rng.randint(1, 5))]
        if rng.random() < 0.5: raw.append([7])
        add(sid, 3, raw)
    # a fixed set run every time: each rule of the type-state in isolation, for the exec stack and for every value
    # stack of both structs (a size change after a load with NOTHING else loaded, after a program, after the
    # decision for no program; each required step left out), next to their well-typed neighbours
    for sid, spec in ((0, c19gen.PUSHSTATE), (1, c19gen.MINI)):
        stacks = sorted(spec['stacks'])
        tail = [[6, 10], [7]]
        fixed = [
            [[0, 5], [3, [101, 102]], [0, 7]] + tail,
            [[0, 5], [3, []], [0, 7]] + tail,
            [[0, 5], [4], [0, 7]] + tail,
            [[0, 5], [4]] + tail,
            [[0, 5], [3, [101]]] + tail,
            [[4]] + tail,
            [[0, 5]] + tail,
            [[0, 5], [4], [7]],
            [[0, 5], [4], [6, 10]],
            [[0, 5], [4], [4]] + tail,
            [[0, 5], [3, [101]], [4]] + tail,
        ]
        for k in stacks:
            other = [j for j in stacks if j != k][0]
            fixed += [
                [[0, 5], [2, k, [1]], [1, k, 9], [4]] + tail,
                [[0, 5], [2, k, [1]], [0, 9], [4]] + tail,
                [[0, 5], [2, k, []], [1, k, 9], [4]] + tail,
                [[0, 5], [2, k, [1]], [1, other, 9], [4]] + tail,
                [[0, 5], [3, [101]], [1, k, 9]] + tail,
                [[0, 5], [4], [1, k, 9]] + tail,
                [[1, k, 3], [2, k, [1]], [0, 5], [4]] + tail,
                [[1, k, 3], [0, 5], [2, k, [1]], [4]] + tail,
                [[2, k, [1]], [0, 5], [4]] + tail,
                # values, then the program, then a size change of the stack that holds values (the markers must survive with_program)
                [[0, 5], [2, k, [1]], [3, [101]], [1, k, 9]] + tail,
                [[0, 5], [2, k, [1]], [4], [1, k, 9]] + tail,
                [[0, 5], [2, k, [1]], [3, [101]], [2, k, [2]], [1, k, 9]] + tail,
            ]
        for cs in fixed:
            add(sid, 3, cs)
            # ... and cut off right after the call in question (typed sequences are prefix closed): a call that is
            # wrongly offered must not hide behind a later step that no longer type-checks because of it
            if cs[-2:] == tail:
                add(sid, 3, cs[:-2])
    # the probe input handed to Coq is [1, nstacks, cs]; the struct id rides along as a 4th element for the emitter
    return out

def c19_compile(cases):
    """cases: list of (name, struct id, call sequence); returns {name: (compiled, [error codes])}"""
    wd = os.path.join(_ROOT, 'work', 'c19probe')
    _shutil.rmtree(os.path.join(wd, 'src'), ignore_errors=True)
    os.makedirs(os.path.join(wd, 'src', 'bin'), exist_ok=True)
    os.makedirs(os.path.join(wd, '.cargo'), exist_ok=True)
    open(os.path.join(wd, 'Cargo.toml'), 'w').write('[package]\nname = "c19probe"\nversion = "0.1.0"\nedition = "2021"\n\n[workspace]\n\n[dependencies]\npush = { path = "/repo/packages/push" }\nordered-float = "5.0.0"\n')
    open(os.path.join(wd, '.cargo', 'config.toml'), 'w').write('[net]\noffline = true\n[build]\ntarget-dir = "%s"\n' % os.path.join(_ROOT, 'work', 'target_probe'))
    _shutil.copy('/repo/Cargo.lock', os.path.join(wd, 'Cargo.lock'))
    mini = '''#[derive(Default, Debug, Clone, PartialEq, Eq)]
#[push::push_state(builder, !has_stack)]
pub struct Mini {
    #[stack(exec)]
    pub code: Stack<PushProgram>,
    #[stack(ignore_doctests, instruction_name = PushInstruction::push_int)]
    pub numbers: Stack<i64>,
    #[stack(builder_name = flag, instruction_name = PushInstruction::push_bool)]
    pub switches: Stack<bool>,
    #[input_instructions]
    pub ins: std::collections::HashMap<push::instruction::variable_name::VariableName, PushInstruction>,
    #[instruction_step_limit]
    pub steps: usize,
}
'''
    for name, sid, cs in cases:
        spec = c19gen.PUSHSTATE if sid == 0 else c19gen.MINI
        body = c19gen.rust_chain(cs, spec)
        src = ('#![allow(unused)]\nuse ordered_float::OrderedFloat;\nuse push::instruction::PushInstruction;\nuse push::push_vm::program::PushProgram;\n'
               'use push::push_vm::push_state::PushState;\nuse push::push_vm::stack::{Stack, StackError};\n' + (mini if sid == 1 else '') +
               'fn main() {\n    let _r = (|| -> Result<(), StackError> {\n        let _x = %s;\n        Ok(())\n    })();\n}\n' % body)
        open(os.path.join(wd, 'src', 'bin', name + '.rs'), 'w').write(src)
    env = dict(os.environ, CARGO_NET_OFFLINE='true', RUSTFLAGS='--cfg unhindered_ec_verif')
    p = subprocess.run(['cargo', 'check', '--bins', '--keep-going', '--message-format=json', '--offline', '--quiet'], cwd=wd, env=env,
                       stdout=subprocess.PIPE, stderr=subprocess.PIPE, text=True, timeout=3000)
    ok, errs = set(), {}
    for line in p.stdout.splitlines():
        try:
            m = _json.loads(line)
        except Exception:
            continue
        t = (m.get('target') or {}).get('name')
        if m.get('reason') == 'compiler-artifact' and t:
            ok.add(t)
        elif m.get('reason') == 'compiler-message' and t and m['message'].get('level') == 'error':
            code = (m['message'].get('code') or {}).get('code') or 'no-code'
            if not m['message'].get('message', '').startswith('aborting'):
                errs.setdefault(t, []).append(code)
    res = {}
    for name, sid, cs in cases:
        if name in errs:
            res[name] = (False, errs[name])
        elif name in ok:
            res[name] = (True, [])
        else:
            res[name] = (None, ['not-reported: ' + p.stderr[-300:]])
    return res

def c19_run_override(pid, inputs, tag):
    from driver_main import run_inputs, Lock
    obs = [None] * len(inputs); valid = [True] * len(inputs)
    i0 = [i for i, x in enumerate(inputs) if x[0] in (0, 2)]
    i1 = [i for i, x in enumerate(inputs) if x[0] == 1]
    if i0:
        o, v = run_inputs(pid, [inputs[i] for i in i0], tag=tag)
        for i, oo, vv in zip(i0, o, v):
            obs[i] = oo; valid[i] = vv
    if i1:
        with Lock('c19probe.lock'):
            res = c19_compile([('p%d' % k, inputs[i][3], inputs[i][2]) for k, i in enumerate(i1)])
        for k, i in enumerate(i1):
            compiled, codes = res['p%d' % k]
            C19_PROBE['n'] += 1
            for c in codes:
                C19_PROBE['codes'][c] = C19_PROBE['codes'].get(c, 0) + 1
            # a rejection counts as a type-state rejection only for a missing method / unsatisfied bound on the builder
            if compiled is None or (compiled is False and not all(c in ('E0599', 'E0277', 'E0308') for c in codes)):
                valid[i] = False
            else:
                obs[i] = [1 if compiled else 0]
    return obs, valid

def c19_case_of(inp, obs):
    if inp[0] == 1:
        return [[1, inp[1], inp[2]], obs]
    return [inp, obs]

def c19_calls(cs):
    n = ['with_max_stack_size', 'with_{k}_max_size', 'with_{k}_values', 'with_program', 'with_no_program', 'with_{k}_input', 'with_instruction_step_limit', 'build']
    out = []
    for c in cs:
        s = n[c[0]]
        if '{k}' in s: s = s.replace('{k}', ['int', 'float', 'bool'][c[1]])
        out.append(s + '(' + ','.join(str(x) for x in (c[2:] if c[0] in (1, 2, 5) else c[1:])) + ')')
    return '.'.join(out)

def c19_describe(inp, obs):
    if inp[0] == 2:
        return 'which builder types are Default (method-resolution probe); observed [start state, sizes+program+limit, everything loaded, PushState itself]'
    if inp[0] == 1:
        return 'compile probe (%s): builder().%s ; observed [1] = rustc accepts it, [0] = rejected' % ('PushState' if inp[3] == 0 else 'Mini', c19_calls(inp[2]))
    return 'run (%s): builder().%s ; observed [0, exec top-first, exec max, [[stack, max]..], step limit, [[name, stack, value]..]] or [1] = overflow error' % ('PushState' if inp[1] == 0 else 'Mini', c19_calls(inp[3]))

PROPS['C19'] = dict(
    corr='CorrC19', judge='(judge_cases judge)', gen_extra=c19_gen_extra, run_override=c19_run_override, case_of=c19_case_of,
    coq_targets=['theories/Props/C19.vo', 'theories/Corr/CorrC19.vo'],
    describe=c19_describe, no_shrink=True, nontrivial=lambda i, o: True,
    classify=lambda i, o: 'compile-probe' if i[0] == 1 else 'default-probe' if i[0] == 2 else 'built-state',
    bucket=lambda i, o: ['kind=default-probe'] if i[0] == 2 else ['kind=%s' % ('compile-probe' if i[0] == 1 else 'run'), 'struct=%s' % ('PushState' if (i[3] if i[0] == 1 else i[1]) == 0 else 'Mini'),
                         'outcome=%s' % (o if i[0] == 1 else ('overflow' if o == [1] else 'built'))],
    cov_extra=lambda inputs, obs, verdicts: dict(compile_probes=C19_PROBE['n'], rustc_error_codes=C19_PROBE['codes']),
    rule='(run) 200 compiled-in well-typed builder call sequences - 140 on PushState, 60 on a second struct the macro is applied to in the harness (other field names, builder_name / instruction_name options, two value stacks) - with per-stack and global sizes in every legal order, repeated value loads, programs, inputs declared in various orders and re-declared, step limits: stack contents (top first), maximum sizes, step limit, the program order on the exec stack and the resolution of every declared input are compared with Builder.brun in coqc, as is the overflow error; the derived accessors are exercised on PushState through HasStack. (compile) a fixed set of about 130 sequences (each also cut off right after the call in question) isolating each rule of the type-state (a size change after a load with nothing else loaded - for the exec stack after a program / after the decision for no program, for every value stack after values -, each required step left out, a second program decision) next to their well-typed neighbours, plus 25 (quick) / 150 (thorough) random well-typed sequences and their ill-typed neighbours (each required step omitted, a resize after a load, values before any size, a second program decision, a global size after data, no build) and raw random sequences, each compiled as its own binary against the current tree with cargo check: rustc accepts it <=> Builder.typed.',
    trusted=['rustc / cargo check as the oracle of what compiles (differential compile probes)', 'the sequence generators and Rust emitters (driver/c19gen.py, harness/gen/gen_c19.py)'],
    assumptions=['derived HasStack accessors are exercised on PushState only (they do not compile downstream for >= 2 stacks: observation O1 in DESIGN)', 'the macro attribute parser is not modelled'],
    level_text='Theorems (Props/C19.v): the type-state machine transcribed from the generated trait bounds admits a build only after the global stack size, a program decision and a step limit; after values were loaded into a stack neither its own nor the global size can be set, and after the program decision (the values of the exec stack) neither the global size nor the decision again; typed sequences are prefix closed. Built state: loading puts the first supplied value on top and stacks up over repeated loads, more values / program elements than the maximum is an overflow and nothing is built, the program\'s first element is on top of exec, the maximum last set (globally or individually) wins, named inputs resolve to their last declaration independently of declaration order. Every state a well-typed sequence builds has every stack within its maximum (C19_built_state_within_maxima). Tied to the code by compiled-in call sequences on two macro-generated structs and by differential compile probes (compiles <=> typed).',
    level_note='Trusted: Coq kernel; harness+driver+generators; rustc as compile oracle.',
    technique='Coq theorems over a type-state automaton and builder semantics + compiled-in call sequences and differential cargo-check compile probes',
    design_ref='DESIGN.md §8 C19')
