#!/usr/bin/env python3
"""benign_suite.py <worktree>: runs the existing test suite with each benign patch applied (in the worktree),
writes <worktree>/benign/<i>/suite.json {passes: bool, tail: str}.  Can run for several worktrees in parallel."""
import json, os, subprocess, sys
wt = sys.argv[1]
env = dict(os.environ, CARGO_TARGET_DIR=os.path.join(wt, 'target'), CARGO_NET_OFFLINE='true')
def sh(cmd):
    p = subprocess.run(cmd, shell=True, cwd=wt, env=env, stdout=subprocess.PIPE, stderr=subprocess.STDOUT, text=True, timeout=3000)
    return p.returncode, p.stdout
for i in ('1', '2'):
    src = os.path.join(wt, 'benign', i)
    if not os.path.exists(os.path.join(src, 'patch.diff')):
        continue
    sh('git checkout -- .')
    rc, out = sh('git apply %s' % os.path.join(src, 'patch.diff'))
    assert rc == 0, out
    rc, out = sh('cargo test --workspace --offline 2>&1 | grep -E "^test result|FAILED|error\\[|error:" ')
    ok = ('FAILED' not in out and 'error' not in out and 'test result: ok' in out)
    json.dump(dict(passes=ok, tail=out[-1500:]), open(os.path.join(src, 'suite.json'), 'w'))
    sh('git checkout -- .')
    print(wt, i, ok)
