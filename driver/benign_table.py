#!/usr/bin/env python3
"""prints the markdown table of DESIGN.md 13.4 from /verif/benign/*/meta.json"""
import glob, json, os, re
def clean(s, n):
    s = re.sub(r'\s+', ' ', (s or '')).replace('|', '/').strip()
    return s if len(s) <= n else s[:n - 1].rsplit(' ', 1)[0] + ' …'
print('| harmless rewrite | what it does (sub-agent\'s summary, abridged) | what visibly changes | quick checks run | alarms |')
print('|---|---|---|---|---|')
for d in sorted(glob.glob('/verif/benign/*')):
    if not os.path.isdir(d):
        continue
    m = json.load(open(os.path.join(d, 'meta.json')))
    e = m['evaluation']
    print('| %s%s | %s | %s | %s | %s |' % (os.path.basename(d), '' if e.get('suite_with_patch_passes') else ' (suite NOT confirmed)', clean(m.get('summary'), 220),
                                       clean(m.get('visible_difference'), 200), ', '.join(e['checks_run']), ', '.join(e['alarms']) or 'none'))
