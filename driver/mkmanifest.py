#!/usr/bin/env python3
"""Regenerates MANIFEST.json from driver/props.py (claimed checks) — run after editing props.py."""
import json, os, sys
sys.path.insert(0, os.path.dirname(os.path.abspath(__file__)))
import props
ROOT = os.path.dirname(os.path.dirname(os.path.abspath(__file__)))
ALL = ['C%02d' % i for i in range(1, 20)]
checks = []
for pid in ALL:
    if pid not in props.PROPS:
        continue
    p = props.PROPS[pid]
    checks.append(dict(
        property_id=pid,
        quick_cmd='./check %s --tier quick' % pid,
        thorough_cmd='./check %s --tier thorough' % pid,
        evidence_file='evidence/%s.json' % pid,
        replay_cmd_template='./check %s --replay {path}' % pid,
        engine='coq-model+correspondence',
        level_claimed=dict(category='proof', text=p['level_text'], design_ref=p.get('design_ref', 'DESIGN.md')),
        level_note=p['level_note'],
        technique=p['technique'],
    ))
na = [dict(property_id=pid, reason=props.NOT_YET.get(pid, 'check not built yet')) for pid in ALL if pid not in props.PROPS]
m = dict(
    version=1,
    setup_cmd='./setup.sh',
    hooks=dict(guard='unhindered_ec_verif', enable='RUSTFLAGS="--cfg unhindered_ec_verif" (set by ./check when it builds the harness; no hook is currently needed: every observation goes through public API)',
               baseline_off_cmd='cd /repo && cargo test --workspace --no-fail-fast --offline', source_commits=[], add_only=True),
    engines=[dict(name='coq-model+correspondence', path='check', serves_properties=[c['property_id'] for c in checks],
                  kind_free_text='Coq 8.16 theorems over a hand-written Gallina model (coq/theories), tied to /repo on every run by a correspondence check: the Rust harness (harness/) runs the real code, coqc evaluates the model on the same inputs with vm_compute and compares')],
    checks=checks,
    notes='See DESIGN.md. known_findings.txt lists repaired defects (fixed:) and recorded findings (finding:).',
    not_applicable=na,
)
json.dump(m, open(os.path.join(ROOT, 'MANIFEST.json'), 'w'), indent=1)
print('MANIFEST.json: %d checks, %d not claimed' % (len(checks), len(na)))
