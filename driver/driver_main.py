"""Driver of the verification checks (see /verif/check and DESIGN.md §1)."""
import argparse, fcntl, glob, hashlib, json, os, re, subprocess, sys, time, math
from concurrent.futures import ThreadPoolExecutor

ROOT = os.path.dirname(os.path.dirname(os.path.abspath(__file__)))
WORK = os.path.join(ROOT, 'work')
COQ = os.path.join(ROOT, 'coq')
HARNESS = os.path.join(ROOT, 'harness')
VH = os.path.join(WORK, 'target', 'debug', 'vh')
VH_RELEASE = os.path.join(WORK, 'target', 'release', 'vh')   # no debug assertions, no overflow checks
GUARD = 'unhindered_ec_verif'
NCPU = 16

FORBIDDEN = re.compile(r'\b(Admitted|admit|Axiom|Axioms|Parameter|Parameters|Conjecture|Hypothesis|Hypotheses|Variable|Variables)\b|Unset\s+Guard|bypass_check|Admit\s+Obligations|type-in-type|impredicative-set|Unset\s+Universe|Unset\s+Positivity')
# kernel primitives that Print Assumptions lists when a term uses primitive floats / ints:
# they are not axioms of this development (and are not declared by it).
ALLOWED_ASSUMPTION = re.compile(r'^(PrimFloat\.|Uint63\.|PrimInt63\.|FloatOps\.|SpecFloat\.|float\b|int\b|Coq\.(Floats|Numbers\.Cyclic\.Int63)\.)')


_PRIM_TYPE_TOKENS = re.compile(r'PrimInt63\.int|PrimFloat\.float|float_class|float_comparison|float|comparison|int|bool|Set|->|\*|\(|\)|\s')


def is_kernel_primitive(name, ty):
    """Print Assumptions lists the kernel's primitive float / 63-bit integer operations a term uses as
    if they were axioms.  They are recognised by name AND by a type built only from the primitive types."""
    base = name.split('.')[-1]
    prims = {'float', 'int', 'add', 'sub', 'mul', 'div', 'opp', 'abs', 'sqrt', 'eqb', 'ltb', 'leb', 'compare', 'classify',
             'of_uint63', 'normfr_mantissa', 'frshiftexp', 'ldshiftexp', 'next_up', 'next_down',
             'lsl', 'lsr', 'land', 'lor', 'lxor', 'mod', 'addc', 'subc', 'mulc', 'head0', 'tail0', 'les', 'lts', 'asr', 'divs', 'mods',
             'addcarryc', 'subcarryc', 'diveucl', 'diveucl_21', 'addmuldiv', 'compares'}
    return base in prims and _PRIM_TYPE_TOKENS.sub('', ty) == ''


def log(*a):
    print(*a, flush=True)


_T0 = time.time()


def dbg(*a):
    if os.environ.get('VERIF_DEBUG'):
        print('[%.1fs]' % (time.time() - _T0), *a, file=sys.stderr, flush=True)


class Lock:
    def __init__(self, name):
        os.makedirs(WORK, exist_ok=True)
        self.path = os.path.join(WORK, name)

    def __enter__(self):
        self.f = open(self.path, 'w')
        fcntl.flock(self.f, fcntl.LOCK_EX)

    def __exit__(self, *a):
        fcntl.flock(self.f, fcntl.LOCK_UN)
        self.f.close()


def _big_stack():
    # long literal lists in generated case files need a deep native stack in coqc
    import resource
    try:
        resource.setrlimit(resource.RLIMIT_STACK, (resource.RLIM_INFINITY, resource.RLIM_INFINITY))
    except Exception:
        try:
            soft, hard = resource.getrlimit(resource.RLIMIT_STACK)
            resource.setrlimit(resource.RLIMIT_STACK, (hard, hard))
        except Exception:
            pass


def sh(cmd, timeout=None, cwd=None, env=None):
    e = dict(os.environ)
    if env:
        e.update(env)
    try:
        p = subprocess.run(cmd, cwd=cwd, env=e, timeout=timeout, stdout=subprocess.PIPE, stderr=subprocess.STDOUT, text=True, errors='replace',
                           preexec_fn=_big_stack if cmd and cmd[0] == 'coqc' else None)
        return p.returncode, p.stdout
    except subprocess.TimeoutExpired as ex:
        out = ex.stdout or ''
        if isinstance(out, bytes):
            out = out.decode(errors='replace')
        return 124, out + '\n[timeout]'


# --------------------------------------------------------------------------
# Coq side
def ensure_makefile():
    mk = os.path.join(COQ, 'Makefile')
    cp = os.path.join(COQ, '_CoqProject')
    if not os.path.exists(mk) or os.path.getmtime(mk) < os.path.getmtime(cp):
        rc, out = sh(['coq_makefile', '-f', '_CoqProject', '-o', 'Makefile'], cwd=COQ, timeout=120)
        if rc != 0:
            raise RuntimeError('coq_makefile failed: ' + out)


def build_coq(targets):
    """make the .vo files a property needs; returns (ok, output)"""
    with Lock('coq.lock'):
        ensure_makefile()
        rc, out = sh(['make', '-j%d' % NCPU] + list(targets) + ['theories/Base/WireProps.vo'], cwd=COQ, timeout=3000)
    return rc == 0, out


def grep_gate():
    bad = []
    for d, _, fs in os.walk(os.path.join(COQ, 'theories')):
        for f in fs:
            if not f.endswith('.v'):
                continue
            p = os.path.join(d, f)
            src = open(p).read()
            # strip comments (nested)
            out, depth, i = [], 0, 0
            while i < len(src):
                if src.startswith('(*', i):
                    depth += 1; i += 2
                elif src.startswith('*)', i) and depth:
                    depth -= 1; i += 2
                else:
                    if depth == 0:
                        out.append(src[i])
                    i += 1
            code = ''.join(out)
            for m in FORBIDDEN.finditer(code):
                # Variable/Hypothesis are legal inside a Section; we use Context instead and forbid them outright
                bad.append('%s: %s' % (os.path.relpath(p, COQ), m.group(0)))
    return bad


def proof_gate(prop):
    """Recompile Props/<id>.v (statements + exact + Print Assumptions) and check every
    theorem's assumptions.  Returns dict(obligations, discharged, problems, assumptions)."""
    pid = prop['id']
    src = os.path.join(COQ, 'theories', 'Props', pid + '.v')
    wd = os.path.join(WORK, pid)
    os.makedirs(wd, exist_ok=True)
    text = open(src).read()
    theorems = re.findall(r'^(?:Theorem|Corollary)\s+([A-Za-z0-9_\']+)', text, re.M)
    prints = re.findall(r'^Print Assumptions\s+([A-Za-z0-9_\']+)\s*\.', text, re.M)
    problems = []
    for t in theorems:
        if t not in prints:
            problems.append('theorem %s has no Print Assumptions' % t)
    rc, out = sh(['coqc', '-noglob', '-Q', 'theories', 'UEC', '-o', os.path.join(wd, pid + '.vo'), src], cwd=COQ, timeout=1200)
    if rc != 0:
        problems.append('coqc failed on Props/%s.v: %s' % (pid, out[-2000:]))
        return dict(obligations=len(theorems), discharged=0, problems=problems, assumptions=[], theorems=theorems)
    # split output into blocks, one per Print Assumptions, in order
    blocks = re.split(r'(?m)^(?=Closed under the global context|Axioms:)', out)
    blocks = [b for b in blocks if b.startswith('Closed under') or b.startswith('Axioms:')]
    used = set()
    discharged = 0
    if len(blocks) != len(prints):
        problems.append('expected %d Print Assumptions outputs, saw %d' % (len(prints), len(blocks)))
    for name, b in zip(prints, blocks):
        if b.startswith('Closed under'):
            discharged += 1 if name in theorems else 0
            continue
        entries = re.findall(r"(?ms)^([A-Za-z_][A-Za-z0-9_.']*)\s*:\s*(.*?)(?=^[A-Za-z_][A-Za-z0-9_.']*\s*:|\Z)", b[len('Axioms:'):].lstrip('\n'))
        names = [n for n, _ in entries]
        notallowed = [n for n, ty in entries if not is_kernel_primitive(n, ty) and n not in prop.get('allowed_axioms', [])]
        used.update(names)
        if notallowed:
            problems.append('theorem %s depends on %s' % (name, ', '.join(notallowed)))
        elif name in theorems:
            discharged += 1
    return dict(obligations=len(theorems), discharged=discharged, problems=problems, assumptions=sorted(used), theorems=theorems)


def coqchk_gate(pid):
    """thorough tier: re-check Props/<id>.vo and everything it depends on with the independent
    checker; its axiom list (axioms of every LOADED library, used or not) must be standard-library
    declarations only, and nothing may rely on type-in-type, unsafe fixpoints or assumed positivity."""
    rc, out = sh(['coqchk', '-silent', '-o', '-Q', 'theories', 'UEC', 'UEC.Props.' + pid], cwd=COQ, timeout=3000)
    res = dict(cmd='coqchk -silent -o -Q theories UEC UEC.Props.%s' % pid, exit=rc, axioms=[], problems=[])
    if rc != 0:
        res['problems'].append('coqchk failed: ' + out[-1500:])
        return res
    sect = None
    for line in out.splitlines():
        l = line.strip()
        if l.startswith('* '):
            sect = l
            if l.endswith('<none>') or l == '* Theory: Set is predicative':
                sect = None
            elif not l.startswith('* Axioms'):
                res['problems'].append('coqchk: ' + l)
            continue
        if not l or sect is None:
            continue
        if sect.startswith('* Axioms'):
            res['axioms'].append(l)
            if not l.startswith('Coq.'):
                res['problems'].append('coqchk: axiom outside the standard library: ' + l)
        else:
            res['problems'].append('coqchk: %s %s' % (sect, l))
    return res


# --------------------------------------------------------------------------
# wire encoding (must match Base/Wire.v)
def enc_tree(t, out):
    if isinstance(t, int):
        if 0 <= t < (1 << 60):
            out.append(4 * t)
        elif -(1 << 60) < t < 0:
            out.append(4 * (-t) + 1)
        elif -(1 << 63) <= t < 0:
            v = t + (1 << 64); out += [3, v >> 32, v & 0xFFFFFFFF]
        elif t < (1 << 63):
            out += [3, t >> 32, t & 0xFFFFFFFF]
        elif t < (1 << 64):
            out += [7, t >> 32, t & 0xFFFFFFFF]
        else:
            raise ValueError('atom out of range: %r' % t)
    else:
        out.append(4 * len(t) + 2)
        for c in t:
            enc_tree(c, out)
    return out


def coq_file(corr, fn, cases):
    lines = ['From Coq Require Import List ZArith Uint63.', 'Import ListNotations.',
             'From UEC Require Import Base.Wire Corr.%s.' % corr, 'Open Scope uint63_scope.',
             'Definition cases : list (list int) := [']
    body = []
    for c in cases:
        ws = enc_tree(c, [])
        body.append('[' + ';'.join(map(str, ws)) + ']')
    lines.append(';\n'.join(body))
    lines.append('].')
    lines.append('Open Scope Z_scope.')
    lines.append('Eval vm_compute in (%s cases).' % fn)
    return '\n'.join(lines) + '\n'


def parse_coq_value(out):
    """parse `= [[0]; [1; -2]] : list (list Z)` (possibly wrapped) into Python lists"""
    m = re.search(r'=\s*(.*?)\s*:\s*list', out, re.S)
    if not m:
        return None
    s = m.group(1)
    s = re.sub(r'%[A-Za-z0-9_]+', '', s)
    s = s.replace(';', ',').replace('(', '[').replace(')', ']')
    s = re.sub(r'\s+', ' ', s)
    try:
        return json.loads(s)
    except Exception:
        return None


def run_coq_batch(pid, corr, fn, cases, tag):
    """evaluate `fn` (a Coq function list (list int) -> list X) over cases, sharded; returns list of results"""
    wd = os.path.join(WORK, pid)
    os.makedirs(wd, exist_ok=True)
    # shard by words
    shards, cur, curw = [], [], 0
    for i, c in enumerate(cases):
        w = len(enc_tree(c, []))
        if cur and (curw + w > 40000 or len(cur) >= 400):
            shards.append(cur); cur, curw = [], 0
        cur.append((i, c)); curw += w
    if cur:
        shards.append(cur)
    results = [None] * len(cases)

    def one(k):
        name = 'cases_%s_%d' % (tag, k)
        path = os.path.join(wd, name + '.v')
        with open(path, 'w') as f:
            f.write(coq_file(corr, fn, [c for _, c in shards[k]]))
        rc, out = sh(['coqc', '-noglob', '-Q', os.path.join(COQ, 'theories'), 'UEC', '-Q', wd, 'Cases', path], cwd=wd, timeout=3000)
        for ext in ('.vo', '.vok', '.vos', '.glob'):
            try:
                os.remove(os.path.join(wd, name + ext))
            except OSError:
                pass
        try:
            os.remove(os.path.join(wd, '.' + name + '.aux'))
        except OSError:
            pass
        if rc != 0:
            return k, None, out
        v = parse_coq_value(out)
        return k, v, out

    with ThreadPoolExecutor(max_workers=NCPU) as ex:
        for k, v, out in ex.map(one, range(len(shards))):
            if v is None or len(v) != len(shards[k]):
                raise RuntimeError('coqc failed on case shard %d of %s: %s' % (k, pid, out[-3000:]))
            for (i, _), r in zip(shards[k], v):
                results[i] = r
            try:
                os.remove(os.path.join(wd, 'cases_%s_%d.v' % (tag, k)))
            except OSError:
                pass
    return results


# --------------------------------------------------------------------------
# Rust side
def build_harness(release=False):
    with Lock('cargo.lock'):
        env = {'CARGO_NET_OFFLINE': 'true', 'RUSTFLAGS': '--cfg ' + GUARD, 'CARGO_TARGET_DIR': os.path.join(WORK, 'target')}
        # the lock file is /repo's: the harness resolves to exactly the repository's dependency versions
        rc, out = sh(['cargo', 'build', '--offline', '--quiet'] + (['--release'] if release else []), cwd=HARNESS, env=env, timeout=3000)
    if rc != 0:
        # keep the error blocks, not the warnings, in what a replay file shows
        blocks = re.split(r'\n(?=warning|error)', out)
        errs = [b for b in blocks if b.startswith('error')]
        if errs:
            out = '\n'.join(errs)
    return rc == 0, out


def corpus_inputs(pid):
    """minimised failing inputs of past disagreements: the replays kept with the seeded changes of this
    property and anything under corpus/<id>/; run first on every check"""
    out, seen = [], set()
    for path in sorted(glob.glob(os.path.join(ROOT, 'seeded', pid + '-*', 'replay.json'))) + sorted(glob.glob(os.path.join(ROOT, 'corpus', pid, '*.json'))):
        try:
            r = json.load(open(path))
        except Exception:
            continue
        if r.get('property', pid) != pid or 'input' not in r:
            continue
        k = json.dumps(r['input'])
        if k not in seen:
            seen.add(k)
            out.append(r['input'])
    return out


def gen_inputs(pid, tier, seed):
    wd = os.path.join(WORK, pid)
    os.makedirs(wd, exist_ok=True)
    path = os.path.join(wd, 'inputs.txt')
    rc, out = sh([VH, pid, 'gen', tier, str(seed), path], timeout=1200)
    if rc != 0:
        raise RuntimeError('vh gen failed: ' + out[-2000:])
    inputs, meta = [], {}
    for line in open(path):
        line = line.rstrip('\n')
        if line.startswith('#meta\t'):
            _, k, v = line.split('\t', 2)
            meta[k] = v
        elif line and not line.startswith('#'):
            inputs.append(json.loads(line))
    return inputs, meta


PANIC = [-1]
ABORT = [-2]
HANG = [-3]
RUN_TIER = 'quick'
ACTIVE_VH = None   # set to VH_RELEASE while the release pass (and its re-samples / shrinks) runs


def run_inputs(pid, inputs, tag='run', per_chunk_timeout=None, nchunks=NCPU, vh=None):
    """run the real code on inputs (parallel worker processes); returns list of observation trees
    (None = input not understood by the harness).  A worker that dies or hangs yields ABORT / HANG
    for the case it was in and is restarted after it."""
    wd = os.path.join(WORK, pid)
    n = len(inputs)
    obs = [None] * n
    valid = [True] * n
    if per_chunk_timeout is None:
        # a quick-tier chunk takes seconds; the budget is what separates "slow" from "hangs"
        per_chunk_timeout = 900 if RUN_TIER == 'thorough' else 240
    nchunks = max(1, min(nchunks, (n + 7) // 8))
    chunks = [list(range(k, n, nchunks)) for k in range(nchunks)]
    hangs = {}

    def work(k):
        todo = chunks[k]
        rounds = 0
        budget = per_chunk_timeout
        while todo:
            rounds += 1
            inp = os.path.join(wd, '%s_in_%d.txt' % (tag, k))
            outp = os.path.join(wd, '%s_out_%d.txt' % (tag, k))
            with open(inp, 'w') as f:
                for i in todo:
                    f.write(json.dumps(inputs[i], separators=(',', ':')) + '\n')
            rc, out = sh([vh or ACTIVE_VH or VH, pid, 'run', inp, outp], timeout=budget)
            done = 0
            if os.path.exists(outp):
                for line in open(outp):
                    line = line.rstrip('\n')
                    if not line or line.startswith('#meta'):
                        continue
                    if done >= len(todo):
                        break
                    if line.startswith('#invalid'):
                        valid[todo[done]] = False
                    else:
                        parts = line.split('\t')
                        if len(parts) != 2:
                            break  # torn line of a dying worker
                        try:
                            obs[todo[done]] = json.loads(parts[1])
                        except Exception:
                            break
                    done += 1
            for p in (inp, outp, outp + '.journal'):
                try:
                    os.remove(p)
                except OSError:
                    pass
            if rc == 0 and done == len(todo):
                return
            # the worker died (abort) or hung in case todo[done]
            if done < len(todo):
                obs[todo[done]] = HANG if rc == 124 else ABORT
                if rc == 124:
                    # a hang is established: do not wait that long again in this chunk (and after three of them
                    # only as long as the slowest legitimate case of any quick tier needs)
                    hangs[k] = hangs.get(k, 0) + 1
                    budget = min(budget, 20 if hangs[k] < 3 else 6)
                todo = todo[done + 1:]
            else:
                return
            if rounds > 50:
                for i in todo:
                    obs[i] = ABORT
                return

    with ThreadPoolExecutor(max_workers=NCPU) as ex:
        list(ex.map(work, range(nchunks)))
    return obs, valid


# --------------------------------------------------------------------------
# shrinking: generic on integer trees
def shrink_candidates(t, limit=400):
    """smaller variants of tree t: drop one list element, halve / zero an atom (bounded breadth-first)"""
    out = []

    def rec(node, rebuild):
        if len(out) >= limit:
            return
        if isinstance(node, int):
            if node not in (0,):
                for v in {0, node // 2, node - 1 if node > 0 else node + 1}:
                    if v != node and abs(v) < abs(node):
                        out.append(rebuild(v))
        else:
            for i in range(len(node)):
                out.append(rebuild(node[:i] + node[i + 1:]))
            if len(node) > 4:
                out.append(rebuild(node[:len(node) // 2]))
                out.append(rebuild(node[len(node) // 2:]))
            for i in range(len(node)):
                rec(node[i], lambda v, i=i, node=node: rebuild(node[:i] + [v] + node[i + 1:]))

    rec(t, lambda v: v)
    return out


def tree_size(t):
    return 1 if isinstance(t, int) else 1 + sum(tree_size(c) for c in t)


def shrink(prop, judge_fn, inp, obs, want, rounds=8):
    """delta-debug the input while the verdict stays `want`; judge_fn(inputs)->(obs list, verdict list)"""
    best, best_obs = inp, obs
    for _ in range(rounds):
        cands = shrink_candidates(best)
        cands = [c for c in cands if tree_size(c) < tree_size(best) or c != best]
        if not cands:
            break
        cands.sort(key=tree_size)
        cands = cands[:200]
        try:
            o, v = judge_fn(cands)
        except Exception:
            break
        ok = [(tree_size(c), i) for i, c in enumerate(cands) if v[i] is not None and v[i] and v[i][0] == want]
        if not ok:
            break
        _, i = min(ok)
        if tree_size(cands[i]) >= tree_size(best) and cands[i] == best:
            break
        best, best_obs = cands[i], o[i]
    return best, best_obs


# --------------------------------------------------------------------------
def safe_describe(prop, inp, ob):
    if not prop.get('describe'):
        return None
    try:
        return prop['describe'](inp, ob)
    except Exception:
        return 'input %s' % canon(inp)[:300]


def load_known_findings():
    path = os.path.join(ROOT, 'known_findings.txt')
    found = []
    if os.path.exists(path):
        for line in open(path):
            line = line.strip()
            if line.startswith('finding:'):
                m = re.match(r'finding:\s+property=(\S+)\s+key=(\S+)\s+(.*)', line)
                if m:
                    found.append(dict(property=m.group(1), key=m.group(2), text=m.group(3)))
    return found


def write_replay(pid, payload):
    d = os.path.join(ROOT, 'evidence', 'replays')
    os.makedirs(d, exist_ok=True)
    h = hashlib.sha1(json.dumps(payload, sort_keys=True).encode()).hexdigest()[:10]
    p = os.path.join(d, '%s-%s.case' % (pid, h))
    with open(p, 'w') as f:
        f.write('{\n' + ',\n'.join(' %s: %s' % (json.dumps(k), json.dumps(v)) for k, v in payload.items()) + '\n}\n')
    return os.path.relpath(p, ROOT)


def write_evidence(pid, ev):
    # the evaluation scripts (seeded changes, harmless rewrites) run checks against a PATCHED tree: their evidence goes
    # to a scratch directory so that the committed evidence always describes the unchanged tree
    d = os.environ.get('VERIF_EVIDENCE_DIR') or os.path.join(ROOT, 'evidence')
    os.makedirs(d, exist_ok=True)
    with open(os.path.join(d, pid + '.json'), 'w') as f:
        json.dump(ev, f, indent=1)
        f.write('\n')


def canon(t):
    return json.dumps(t, separators=(',', ':'))


def main(argv):
    ap = argparse.ArgumentParser()
    ap.add_argument('prop')
    ap.add_argument('--tier', default=os.environ.get('VERIF_TIER', 'quick'))
    ap.add_argument('--replay')
    a = ap.parse_args(argv)
    import props
    pid = a.prop.upper()
    if pid not in props.PROPS:
        log('unknown property', pid)
        return 2
    prop = props.PROPS[pid]
    prop['id'] = pid
    seed = int(os.environ.get('VERIF_SEED', '1') or 1)
    tier = a.tier if a.tier in ('quick', 'thorough') else 'quick'
    global RUN_TIER
    RUN_TIER = tier
    t0 = time.time()
    os.makedirs(os.path.join(WORK, pid), exist_ok=True)
    if a.replay:
        return replay(prop, a.replay)
    return decide(prop, tier, seed, t0)


def base_trusted(prop):
    return [
        'Coq 8.16.1 kernel (coqc), vm_compute for evaluating the model; no native_compute',
        'axioms: none declared; Print Assumptions of every theorem in Props/%s.v is checked on each run' % prop['id'],
        'hand-written Gallina model tied to the code by this correspondence run (Rust harness vh + Python driver, trusted)',
        'cargo/rustc building /repo offline from its Cargo.lock',
    ] + prop.get('trusted', [])


def judge_inputs(prop, inputs, tag, release=False, reuse=None):
    """run impl + model on inputs; returns (obs list, verdict list) - verdict None for invalid input.
    release: run the release build of the harness; reuse = (obs, verdicts) of the debug build on the same
    inputs - where the release build answers the same, the verdict carries over and only the rest is judged."""
    pid = prop['id']
    dbg('judge_inputs', tag, len(inputs))
    global ACTIVE_VH
    saved = ACTIVE_VH
    if release:
        ACTIVE_VH = VH_RELEASE
    try:
        return _judge_inputs(prop, inputs, tag, reuse)
    finally:
        ACTIVE_VH = saved


def _judge_inputs(prop, inputs, tag, reuse):
    pid = prop['id']
    if prop.get('run_override'):
        obs, valid = prop['run_override'](pid, inputs, tag)
    else:
        obs, valid = run_inputs(pid, inputs, tag=tag)
    dbg('  impl done')
    if reuse is not None:
        obs0, ver0 = reuse
        differ = [i for i in range(len(inputs)) if valid[i] and not (ver0[i] is not None and canon(obs[i]) == canon(obs0[i]))]
        verdicts = list(ver0)
        if differ:
            ob2, v2 = judge_obs(prop, [inputs[i] for i in differ], [obs[i] for i in differ], [True] * len(differ), tag)
            for i, v in zip(differ, v2):
                verdicts[i] = v
        return obs, verdicts, differ
    return judge_obs(prop, inputs, obs, valid, tag)


def judge_obs(prop, inputs, obs, valid, tag):
    pid = prop['id']
    # a hang or a process abort of the real code on a valid input has no counterpart in any model: the input fails
    stuck = {i: ('the implementation did not return (killed by the watchdog)' if obs[i] == HANG else 'the implementation aborted the process')
             for i in range(len(inputs)) if valid[i] and obs[i] in (HANG, ABORT)}
    idx = [i for i in range(len(inputs)) if valid[i] and obs[i] is not None and i not in stuck]
    cof = prop.get('case_of') or (lambda i, o: [i, o])
    cases = [cof(inputs[i], obs[i]) for i in idx]
    res = run_coq_batch(pid, prop['corr'], prop.get('judge', 'judge_all'), cases, tag) if cases else []
    dbg('  coq done')
    verdicts = [None] * len(inputs)
    for i, r in zip(idx, res):
        verdicts[i] = r
    for i, why in stuck.items():
        verdicts[i] = [2, why]
    if prop.get('post_batch'):
        prop['post_batch'](inputs, obs, verdicts)
    return obs, verdicts


def model_show(prop, inp, obs):
    if not prop.get('show'):
        return None
    try:
        cof = prop.get('case_of') or (lambda i, o: [i, o])
        r = run_coq_batch(prop['id'], prop['corr'], prop['show'], [cof(inp, obs)], 'show')
        return r[0]
    except Exception as e:
        return 'unavailable: %s' % str(e)[-300:]


def decide(prop, tier, seed, t0):
    pid = prop['id']
    known = [k for k in load_known_findings() if k['property'] == pid]
    violations = []   # (kind, payload)
    broken = []       # things that no longer check
    ev_cov = {}

    # 1. proofs
    ok, out = build_coq(prop['coq_targets'])
    bad = grep_gate()
    gate = None
    if not ok:
        broken.append(dict(what='proof', name='make ' + ' '.join(prop['coq_targets']), detail=out[-3000:]))
    else:
        gate = proof_gate(prop)
        for p in gate['problems']:
            broken.append(dict(what='proof', name='Props/%s.v' % pid, detail=p))
    for b in bad:
        broken.append(dict(what='proof', name='forbidden vernacular', detail=b))
    if ok and tier == 'thorough':
        chk = coqchk_gate(pid)
        ev_cov['coqchk'] = dict(cmd=chk['cmd'], exit=chk['exit'], library_axioms=len(chk['axioms']),
                                non_stdlib_axioms=[a for a in chk['axioms'] if not a.startswith('Coq.')],
                                stdlib_axioms_outside_primitives=sorted(a for a in chk['axioms'] if not (a.startswith('Coq.Numbers.Cyclic.Int63.') or a.startswith('Coq.Floats.'))))
        for p in chk['problems']:
            broken.append(dict(what='proof', name='coqchk UEC.Props.%s' % pid, detail=p))

    # 2. harness against the current tree
    hok, hout = build_harness()
    inputs, meta, obs, verdicts = [], {}, [], []
    release_idx = set()   # indices of cases that were answered by the release build
    n_corpus = 0
    if not hok:
        broken.append(dict(what='correspondence', name='harness does not build against the current tree', detail=hout[-3000:]))
    elif ok:
        try:
            inputs, meta = gen_inputs(pid, tier, seed)
            corp = corpus_inputs(pid)
            meta['corpus_inputs_run_first'] = len(corp)
            n_corpus = len(corp)
            inputs = corp + inputs
            if prop.get('gen_extra'):
                inputs = inputs + prop['gen_extra'](tier, seed)
            # corpus first
            cdir = os.path.join(ROOT, 'corpus', pid)
            corpus = []
            if os.path.isdir(cdir):
                for f in sorted(os.listdir(cdir)):
                    try:
                        corpus.append(json.load(open(os.path.join(cdir, f)))['input'])
                    except Exception:
                        pass
            inputs = corpus + inputs
            obs, verdicts = judge_inputs(prop, inputs, 'main')
            # the same inputs through a RELEASE build of the harness and the libraries (debug assertions compiled
            # out, no overflow checks): an answer that differs from the debug build's is judged like any other
            # (skipped when the debug build already produced failing inputs: the violation is established)
            if not prop.get('run_override') and not any(v is not None and v[0] == 2 for v in verdicts):
                rok, rout = build_harness(release=True)
                if not rok:
                    broken.append(dict(what='correspondence', name='harness does not build in the release profile', detail=rout[-3000:]))
                else:
                    n0 = len(inputs)
                    obs_r, ver_r, differ = judge_inputs(prop, inputs, 'release', release=True, reuse=(obs, verdicts))
                    meta['release_profile_cases'] = n0
                    meta['release_profile_answers_differing_from_debug'] = len(differ)
                    for i in differ:
                        inputs.append(inputs[i]); obs.append(obs_r[i]); verdicts.append(ver_r[i]); release_idx.add(len(inputs) - 1)
        except RuntimeError as e:
            broken.append(dict(what='correspondence', name='case evaluation', detail=str(e)[-3000:]))

    # 3. decide
    n_eval = sum(1 for v in verdicts if v is not None)
    fails = [i for i, v in enumerate(verdicts) if v is not None and v[0] == 2]
    disag = [i for i, v in enumerate(verdicts) if v is not None and v[0] == 1]
    undec = [i for i, v in enumerate(verdicts) if v is not None and v[0] == 3]
    # a corpus input the harness no longer understands (formats evolve; C19's refer to compiled-in sequences) is skipped
    invalid = [i for i, v in enumerate(verdicts) if v is None and i >= n_corpus]
    meta['corpus_inputs_no_longer_valid'] = sum(1 for i, v in enumerate(verdicts) if v is None and i < n_corpus)
    if undec:
        broken.append(dict(what='correspondence', name='Corr.%s decoder' % prop['corr'], detail='%d cases could not be decoded, e.g. %s' % (len(undec), canon([inputs[undec[0]], obs[undec[0]]])[:600])))
    if invalid and len(invalid) > 0:
        broken.append(dict(what='correspondence', name='harness input decoder', detail='%d generated inputs not understood by the harness, e.g. %s' % (len(invalid), canon(inputs[invalid[0]])[:400])))

    def judge_fn(cands):
        return judge_inputs(prop, cands, 'shrink')

    reported = 0
    known_hit = {}
    seen_keys = set()
    if fails:
        # group by classification key, shrink one representative per key
        groups = {}
        for i in fails:
            key = prop['classify'](inputs[i], obs[i]) if prop.get('classify') else 'fail'
            groups.setdefault(key, []).append(i)
        MAXREP = 6
        ordered = sorted(groups.items(), key=lambda kv: (min(tree_size(inputs[i]) for i in kv[1]), str(kv[0])))
        if len(ordered) > MAXREP:
            log('note: %d distinct failure classes; reporting the %d with the smallest inputs' % (len(ordered), MAXREP))
        for key, idxs in ordered[:MAXREP]:
            i = min(idxs, key=lambda i: (i in release_idx, tree_size(inputs[i])))
            inp, ob = inputs[i], obs[i]
            rel = i in release_idx
            if not prop.get('no_shrink'):
                inp, ob = shrink(prop, (lambda c: judge_inputs(prop, c, 'shrink', release=True)) if rel else judge_fn, inp, ob, 2)
            key2 = prop['classify'](inp, ob) if prop.get('classify') else key
            kf = [k for k in known if k['key'] == key2]
            if kf:
                known_hit[key2] = (kf[0], len(idxs))
                continue
            payload = dict(property=pid, kind='failing-input', key=key2, input=inp, observed=ob,
                           model=model_show(prop, inp, ob), count=len(idxs),
                           description=safe_describe(prop, inp, ob),
                           how='the real code was run on `input` and answered `observed`; the property predicate of Corr/%s.v evaluated on that answer is false' % prop['corr'])
            if rel:
                payload['profile'] = 'release'
                payload['how'] += ' (RELEASE build: debug assertions compiled out, no overflow checks; the debug build answers differently)'
            path = write_replay(pid, payload)
            log('VIOLATION property=%s replay=%s' % (pid, path))
            reported += 1
    if disag and not fails:
        # model and code differ, property predicate still true on everything seen: search harder
        extra_fail = None
        try:
            for r in range(1, 4):
                ins2, _ = gen_inputs(pid, tier, seed * 1000003 + r)
                ob2, v2 = judge_inputs(prop, ins2, 'search')
                f2 = [i for i, v in enumerate(v2) if v is not None and v[0] == 2]
                if f2:
                    i = min(f2, key=lambda i: tree_size(ins2[i]))
                    extra_fail = shrink(prop, judge_fn, ins2[i], ob2[i], 2)
                    break
        except RuntimeError:
            pass
        if extra_fail:
            inp, ob = extra_fail
            payload = dict(property=pid, kind='failing-input', input=inp, observed=ob, model=model_show(prop, inp, ob),
                           description=safe_describe(prop, inp, ob))
            path = write_replay(pid, payload)
            log('VIOLATION property=%s replay=%s' % (pid, path))
            reported += 1
        else:
            i = min(disag, key=lambda i: tree_size(inputs[i]))
            payload = dict(property=pid, kind='correspondence-broken', lemma='Corr.%s.judge (model = implementation)' % prop['corr'],
                           input=inputs[i], observed=obs[i], model=model_show(prop, inputs[i], obs[i]), count=len(disag),
                           note='the model no longer describes the code on these inputs although the property predicate still holds of every observed output; the theorems of Props/%s.v therefore no longer transfer' % pid)
            path = write_replay(pid, payload)
            log('VIOLATION property=%s replay=%s no-failing-input-found' % (pid, path))
            reported += 1
    if broken and not reported:
        payload = dict(property=pid, kind='broken', broken=broken,
                       note='a proof obligation or the correspondence no longer checks; no concrete failing input was found')
        path = write_replay(pid, payload)
        log('VIOLATION property=%s replay=%s no-failing-input-found' % (pid, path))
        reported += 1
    for key, (kf, cnt) in known_hit.items():
        log('KNOWN-FINDING: property=%s %s (key=%s, %d cases this run)' % (pid, kf['text'], key, cnt))

    # extra per-property probes (e.g. the deep-nesting child process)
    if prop.get('extra') and hok and ok:
        for line, is_violation in prop['extra'](prop, tier, seed, known):
            log(line)
            if is_violation:
                reported += 1

    # 4. evidence
    nontriv = set()
    hist = {}
    for i, v in enumerate(verdicts):
        if v is None:
            continue
        if prop.get('nontrivial') is None or prop['nontrivial'](inputs[i], obs[i]):
            nontriv.add(canon(inputs[i]))
        if prop.get('bucket'):
            for b in prop['bucket'](inputs[i], obs[i]):
                hist[b] = hist.get(b, 0) + 1
    samples = []
    for i in range(0, len(verdicts), max(1, len(verdicts) // 3)):
        if verdicts[i] is not None:
            samples.append(dict(input=canon(inputs[i]), observed=canon(obs[i]), meaning=safe_describe(prop, inputs[i], obs[i])) if tree_size(inputs[i]) + tree_size(obs[i]) < 400 else dict(input_size=tree_size(inputs[i]), input_head=canon(inputs[i])[:300]))
        if len(samples) >= 3:
            break
    if gate:
        samples.append(dict(obligation='Theorem %s (Props/%s.v)' % (gate['theorems'][0], pid)))
    cov = dict(
        obligations=gate['obligations'] if gate else len(prop['coq_targets']),
        discharged=gate['discharged'] if gate else 0,
        checker_cmd='make -C coq %s && coqc -Q theories UEC theories/Props/%s.v (Print Assumptions checked against the allow-list); grep gate for Admitted/Axiom/...' % (' '.join(prop['coq_targets']), pid),
        trusted_base=base_trusted(prop),
        theorems=gate['theorems'] if gate else [],
        kernel_primitives_reported=gate['assumptions'] if gate else [],
        evaluations=n_eval,
        distinct_nontrivial=len(nontriv),
        rule=prop.get('rule', ''),
        samples=samples,
        disagreements_checked=len(fails) + len(disag),
        input_distribution=hist,
        generator=meta,
        known_findings_hit=sorted(known_hit),
    )
    cov.update(ev_cov)
    if prop.get('cov_extra'):
        cov.update(prop['cov_extra'](inputs, obs, verdicts))
    ev = dict(property_id=pid, tier=tier, seed=seed, level='proof', coverage=cov,
              assumptions=prop.get('assumptions', []), wall_s=round(time.time() - t0, 2), violations=reported)
    write_evidence(pid, ev)
    log('%s: %d theorems (%d discharged), %d cases evaluated (%d distinct non-trivial), %d failing, %d disagreeing, %d violations reported, %.1fs'
        % (pid, cov['obligations'], cov['discharged'], n_eval, len(nontriv), len(fails), len(disag), reported, time.time() - t0))
    return 1 if reported else 0


def replay(prop, path):
    pid = prop['id']
    payload = json.load(open(path))
    if 'input' not in payload:
        log(json.dumps(payload, indent=1)[:4000])
        log('this replay names a broken obligation, not an input; re-run ./check %s' % pid)
        return 1
    ok, out = build_coq(prop['coq_targets'])
    hok, hout = build_harness()
    if not ok or not hok:
        log((out if not ok else hout)[-2000:])
        return 1
    inp = payload['input']
    rel = payload.get('profile') == 'release'
    if rel:
        rok, rout = build_harness(release=True)
        if not rok:
            log(rout[-2000:])
            return 1
    obs, verdicts = judge_inputs(prop, [inp], 'replay', release=rel)
    log('input:    ', canon(inp))
    if prop.get('describe'):
        log('meaning:  ', safe_describe(prop, inp, obs[0]))
    log('observed: ', canon(obs[0]))
    log('model:    ', model_show(prop, inp, obs[0]))
    v = verdicts[0]
    names = {0: 'agree', 1: 'model and code differ, property predicate holds', 2: 'PROPERTY FAILS on the implementation output', 3: 'undecodable'}
    log('verdict:  ', names.get(v[0] if v else None, v))
    if v and v[0] == 2:
        log('VIOLATION property=%s replay=%s' % (pid, path))
        return 1
    return 0
