#!/usr/bin/env python3
"""benign_recheck.py [names]: re-applies every kept harmless rewrite (benign/<name>/patch.diff) to /repo, re-runs the quick
checks recorded for it, updates the outcome in its meta.json, and undoes the patch straight afterwards.  Run after the
checks were strengthened: a harmless rewrite must still raise no alarm.  (Do not edit the development meanwhile.)"""
import os as _os
_os.environ['VERIF_EVIDENCE_DIR'] = '/verif/work/evidence_scratch'
import glob, json, os, shutil, subprocess, sys
names = [a for a in sys.argv[1:] if not a.startswith('--')] or sorted(os.path.basename(d) for d in glob.glob('/verif/benign/*') if os.path.isdir(d))
for name in names:
    d = os.path.join('/verif/benign', name)
    meta = json.load(open(os.path.join(d, 'meta.json')))
    props = meta['evaluation']['checks_run']
    assert subprocess.run('git -C /repo status --porcelain', shell=True, capture_output=True, text=True).stdout.strip() == '', '/repo not clean'
    assert subprocess.run(['git', '-C', '/repo', 'apply', os.path.join(d, 'patch.diff')]).returncode == 0
    checks = {}
    try:
        for pid in props:
            p = subprocess.run(['./check', pid, '--tier', 'quick'], cwd='/verif', stdout=subprocess.PIPE, stderr=subprocess.STDOUT, text=True, timeout=3000)
            lines = [l for l in p.stdout.splitlines() if l.startswith('VIOLATION') or l.startswith(pid + ':')]
            reps = []
            for l in lines:
                if l.startswith('VIOLATION') and 'replay=' in l:
                    try:
                        r = json.load(open(os.path.join('/verif', l.split('replay=')[1].split()[0])))
                        reps.append(dict(kind=r.get('kind'), description=(r.get('description') or '')[:600], input=json.dumps(r.get('input'))[:400],
                                         observed=json.dumps(r.get('observed'))[:300], broken=json.dumps(r.get('broken'))[:600] if r.get('broken') else None))
                    except Exception:
                        pass
            checks[pid] = dict(exit=p.returncode, lines=lines[:8], replays=reps[:4])
    finally:
        subprocess.run('git -C /repo checkout -- .', shell=True)
        shutil.rmtree('/verif/evidence/replays', ignore_errors=True)
    meta['evaluation']['checks'] = checks
    meta['evaluation']['alarms'] = [pid for pid, c in checks.items() if c['exit'] != 0]
    json.dump(meta, open(os.path.join(d, 'meta.json'), 'w'), indent=1)
    print(name, 'alarms=%s' % meta['evaluation']['alarms'], flush=True)
