#!/usr/bin/env python3
"""seed_confirm.py <worktree>: for each <worktree>/seed/<i>/ confirms a seeded change IN THE WORKTREE (can run for many
worktrees in parallel): suite passes with the patch, demonstration fails with it, demonstration passes without it.
Writes <worktree>/seed/<i>/confirm.json."""
import glob, json, os, shutil, subprocess, sys
wt = sys.argv[1]
env = dict(os.environ, CARGO_TARGET_DIR=os.path.join(wt, 'target'), CARGO_NET_OFFLINE='true')
def sh(cmd, timeout=3000):
    p = subprocess.run(cmd, shell=True, cwd=wt, env=env, stdout=subprocess.PIPE, stderr=subprocess.STDOUT, text=True, timeout=timeout)
    return p.returncode, p.stdout
for src in sorted(glob.glob(os.path.join(wt, 'seed', '[0-9]'))):
    try:
        meta = json.load(open(os.path.join(src, 'meta.json')))
        demo_dest = os.path.join(wt, meta['demo_dest'])
        demo_cmd = meta['demo_cmd'] + ('' if '--offline' in meta['demo_cmd'] else ' --offline')
        res = {}
        sh('git checkout -- .')
        rc, out = sh('git apply %s' % os.path.join(src, 'patch.diff')); assert rc == 0, out
        rc, out = sh('cargo test --workspace --offline 2>&1 | grep -E "^test result|FAILED|error\\[" ')
        res['suite_with_patch_passes'] = ('FAILED' not in out and 'error[' not in out and 'test result: ok' in out)
        os.makedirs(os.path.dirname(demo_dest), exist_ok=True)
        shutil.copy(os.path.join(src, 'demo.rs'), demo_dest)
        rc, out = sh(demo_cmd); res['demo_fails_with_patch'] = (rc != 0)
        res['demo_with_patch_tail'] = out[-600:]
        sh('git checkout -- .')
        rc, out = sh(demo_cmd); res['demo_passes_without_patch'] = (rc == 0)
        os.remove(demo_dest)
    except Exception as e:
        res = dict(error=repr(e))
    json.dump(res, open(os.path.join(src, 'confirm.json'), 'w'), indent=1)
    print(src, {k: v for k, v in res.items() if k != 'demo_with_patch_tail'})
