#!/usr/bin/env python3
"""prints the markdown table of DESIGN.md 13.3 from /verif/seeded/*/meta.json (+ replay.json)"""
import glob, json, os, re
def clean(s, n):
    s = re.sub(r'\s+', ' ', (s or '')).replace('|', '/').strip()
    return s if len(s) <= n else s[:n - 1].rsplit(' ', 1)[0] + ' …'
print('| seeded change | what it does (sub-agent\'s summary, abridged) | detected by (quick tier) | minimised failing input reported |')
print('|---|---|---|---|')
for d in sorted(glob.glob('/verif/seeded/*')):
    if not os.path.isdir(d):
        continue
    m = json.load(open(os.path.join(d, 'meta.json')))
    c = m['confirmation']
    det = ', '.join(c['detected_by']) or 'MISSED'
    rp = os.path.join(d, 'replay.json')
    desc = ''
    if os.path.exists(rp):
        r = json.load(open(rp))
        desc = r.get('description') or json.dumps(r.get('input'))
    else:
        for pid, ch in c['checks'].items():
            if ch.get('first_replay'):
                desc = ch['first_replay'].get('description') or ch['first_replay'].get('input') or ''
                break
    ok = c['suite_with_patch_passes'] and c['demo_fails_with_patch'] and c['demo_passes_without_patch']
    print('| %s%s | %s | %s | %s |' % (os.path.basename(d), '' if ok else ' (NOT CONFIRMED)', clean(m.get('summary'), 260), det, clean(desc, 200)))
