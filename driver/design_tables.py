#!/usr/bin/env python3
"""rewrites the two generated tables of DESIGN.md (13.3 seeded changes, 13.4 harmless rewrites) in place"""
import re, subprocess
f = '/verif/DESIGN.md'
s = open(f).read()
def table(cmd):
    return subprocess.run(['python3', cmd], capture_output=True, text=True).stdout.rstrip('\n') + '\n'
def replace_table(s, header_start, new):
    i = s.index(header_start)
    j = i
    lines = s[i:].split('\n')
    n = 0
    for l in lines:
        if l.startswith('|'):
            n += len(l) + 1
        else:
            break
    return s[:i] + new + s[i + n:]
s = replace_table(s, '| seeded change |', table('/verif/driver/seeded_table.py'))
s = replace_table(s, '| harmless rewrite |', table('/verif/driver/benign_table.py'))
open(f, 'w').write(s)
print('tables rewritten')
