#!/usr/bin/env python3
"""benign_eval.py <worktree> <idx> <name>: evaluates a HARMLESS rewrite produced independently in a scratch worktree
(<worktree>/benign/<idx>/{patch.diff,meta.json}): confirms the existing suite passes with it (in the worktree), then
applies it to /repo, runs the quick check of every property anchored in a touched file (and of the rewrite's own
property), and undoes it straight afterwards.  Keeps patch, meta and outcome under /verif/benign/<name>/.
A green check is the expected outcome; a red one is examined by hand (false alarm => fix the machinery)."""
import os as _os
_os.environ['VERIF_EVIDENCE_DIR'] = '/verif/work/evidence_scratch'
import json, os, re, shutil, subprocess, sys
wt, idx, name = sys.argv[1:4]
src = os.path.join(wt, 'benign', idx)
dst = os.path.join('/verif/benign', name)
os.makedirs(dst, exist_ok=True)
meta = json.load(open(os.path.join(src, 'meta.json')))
own = name.split('-')[0]
patch = open(os.path.join(src, 'patch.diff')).read()
touched = sorted(set(re.findall(r'^\+\+\+ b/(\S+)', patch, re.M)))
anch = {}
for l in open('/verif/properties.jsonl'):
    p = json.loads(l)
    a = p['anchors']
    for f in (a.get('files') if isinstance(a, dict) else a):
        anch.setdefault(f, set()).add(p['id'])
props = {own}
for f in touched:
    props |= anch.get(f, set())
props = sorted(props, key=lambda x: (x != own, x))
env = dict(os.environ, CARGO_TARGET_DIR=os.path.join(wt, 'target'), CARGO_NET_OFFLINE='true')
def sh(cmd, cwd, timeout=3000):
    p = subprocess.run(cmd, shell=True, cwd=cwd, env=env, stdout=subprocess.PIPE, stderr=subprocess.STDOUT, text=True, timeout=timeout)
    return p.returncode, p.stdout
res = dict(touched=touched, checks_run=props)
sj = os.path.join(src, 'suite.json')
if os.path.exists(sj):
    res['suite_with_patch_passes'] = json.load(open(sj))['passes']
elif '--no-suite' not in sys.argv:
    sh('git checkout -- .', wt)
    rc, out = sh('git apply %s' % os.path.join(src, 'patch.diff'), wt); assert rc == 0, out
    rc, out = sh('cargo test --workspace --offline 2>&1 | grep -E "^test result|FAILED|error\\[|error:" ', wt)
    res['suite_with_patch_passes'] = ('FAILED' not in out and 'error' not in out and 'test result: ok' in out)
    sh('git checkout -- .', wt)
shutil.copy(os.path.join(src, 'patch.diff'), os.path.join(dst, 'patch.diff'))
assert subprocess.run('git -C /repo status --porcelain', shell=True, capture_output=True, text=True).stdout.strip() == '', '/repo not clean'
rc, out = sh('git -C /repo apply %s' % os.path.join(dst, 'patch.diff'), '/verif'); assert rc == 0, out
checks = {}
try:
    for pid in props:
        p = subprocess.run(['./check', pid, '--tier', 'quick'], cwd='/verif', stdout=subprocess.PIPE, stderr=subprocess.STDOUT, text=True, timeout=3000)
        lines = [l for l in p.stdout.splitlines() if l.startswith('VIOLATION') or l.startswith(pid + ':')]
        reps = []
        for l in lines:
            if l.startswith('VIOLATION') and 'replay=' in l:
                rp = l.split('replay=')[1].split()[0]
                try:
                    d = json.load(open(os.path.join('/verif', rp)))
                    reps.append(dict(kind=d.get('kind'), key=d.get('key'), description=(d.get('description') or '')[:600], input=json.dumps(d.get('input'))[:400],
                                     observed=json.dumps(d.get('observed'))[:300], broken=json.dumps(d.get('broken'))[:600] if d.get('broken') else None))
                except Exception:
                    pass
        checks[pid] = dict(exit=p.returncode, lines=lines[:8], replays=reps[:4])
finally:
    subprocess.run('git -C /repo checkout -- .', shell=True)
    shutil.rmtree('/verif/evidence/replays', ignore_errors=True)
res['checks'] = checks
res['alarms'] = [pid for pid, c in checks.items() if c['exit'] != 0]
json.dump(dict(property=own, summary=meta.get('summary'), why_harmless=meta.get('why_harmless'), visible_difference=meta.get('visible_difference'),
               produced_by='independent sub-agent given only the property text and a scratch worktree, asked for a harmless rewrite', evaluation=res),
          open(os.path.join(dst, 'meta.json'), 'w'), indent=1)
print(name, 'suite_ok=%s checks=%s alarms=%s' % (res.get('suite_with_patch_passes'), props, res['alarms']))
