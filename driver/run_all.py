#!/usr/bin/env python3
"""run_all.py <quick|thorough> [ids...]: runs the checks one after the other on the current tree under /usr/bin/time -v and
records exit code, cases evaluated, wall time and peak RSS in work/cost_<tier>.json (DESIGN section 11 is written from it
by driver/cost_table.py)."""
import json, os, re, subprocess, sys
tier = sys.argv[1]
ids = sys.argv[2:] or ['C%02d' % i for i in range(1, 20)]
out = {}
path = '/verif/work/cost_%s.json' % tier
if os.path.exists(path):
    out = json.load(open(path))
for pid in ids:
    p = subprocess.run(['/usr/bin/time', '-v', './check', pid, '--tier', tier], cwd='/verif', stdout=subprocess.PIPE, stderr=subprocess.STDOUT, text=True)
    rss = re.search(r'Maximum resident set size \(kbytes\): (\d+)', p.stdout)
    wall = re.search(r'Elapsed \(wall clock\) time.*: ([\d:.]+)', p.stdout)
    ev = json.load(open('/verif/evidence/%s.json' % pid))
    viol = [l for l in p.stdout.splitlines() if l.startswith('VIOLATION')]
    out[pid] = dict(exit=p.returncode, cases=ev['coverage']['evaluations'], wall_s=ev['wall_s'], rss_mb=int(rss.group(1)) // 1024 if rss else None,
                    violations=viol, known=[l for l in p.stdout.splitlines() if l.startswith('KNOWN-FINDING')][:2])
    json.dump(out, open(path, 'w'), indent=1)
    print(pid, out[pid]['exit'], out[pid]['cases'], out[pid]['wall_s'], out[pid]['rss_mb'], viol[:1], flush=True)
