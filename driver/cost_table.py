#!/usr/bin/env python3
"""cost_table.py: rewrites the cost table of DESIGN.md section 11 from work/cost_quick.json and work/cost_thorough.json."""
import json, re
q = json.load(open('/verif/work/cost_quick.json')); t = json.load(open('/verif/work/cost_thorough.json'))
def k(n): return ('%.1f k' % (n / 1000)).replace('.0 k', ' k') if n >= 1000 else str(n)
rows = ['| property | quick: cases, wall, peak RSS | thorough (incl. coqchk): cases, wall, peak RSS |', '|---|---|---|']
for i in range(1, 20):
    pid = 'C%02d' % i
    a, b = q.get(pid), t.get(pid)
    f = lambda x: '%s, %d s, %.1f GB' % (k(x['cases']), round(x['wall_s']), (x['rss_mb'] or 0) / 1024) if x else 'n/a'
    rows.append('| %s | %s | %s |' % (pid, f(a), f(b)))
s = open('/verif/DESIGN.md').read()
m = re.search(r'\| property \| quick:.*?\n(\|.*\n)+', s)
s = s[:m.start()] + '\n'.join(rows) + '\n' + s[m.end():]
open('/verif/DESIGN.md', 'w').write(s)
print('cost table rewritten')
