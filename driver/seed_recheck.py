#!/usr/bin/env python3
"""seed_recheck.py [names]: re-applies every kept seeded change (seeded/<name>/patch.diff) to /repo, re-runs the quick check
of its own property as it stands now, records the outcome in seeded/<name>/recheck.json and undoes the patch straight
afterwards.  Run after the checks were strengthened: every seeded change must still be detected.  (Do not edit the
development meanwhile.)"""
import os as _os
_os.environ['VERIF_EVIDENCE_DIR'] = '/verif/work/evidence_scratch'
import glob, json, os, shutil, subprocess, sys, time
names = [a for a in sys.argv[1:] if not a.startswith('--')] or sorted(os.path.basename(d) for d in glob.glob('/verif/seeded/*') if os.path.isdir(d))
missed = []
for name in names:
    d = os.path.join('/verif/seeded', name)
    pid = name.split('-')[0]
    assert subprocess.run('git -C /repo status --porcelain', shell=True, capture_output=True, text=True).stdout.strip() == '', '/repo not clean'
    assert subprocess.run(['git', '-C', '/repo', 'apply', os.path.join(d, 'patch.diff')]).returncode == 0
    t0 = time.time()
    try:
        p = subprocess.run(['./check', pid, '--tier', 'quick'], cwd='/verif', stdout=subprocess.PIPE, stderr=subprocess.STDOUT, text=True, timeout=6000)
        lines = [l for l in p.stdout.splitlines() if l.startswith('VIOLATION') or l.startswith(pid + ':')]
        kinds = []
        for l in lines:
            if l.startswith('VIOLATION') and 'replay=' in l:
                try:
                    kinds.append(json.load(open(os.path.join('/verif', l.split('replay=')[1].split()[0]))).get('kind'))
                except Exception:
                    kinds.append('?')
        res = dict(exit=p.returncode, detected=(p.returncode == 1 and any(l.startswith('VIOLATION') for l in lines)), replay_kinds=kinds, lines=lines[:8], wall_s=round(time.time() - t0, 1))
    finally:
        subprocess.run('git -C /repo checkout -- .', shell=True)
        shutil.rmtree('/verif/evidence/replays', ignore_errors=True)
    json.dump(res, open(os.path.join(d, 'recheck.json'), 'w'), indent=1)
    if not res['detected']:
        missed.append(name)
    print(name, 'detected=%s' % res['detected'], res['replay_kinds'][:3], res['wall_s'], flush=True)
print('MISSED:', missed, flush=True)
