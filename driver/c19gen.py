"""Builder call sequences for C19: a Python copy of the type-state automaton (used only to GENERATE
sequences; the judgement that counts is Builder.typed evaluated in coqc), emitters to Rust source."""
import random

# call trees: [0,n] MaxAll  [1,k,n] MaxOf  [2,k,[vals]] Values  [3,[ids]] Program  [4] NoProgram
#             [5,k,name,v] Input  [6,n] StepLimit  [7] Build
U, WS, WSD = 0, 1, 2

class Auto:
    def __init__(self, nstacks):
        self.e = U; self.lim = U; self.st = [U] * nstacks
    def ok(self, c):
        t = c[0]
        if t == 0: return self.e != WSD and all(m != WSD for m in self.st)
        if t == 1: return c[1] < len(self.st) and self.st[c[1]] != WSD
        if t == 2: return c[1] < len(self.st) and self.st[c[1]] != U
        if t in (3, 4): return self.e == WS
        if t == 5: return c[1] < len(self.st)
        if t == 6: return True
        if t == 7: return self.e == WSD and self.lim == WSD
    def step(self, c):
        t = c[0]
        if t == 0: self.e = WS; self.st = [WS] * len(self.st)
        elif t == 1: self.st[c[1]] = WS
        elif t == 2: self.st[c[1]] = WSD
        elif t in (3, 4): self.e = WSD
        elif t == 6: self.lim = WSD

def typed(cs, nstacks):
    a = Auto(nstacks)
    for c in cs:
        if not a.ok(c): return False
        a.step(c)
    return True

# sizes and limits beyond i64::MAX are legitimate usize values
HUGE = [(1 << 63) - 1, 1 << 63, (1 << 63) + 1, (1 << 64) - 2, (1 << 64) - 1]

def rand_call(rng, stacks):
    k = rng.choice(stacks)
    t = rng.choice([0, 1, 1, 2, 2, 2, 3, 4, 5, 5, 6])
    if t == 0: return [0, rng.choice([0, 1, 2, 3, 5, 8, 20, HUGE[rng.randrange(len(HUGE))]])]
    if t == 1: return [1, k, rng.choice([0, 1, 2, 3, 5, 8, HUGE[rng.randrange(len(HUGE))]])]
    if t == 2: return [2, k, [rng.randint(0, 1) if k == 2 else rng.randint(-9, 9) for _ in range(rng.choice([0, 1, 2, 3, 4, 6]))]]
    if t == 3: return [3, [rng.randint(100, 120) for _ in range(rng.choice([0, 1, 2, 3, 5]))]]
    if t == 4: return [4]
    if t == 5: return [5, k, rng.randint(0, 3), rng.randint(0, 1) if k == 2 else rng.randint(-9, 9)]
    return [6, rng.choice([0, 1, 7, 1000, HUGE[rng.randrange(len(HUGE))]])]

def typed_sequence(rng, stacks, maxlen=9):
    """a random WELL-TYPED sequence ending in Build"""
    nst = max(stacks) + 1
    a = Auto(nst); cs = []
    # optional individual sizes before the global size
    for _ in range(rng.randint(0, 2)):
        c = [1, rng.choice(stacks), rng.choice([0, 1, 2, 5])]
        cs.append(c); a.step(c)
    c = [0, rng.choice([0, 1, 2, 3, 5, 8, 20])]; cs.append(c); a.step(c)
    for _ in range(rng.randint(0, maxlen)):
        for _try in range(20):
            c = rand_call(rng, stacks)
            if c[0] != 7 and a.ok(c):
                cs.append(c); a.step(c); break
    if a.e == WS:
        c = rng.choice([[4], [3, [rng.randint(100, 120) for _ in range(rng.randint(0, 3))]]]); cs.append(c); a.step(c)
    if a.lim != WSD:
        c = [6, rng.choice([0, 5, 1000])]; cs.append(c); a.step(c)
    for _ in range(rng.randint(0, 2)):
        c = rand_call(rng, stacks)
        if c[0] != 7 and a.ok(c):
            cs.append(c); a.step(c)
    cs.append([7])
    assert typed(cs, nst)
    return cs

def mutants(cs, rng, stacks):
    """ill-typed (mostly) neighbours of a well-typed sequence: each required step omitted, a resize after
    a load, values before any size, a second program decision, a global size after data"""
    out = []
    for i, c in enumerate(cs):
        if c[0] in (0, 3, 4, 6):
            out.append(cs[:i] + cs[i + 1:])
    for i, c in enumerate(cs):
        if c[0] == 2:
            out.append(cs[:i + 1] + [[1, c[1], 9]] + cs[i + 1:])
            out.append(cs[:i + 1] + [[0, 9]] + cs[i + 1:])
            out.append([c] + cs)
        if c[0] in (3, 4):
            out.append(cs[:i + 1] + [[4]] + cs[i + 1:])
            out.append(cs[:i + 1] + [[0, 7]] + cs[i + 1:])
    k = rng.choice(stacks)
    out.append([[2, k, [1]]] + cs)
    out.append(cs[:-1])            # no build: still a legal prefix
    return out

# ---- Rust emission -------------------------------------------------------------------------
PUSHSTATE = dict(ty='PushState', path='push::push_vm::push_state::PushState', stacks={0: 'int', 1: 'float', 2: 'bool'})
MINI = dict(ty='Mini', path='crate::c19::Mini', stacks={0: 'numbers', 2: 'flag'})

def rust_val(k, v):
    if k == 1: return 'OrderedFloat(%d.0)' % v if v >= 0 else 'OrderedFloat(-%d.0)' % (-v)
    if k == 2: return 'true' if v else 'false'
    return str(v)

def var_name(i):
    """must match harness/src/pushio.rs var_name"""
    k = i // 5
    return ['n%d', ' n%d', 'N%d', 'n%d ', 'n%d_'][i % 5] % k


def rust_chain(cs, spec):
    s = '%s::builder()' % spec['ty']
    for c in cs:
        t = c[0]
        if t == 0: s += '.with_max_stack_size(%d)' % c[1]
        elif t == 1: s += '.with_%s_max_size(%d)' % (spec['stacks'][c[1]], c[2])
        elif t == 2: s += '.with_%s_values([%s])?' % (spec['stacks'][c[1]], ', '.join(rust_val(c[1], v) for v in c[2])) if c[2] else \
                          '.with_%s_values(Vec::new())?' % spec['stacks'][c[1]]
        elif t == 3: s += '.with_program(vec![%s])?' % ', '.join('PushProgram::Instruction(PushInstruction::push_int(%d))' % v for v in c[1]) if c[1] else \
                          '.with_program(Vec::<PushProgram>::new())?'
        elif t == 4: s += '.with_no_program()'
        elif t == 5: s += '.with_%s_input("%s", %s)' % (spec['stacks'][c[1]], var_name(c[2]), rust_val(c[1], c[3]))
        elif t == 6: s += '.with_instruction_step_limit(%d)' % c[1]
        elif t == 7: s += '.build()'
    return s
