#!/usr/bin/env python3
"""seed_replays.py [name...]: for every kept seeded change (seeded/<name>/patch.diff) apply it to /repo, run the
quick check of its property, keep the first failing-input replay as seeded/<name>/replay.json (the corpus every
check runs first), record whether the check went red, and undo the patch straight afterwards."""
import os as _os
_os.environ['VERIF_EVIDENCE_DIR'] = '/verif/work/evidence_scratch'
import glob, json, os, shutil, subprocess, sys
names = [a for a in sys.argv[1:] if not a.startswith('--')] or sorted(os.path.basename(d) for d in glob.glob('/verif/seeded/*') if os.path.isdir(d))
for name in names:
    d = os.path.join('/verif/seeded', name)
    meta = json.load(open(os.path.join(d, 'meta.json')))
    pid = meta['property'].split(':')[0].strip() if ':' in meta['property'] else meta['property']
    pid = name.split('-')[0]
    if os.path.exists(os.path.join(d, 'replay.json')) and '--force' not in sys.argv:
        print(name, 'has a replay'); continue
    assert subprocess.run('git -C /repo status --porcelain', shell=True, capture_output=True, text=True).stdout.strip() == '', '/repo not clean'
    assert subprocess.run(['git', '-C', '/repo', 'apply', os.path.join(d, 'patch.diff')]).returncode == 0
    try:
        p = subprocess.run(['./check', pid, '--tier', 'quick'], cwd='/verif', stdout=subprocess.PIPE, stderr=subprocess.STDOUT, text=True, timeout=3000)
        got = None
        for l in p.stdout.splitlines():
            if l.startswith('VIOLATION') and 'replay=' in l:
                rp = os.path.join('/verif', l.split('replay=')[1].split()[0])
                try:
                    r = json.load(open(rp))
                except Exception:
                    continue
                if 'input' in r:
                    got = r; break
        if got:
            json.dump(got, open(os.path.join(d, 'replay.json'), 'w'))
        print(name, 'exit', p.returncode, 'replay kept' if got else 'NO failing-input replay')
    finally:
        subprocess.run('git -C /repo checkout -- .', shell=True)
        shutil.rmtree('/verif/evidence/replays', ignore_errors=True)
