#!/usr/bin/env python3
"""seed_eval.py <worktree> <seed index> <property> <name> [extra check ids...]
Confirms a seeded change (produced independently in a scratch worktree) and runs the checks against it:
 1. in the worktree: apply the patch, run the whole existing test suite (must pass), run the
    demonstration (must fail); revert, run the demonstration (must pass);
 2. apply the patch to /repo, run ./check <property> (and the extra ids), undo it straight afterwards.
Keeps patch, demonstration and meta.json under /verif/seeded/<name>/."""
import os as _os
_os.environ['VERIF_EVIDENCE_DIR'] = '/verif/work/evidence_scratch'
import json, os, shutil, subprocess, sys
wt, idx, prop, name = sys.argv[1:5]
extra = sys.argv[5:]
src = os.path.join(wt, 'seed', idx)
dst = os.path.join('/verif/seeded', name)
os.makedirs(dst, exist_ok=True)
meta = json.load(open(os.path.join(src, 'meta.json')))
env = dict(os.environ, CARGO_TARGET_DIR=os.path.join(wt, 'target'), CARGO_NET_OFFLINE='true')
def sh(cmd, cwd, timeout=3000):
    p = subprocess.run(cmd, shell=True, cwd=cwd, env=env, stdout=subprocess.PIPE, stderr=subprocess.STDOUT, text=True, timeout=timeout)
    return p.returncode, p.stdout
demo_dest = os.path.join(wt, meta['demo_dest'])
demo_cmd = meta['demo_cmd']
if '--offline' not in demo_cmd:
    demo_cmd += ' --offline'
cj = os.path.join(src, 'confirm.json')
if os.path.exists(cj):
    res = json.load(open(cj))
else:
    res = {}
    sh('git checkout -- . ', wt)
    rc, out = sh('git apply %s' % os.path.join(src, 'patch.diff'), wt); assert rc == 0, out
    rc, out = sh('cargo test --workspace --offline 2>&1 | grep -E "^test result|FAILED|error\\[" ', wt)
    res['suite_with_patch_passes'] = ('FAILED' not in out and 'error[' not in out and 'test result: ok' in out)
    os.makedirs(os.path.dirname(demo_dest), exist_ok=True)
    shutil.copy(os.path.join(src, 'demo.rs'), demo_dest)
    rc, out = sh(demo_cmd, wt); res['demo_fails_with_patch'] = (rc != 0)
    res['demo_with_patch_tail'] = out[-600:]
    sh('git checkout -- . ', wt)
    rc, out = sh(demo_cmd, wt); res['demo_passes_without_patch'] = (rc == 0)
    os.remove(demo_dest)
# against the checks
shutil.copy(os.path.join(src, 'patch.diff'), os.path.join(dst, 'patch.diff'))
shutil.copy(os.path.join(src, 'demo.rs'), os.path.join(dst, 'demo.rs'))
rc, out = sh('git -C /repo apply %s' % os.path.join(dst, 'patch.diff'), '/verif'); assert rc == 0, out
checks = {}
try:
    for pid in [prop] + extra:
        p = subprocess.run(['./check', pid, '--tier', 'quick'], cwd='/verif', stdout=subprocess.PIPE, stderr=subprocess.STDOUT, text=True, timeout=3000)
        lines = [l for l in p.stdout.splitlines() if l.startswith('VIOLATION') or l.startswith('KNOWN') or l.startswith(pid + ':')]
        replay = None
        for l in lines:
            if l.startswith('VIOLATION') and 'replay=' in l:
                rp = l.split('replay=')[1].split()[0]
                try:
                    d = json.load(open(os.path.join('/verif', rp)))
                    if pid == prop and 'input' in d:
                        json.dump(d, open(os.path.join(dst, 'replay.json'), 'w'))
                    replay = dict(kind=d.get('kind'), key=d.get('key'), description=(d.get('description') or '')[:400], input=json.dumps(d.get('input'))[:300])
                except Exception:
                    pass
                break
        checks[pid] = dict(exit=p.returncode, lines=lines[:8], first_replay=replay)
finally:
    subprocess.run('git -C /repo checkout -- .', shell=True)
    shutil.rmtree('/verif/evidence/replays', ignore_errors=True)
res['checks'] = checks
res['detected_by'] = [pid for pid, c in checks.items() if c['exit'] == 1]
meta_out = dict(property=prop, summary=meta.get('summary'), needs=meta.get('needs'), demo_dest=meta['demo_dest'], demo_cmd=meta['demo_cmd'],
                produced_by='independent sub-agent given only the property text and a scratch worktree', confirmation=res)
json.dump(meta_out, open(os.path.join(dst, 'meta.json'), 'w'), indent=1)
print(name, 'suite_ok=%s demo_fails=%s demo_clean_ok=%s detected_by=%s' % (res['suite_with_patch_passes'], res['demo_fails_with_patch'], res['demo_passes_without_patch'], res['detected_by']))
