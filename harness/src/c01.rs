//! C01/C02/C03: the Push interpreter and its instructions, run on the real `PushState`.
//!
//! input  = [mode, strings, state, extra]
//!   mode 0: `state.run_to_completion()`           (extra ignored)
//!   mode 1: `extra.perform(state)` for one program element (instruction or block)
//! observation
//!   mode 0: [class, state, errkind]               class 0 = Ok, 2 = fatal error
//!   mode 1: [class, state, errkind, state_eq]     class 0 = Ok, 1 = recoverable, 2 = fatal;
//!           state_eq = 1 iff the state carried by the error == a clone of the input state
//!   [-1] = panic
use push::error::into_state::IntoState;
use push::instruction::instruction_error::PushInstructionError;
use push::instruction::{Instruction, IntInstructionError};
use push::push_vm::stack::StackError;
use push::push_vm::State;

use crate::pushio::*;
use crate::*;

pub const PROP: Prop = Prop { name: "C01", gen, run };
pub const PROP2: Prop = Prop { name: "C02", gen: gen_c02, run };
pub const PROP3: Prop = Prop { name: "C03", gen: gen_c03, run };

fn errkind(e: &PushInstructionError) -> i128 {
    match e {
        PushInstructionError::StackError(StackError::Underflow { .. }) => 1,
        PushInstructionError::StackError(StackError::Overflow { .. }) => 2,
        PushInstructionError::Int(IntInstructionError::Overflow { .. }) => 3,
        _ => 4,
    }
}

pub fn run(input: &Tree) -> Option<Tree> {
    let l = input.list()?;
    let strings = strings_of(l.get(1)?)?;
    let state = mk_state(l.get(2)?, &strings)?;
    match l.first()?.int()? {
        0 => Some(match state.run_to_completion() {
            Ok(s) => tl![A(0), state_tree(&s, &strings), A(0), ab(inputs_intact(&s, l.get(2)?))],
            Err(e) => {
                let d = format!("{e:?}");
                let k = fatal_kind(&d, 4);
                let st = e.into_state();
                tl![A(2), state_tree(&st, &strings), A(k), ab(inputs_intact(&st, l.get(2)?))]
            }
        }),
        3 => {
            // PrintChar<C> for characters beyond ASCII (the instruction is generic in the character): [3, strings, state, [code point]]
            use push::instruction::printing::PrintChar;
            let cp = l.get(3)?.list()?.first()?.int()?;
            let before = state.clone();
            macro_rules! pc {
                ($c:literal) => {
                    PrintChar::<$c>::default().perform(state)
                };
            }
            let r = match cp {
                0x78 => pc!('x'),
                0xE9 => pc!('\u{e9}'),
                0x3BB => pc!('\u{3bb}'),
                0x1F980 => pc!('\u{1f980}'),
                0x7F => pc!('\u{7f}'),
                0x80 => pc!('\u{80}'),
                0xFF => pc!('\u{ff}'),
                0x100 => pc!('\u{100}'),
                0xFFFD => pc!('\u{fffd}'),
                _ => return None,
            };
            Some(match r {
                Ok(s) => tl![A(0), state_tree(&s, &strings), A(0), ab(inputs_intact(&s, l.get(2)?))],
                Err(e) => {
                    let class = if e.is_recoverable() { 1 } else { 2 };
                    let k = errkind(e.error());
                    let same = *e.state() == before;
                    tl![A(class), state_tree(e.state(), &strings), A(k), ab(same)]
                }
            })
        }
        2 => {
            // two phases: run until the step limit (or the end), LOOK at the printed output on the state itself, run on
            // from there - looking at the output must not disturb it (observed as mode 0 observes the second run)
            let st_tree = l.get(2)?;
            macro_rules! fin {
                ($r:expr) => {
                    match $r {
                        Ok(s) => tl![A(0), state_tree(&s, &strings), A(0), ab(inputs_intact(&s, st_tree))],
                        Err(e) => {
                            let d = format!("{e:?}");
                            let k = fatal_kind(&d, 4);
                            let st = e.into_state();
                            tl![A(2), state_tree(&st, &strings), A(k), ab(inputs_intact(&st, st_tree))]
                        }
                    }
                };
            }
            Some(match state.run_to_completion() {
                Ok(mut s1) => {
                    let _ = s1.stdout_string();
                    fin!(s1.run_to_completion())
                }
                Err(e) => {
                    let d = format!("{e:?}");
                    let k = fatal_kind(&d, 4);
                    let st = e.into_state();
                    tl![A(2), state_tree(&st, &strings), A(k), ab(inputs_intact(&st, st_tree))]
                }
            })
        }
        1 => {
            let p = mk_prog(l.get(3)?, &strings)?;
            let before = state.clone();
            Some(match p.perform(state) {
                Ok(s) => tl![A(0), state_tree(&s, &strings), A(0), ab(inputs_intact(&s, l.get(2)?))],
                Err(e) => {
                    let class = if e.is_recoverable() { 1 } else { 2 };
                    let k = errkind(e.error());
                    let same = *e.state() == before;
                    tl![A(class), state_tree(e.state(), &strings), A(k), ab(same)]
                }
            })
        }
        _ => None,
    }
}

// ---------------------------------------------------------------- generators
pub const IVALS: &[i64] = &[
    i64::MIN,
    i64::MIN + 1,
    -4294967296,
    -3037000500,
    -3,
    -2,
    -1,
    0,
    1,
    2,
    3,
    7,
    62,
    63,
    64,
    3037000499,
    3037000500,
    2147483648,
    4294967295,
    4294967296,
    4611686018427387904,
    i64::MAX - 1,
    i64::MAX,
];
pub fn fvals() -> Vec<u64> {
    let mut v: Vec<u64> = [
        f64::NAN,
        f64::INFINITY,
        f64::NEG_INFINITY,
        0.0,
        -0.0,
        1.0,
        -1.0,
        0.1,
        -2.5,
        3.0,
        5e-324,
        f64::MAX,
        f64::MIN,
        1e21,
        9007199254740993.0,
        9223372036854775807.0,
        -9223372036854775808.0,
        9223372036854775808.0 * 2.0,
        1e-7,
        123456.789,
        0.3,
    ]
    .iter()
    .map(|f| fbits(*f))
    .collect();
    v.push(0xFFF8_0000_0000_0001); // another NaN payload
    v
}

/// all non-literal, non-input instructions as trees
pub fn plain_instrs() -> Vec<Tree> {
    let mut v = vec![];
    for tag in 0..=5 {
        for k in 0..=3 {
            v.push(tl![A(tag), A(k)]);
        }
    }
    for k in 0..=2 {
        v.push(tl![A(10), A(k), A(0)]);
        v.push(tl![A(10), A(k), A(1)]);
    }
    for (tag, n) in [(11, 3), (12, 2), (13, 6), (14, 2), (16, 5), (17, 6), (20, 4), (21, 6), (24, 4)] {
        for o in 0..n {
            v.push(tl![A(tag), A(o)]);
        }
    }
    for tag in [15, 18, 19, 22, 23, 25, 26, 27, 28, 29, 30, 32, 33, 34] {
        v.push(tl![A(tag)]);
    }
    v
}

fn rand_int(rng: &mut Sm) -> i64 {
    match rng.below(10) {
        0..=2 => *rng.pick(IVALS),
        3..=7 => rng.range(-10, 10),
        _ => rng.next() as i64,
    }
}
fn rand_fbits(rng: &mut Sm, fv: &[u64]) -> u64 {
    match rng.below(10) {
        0..=3 => *rng.pick(fv),
        4..=7 => fbits(rng.range(-20, 20) as f64 / 4.0),
        _ => fbits(f64::from_bits(rng.next())),
    }
}

struct Ctx {
    nvars: usize,
    nstrings: usize,
    fv: Vec<u64>,
    plain: Vec<Tree>,
}

fn rand_instr(rng: &mut Sm, c: &Ctx, depth: usize) -> Tree {
    match rng.below(100) {
        0..=17 => tl![A(6), a(rand_int(rng))],
        18..=27 => tl![A(7), a(rand_fbits(rng, &c.fv))],
        28..=35 => tl![A(8), a(rng.range(0, 1))],
        36..=39 if depth < 4 => tl![A(9), rand_prog(rng, c, depth + 1)],
        40..=45 if c.nvars > 0 => tl![A(31), au(rng.below(c.nvars))],
        46..=47 if c.nstrings > 0 => tl![A(35), au(rng.below(c.nstrings))],
        _ => rng.pick(&c.plain).clone(),
    }
}

fn opens(t: &Tree) -> usize {
    match t.list().and_then(|l| l.first()).and_then(Tree::int) {
        Some(27..=29) => 1,
        Some(30) => 2,
        _ => 0,
    }
}

fn rand_block(rng: &mut Sm, c: &Ctx, depth: usize, maxlen: usize) -> Vec<Tree> {
    let n = rng.below(maxlen + 1);
    let mut v = vec![];
    for _ in 0..n {
        let i = rand_instr(rng, c, depth);
        let k = opens(&i);
        v.push(i);
        // usually the blocks an opener expects follow it; sometimes they are missing
        for _ in 0..k {
            if depth < 5 && rng.chance(9, 10) {
                let mut b = vec![A(100)];
                b.extend(rand_block(rng, c, depth + 1, 4));
                v.push(L(b));
            }
        }
        if depth < 5 && rng.chance(1, 25) {
            let mut b = vec![A(100)];
            b.extend(rand_block(rng, c, depth + 1, 3));
            v.push(L(b));
        }
    }
    v
}

fn rand_prog(rng: &mut Sm, c: &Ctx, depth: usize) -> Tree {
    if rng.chance(1, 2) {
        rand_instr(rng, c, depth + 1)
    } else {
        let mut b = vec![A(100)];
        b.extend(rand_block(rng, c, depth + 1, 3));
        L(b)
    }
}

fn rand_cap(rng: &mut Sm, len: usize) -> usize {
    match rng.below(10) {
        0 => len,                       // exactly full
        1 => len + 1,                   // one below full
        2..=7 => len + 2 + rng.below(10),
        _ => len + 50,
    }
}

fn strings_tree() -> Tree {
    L(["", "hello", "a\nb", "x=%d \u{e9}"].iter().map(|s| L(s.bytes().map(a).collect())).collect())
}

fn rand_state(rng: &mut Sm, c: &Ctx, exec: Vec<Tree>, steps: usize, wf: bool) -> Tree {
    let ni = rng.below(5);
    let nf = rng.below(4);
    let nb = rng.below(4);
    let ints: Vec<Tree> = (0..ni).map(|_| a(rand_int(rng))).collect();
    let fl: Vec<Tree> = (0..nf).map(|_| a(rand_fbits(rng, &c.fv))).collect();
    let bs: Vec<Tree> = (0..nb).map(|_| a(rng.range(0, 1))).collect();
    let mut caps = [rand_cap(rng, exec.len()) + if rng.chance(3, 4) { 20 } else { 0 }, rand_cap(rng, ni), rand_cap(rng, nf), rand_cap(rng, nb)];
    if !wf {
        // capacity lowered beneath the contents of one stack
        let k = rng.below(4);
        let len = [exec.len(), ni, nf, nb][k];
        if len > 0 {
            caps[k] = rng.below(len);
        }
    }
    let inputs: Vec<Tree> = (0..c.nvars)
        .map(|i| match rng.below(3) {
            0 => tl![au(i), A(0), a(rand_int(rng))],
            1 => tl![au(i), A(1), a(rand_fbits(rng, &c.fv))],
            _ => tl![au(i), A(2), a(rng.range(0, 1))],
        })
        .collect();
    tl![au(caps[0]), L(exec), au(caps[1]), L(ints), au(caps[2]), L(fl), au(caps[3]), L(bs), L(inputs), au(steps)]
}

fn ctx(nvars: usize) -> Ctx {
    Ctx { nvars, nstrings: 4, fv: fvals(), plain: plain_instrs() }
}

fn check_universe(g: &mut Gen) {
    let known: std::collections::HashSet<String> = plain_instrs().iter().map(|t| t.to_string()).collect();
    let mut unknown = vec![];
    for (name, t) in universe() {
        match t {
            None => unknown.push(name),
            Some(t) => {
                let tag = t.list().unwrap()[0].int().unwrap();
                if !(6..=9).contains(&tag) && !known.contains(&t.to_string()) {
                    unknown.push(name);
                }
            }
        }
    }
    g.meta("instruction_universe", universe().len());
    if !unknown.is_empty() {
        g.meta("unknown_instructions", unknown.join(","));
    }
}

/// a state in which `instr` finds operands drawn from the boundary lists
fn boundary_state(rng: &mut Sm, c: &Ctx, ints: Vec<i64>, fl: Vec<u64>, bs: Vec<bool>, exec: Vec<Tree>, slack: [usize; 4]) -> Tree {
    let _ = rng;
    let _ = c;
    tl![
        au(exec.len() + slack[0]),
        L(exec),
        au(ints.len() + slack[1]),
        L(ints.into_iter().map(a).collect()),
        au(fl.len() + slack[2]),
        L(fl.into_iter().map(a).collect()),
        au(bs.len() + slack[3]),
        L(bs.into_iter().map(ab).collect()),
        L(vec![]),
        A(10)
    ]
}

fn single_cases(g: &mut Gen, rng: &mut Sm, c: &Ctx, per_instr: usize, exhaustive_pairs: bool) {
    let blocks = [tl![A(100), tl![A(6), A(1)]], tl![A(26)], tl![A(100)]];
    for ins in &c.plain {
        let mut n = 0;
        // pairs of boundary ints (exhaustive over the list when asked), with a third sentinel below
        // the core boundary values are always paired exhaustively; the long lists are sampled (quick) or
        // paired exhaustively too (thorough)
        const ICORE: &[i64] = &[i64::MIN, i64::MIN + 1, -2, -1, 0, 1, 2, 63, 64, i64::MAX - 1, i64::MAX];
        let fcore: Vec<u64> = [f64::NAN, f64::INFINITY, f64::NEG_INFINITY, 0.0, -0.0, 1.0, -1.0, f64::MAX, 5e-324, 9223372036854775807.0, 0.5]
            .iter()
            .map(|f| fbits(*f))
            .collect();
        let mut pairs: Vec<(i64, i64)> = ICORE.iter().flat_map(|x| ICORE.iter().map(move |y| (*x, *y))).collect();
        let mut fpairs: Vec<(u64, u64)> = fcore.iter().flat_map(|x| fcore.iter().map(move |y| (*x, *y))).collect();
        if exhaustive_pairs {
            pairs.extend(IVALS.iter().flat_map(|x| IVALS.iter().map(move |y| (*x, *y))));
            fpairs.extend(c.fv.iter().flat_map(|x| c.fv.iter().map(move |y| (*x, *y))));
        } else {
            pairs.extend((0..per_instr).map(|_| (*rng.pick(IVALS), *rng.pick(IVALS))));
            fpairs.extend((0..per_instr).map(|_| (*rng.pick(&c.fv), *rng.pick(&c.fv))));
        }
        let tag = ins.list().unwrap()[0].int().unwrap();
        let uses_float = matches!(tag, 19 | 20 | 21) || (tag <= 5 && ins.list().unwrap()[1].int() == Some(1)) || (tag == 10 && ins.list().unwrap()[1].int() == Some(1));
        let total = if uses_float { fpairs.len() } else { pairs.len() };
        for j in 0..total {
            let (x, y) = pairs[j % pairs.len()];
            let (fx, fy) = fpairs[j % fpairs.len()];
            let third = *rng.pick(IVALS);
            let nexec = rng.below(3);
            let exec: Vec<Tree> = (0..nexec).map(|_| rng.pick(&blocks).clone()).collect();
            let slack = [rng.below(3), rng.below(3), rng.below(3), rng.below(3)];
            let (b1, b2) = (rng.chance(1, 2), rng.chance(1, 2));
            let st = boundary_state(rng, c, vec![x, y, third, 77], vec![fx, fy, fbits(7.5)], vec![b1, b2, true], exec, slack);
            g.inputs.push(tl![A(1), strings_tree(), st, ins.clone()]);
            n += 1;
        }
        let _ = n;
    }
}

fn program_cases(g: &mut Gen, rng: &mut Sm, n: usize, max_steps: usize) {
    for i in 0..n {
        let c = ctx(rng.below(4));
        let mut exec = vec![];
        // mostly-valid: operands first
        if i % 10 < 7 {
            for _ in 0..rng.below(5) {
                exec.push(tl![A(6), a(rand_int(rng))]);
            }
            for _ in 0..rng.below(4) {
                exec.push(tl![A(7), a(rand_fbits(rng, &c.fv))]);
            }
            for _ in 0..rng.below(3) {
                exec.push(tl![A(8), a(rng.range(0, 1))]);
            }
        }
        let n = 5 + rng.below(40);
        exec.extend(rand_block(rng, &c, 0, n));
        let steps = match rng.below(10) {
            0 => rng.below(4),
            1..=3 => rng.below(30),
            _ => 20 + rng.below(max_steps),
        };
        let st = rand_state(rng, &c, exec, steps, true);
        g.inputs.push(tl![A(0), strings_tree(), st, L(vec![])]);
    }
}

fn gen(tier: &str, rng: &mut Sm) -> Gen {
    let mut g = Gen::new();
    check_universe(&mut g);
    let c = ctx(0);
    let thorough = tier == "thorough";
    single_cases(&mut g, rng, &c, if thorough { 0 } else { 10 }, thorough);
    // every instruction on every combination of small stack sizes (empty stacks, missing blocks, ...)
    lattice(&mut g, rng, &ctx(3), false);
    // literals, blocks and input variables as single steps
    for _ in 0..(if thorough { 3000 } else { 400 }) {
        let c = ctx(3);
        let p = rand_prog(rng, &c, 0);
        let st = rand_state(rng, &c, vec![], 10, true);
        g.inputs.push(tl![A(1), strings_tree(), st, p]);
    }
    program_cases(&mut g, rng, if thorough { 30000 } else { 1500 }, if thorough { 400 } else { 150 });
    // PrintChar at characters beyond ASCII, after some earlier output
    for cp in [0x78i128, 0xE9, 0x3BB, 0x1F980, 0x7F, 0x80, 0xFF, 0x100, 0xFFFD] {
        let st = tl![A(3), L(vec![]), A(3), L(vec![A(5)]), A(3), L(vec![]), A(3), L(vec![]), L(vec![]), A(10)];
        g.inputs.push(tl![A(3), strings_tree(), st, L(vec![a(cp)])]);
    }
    // two-phase runs (the output is looked at between the phases): printing programs under small step limits, and every
    // fifth random program again
    {
        let printing = vec![
            tl![A(6), A(42)], tl![A(10), A(0), A(0)], tl![A(35), A(1)], tl![A(6), A(-7)], tl![A(10), A(0), A(1)], tl![A(8), A(1)], tl![A(10), A(2), A(0)],
            tl![A(32)], tl![A(7), a(fbits(2.5))], tl![A(10), A(1), A(1)], tl![A(34)], tl![A(35), A(2)], tl![A(33)],
        ];
        for lim in 0..=14usize {
            let st = tl![A(20), L(printing.clone()), A(5), L(vec![]), A(5), L(vec![]), A(5), L(vec![]), L(vec![]), au(lim)];
            g.inputs.push(tl![A(2), strings_tree(), st, L(vec![])]);
        }
        let twins: Vec<Tree> = g.inputs.iter().filter(|i| i.list().is_some_and(|l| l[0].int() == Some(0))).step_by(5).cloned().collect();
        for t in twins {
            let mut l = t.list().unwrap().to_vec();
            l[0] = A(2);
            g.inputs.push(L(l));
        }
    }
    g.meta("generator", "every instruction x boundary operand values (single perform) + random nested programs (run_to_completion) + two-phase runs with the printed output looked at in between");
    g
}

// ---- C02: the fault-point lattice ------------------------------------------------------
fn lattice(g: &mut Gen, rng: &mut Sm, c: &Ctx, full: bool) {
    let blocks = [tl![A(100), tl![A(6), A(1)], tl![A(26)]], tl![A(26)], tl![A(100)]];
    let mut all = c.plain.clone();
    all.push(tl![A(6), A(5)]);
    all.push(tl![A(7), a(fbits(2.5))]);
    all.push(tl![A(8), A(1)]);
    all.push(tl![A(9), tl![A(26)]]);
    all.push(tl![A(31), A(0)]);
    all.push(tl![A(31), A(1)]);
    all.push(tl![A(31), A(2)]);
    all.push(tl![A(35), A(1)]);
    all.push(tl![A(100), tl![A(26)], tl![A(6), A(3)]]);
    all.push(tl![A(100)]);
    let sizes = [0usize, 1, 2, 3, 4];
    for ins in &all {
        // sizes of the four stacks x slack of the four stacks; full lattice on the stacks the
        // instruction touches is what the thorough tier enumerates, the quick tier samples it
        let combos: Vec<[usize; 8]> = if full {
            let mut v = vec![];
            for &ni in &sizes {
                for &nb in &[0usize, 1, 2, 3] {
                    for &nf in &[0usize, 1, 2, 3] {
                        for &ne in &[0usize, 1, 2, 3] {
                            for sl in 0..16usize {
                                // slack 0 or 1 per stack (+ a 2 sampled)
                                let s = [sl & 1, (sl >> 1) & 1, (sl >> 2) & 1, (sl >> 3) & 1];
                                v.push([ne, ni, nf, nb, s[0], s[1], s[2], s[3]]);
                            }
                        }
                    }
                }
            }
            v
        } else {
            (0..60)
                .map(|_| [rng.below(4), rng.below(5), rng.below(4), rng.below(4), rng.below(3), rng.below(3), rng.below(3), rng.below(3)])
                .collect()
        };
        for cb in combos {
            let exec: Vec<Tree> = (0..cb[0]).map(|i| blocks[i % 3].clone()).collect();
            let ints: Vec<Tree> = (0..cb[1]).map(|i| a([5i64, -3, 2, i64::MAX][i % 4])).collect();
            let fl: Vec<Tree> = (0..cb[2]).map(|i| a(fbits([1.5f64, 0.0, -2.0][i % 3]))).collect();
            let bs: Vec<Tree> = (0..cb[3]).map(|i| ab(i % 2 == 0)).collect();
            let inputs = vec![tl![A(0), A(0), A(41)], tl![A(1), A(1), a(fbits(0.5))], tl![A(2), A(2), A(1)]];
            let st = tl![
                au(cb[0] + cb[4]),
                L(exec),
                au(cb[1] + cb[5]),
                L(ints),
                au(cb[2] + cb[6]),
                L(fl),
                au(cb[3] + cb[7]),
                L(bs),
                L(inputs),
                A(9)
            ];
            g.inputs.push(tl![A(1), strings_tree(), st, ins.clone()]);
        }
    }
}

fn gen_c02(tier: &str, rng: &mut Sm) -> Gen {
    let mut g = Gen::new();
    check_universe(&mut g);
    let c = ctx(3);
    let thorough = tier == "thorough";
    lattice(&mut g, rng, &c, thorough);
    // boundary values at the fault points too
    single_cases(&mut g, rng, &c, 12, false);
    // the interpreter skips a failed instruction: programs with tight capacities and few operands
    for _ in 0..(if thorough { 6000 } else { 600 }) {
        let c = ctx(rng.below(3));
        let n = 4 + rng.below(20);
        let exec = rand_block(rng, &c, 0, n);
        let steps = rng.below(60);
        let st = rand_state(rng, &c, exec, steps, true);
        g.inputs.push(tl![A(0), strings_tree(), st, L(vec![])]);
    }
    g.meta("generator", "fault-point lattice (every instruction x stack sizes 0..4 x capacity slack) + boundary values + sparse-operand programs");
    g
}

// ---- C03: loops, limits, growth -------------------------------------------------------
fn gen_c03(tier: &str, rng: &mut Sm) -> Gen {
    let mut g = Gen::new();
    check_universe(&mut g);
    let thorough = tier == "thorough";
    let c = ctx(2);
    let noop = tl![A(26)];
    let dupb = tl![A(27)];
    let dup_e = tl![A(1), A(3)];
    // self-replicating: DupBlock [DupBlock] ... ; exponential growth: blocks of dups
    // a LONG evaluation: a counting loop run for 1.2 million steps (about a second) must end exactly at its step
    // limit, in the state the semantics prescribe
    {
        let block = tl![A(100), tl![A(6), A(1)], tl![A(13), A(0)], tl![A(27)]];
        let st = tl![A(10), L(vec![tl![A(27)], block]), A(5), L(vec![A(0)]), A(2), L(vec![]), A(2), L(vec![]), L(vec![]), au(1_200_001)];
        g.inputs.push(tl![A(0), strings_tree(), st, L(vec![])]);
    }
    let seeds: Vec<Vec<Tree>> = vec![
        vec![dupb.clone(), tl![A(100), dupb.clone()]],
        vec![dupb.clone(), tl![A(100), dupb.clone(), tl![A(100), dupb.clone()]]],
        vec![dup_e.clone(), dup_e.clone(), dup_e.clone(), dup_e.clone()],
        vec![tl![A(9), tl![A(100), dup_e.clone(), dup_e.clone()]], dup_e.clone(), dup_e.clone()],
        vec![tl![A(100), tl![A(100), dup_e.clone(), dup_e.clone(), noop.clone()], dup_e.clone()], dup_e.clone()],
        vec![tl![A(6), A(3)], tl![A(1), A(0)], tl![A(13), A(2)], dupb.clone(), tl![A(100), tl![A(1), A(0)], tl![A(13), A(2)], dupb.clone()]],
    ];
    let limits: Vec<usize> = if thorough { (0..120).collect() } else { (0..40).collect() };
    for s in &seeds {
        for &lim in &limits {
            for cap in [0usize, 1, 2, 3, 5, 8, 30] {
                let st = tl![au(cap.max(s.len())), L(s.clone()), au(cap), L(vec![]), au(cap), L(vec![]), au(cap), L(vec![]), L(vec![]), au(lim)];
                g.inputs.push(tl![A(0), strings_tree(), st, L(vec![])]);
            }
        }
    }
    // loop-heavy random programs, every limit from 0 for some of them
    for i in 0..(if thorough { 4000 } else { 500 }) {
        let n = 3 + rng.below(12);
        let mut exec = rand_block(rng, &c, 0, n);
        for _ in 0..rng.below(4) {
            let pos = rng.below(exec.len() + 1);
            exec.insert(pos, rng.pick(&[dupb.clone(), dup_e.clone(), tl![A(9), tl![A(100), dup_e.clone()]]]).clone());
        }
        if i % 5 == 0 {
            let base = rand_state(rng, &c, exec, 0, true);
            for lim in 0..12usize {
                let mut st = base.list().unwrap().to_vec();
                st[9] = au(lim);
                g.inputs.push(tl![A(0), strings_tree(), L(st), L(vec![])]);
            }
        } else {
            let steps = rng.below(if thorough { 2000 } else { 300 });
            let st = rand_state(rng, &c, exec, steps, true);
            g.inputs.push(tl![A(0), strings_tree(), st, L(vec![])]);
        }
    }
    // deep nesting (well inside the native stack): depth d of PushE / blocks
    for d in [10usize, 100, 500, 1000] {
        let mut p = noop.clone();
        for k in 0..d {
            p = if k % 2 == 0 { tl![A(100), p, noop.clone()] } else { tl![A(9), p] };
        }
        let st = tl![A(50), L(vec![p]), A(5), L(vec![]), A(5), L(vec![]), A(5), L(vec![]), L(vec![]), au(3 * d + 10)];
        g.inputs.push(tl![A(0), strings_tree(), st, L(vec![])]);
    }
    // ENORMOUS stack limits (nothing may be reserved up to the limit): programs with blocks under limits up to usize::MAX
    for cap in [u64::MAX as i128, (u64::MAX / 2) as i128, 1i128 << 60, 1i128 << 40] {
        let prog = vec![tl![A(100), tl![A(6), A(1)], tl![A(100), tl![A(6), A(2)], tl![A(13), A(0)]]], tl![A(27)], tl![A(100), tl![A(26)], tl![A(6), A(3)]], tl![A(6), A(4)]];
        let st = tl![a(cap), L(prog), a(cap), L(vec![]), a(cap), L(vec![]), a(cap), L(vec![]), L(vec![]), A(50)];
        g.inputs.push(tl![A(0), strings_tree(), st, L(vec![])]);
    }
    // extreme numeric values: no instruction may panic or abort on them
    single_cases(&mut g, rng, &c, 0, false);
    // starved states: every instruction with 0, 1 or 2 elements on every value stack and 0, 1 or 2 items on the
    // exec stack - a missing operand (of any kind, also a missing block) is skipped, never an error
    {
        let blocks = [tl![A(100), tl![A(6), A(1)]], tl![A(26)]];
        for ins in &c.plain {
            for d in 0..3usize {
                for e in 0..3usize {
                    let st = boundary_state(rng, &c, [5i64, -3][..d].to_vec(), [fbits(1.5), fbits(-2.0)][..d].to_vec(), [true, false][..d].to_vec(), blocks[..e].to_vec(), [2, 2, 2, 2]);
                    g.inputs.push(tl![A(1), strings_tree(), st, ins.clone()]);
                }
            }
        }
    }
    // unbound input variable: the documented panic (outside the proviso; model value Panic)
    let st = tl![A(5), L(vec![tl![A(31), A(7)]]), A(5), L(vec![]), A(5), L(vec![]), A(5), L(vec![]), L(vec![]), A(5)];
    g.inputs.push(tl![A(0), strings_tree(), st, L(vec![])]);
    g.meta("generator", "self-replicating / exponentially growing programs x limit sweep x capacities from 0, loop-heavy random programs, nesting depth <= 1000, every instruction on starved states (0..2 elements per value stack x 0..2 exec items)");
    g
}
