//! C09: Generation::serial_next / par_next with an instrumented child maker.
//! input = [mode, population, fail_at]   mode 0 = serial_next, T > 0 = par_next in a rayon pool of T threads
//!   mode 500 + T: ISLANDS, two Generation values stepping at the same time (see run_island)
//!   mode 400 + T: BULK step, population = [n] (see run_bulk)
//!   mode 100 + T: the same with scored individuals and a child maker built through GenomeScorer (probe genome maker + scorer)
//!      or [mode, population, fail_at, [[mode, fail_at]...]]: further steps of the SAME Generation value
//!         (observation then has a 4th element: the list of [result, population afterwards, log] of those steps)
//! observation = [[0] | [1, error], population afterwards,
//!                [[saw the generation's own population (address), saw the old contents, word1, word2, 0|1, child|error
//!                  (, tail of a 15-byte bulk draw - populations of at most 64)]...]]
use std::sync::atomic::{AtomicI64, AtomicUsize, Ordering};
use std::sync::{Arc, Mutex};

use ec_core::generation::Generation;
use ec_core::individual::ec::EcIndividual;
use ec_core::individual::scorer::FnScorer;
use ec_core::operator::genome_scorer::GenomeScorer;
use ec_core::operator::{Composable, Operator};
use ec_core::test_results::{Score, TestResults};

use crate::*;

pub const PROP: Prop = Prop { name: "C09", gen, run };

#[derive(Debug)]
struct CmErr(i64);

#[derive(Clone)]
struct Probe {
    log: Arc<Mutex<Vec<Tree>>>,
    calls: Arc<AtomicI64>,
    fail_at: Arc<AtomicI64>,
    old: Arc<Mutex<Vec<i64>>>,
    addr: Arc<AtomicUsize>,
}
impl Composable for Probe {}
impl<'p> Operator<&'p Vec<i64>> for Probe {
    type Output = i64;
    type Error = CmErr;
    fn apply<R: rand::Rng + ?Sized>(&self, pop: &'p Vec<i64>, rng: &mut R) -> Result<i64, CmErr> {
        let k = self.calls.fetch_add(1, Ordering::SeqCst);
        let (w1, w2) = (rng.next_u64(), rng.next_u64());
        let w3 = tail_draw(rng);
        let addr_ok = std::ptr::eq(pop, self.addr.load(Ordering::SeqCst) as *const Vec<i64>);
        let same = *pop == *self.old.lock().unwrap();
        let child = (w1 >> 2) as i64;
        let failed = k == self.fail_at.load(Ordering::SeqCst);
        let mut entry = vec![ab(addr_ok), ab(same), a(w1), a(w2), ab(failed), a(if failed { k } else { child })];
        if pop.len() <= 64 {
            entry.push(a(w3));
        }
        self.log.lock().unwrap().push(L(entry));
        if failed {
            Err(CmErr(k))
        } else {
            Ok(child)
        }
    }
}

/// a BULK draw whose length is not a multiple of the word size: the 7 bytes after the first word of a 15-byte fill, as a
/// number (a generator adapter that fills whole words only leaves them unwritten - the same in every child); reported
/// for populations of at most 64, where 56 bits are enough for "pairwise distinct" to be beyond doubt
fn tail_draw<R: rand::Rng + ?Sized>(rng: &mut R) -> u64 {
    let mut buf = [0u8; 15];
    rng.fill_bytes(&mut buf);
    let mut t = [0u8; 8];
    t[..7].copy_from_slice(&buf[8..15]);
    u64::from_le_bytes(t)
}

type Ind = EcIndividual<i64, TestResults<Score<i64>>>;
fn score_of(g: &i64) -> TestResults<Score<i64>> {
    vec![g.rem_euclid(1000), 1].into_iter().collect()
}
/// the genome-making half of a GenomeScorer child maker, instrumented like `Probe`
#[derive(Clone)]
struct GProbe(Probe);
impl Composable for GProbe {}
impl<'p> Operator<&'p Vec<Ind>> for GProbe {
    type Output = i64;
    type Error = CmErr;
    fn apply<R: rand::Rng + ?Sized>(&self, pop: &'p Vec<Ind>, rng: &mut R) -> Result<i64, CmErr> {
        let p = &self.0;
        let k = p.calls.fetch_add(1, Ordering::SeqCst);
        let (w1, w2) = (rng.next_u64(), rng.next_u64());
        let w3 = tail_draw(rng);
        let addr_ok = std::ptr::eq(pop, p.addr.load(Ordering::SeqCst) as *const Vec<Ind>);
        let same = pop.iter().map(|i| i.genome).collect::<Vec<i64>>() == *p.old.lock().unwrap()
            && pop.iter().all(|i| i.test_results == score_of(&i.genome));
        let child = (w1 >> 2) as i64;
        let failed = k == p.fail_at.load(Ordering::SeqCst);
        let mut entry = vec![ab(addr_ok), ab(same), a(w1), a(w2), ab(failed), a(if failed { k } else { child })];
        if pop.len() <= 64 {
            entry.push(a(w3));
        }
        p.log.lock().unwrap().push(L(entry));
        if failed {
            Err(CmErr(k))
        } else {
            Ok(child)
        }
    }
}

fn run_scored(steps: &[(usize, i64)], pop: Vec<i64>, four: bool) -> Option<Tree> {
    let probe = Probe {
        log: Arc::new(Mutex::new(vec![])),
        calls: Arc::new(AtomicI64::new(0)),
        fail_at: Arc::new(AtomicI64::new(-1)),
        old: Arc::new(Mutex::new(pop.clone())),
        addr: Arc::new(AtomicUsize::new(0)),
    };
    let population: Vec<Ind> = pop.iter().map(|g| EcIndividual::new(*g, score_of(g))).collect();
    let scorer = FnScorer(|g: &i64| score_of(g));
    let mut g = Generation::new(GenomeScorer::new(GProbe(probe.clone()), scorer), population);
    let mut outs: Vec<Tree> = vec![];
    for (mode, fail_at) in steps {
        *probe.old.lock().unwrap() = g.population().iter().map(|i| i.genome).collect();
        probe.log.lock().unwrap().clear();
        probe.calls.store(0, Ordering::SeqCst);
        probe.fail_at.store(*fail_at, Ordering::SeqCst);
        probe.addr.store(g.population() as *const Vec<Ind> as usize, Ordering::SeqCst);
        let threads = mode - 100;
        let r = if threads == 0 {
            g.serial_next()
        } else {
            let pool = rayon::ThreadPoolBuilder::new().num_threads(threads).build().ok()?;
            pool.install(|| g.par_next())
        };
        let res = match r {
            Ok(()) => tl![A(0)],
            Err(e) => tl![A(1), a(e.0)],
        };
        // a child whose results are not the scorer's results for its genome shows up as a foreign genome
        let after: Vec<Tree> = g.population().iter().map(|i| a(if i.test_results == score_of(&i.genome) { i.genome } else { -777_777 })).collect();
        let log = probe.log.lock().unwrap().clone();
        outs.push(tl![res, L(after), L(log)]);
    }
    let mut first = outs.remove(0).list()?.to_vec();
    if four {
        first.push(L(outs));
    }
    Some(L(first))
}

/// BULK steps (mode 400 + T): a population of n scored individuals (genomes 0..n) stepped once through a GenomeScorer
/// child maker; the log is too large for the wire, so the harness reduces it to counts:
/// observation = [result, [length afterwards, 1 iff the population afterwards is what it must be (the children in call
/// order for a serial step / as a multiset for a parallel one / the old population after a failure) and every individual
/// carries the scorer's result], [calls, 1 iff every call saw the generation's own old population, number of DISTINCT
/// (word1, word2) pairs the calls drew, number of children made]]
#[derive(Clone)]
struct BProbe {
    log: Arc<Mutex<Vec<(u64, u64, bool, i64)>>>,
    calls: Arc<AtomicI64>,
    fail_at: i64,
    n: usize,
    addr: Arc<AtomicUsize>,
}
impl Composable for BProbe {}
impl<'p> Operator<&'p Vec<Ind>> for BProbe {
    type Output = i64;
    type Error = CmErr;
    fn apply<R: rand::Rng + ?Sized>(&self, pop: &'p Vec<Ind>, rng: &mut R) -> Result<i64, CmErr> {
        let k = self.calls.fetch_add(1, Ordering::SeqCst);
        let (w1, w2) = (rng.next_u64(), rng.next_u64());
        let addr_ok = std::ptr::eq(pop, self.addr.load(Ordering::SeqCst) as *const Vec<Ind>);
        // the whole population cannot be compared on each of n calls; its length and three of its members are
        let at = |j: usize| pop.get(j).is_some_and(|i| i.genome == j as i64 && i.test_results == score_of(&i.genome));
        let ku = k as usize;
        let same = pop.len() == self.n && (self.n == 0 || (at(ku % self.n) && at(ku.wrapping_mul(7919) % self.n) && at(self.n - 1)));
        let child = (w1 >> 2) as i64;
        let failed = k == self.fail_at;
        self.log.lock().unwrap().push((w1, w2, addr_ok && same, if failed { -1 } else { child }));
        if failed {
            Err(CmErr(k))
        } else {
            Ok(child)
        }
    }
}
fn run_bulk(threads: usize, n: usize, fail_at: i64) -> Option<Tree> {
    let probe = BProbe { log: Arc::new(Mutex::new(Vec::with_capacity(n))), calls: Arc::new(AtomicI64::new(0)), fail_at, n, addr: Arc::new(AtomicUsize::new(0)) };
    let population: Vec<Ind> = (0..n as i64).map(|g| EcIndividual::new(g, score_of(&g))).collect();
    let scorer = FnScorer(|g: &i64| score_of(g));
    let mut g = Generation::new(GenomeScorer::new(probe.clone(), scorer), population);
    probe.addr.store(g.population() as *const Vec<Ind> as usize, Ordering::SeqCst);
    let r = if threads == 0 {
        g.serial_next()
    } else {
        let pool = rayon::ThreadPoolBuilder::new().num_threads(threads).build().ok()?;
        pool.install(|| g.par_next())
    };
    let log = probe.log.lock().unwrap().clone();
    let scored = g.population().iter().all(|i| i.test_results == score_of(&i.genome));
    let after: Vec<i64> = g.population().iter().map(|i| i.genome).collect();
    let (res, expected_ok) = match r {
        Ok(()) => {
            let mut children: Vec<i64> = log.iter().filter(|e| e.3 >= 0).map(|e| e.3).collect();
            let mut got = after.clone();
            if threads > 0 {
                children.sort_unstable();
                got.sort_unstable();
            }
            (tl![A(0)], children == got)
        }
        Err(e) => (tl![A(1), a(e.0)], after.iter().enumerate().all(|(j, x)| *x == j as i64)),
    };
    let mut pairs: Vec<(u64, u64)> = log.iter().map(|e| (e.0, e.1)).collect();
    pairs.sort_unstable();
    pairs.dedup();
    Some(tl![
        res,
        tl![au(after.len()), ab(expected_ok && scored)],
        tl![au(log.len()), ab(log.iter().all(|e| e.2)), au(pairs.len()), au(log.iter().filter(|e| e.3 >= 0).count())]
    ])
}

/// ISLANDS (mode 500 + T): TWO Generation values step in parallel at the same time, each in its own pool of T threads; one
/// of them (A) fails at call `fail_at`, the other (B, observed) never fails - whatever A does, B's step must be a complete,
/// successful step of B (nothing a step uses may be shared between Generation values).  When A fails at call 5, B's child
/// maker also yields to its pool in the middle of every child (other children then run nested on the same thread).
#[derive(Clone)]
struct IProbe(Probe, u64, Arc<Mutex<Vec<u64>>>, bool);
impl Composable for IProbe {}
impl<'p> Operator<&'p Vec<i64>> for IProbe {
    type Output = i64;
    type Error = CmErr;
    fn apply<R: rand::Rng + ?Sized>(&self, pop: &'p Vec<i64>, rng: &mut R) -> Result<i64, CmErr> {
        std::thread::sleep(std::time::Duration::from_micros(self.1));
        let (w1, w2) = (rng.next_u64(), rng.next_u64());
        // let the pool run other pending children ON THIS THREAD, in the middle of this one: the words this child drew
        // before and draws after the interruption must still be its own
        if self.3 {
            let _ = rayon::yield_now();
        }
        let r = self.0.apply(pop, rng);
        self.2.lock().unwrap().extend([w1, w2]);
        r
    }
}
fn run_island(threads: usize, pop: Vec<i64>, fail_at: i64) -> Option<Tree> {
    let mk = |fail: i64| Probe {
        log: Arc::new(Mutex::new(vec![])),
        calls: Arc::new(AtomicI64::new(0)),
        fail_at: Arc::new(AtomicI64::new(fail)),
        old: Arc::new(Mutex::new(pop.clone())),
        addr: Arc::new(AtomicUsize::new(0)),
    };
    let (pa, pb) = (mk(fail_at), mk(-1));
    let early: Arc<Mutex<Vec<u64>>> = Arc::new(Mutex::new(vec![]));
    let mut ga = Generation::new(IProbe(pa.clone(), 400, Arc::new(Mutex::new(vec![])), false), pop.clone());
    let mut gb = Generation::new(IProbe(pb.clone(), 200, early.clone(), fail_at == 5), pop.clone());
    pa.addr.store(ga.population() as *const Vec<i64> as usize, Ordering::SeqCst);
    pb.addr.store(gb.population() as *const Vec<i64> as usize, Ordering::SeqCst);
    let pool_a = rayon::ThreadPoolBuilder::new().num_threads(threads).build().ok()?;
    let pool_b = rayon::ThreadPoolBuilder::new().num_threads(threads).build().ok()?;
    let rb = std::thread::scope(|sc| {
        let ha = sc.spawn(|| pool_a.install(|| ga.par_next()));
        let hb = sc.spawn(|| pool_b.install(|| gb.par_next()));
        let _ = ha.join();
        hb.join()
    });
    let rb = match rb {
        Ok(r) => r,
        Err(p) => std::panic::resume_unwind(p),
    };
    let res = match rb {
        Ok(()) => tl![A(0)],
        Err(e) => tl![A(1), a(e.0)],
    };
    let after: Vec<Tree> = gb.population().iter().map(|x| a(*x)).collect();
    let mut log = pb.log.lock().unwrap().clone();
    // the words drawn BEFORE the interruption must be distinct from each other and from all the words in the log; when
    // they are not, the first logged word is replaced by a copy of the second (so that the judge sees words repeat)
    let mut all: Vec<u64> = early.lock().unwrap().clone();
    for e in &log {
        if let L(v) = e {
            for k in [2usize, 3] {
                if let Some(A(w)) = v.get(k) {
                    all.push(*w as u64);
                }
            }
        }
    }
    let n = all.len();
    all.sort_unstable();
    all.dedup();
    if all.len() != n {
        if let Some(L(v)) = log.first_mut() {
            if v.len() > 3 {
                v[2] = v[3].clone();
            }
        }
    }
    Some(tl![res, L(after), L(log)])
}

/// populations of other collection types: sets (duplicate children collapse, so the size changes from step to step)
/// and double-ended queues
trait PopView: Send + Sync {
    fn contents(&self) -> Vec<i64>;
}
impl PopView for std::collections::BTreeSet<i64> {
    fn contents(&self) -> Vec<i64> {
        self.iter().copied().collect()
    }
}
impl PopView for std::collections::VecDeque<i64> {
    fn contents(&self) -> Vec<i64> {
        self.iter().copied().collect()
    }
}
struct TProbe<P> {
    p: Probe,
    modulus: u64,
    _m: std::marker::PhantomData<fn(&P)>,
}
impl<P> Composable for TProbe<P> {}
impl<'p, P: PopView> Operator<&'p P> for TProbe<P> {
    type Output = i64;
    type Error = CmErr;
    fn apply<R: rand::Rng + ?Sized>(&self, pop: &'p P, rng: &mut R) -> Result<i64, CmErr> {
        let p = &self.p;
        let k = p.calls.fetch_add(1, Ordering::SeqCst);
        let (w1, w2) = (rng.next_u64(), rng.next_u64());
        let addr_ok = std::ptr::eq(pop as *const P as *const u8, p.addr.load(Ordering::SeqCst) as *const u8);
        let same = pop.contents() == *p.old.lock().unwrap();
        let child = if self.modulus == 0 { (w1 >> 2) as i64 } else { ((w1 >> 2) % self.modulus) as i64 };
        let failed = k == p.fail_at.load(Ordering::SeqCst);
        p.log.lock().unwrap().push(tl![ab(addr_ok), ab(same), a(w1), a(w2), ab(failed), a(if failed { k } else { child })]);
        if failed {
            Err(CmErr(k))
        } else {
            Ok(child)
        }
    }
}
fn run_typed<P>(steps: &[(usize, i64)], pop: Vec<i64>, base: usize, modulus: u64, four: bool) -> Option<Tree>
where
    P: PopView + ec_core::population::Population<Individual = i64> + FromIterator<i64> + rayon::iter::FromParallelIterator<i64> + Send + Sync,
{
    let probe = Probe {
        log: Arc::new(Mutex::new(vec![])),
        calls: Arc::new(AtomicI64::new(0)),
        fail_at: Arc::new(AtomicI64::new(-1)),
        old: Arc::new(Mutex::new(vec![])),
        addr: Arc::new(AtomicUsize::new(0)),
    };
    let population: P = pop.into_iter().collect();
    let mut g = Generation::new(TProbe::<P> { p: probe.clone(), modulus, _m: std::marker::PhantomData }, population);
    let mut outs: Vec<Tree> = vec![];
    for (mode, fail_at) in steps {
        *probe.old.lock().unwrap() = g.population().contents();
        probe.log.lock().unwrap().clear();
        probe.calls.store(0, Ordering::SeqCst);
        probe.fail_at.store(*fail_at, Ordering::SeqCst);
        probe.addr.store(g.population() as *const P as *const u8 as usize, Ordering::SeqCst);
        let threads = mode - base;
        let r = if threads == 0 {
            g.serial_next()
        } else {
            let pool = rayon::ThreadPoolBuilder::new().num_threads(threads).build().ok()?;
            pool.install(|| g.par_next())
        };
        let res = match r {
            Ok(()) => tl![A(0)],
            Err(e) => tl![A(1), a(e.0)],
        };
        let after: Vec<Tree> = g.population().contents().into_iter().map(a).collect();
        let log = probe.log.lock().unwrap().clone();
        outs.push(tl![res, L(after), L(log)]);
    }
    let mut first = outs.remove(0).list()?.to_vec();
    if four {
        first.push(L(outs));
    }
    Some(L(first))
}

fn run(input: &Tree) -> Option<Tree> {
    let l = input.list()?;
    if l.len() != 3 && l.len() != 4 {
        return None;
    }
    let pop: Vec<i64> = l.get(1)?.list()?.iter().map(Tree::i64).collect::<Option<_>>()?;
    let mut steps: Vec<(usize, i64)> = vec![(l.first()?.usize()?, l.get(2)?.i64()?)];
    if let Some(more) = l.get(3) {
        for st in more.list()? {
            let st = st.list()?;
            if st.len() != 2 {
                return None;
            }
            steps.push((st.first()?.usize()?, st.get(1)?.i64()?));
        }
    }
    if l.len() == 3 && (501..=564).contains(&steps[0].0) {
        return run_island(steps[0].0 - 500, pop, steps[0].1);
    }
    if l.len() == 3 && (400..=464).contains(&steps[0].0) {
        // bulk: the population is given by its size alone
        let n = usize::try_from(*pop.first()?).ok()?;
        return run_bulk(steps[0].0 - 400, n, steps[0].1);
    }
    if steps.iter().all(|(m, _)| (100..=164).contains(m)) {
        return run_scored(&steps, pop, l.len() == 4);
    }
    if steps.iter().all(|(m, _)| (200..=264).contains(m)) {
        // an ordered set as population; children are drawn from {0, 1, 2}, so they collide
        return run_typed::<std::collections::BTreeSet<i64>>(&steps, pop, 200, 3, l.len() == 4);
    }
    if steps.iter().all(|(m, _)| (300..=364).contains(m)) {
        return run_typed::<std::collections::VecDeque<i64>>(&steps, pop, 300, 0, l.len() == 4);
    }
    if steps.iter().any(|(m, _)| *m > 64) {
        return None;
    }
    let probe = Probe {
        log: Arc::new(Mutex::new(vec![])),
        calls: Arc::new(AtomicI64::new(0)),
        fail_at: Arc::new(AtomicI64::new(-1)),
        old: Arc::new(Mutex::new(pop.clone())),
        addr: Arc::new(AtomicUsize::new(0)),
    };
    let mut g = Generation::new(probe.clone(), pop);
    let mut outs: Vec<Tree> = vec![];
    for (mode, fail_at) in &steps {
        // one Generation value throughout; the probe is told what the population is before each step
        *probe.old.lock().unwrap() = g.population().clone();
        probe.log.lock().unwrap().clear();
        probe.calls.store(0, Ordering::SeqCst);
        probe.fail_at.store(*fail_at, Ordering::SeqCst);
        probe.addr.store(g.population() as *const Vec<i64> as usize, Ordering::SeqCst);
        let r = if *mode == 0 {
            g.serial_next()
        } else {
            let pool = rayon::ThreadPoolBuilder::new().num_threads(*mode).build().ok()?;
            pool.install(|| g.par_next())
        };
        let res = match r {
            Ok(()) => tl![A(0)],
            Err(e) => tl![A(1), a(e.0)],
        };
        let after: Vec<Tree> = g.population().iter().map(|x| a(*x)).collect();
        let log = probe.log.lock().unwrap().clone();
        outs.push(tl![res, L(after), L(log)]);
    }
    let mut first = outs.remove(0).list()?.to_vec();
    if l.len() == 4 {
        first.push(L(outs));
    }
    Some(L(first))
}

fn gen(tier: &str, rng: &mut Sm) -> Gen {
    let mut g = Gen::new();
    let reps = if tier == "thorough" { 100 } else { 6 };
    for size in [0usize, 1, 2, 7, 64] {
        let pop: Vec<Tree> = (0..size).map(|_| a(rng.range(-1000, 1000))).collect();
        for mode in [0usize, 1, 2, 3, 4, 8, 16] {
            // failure at every position (for the large population: a sample of positions) and none
            let mut fails: Vec<i64> = vec![-1];
            if size <= 7 {
                fails.extend(0..size as i64);
            } else {
                fails.extend([0, 1, 31, 62, 63]);
            }
            fails.push(size as i64); // a position beyond the last call: no failure
            for f in fails {
                for _ in 0..(if mode == 0 { 1 } else { reps }) {
                    g.inputs.push(tl![au(mode), L(pop.clone()), a(f)]);
                }
            }
        }
    }
    // a child maker built through GenomeScorer (genome maker + scorer): a one-off failure of the genome maker
    // must fail the step (not be retried), and every child must carry the scorer's result for its genome
    for size in [1usize, 2, 5] {
        let pop: Vec<Tree> = (0..size).map(|_| a(rng.range(-1000, 1000))).collect();
        for mode in [100usize, 101, 103] {
            for f in -1..=size as i64 {
                g.inputs.push(tl![au(mode), L(pop.clone()), a(f)]);
            }
        }
        g.inputs.push(tl![A(100), L(pop.clone()), A(0), L(vec![tl![A(100), A(-1)], tl![A(102), a(size as i64 - 1)], tl![A(100), A(-1)]])]);
    }
    // histories: ONE Generation value stepped several times - failing steps (at every position) followed by
    // successful ones, serial and parallel mixed; each step is judged from the population the previous one left
    for size in [1usize, 2, 3, 7] {
        let pop: Vec<Tree> = (0..size).map(|_| a(rng.range(-1000, 1000))).collect();
        for f in 0..size as i64 {
            for (m1, m2, m3) in [(0usize, 0usize, 0usize), (0, 2, 0), (3, 0, 1), (1, 1, 0)] {
                g.inputs.push(tl![au(m1), L(pop.clone()), a(f), L(vec![tl![au(m2), A(-1)], tl![au(m3), a((f + 1) % size as i64)], tl![au(m1), A(-1)], tl![A(0), A(-1)]])]);
            }
        }
        g.inputs.push(tl![A(0), L(pop.clone()), A(-1), L(vec![tl![A(0), A(-1)], tl![A(4), A(-1)], tl![A(0), a(size as i64 - 1)], tl![A(0), A(-1)]])]);
    }
    // a LARGE population under wide pools: many workers report at once (an error must not get lost under contention,
    // the children must not share randomness however the work is split)
    {
        let size = 3000usize;
        let pop: Vec<Tree> = (0..size as i64).map(a).collect();
        for mode in [8usize, 16] {
            for f in [-1i64, 0, 1500, 2999] {
                for _ in 0..(if tier == "thorough" { 6 } else { 2 }) {
                    g.inputs.push(tl![au(mode), L(pop.clone()), a(f)]);
                }
            }
        }
    }
    // one Generation value stepped in parallel inside pools of DIFFERENT sizes, smaller first (nothing may be sized by the
    // first pool it happened to run in)
    for size in [7usize, 40] {
        let pop: Vec<Tree> = (0..size as i64).map(|i| a(i * 11 - 5)).collect();
        for (m1, m2, m3) in [(1usize, 4usize, 1usize), (2, 8, 16), (1, 16, 2)] {
            g.inputs.push(tl![au(m1), L(pop.clone()), A(-1), L(vec![tl![au(m2), A(-1)], tl![au(m3), A(-1)], tl![au(m2), a(size as i64 / 2)], tl![au(m2), A(-1)]])]);
        }
    }
    // set-typed populations (children collide, the population shrinks and the next step must follow its new size)
    // and double-ended queues, single steps and histories
    for size in [0usize, 1, 4, 6] {
        let pop: Vec<Tree> = (0..size as i64).map(|i| a(10 + 3 * i)).collect();
        for base in [200usize, 300] {
            for t in [0usize, 2, 8] {
                for f in [-1i64, 0, size as i64 - 1] {
                    g.inputs.push(tl![au(base + t), L(pop.clone()), a(f)]);
                }
            }
            let b = |t: usize| au(base + t);
            g.inputs.push(tl![b(0), L(pop.clone()), A(-1), L(vec![tl![b(0), A(-1)], tl![b(3), A(-1)], tl![b(0), A(0)], tl![b(0), A(-1)]])]);
            g.inputs.push(tl![b(4), L(pop.clone()), A(-1), L(vec![tl![b(4), A(-1)], tl![b(0), A(-1)], tl![b(2), A(1)], tl![b(2), A(-1)]])]);
        }
    }
    // ISLANDS: two Generation values stepping in parallel at the same time, one of them failing early
    for size in [24usize, 64] {
        let pop: Vec<Tree> = (0..size as i64).map(|i| a(i * 7 - 3)).collect();
        for t in [2usize, 4] {
            for f in [0i64, 1, 5] {
                for _ in 0..(if tier == "thorough" { 6 } else { 1 }) {
                    g.inputs.push(tl![au(500 + t), L(pop.clone()), a(f)]);
                }
            }
        }
    }
    // BULK: enough children in ONE step (400 000, each drawing 128 bits) for the birthday bound to expose a child maker
    // whose children are handed randomness from a small seed space (2^32 seeds collide ~18 times here; honest 128-bit
    // draws collide with probability < 2^-90); reduced to counts by the harness; also atomicity at that size
    let big: i64 = if tier == "thorough" { 1_500_000 } else { 400_000 };
    for (mode, n, f) in [(400usize, big, -1i64), (408, big, -1), (400, 50_000, 31_337), (416, 50_000, 49_999), (403, 0, -1), (400, 1, 0)] {
        g.inputs.push(tl![au(mode), tl![a(n)], a(f)]);
    }
    g.meta("generator", format!("population sizes 0, 1, 2, 7, 64 (and 3000 under pools of 8 and 16 threads); serial_next and par_next under rayon pools of 1, 2, 3, 4, 8, 16 threads x {reps} repetitions; failure injected at every call position (sampled for size 64) and none; a child maker built through GenomeScorer with a one-off failing genome maker; histories of 5 steps of one Generation value (failing steps followed by successful ones, serial and parallel mixed); BTreeSet populations whose children collide (the size changes between steps) and VecDeque populations; islands (two Generation values stepping in parallel at the same time, one failing early, the other observed); bulk steps of 400 000 (and 50 000 with an injected failure) scored individuals through GenomeScorer, serial and under pools of 8 / 16 threads, reduced to counts (calls, distinct 128-bit draws, children, population as expected)"));
    g
}
