//! C09: Generation::serial_next / par_next with an instrumented child maker.
//! input = [mode, population, fail_at]   mode 0 = serial_next, T > 0 = par_next in a rayon pool of T threads
//! observation = [[0] | [1, error], population afterwards,
//!                [[saw the generation's own population (address), saw the old contents, word1, word2, 0|1, child|error]...]]
use std::sync::atomic::{AtomicI64, AtomicUsize, Ordering};
use std::sync::{Arc, Mutex};

use ec_core::generation::Generation;
use ec_core::operator::{Composable, Operator};

use crate::*;

pub const PROP: Prop = Prop { name: "C09", gen, run };

#[derive(Debug)]
struct CmErr(i64);

#[derive(Clone)]
struct Probe {
    log: Arc<Mutex<Vec<Tree>>>,
    calls: Arc<AtomicI64>,
    fail_at: i64,
    old: Arc<Vec<i64>>,
    addr: Arc<AtomicUsize>,
}
impl Composable for Probe {}
impl<'p> Operator<&'p Vec<i64>> for Probe {
    type Output = i64;
    type Error = CmErr;
    fn apply<R: rand::Rng + ?Sized>(&self, pop: &'p Vec<i64>, rng: &mut R) -> Result<i64, CmErr> {
        let k = self.calls.fetch_add(1, Ordering::SeqCst);
        let (w1, w2) = (rng.next_u64(), rng.next_u64());
        let addr_ok = std::ptr::eq(pop, self.addr.load(Ordering::SeqCst) as *const Vec<i64>);
        let same = *pop == *self.old;
        let child = (w1 >> 2) as i64;
        let failed = k == self.fail_at;
        self.log.lock().unwrap().push(tl![ab(addr_ok), ab(same), a(w1), a(w2), ab(failed), a(if failed { k } else { child })]);
        if failed {
            Err(CmErr(k))
        } else {
            Ok(child)
        }
    }
}

fn run(input: &Tree) -> Option<Tree> {
    let l = input.list()?;
    let mode = l.first()?.usize()?;
    let pop: Vec<i64> = l.get(1)?.list()?.iter().map(Tree::i64).collect::<Option<_>>()?;
    let fail_at = l.get(2)?.i64()?;
    let probe = Probe {
        log: Arc::new(Mutex::new(vec![])),
        calls: Arc::new(AtomicI64::new(0)),
        fail_at,
        old: Arc::new(pop.clone()),
        addr: Arc::new(AtomicUsize::new(0)),
    };
    let mut g = Generation::new(probe.clone(), pop);
    probe.addr.store(g.population() as *const Vec<i64> as usize, Ordering::SeqCst);
    let r = if mode == 0 {
        g.serial_next()
    } else {
        let pool = rayon::ThreadPoolBuilder::new().num_threads(mode).build().ok()?;
        pool.install(|| g.par_next())
    };
    let res = match r {
        Ok(()) => tl![A(0)],
        Err(e) => tl![A(1), a(e.0)],
    };
    let after: Vec<Tree> = g.population().iter().map(|x| a(*x)).collect();
    let log = probe.log.lock().unwrap().clone();
    Some(tl![res, L(after), L(log)])
}

fn gen(tier: &str, rng: &mut Sm) -> Gen {
    let mut g = Gen::new();
    let reps = if tier == "thorough" { 100 } else { 6 };
    for size in [0usize, 1, 2, 7, 64] {
        let pop: Vec<Tree> = (0..size).map(|_| a(rng.range(-1000, 1000))).collect();
        for mode in [0usize, 1, 2, 3, 4, 8, 16] {
            // failure at every position (for the large population: a sample of positions) and none
            let mut fails: Vec<i64> = vec![-1];
            if size <= 7 {
                fails.extend(0..size as i64);
            } else {
                fails.extend([0, 1, 31, 62, 63]);
            }
            fails.push(size as i64); // a position beyond the last call: no failure
            for f in fails {
                for _ in 0..(if mode == 0 { 1 } else { reps }) {
                    g.inputs.push(tl![au(mode), L(pop.clone()), a(f)]);
                }
            }
        }
    }
    g.meta("generator", format!("population sizes 0, 1, 2, 7, 64; serial_next and par_next under rayon pools of 1, 2, 3, 4, 8, 16 threads x {reps} repetitions; failure injected at every call position (sampled for size 64) and none"));
    g
}
