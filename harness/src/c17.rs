//! C17: every type-erased form (5 traits x 7 pointer kinds x 4 auto-trait sets) against the
//! implementation it wraps, both started from clones of one generator.
//! input = [trait, impl, flavour, seed, data]
//! observation = [concrete outcome, concrete next word, erased outcome, erased next word]
//!   outcome = [0, value] | [1, [message bytes]]
use std::num::NonZeroUsize;

use ec_core::child_maker::ChildMaker;
use ec_core::operator::mutator::{Mutate, Mutator};
use ec_core::operator::recombinator::Recombinator;
use ec_core::operator::selector::best::Best;
use ec_core::operator::selector::dyn_weighted::{DynWeighted, DynWeightedError};
use ec_core::operator::selector::random::Random;
use ec_core::operator::selector::tournament::Tournament;
use ec_core::operator::selector::worst::Worst;
use ec_core::operator::selector::Selector;
use ec_core::operator::{Composable, Operator};
use ec_core::weighted::with_weighted_item::WithWeightedItem;
use ec_core::weighted::Weighted;
use ec_linear::mutator::with_one_over_length::WithOneOverLength;
use ec_linear::mutator::with_rate::WithRate;
use ec_linear::recombinator::two_point_xo::TwoPointXo;
use ec_linear::recombinator::uniform_xo::UniformXo;
use rand::RngCore;

use crate::c17_flavours::*;
use crate::*;

pub const PROP: Prop = Prop { name: "C17", gen, run };

#[derive(Debug)]
pub struct Boom(pub u64);
impl std::fmt::Display for Boom {
    fn fmt(&self, f: &mut std::fmt::Formatter<'_>) -> std::fmt::Result {
        write!(f, "boom after drawing {}", self.0)
    }
}
impl std::error::Error for Boom {}

#[derive(Debug)]
pub struct Msg(pub String);
impl std::fmt::Display for Msg {
    fn fmt(&self, f: &mut std::fmt::Formatter<'_>) -> std::fmt::Result {
        f.write_str(&self.0)
    }
}
impl std::error::Error for Msg {}

/// fails after drawing two words
pub struct Failing;
impl Composable for Failing {}
impl<G> Mutator<G> for Failing {
    type Error = Boom;
    fn mutate<R: rand::Rng + ?Sized>(&self, _: G, rng: &mut R) -> Result<G, Boom> {
        let _ = rng.next_u64();
        Err(Boom(rng.next_u64() % 100))
    }
}
impl<G> Recombinator<[Vec<G>; 2]> for Failing {
    type Output = Vec<G>;
    type Error = Boom;
    fn recombine<R: rand::Rng + ?Sized>(&self, _: [Vec<G>; 2], rng: &mut R) -> Result<Vec<G>, Boom> {
        let _ = rng.next_u64();
        Err(Boom(rng.next_u64() % 100))
    }
}
impl Operator<i64> for Failing {
    type Output = i64;
    type Error = Boom;
    fn apply<R: rand::Rng + ?Sized>(&self, _: i64, rng: &mut R) -> Result<i64, Boom> {
        let _ = rng.next_u64();
        Err(Boom(rng.next_u64() % 100))
    }
}
/// draws a word, then fails on odd words (selects the first individual otherwise)
pub struct DrawThenFail;
impl Selector<Vec<i64>> for DrawThenFail {
    type Error = Boom;
    fn select<'p, R: rand::Rng + ?Sized>(&self, pop: &'p Vec<i64>, rng: &mut R) -> Result<&'p i64, Boom> {
        let w = rng.next_u64();
        if w % 2 == 1 || pop.is_empty() {
            Err(Boom(w % 100))
        } else {
            Ok(&pop[0])
        }
    }
}
/// waits (up to three seconds) until `parties` selections are inside it at the same time, then selects the first
/// individual; draws nothing
pub struct Meet {
    inside: std::sync::Arc<std::sync::atomic::AtomicUsize>,
    parties: usize,
}
impl Selector<Vec<i64>> for Meet {
    type Error = Boom;
    fn select<'p, R: rand::Rng + ?Sized>(&self, pop: &'p Vec<i64>, _: &mut R) -> Result<&'p i64, Boom> {
        if pop.is_empty() {
            return Err(Boom(0));
        }
        self.inside.fetch_add(1, std::sync::atomic::Ordering::SeqCst);
        let t0 = std::time::Instant::now();
        while self.inside.load(std::sync::atomic::Ordering::SeqCst) < self.parties && t0.elapsed().as_secs() < 3 {
            std::thread::yield_now();
        }
        Ok(&pop[0])
    }
}
/// fails (after drawing a word) on odd inputs, x + word % 10 otherwise
pub struct FailOdd;
impl Composable for FailOdd {}
impl Operator<i64> for FailOdd {
    type Output = i64;
    type Error = Boom;
    fn apply<R: rand::Rng + ?Sized>(&self, x: i64, rng: &mut R) -> Result<i64, Boom> {
        let w = rng.next_u64();
        if x % 2 != 0 {
            Err(Boom(w % 100))
        } else {
            Ok(x + (w % 10) as i64)
        }
    }
}
/// x + (word % 10), drawing one word
pub struct AddWord;
impl Composable for AddWord {}
impl Operator<i64> for AddWord {
    type Output = i64;
    type Error = Boom;
    fn apply<R: rand::Rng + ?Sized>(&self, x: i64, rng: &mut R) -> Result<i64, Boom> {
        Ok(x + (rng.next_u64() % 10) as i64)
    }
}
/// child = selected individual + word % 7
pub struct CmSelectPlus;
impl<S: Selector<Vec<i64>>> ChildMaker<Vec<i64>, S> for CmSelectPlus
where
    S::Error: std::error::Error + Send + Sync + 'static,
{
    type Error = Msg;
    fn make_child<R: rand::Rng + ?Sized>(&self, rng: &mut R, pop: &Vec<i64>, sel: &S) -> Result<i64, Self::Error> {
        let p = sel.select(pop, rng).map_err(|e| Msg(e.to_string()))?;
        Ok(*p + (rng.next_u64() % 7) as i64)
    }
}
pub struct CmTwoParents;
impl<S: Selector<Vec<i64>>> ChildMaker<Vec<i64>, S> for CmTwoParents
where
    S::Error: std::error::Error + Send + Sync + 'static,
{
    type Error = Msg;
    fn make_child<R: rand::Rng + ?Sized>(&self, rng: &mut R, pop: &Vec<i64>, sel: &S) -> Result<i64, Self::Error> {
        let a = *sel.select(pop, rng).map_err(|e| Msg(e.to_string()))?;
        let b = *sel.select(pop, rng).map_err(|e| Msg(e.to_string()))?;
        Ok(a.wrapping_mul(31).wrapping_add(b))
    }
}
pub struct CmFailing;
impl<S: Selector<Vec<i64>>> ChildMaker<Vec<i64>, S> for CmFailing {
    type Error = Boom;
    fn make_child<R: rand::Rng + ?Sized>(&self, rng: &mut R, _: &Vec<i64>, _: &S) -> Result<i64, Boom> {
        Err(Boom(rng.next_u64() % 100))
    }
}

/// DynWeighted as a CONSUMER of erased selectors (trait index 5): forced lists - [0, k] a leaf that draws one word and
/// selects index k (k >= 0) or fails with code -k; [1, [[member, weight]..]] a list; a member that is itself a list is
/// handed over as the concrete `DynWeighted` value, the way user code nests them
struct FixedSel(i64);
impl Selector<Vec<i64>> for FixedSel {
    type Error = Boom;
    fn select<'p, R: rand::Rng + ?Sized>(&self, pop: &'p Vec<i64>, rng: &mut R) -> Result<&'p i64, Boom> {
        let _ = rng.next_u64();
        if self.0 >= 0 {
            pop.get(self.0 as usize).ok_or(Boom(999))
        } else {
            Err(Boom(self.0.unsigned_abs()))
        }
    }
}
enum Forced {
    Leaf(FixedSel),
    List(DynWeighted<Vec<i64>>),
}
fn build_forced(t: &Tree, depth: usize) -> Option<Forced> {
    if depth > 60 {
        return None;
    }
    let l = t.list()?;
    match l.first()?.int()? {
        0 => Some(Forced::Leaf(FixedSel(l.get(1)?.i64()?))),
        1 => {
            let mut d: Option<DynWeighted<Vec<i64>>> = None;
            for m in l.get(1)?.list()? {
                let m = m.list()?;
                let w = m.get(1)?.usize()?;
                let node = build_forced(m.first()?, depth + 1)?;
                d = Some(match (d, node) {
                    (None, Forced::Leaf(s)) => DynWeighted::new(s, w),
                    (None, Forced::List(x)) => DynWeighted::new(x, w),
                    (Some(d), Forced::Leaf(s)) => d.with_selector(s, w),
                    (Some(d), Forced::List(x)) => d.with_selector(x, w),
                });
            }
            Some(Forced::List(d?))
        }
        _ => None,
    }
}
/// the STRUCTURE of what a dynamic list reports: [0] EmptyPopulation, [1] ZeroWeightSum, [2, shape] Other(inner), where the
/// inner error is identified by downcasting: a list's error (shape again), a leaf's own error [3, code], else [4]
fn dyn_shape(e: &DynWeightedError) -> Tree {
    match e {
        DynWeightedError::EmptyPopulation(_) => tl![A(0)],
        DynWeightedError::ZeroWeightSum(_) => tl![A(1)],
        DynWeightedError::Other(b) => {
            let inner: &(dyn std::error::Error + 'static) = &**b;
            if let Some(d) = inner.downcast_ref::<DynWeightedError>() {
                tl![A(2), dyn_shape(d)]
            } else if let Some(Boom(c)) = inner.downcast_ref::<Boom>() {
                tl![A(2), tl![A(3), a(*c)]]
            } else {
                tl![A(2), tl![A(4)]]
            }
        }
    }
}

/// what an error reports: its message, then (-1) its debug form, then (-2 each) the messages of its source chain
fn err_view(e: &(dyn std::error::Error + 'static)) -> Tree {
    let mut v: Vec<Tree> = e.to_string().bytes().map(a).collect();
    v.push(A(-1));
    v.extend(format!("{e:?}").bytes().map(a));
    let mut src = e.source();
    let mut depth = 0;
    while let Some(s) = src {
        v.push(A(-2));
        v.extend(s.to_string().bytes().map(a));
        src = s.source();
        depth += 1;
        if depth > 16 {
            break;
        }
    }
    L(v)
}
fn outcome<T, E: std::error::Error + 'static>(r: Result<T, E>, f: impl Fn(T) -> Tree) -> Tree {
    match r {
        Ok(v) => tl![A(0), f(v)],
        Err(e) => tl![A(1), err_view(&e)],
    }
}
/// the erased error type is a boxed error: the same view of what it holds
fn outcome_erased<T>(r: Result<T, Box<dyn std::error::Error + Send + Sync>>, f: impl Fn(T) -> Tree) -> Tree {
    match r {
        Ok(v) => tl![A(0), f(v)],
        Err(e) => tl![A(1), err_view(&*e)],
    }
}
fn idx(pop: &[i64], p: &i64) -> Tree {
    match pop.iter().position(|q| std::ptr::eq(q, p)) {
        Some(i) => au(i),
        None => A(-1),
    }
}
fn bools(v: Vec<bool>) -> Tree {
    L(v.into_iter().map(ab).collect())
}
fn ints(v: Vec<i64>) -> Tree {
    L(v.into_iter().map(a).collect())
}

macro_rules! both {
    ($seed:expr, |$rng:ident| $direct:expr, |$rng2:ident| $erased:expr, $f:expr) => {{
        let mut r1 = Sm::new($seed);
        let mut r2 = r1.clone();
        let d = {
            let $rng = &mut r1;
            outcome($direct, $f)
        };
        let e = {
            let $rng2: &mut dyn RngCore = &mut r2;
            outcome_erased($erased?, $f)
        };
        Some(tl![d, a(r1.next()), e, a(r2.next())])
    }};
}

fn run(input: &Tree) -> Option<Tree> {
    let l = input.list()?;
    let (tr, im, fl) = (l.first()?.int()?, l.get(1)?.int()?, l.get(2)?.usize()?);
    let seed = l.get(3)?.u64()?;
    let data = l.get(4)?;
    match tr {
        0 => {
            let pop: Vec<i64> = data.list()?.iter().map(Tree::i64).collect::<Option<_>>()?;
            let popr = &pop;
            let f = |p: &i64| idx(popr, p);
            match im {
                0 => both!(seed, |r| Best.select(popr, r), |r| erased_select(fl, || Best, popr, r), f),
                1 => both!(seed, |r| Worst.select(popr, r), |r| erased_select(fl, || Worst, popr, r), f),
                2 => both!(seed, |r| Random.select(popr, r), |r| erased_select(fl, || Random, popr, r), f),
                3 => both!(seed, |r| Tournament::binary().select(popr, r), |r| erased_select(fl, Tournament::binary, popr, r), f),
                4 => {
                    let mk = || Tournament::new(NonZeroUsize::new(5).unwrap());
                    both!(seed, |r| mk().select(popr, r), |r| erased_select(fl, mk, popr, r), f)
                }
                5 => {
                    // draws (the Bernoulli choice between the members) BEFORE it can fail
                    let mk = || {
                        Weighted::new(Best, 1)
                            .with_item_and_weight(Tournament::new(NonZeroUsize::new(5).unwrap()), 1)
                            .unwrap()
                    };
                    both!(seed, |r| mk().select(popr, r), |r| erased_select(fl, mk, popr, r), f)
                }
                6 => both!(seed, |r| DrawThenFail.select(popr, r), |r| erased_select(fl, || DrawThenFail, popr, r), f),
                7 => {
                    // FORTY selections through one shared erased selector at the same time (each thread its own generator):
                    // all of them select what the concrete selector selects
                    use std::sync::atomic::AtomicUsize;
                    use std::sync::Arc;
                    let lone = Meet { inside: Arc::new(AtomicUsize::new(0)), parties: 1 };
                    both!(
                        seed,
                        |r| lone.select(popr, r),
                        |r| {
                            let _ = &r;
                            let shared: Arc<dyn ec_core::operator::selector::DynSelector<Vec<i64>> + Send + Sync> =
                                Arc::new(Meet { inside: Arc::new(AtomicUsize::new(0)), parties: 40 });
                            let results: Vec<Option<Result<usize, String>>> = std::thread::scope(|sc| {
                                let hs: Vec<_> = (0..40u64)
                                    .map(|t| {
                                        let sh = Arc::clone(&shared);
                                        sc.spawn(move || {
                                            let mut own = Sm::new(seed ^ t);
                                            sh.select(popr, &mut own).map(|p| popr.iter().position(|q| std::ptr::eq(q, p)).unwrap_or(usize::MAX)).map_err(|e| e.to_string())
                                        })
                                    })
                                    .collect();
                                hs.into_iter().map(|h| h.join().ok()).collect()
                            });
                            let first = results.first().cloned().flatten();
                            Some(if results.iter().all(|x| x.is_some() && *x == first) {
                                match first {
                                    Some(Ok(i)) if i < popr.len() => Ok(&popr[i]),
                                    Some(Err(m)) => Err(Box::new(Boom(m.rsplit(' ').next().and_then(|d| d.parse().ok()).unwrap_or(999))) as Box<dyn std::error::Error + Send + Sync>),
                                    _ => Err(Box::new(Msg("a concurrent erased selection selected a non-member".into())) as Box<dyn std::error::Error + Send + Sync>),
                                }
                            } else {
                                Err(Box::new(Msg("concurrent erased selections panicked or disagreed".into())) as Box<dyn std::error::Error + Send + Sync>)
                            })
                        },
                        f
                    )
                }
                _ => None,
            }
        }
        5 => {
            let pop: Vec<i64> = (0..8).map(|i| i * 3).collect();
            let Forced::List(sel) = build_forced(data, 0)? else { return None };
            let mut r = Sm::new(seed);
            let out = match sel.select(&pop, &mut r) {
                Ok(p) => tl![A(0), idx(&pop, p)],
                Err(e) => tl![A(1), dyn_shape(&e)],
            };
            Some(tl![A(55), out])
        }
        1 => {
            let g: Vec<bool> = data.list()?.iter().map(Tree::bool).collect::<Option<_>>()?;
            match im {
                0 => both!(seed, |r| WithRate::new(0.3).mutate(g.clone(), r), |r| erased_mutate(fl, || WithRate::new(0.3), g.clone(), r), bools),
                1 => both!(seed, |r| WithOneOverLength.mutate(g.clone(), r), |r| erased_mutate(fl, || WithOneOverLength, g.clone(), r), bools),
                2 => both!(seed, |r| Failing.mutate(g.clone(), r), |r| erased_mutate(fl, || Failing, g.clone(), r), bools),
                _ => None,
            }
        }
        2 => {
            let d = data.list()?;
            let ga: Vec<i64> = d.first()?.list()?.iter().map(Tree::i64).collect::<Option<_>>()?;
            let gb: Vec<i64> = d.get(1)?.list()?.iter().map(Tree::i64).collect::<Option<_>>()?;
            let mk = || [ga.clone(), gb.clone()];
            match im {
                0 => both!(seed, |r| UniformXo.recombine(mk(), r), |r| erased_recombine(fl, || UniformXo, mk(), r), ints),
                1 => both!(seed, |r| TwoPointXo.recombine(mk(), r), |r| erased_recombine(fl, || TwoPointXo, mk(), r), ints),
                2 => both!(seed, |r| Failing.recombine(mk(), r), |r| erased_recombine(fl, || Failing, mk(), r), ints),
                _ => None,
            }
        }
        3 => {
            let x = data.i64()?;
            match im {
                0 => both!(seed, |r| AddWord.apply(x, r), |r| erased_apply(fl, || AddWord, x, r), |v: i64| a(v)),
                1 => both!(seed, |r| ThenBoxed.apply(x, r), |r| erased_apply(fl, || ThenBoxed, x, r), |v: i64| a(v)),
                2 => both!(seed, |r| Failing.apply(x, r), |r| erased_apply(fl, || Failing, x, r), |v: i64| a(v)),
                3 => {
                    let g: Vec<bool> = (0..6).map(|i| (x >> i) & 1 == 1).collect();
                    both!(seed, |r| Mutate::new(WithRate::new(0.5)).apply(g.clone(), r), |r| erased_apply(fl, || Mutate::new(WithRate::new(0.5)), g.clone(), r), bools)
                }
                // four hundred failing applications, then one more (a successful one for even x): nothing a failed call
                // leaves behind may accumulate
                5 => both!(
                    seed,
                    |r| {
                        for i in 0..400i64 {
                            let _ = FailOdd.apply(2 * i + 1, r);
                        }
                        FailOdd.apply(x, r)
                    },
                    |r| {
                        for i in 0..400i64 {
                            let _ = erased_apply(fl, || FailOdd, 2 * i + 1, r)?;
                        }
                        erased_apply(fl, || FailOdd, x, r)
                    },
                    |v: i64| a(v)
                ),
                // an error with a cause behind it: the erased error must still lead to that cause
                4 => both!(seed, |r| Chained.apply(x, r), |r| erased_apply(fl, || Chained, x, r), |v: i64| a(v)),
                _ => None,
            }
        }
        4 => {
            let pop: Vec<i64> = data.list()?.iter().map(Tree::i64).collect::<Option<_>>()?;
            let sel = Tournament::binary();
            match im {
                0 => both!(seed, |r| CmSelectPlus.make_child(r, &pop, &sel), |r| erased_make_child(fl, || CmSelectPlus, &pop, &sel, r), |v: i64| a(v)),
                1 => both!(seed, |r| CmTwoParents.make_child(r, &pop, &sel), |r| erased_make_child(fl, || CmTwoParents, &pop, &sel, r), |v: i64| a(v)),
                2 => both!(seed, |r| CmFailing.make_child(r, &pop, &sel), |r| erased_make_child(fl, || CmFailing, &pop, &sel, r), |v: i64| a(v)),
                _ => None,
            }
        }
        _ => None,
    }
}

/// fails (after drawing a word) with an error that has a source
pub struct Chained;
impl Composable for Chained {}
#[derive(Debug)]
pub struct Outer(Boom);
impl std::fmt::Display for Outer {
    fn fmt(&self, f: &mut std::fmt::Formatter<'_>) -> std::fmt::Result {
        f.write_str("the second stage failed")
    }
}
impl std::error::Error for Outer {
    fn source(&self) -> Option<&(dyn std::error::Error + 'static)> {
        Some(&self.0)
    }
}
impl Operator<i64> for Chained {
    type Output = i64;
    type Error = Outer;
    fn apply<R: rand::Rng + ?Sized>(&self, _: i64, rng: &mut R) -> Result<i64, Outer> {
        Err(Outer(Boom(rng.next_u64() % 100)))
    }
}

/// AddWord.then(AddWord) with a std error (ThenError<Boom, Boom> only implements Display/Error, fine)
pub struct ThenBoxed;
impl Composable for ThenBoxed {}
impl Operator<i64> for ThenBoxed {
    type Output = i64;
    type Error = Msg;
    fn apply<R: rand::Rng + ?Sized>(&self, x: i64, rng: &mut R) -> Result<i64, Self::Error> {
        AddWord.then(AddWord).apply(x, rng).map_err(|e| Msg(format!("{e}")))
    }
}

fn gen(tier: &str, rng: &mut Sm) -> Gen {
    let mut g = Gen::new();
    let reps = if tier == "thorough" { 12 } else { 2 };
    let impls = [8, 3, 3, 6, 3];
    for tr in 0..5i64 {
        for im in 0..impls[tr as usize] {
            for fl in 0..NFLAVOURS {
                for rep in 0..reps {
                    let seed = rng.next() >> 1;
                    let data = match tr {
                        0 | 4 => {
                            // every implementation behind every flavour meets the EMPTY population (its own error path), too
                            let n = if rep == 0 || rng.chance(1, 8) { 0 } else { 1 + rng.below(7) };
                            // the child makers select with a binary tournament: keep >= 2 individuals mostly
                            L((0..n).map(|_| a(rng.range(-9, 9))).collect())
                        }
                        1 => L((0..rng.below(9)).map(|_| a(rng.range(0, 1))).collect()),
                        2 => {
                            let n = rng.below(7);
                            let m = if rng.chance(1, 6) { n + 1 } else { n };
                            tl![L((0..n).map(|i| a(i as i64)).collect()), L((0..m).map(|i| a(100 + i as i64)).collect())]
                        }
                        _ => a(rng.range(-100, 100)),
                    };
                    g.inputs.push(tl![a(tr), a(im), au(fl), a(seed), data]);
                }
            }
        }
    }
    // DynWeighted as a consumer of erased selectors: forced lists (at most one option of positive weight), nested up to
    // five deep; the error of the option used must arrive as Other(that error), once per level
    {
        let leaf = |k: i64| tl![A(0), a(k)];
        let list = |ms: Vec<(Tree, i64)>| tl![A(1), L(ms.into_iter().map(|(m, w)| tl![m, a(w)]).collect())];
        let mut specs = vec![
            list(vec![(leaf(3), 1)]),
            list(vec![(leaf(-7), 1)]),
            list(vec![(leaf(2), 0)]),
            list(vec![(leaf(1), 0), (leaf(-5), 4), (leaf(0), 0)]),
            list(vec![(list(vec![(leaf(-7), 1)]), 1)]),
            list(vec![(list(vec![(leaf(2), 0)]), 1)]),
            list(vec![(list(vec![(leaf(2), 0), (leaf(5), 0)]), 9), (leaf(1), 0)]),
            list(vec![(list(vec![(list(vec![(leaf(-3), 2)]), 5)]), 1)]),
            list(vec![(list(vec![(leaf(4), 1)]), 3)]),
            list(vec![(leaf(1), 0), (list(vec![(leaf(7), 0), (list(vec![(leaf(-2), 1)]), 7)]), 2), (leaf(0), 0)]),
            list(vec![(list(vec![(list(vec![(list(vec![(list(vec![(leaf(6), 0)]), 1)]), 1)]), 1)]), 1)]),
        ];
        fn random_forced(rng: &mut Sm, depth: u64) -> Tree {
            let n = 1 + rng.below(3);
            let chosen = if rng.chance(1, 6) { n } else { rng.below(n) }; // n: nobody (all weights zero)
            let mut ms = vec![];
            for i in 0..n {
                let node = if depth < 4 && rng.chance(1, 2) {
                    random_forced(rng, depth + 1)
                } else {
                    tl![A(0), a(if rng.chance(1, 2) { rng.range(0, 7) } else { -rng.range(1, 50) })]
                };
                ms.push(tl![node, a(if i == chosen { 1 + rng.below(9) as i64 } else { 0 })]);
            }
            tl![A(1), L(ms)]
        }
        for _ in 0..(if tier == "thorough" { 400 } else { 60 }) {
            specs.push(random_forced(rng, 0));
        }
        for spec in specs {
            g.inputs.push(tl![A(5), A(0), A(0), a(rng.next() >> 1), spec]);
        }
    }
    g.meta("generator", format!("5 erasable traits x (7,3,3,5,3) wrapped implementations x 28 pointer flavours x 2 call syntaxes x {reps} seeded inputs (selectors and child makers always also on the empty population); DynWeighted as a consumer of erased selectors on 11 fixed and 60 / 400 random forced lists nested up to five deep"));
    g
}
