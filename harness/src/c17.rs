//! C17: every type-erased form (5 traits x 7 pointer kinds x 4 auto-trait sets) against the
//! implementation it wraps, both started from clones of one generator.
//! input = [trait, impl, flavour, seed, data]
//! observation = [concrete outcome, concrete next word, erased outcome, erased next word]
//!   outcome = [0, value] | [1, [message bytes]]
use std::num::NonZeroUsize;

use ec_core::child_maker::ChildMaker;
use ec_core::operator::mutator::{Mutate, Mutator};
use ec_core::operator::recombinator::Recombinator;
use ec_core::operator::selector::best::Best;
use ec_core::operator::selector::random::Random;
use ec_core::operator::selector::tournament::Tournament;
use ec_core::operator::selector::worst::Worst;
use ec_core::operator::selector::Selector;
use ec_core::operator::{Composable, Operator};
use ec_core::weighted::with_weighted_item::WithWeightedItem;
use ec_core::weighted::Weighted;
use ec_linear::mutator::with_one_over_length::WithOneOverLength;
use ec_linear::mutator::with_rate::WithRate;
use ec_linear::recombinator::two_point_xo::TwoPointXo;
use ec_linear::recombinator::uniform_xo::UniformXo;
use rand::RngCore;

use crate::c17_flavours::*;
use crate::*;

pub const PROP: Prop = Prop { name: "C17", gen, run };

#[derive(Debug)]
pub struct Boom(pub u64);
impl std::fmt::Display for Boom {
    fn fmt(&self, f: &mut std::fmt::Formatter<'_>) -> std::fmt::Result {
        write!(f, "boom after drawing {}", self.0)
    }
}
impl std::error::Error for Boom {}

#[derive(Debug)]
pub struct Msg(pub String);
impl std::fmt::Display for Msg {
    fn fmt(&self, f: &mut std::fmt::Formatter<'_>) -> std::fmt::Result {
        f.write_str(&self.0)
    }
}
impl std::error::Error for Msg {}

/// fails after drawing two words
pub struct Failing;
impl Composable for Failing {}
impl<G> Mutator<G> for Failing {
    type Error = Boom;
    fn mutate<R: rand::Rng + ?Sized>(&self, _: G, rng: &mut R) -> Result<G, Boom> {
        let _ = rng.next_u64();
        Err(Boom(rng.next_u64() % 100))
    }
}
impl<G> Recombinator<[Vec<G>; 2]> for Failing {
    type Output = Vec<G>;
    type Error = Boom;
    fn recombine<R: rand::Rng + ?Sized>(&self, _: [Vec<G>; 2], rng: &mut R) -> Result<Vec<G>, Boom> {
        let _ = rng.next_u64();
        Err(Boom(rng.next_u64() % 100))
    }
}
impl Operator<i64> for Failing {
    type Output = i64;
    type Error = Boom;
    fn apply<R: rand::Rng + ?Sized>(&self, _: i64, rng: &mut R) -> Result<i64, Boom> {
        let _ = rng.next_u64();
        Err(Boom(rng.next_u64() % 100))
    }
}
/// draws a word, then fails on odd words (selects the first individual otherwise)
pub struct DrawThenFail;
impl Selector<Vec<i64>> for DrawThenFail {
    type Error = Boom;
    fn select<'p, R: rand::Rng + ?Sized>(&self, pop: &'p Vec<i64>, rng: &mut R) -> Result<&'p i64, Boom> {
        let w = rng.next_u64();
        if w % 2 == 1 || pop.is_empty() {
            Err(Boom(w % 100))
        } else {
            Ok(&pop[0])
        }
    }
}
/// x + (word % 10), drawing one word
pub struct AddWord;
impl Composable for AddWord {}
impl Operator<i64> for AddWord {
    type Output = i64;
    type Error = Boom;
    fn apply<R: rand::Rng + ?Sized>(&self, x: i64, rng: &mut R) -> Result<i64, Boom> {
        Ok(x + (rng.next_u64() % 10) as i64)
    }
}
/// child = selected individual + word % 7
pub struct CmSelectPlus;
impl<S: Selector<Vec<i64>>> ChildMaker<Vec<i64>, S> for CmSelectPlus
where
    S::Error: std::error::Error + Send + Sync + 'static,
{
    type Error = Msg;
    fn make_child<R: rand::Rng + ?Sized>(&self, rng: &mut R, pop: &Vec<i64>, sel: &S) -> Result<i64, Self::Error> {
        let p = sel.select(pop, rng).map_err(|e| Msg(e.to_string()))?;
        Ok(*p + (rng.next_u64() % 7) as i64)
    }
}
pub struct CmTwoParents;
impl<S: Selector<Vec<i64>>> ChildMaker<Vec<i64>, S> for CmTwoParents
where
    S::Error: std::error::Error + Send + Sync + 'static,
{
    type Error = Msg;
    fn make_child<R: rand::Rng + ?Sized>(&self, rng: &mut R, pop: &Vec<i64>, sel: &S) -> Result<i64, Self::Error> {
        let a = *sel.select(pop, rng).map_err(|e| Msg(e.to_string()))?;
        let b = *sel.select(pop, rng).map_err(|e| Msg(e.to_string()))?;
        Ok(a.wrapping_mul(31).wrapping_add(b))
    }
}
pub struct CmFailing;
impl<S: Selector<Vec<i64>>> ChildMaker<Vec<i64>, S> for CmFailing {
    type Error = Boom;
    fn make_child<R: rand::Rng + ?Sized>(&self, rng: &mut R, _: &Vec<i64>, _: &S) -> Result<i64, Boom> {
        Err(Boom(rng.next_u64() % 100))
    }
}

/// what an error reports: its message, then (-1) its debug form, then (-2 each) the messages of its source chain
fn err_view(e: &(dyn std::error::Error + 'static)) -> Tree {
    let mut v: Vec<Tree> = e.to_string().bytes().map(a).collect();
    v.push(A(-1));
    v.extend(format!("{e:?}").bytes().map(a));
    let mut src = e.source();
    let mut depth = 0;
    while let Some(s) = src {
        v.push(A(-2));
        v.extend(s.to_string().bytes().map(a));
        src = s.source();
        depth += 1;
        if depth > 16 {
            break;
        }
    }
    L(v)
}
fn outcome<T, E: std::error::Error + 'static>(r: Result<T, E>, f: impl Fn(T) -> Tree) -> Tree {
    match r {
        Ok(v) => tl![A(0), f(v)],
        Err(e) => tl![A(1), err_view(&e)],
    }
}
/// the erased error type is a boxed error: the same view of what it holds
fn outcome_erased<T>(r: Result<T, Box<dyn std::error::Error + Send + Sync>>, f: impl Fn(T) -> Tree) -> Tree {
    match r {
        Ok(v) => tl![A(0), f(v)],
        Err(e) => tl![A(1), err_view(&*e)],
    }
}
fn idx(pop: &[i64], p: &i64) -> Tree {
    match pop.iter().position(|q| std::ptr::eq(q, p)) {
        Some(i) => au(i),
        None => A(-1),
    }
}
fn bools(v: Vec<bool>) -> Tree {
    L(v.into_iter().map(ab).collect())
}
fn ints(v: Vec<i64>) -> Tree {
    L(v.into_iter().map(a).collect())
}

macro_rules! both {
    ($seed:expr, |$rng:ident| $direct:expr, |$rng2:ident| $erased:expr, $f:expr) => {{
        let mut r1 = Sm::new($seed);
        let mut r2 = r1.clone();
        let d = {
            let $rng = &mut r1;
            outcome($direct, $f)
        };
        let e = {
            let $rng2: &mut dyn RngCore = &mut r2;
            outcome_erased($erased?, $f)
        };
        Some(tl![d, a(r1.next()), e, a(r2.next())])
    }};
}

fn run(input: &Tree) -> Option<Tree> {
    let l = input.list()?;
    let (tr, im, fl) = (l.first()?.int()?, l.get(1)?.int()?, l.get(2)?.usize()?);
    let seed = l.get(3)?.u64()?;
    let data = l.get(4)?;
    match tr {
        0 => {
            let pop: Vec<i64> = data.list()?.iter().map(Tree::i64).collect::<Option<_>>()?;
            let popr = &pop;
            let f = |p: &i64| idx(popr, p);
            match im {
                0 => both!(seed, |r| Best.select(popr, r), |r| erased_select(fl, || Best, popr, r), f),
                1 => both!(seed, |r| Worst.select(popr, r), |r| erased_select(fl, || Worst, popr, r), f),
                2 => both!(seed, |r| Random.select(popr, r), |r| erased_select(fl, || Random, popr, r), f),
                3 => both!(seed, |r| Tournament::binary().select(popr, r), |r| erased_select(fl, Tournament::binary, popr, r), f),
                4 => {
                    let mk = || Tournament::new(NonZeroUsize::new(5).unwrap());
                    both!(seed, |r| mk().select(popr, r), |r| erased_select(fl, mk, popr, r), f)
                }
                5 => {
                    // draws (the Bernoulli choice between the members) BEFORE it can fail
                    let mk = || {
                        Weighted::new(Best, 1)
                            .with_item_and_weight(Tournament::new(NonZeroUsize::new(5).unwrap()), 1)
                            .unwrap()
                    };
                    both!(seed, |r| mk().select(popr, r), |r| erased_select(fl, mk, popr, r), f)
                }
                6 => both!(seed, |r| DrawThenFail.select(popr, r), |r| erased_select(fl, || DrawThenFail, popr, r), f),
                _ => None,
            }
        }
        1 => {
            let g: Vec<bool> = data.list()?.iter().map(Tree::bool).collect::<Option<_>>()?;
            match im {
                0 => both!(seed, |r| WithRate::new(0.3).mutate(g.clone(), r), |r| erased_mutate(fl, || WithRate::new(0.3), g.clone(), r), bools),
                1 => both!(seed, |r| WithOneOverLength.mutate(g.clone(), r), |r| erased_mutate(fl, || WithOneOverLength, g.clone(), r), bools),
                2 => both!(seed, |r| Failing.mutate(g.clone(), r), |r| erased_mutate(fl, || Failing, g.clone(), r), bools),
                _ => None,
            }
        }
        2 => {
            let d = data.list()?;
            let ga: Vec<i64> = d.first()?.list()?.iter().map(Tree::i64).collect::<Option<_>>()?;
            let gb: Vec<i64> = d.get(1)?.list()?.iter().map(Tree::i64).collect::<Option<_>>()?;
            let mk = || [ga.clone(), gb.clone()];
            match im {
                0 => both!(seed, |r| UniformXo.recombine(mk(), r), |r| erased_recombine(fl, || UniformXo, mk(), r), ints),
                1 => both!(seed, |r| TwoPointXo.recombine(mk(), r), |r| erased_recombine(fl, || TwoPointXo, mk(), r), ints),
                2 => both!(seed, |r| Failing.recombine(mk(), r), |r| erased_recombine(fl, || Failing, mk(), r), ints),
                _ => None,
            }
        }
        3 => {
            let x = data.i64()?;
            match im {
                0 => both!(seed, |r| AddWord.apply(x, r), |r| erased_apply(fl, || AddWord, x, r), |v: i64| a(v)),
                1 => both!(seed, |r| ThenBoxed.apply(x, r), |r| erased_apply(fl, || ThenBoxed, x, r), |v: i64| a(v)),
                2 => both!(seed, |r| Failing.apply(x, r), |r| erased_apply(fl, || Failing, x, r), |v: i64| a(v)),
                3 => {
                    let g: Vec<bool> = (0..6).map(|i| (x >> i) & 1 == 1).collect();
                    both!(seed, |r| Mutate::new(WithRate::new(0.5)).apply(g.clone(), r), |r| erased_apply(fl, || Mutate::new(WithRate::new(0.5)), g.clone(), r), bools)
                }
                // an error with a cause behind it: the erased error must still lead to that cause
                4 => both!(seed, |r| Chained.apply(x, r), |r| erased_apply(fl, || Chained, x, r), |v: i64| a(v)),
                _ => None,
            }
        }
        4 => {
            let pop: Vec<i64> = data.list()?.iter().map(Tree::i64).collect::<Option<_>>()?;
            let sel = Tournament::binary();
            match im {
                0 => both!(seed, |r| CmSelectPlus.make_child(r, &pop, &sel), |r| erased_make_child(fl, || CmSelectPlus, &pop, &sel, r), |v: i64| a(v)),
                1 => both!(seed, |r| CmTwoParents.make_child(r, &pop, &sel), |r| erased_make_child(fl, || CmTwoParents, &pop, &sel, r), |v: i64| a(v)),
                2 => both!(seed, |r| CmFailing.make_child(r, &pop, &sel), |r| erased_make_child(fl, || CmFailing, &pop, &sel, r), |v: i64| a(v)),
                _ => None,
            }
        }
        _ => None,
    }
}

/// fails (after drawing a word) with an error that has a source
pub struct Chained;
impl Composable for Chained {}
#[derive(Debug)]
pub struct Outer(Boom);
impl std::fmt::Display for Outer {
    fn fmt(&self, f: &mut std::fmt::Formatter<'_>) -> std::fmt::Result {
        f.write_str("the second stage failed")
    }
}
impl std::error::Error for Outer {
    fn source(&self) -> Option<&(dyn std::error::Error + 'static)> {
        Some(&self.0)
    }
}
impl Operator<i64> for Chained {
    type Output = i64;
    type Error = Outer;
    fn apply<R: rand::Rng + ?Sized>(&self, _: i64, rng: &mut R) -> Result<i64, Outer> {
        Err(Outer(Boom(rng.next_u64() % 100)))
    }
}

/// AddWord.then(AddWord) with a std error (ThenError<Boom, Boom> only implements Display/Error, fine)
pub struct ThenBoxed;
impl Composable for ThenBoxed {}
impl Operator<i64> for ThenBoxed {
    type Output = i64;
    type Error = Msg;
    fn apply<R: rand::Rng + ?Sized>(&self, x: i64, rng: &mut R) -> Result<i64, Self::Error> {
        AddWord.then(AddWord).apply(x, rng).map_err(|e| Msg(format!("{e}")))
    }
}

fn gen(tier: &str, rng: &mut Sm) -> Gen {
    let mut g = Gen::new();
    let reps = if tier == "thorough" { 12 } else { 2 };
    let impls = [7, 3, 3, 5, 3];
    for tr in 0..5i64 {
        for im in 0..impls[tr as usize] {
            for fl in 0..NFLAVOURS {
                for rep in 0..reps {
                    let seed = rng.next() >> 1;
                    let data = match tr {
                        0 | 4 => {
                            // every implementation behind every flavour meets the EMPTY population (its own error path), too
                            let n = if rep == 0 || rng.chance(1, 8) { 0 } else { 1 + rng.below(7) };
                            // the child makers select with a binary tournament: keep >= 2 individuals mostly
                            L((0..n).map(|_| a(rng.range(-9, 9))).collect())
                        }
                        1 => L((0..rng.below(9)).map(|_| a(rng.range(0, 1))).collect()),
                        2 => {
                            let n = rng.below(7);
                            let m = if rng.chance(1, 6) { n + 1 } else { n };
                            tl![L((0..n).map(|i| a(i as i64)).collect()), L((0..m).map(|i| a(100 + i as i64)).collect())]
                        }
                        _ => a(rng.range(-100, 100)),
                    };
                    g.inputs.push(tl![a(tr), a(im), au(fl), a(seed), data]);
                }
            }
        }
    }
    g.meta("generator", format!("5 erasable traits x (7,3,3,5,3) wrapped implementations x 28 pointer flavours x 2 call syntaxes x {reps} seeded inputs (selectors and child makers always also on the empty population)"));
    g
}
