//! C15: the comparison operators and aggregation of Score / Error / TestResult(s) / EcIndividual.
use std::cmp::Ordering;

use ec_core::individual::ec::{EcIndividual, WithScorer};
use ec_core::individual::scorer::FnScorer;
use ec_core::operator::genome_scorer::GenomeScorer;
use ec_core::operator::{Composable, Operator};
use ec_core::test_results::{Error, Score, TestResult, TestResults};
use rand::distr::Distribution;

use crate::*;

pub const PROP: Prop = Prop { name: "C15", gen, run };

fn ord(o: Option<Ordering>) -> Tree {
    A(match o {
        Some(Ordering::Less) => -1,
        Some(Ordering::Equal) => 0,
        Some(Ordering::Greater) => 1,
        None => 2,
    })
}
#[allow(clippy::neg_cmp_op_on_partial_ord)]
fn ops<T: PartialOrd + PartialEq>(a: &T, b: &T, cmp: Option<Ordering>) -> Tree {
    tl![ab(a < b), ab(a <= b), ab(a > b), ab(a >= b), ab(a == b), ab(a != b), ord(cmp).clone(), ord(a.partial_cmp(b))]
}
fn ops_ord<T: Ord>(a: &T, b: &T) -> Tree {
    ops(a, b, Some(a.cmp(b)))
}
fn vec64(t: &Tree) -> Option<Vec<i64>> {
    t.list()?.iter().map(Tree::i64).collect()
}
fn tres(t: &Tree) -> Option<TestResult<i64, i64>> {
    let l = t.list()?;
    Some(match l.first()?.int()? {
        0 => TestResult::Score(Score(l.get(1)?.i64()?)),
        1 => TestResult::Error(Error(l.get(1)?.i64()?)),
        _ => return None,
    })
}

/// a genome maker that returns a fixed genome and draws one word (so that it is a real operator)
struct Maker(Vec<i64>);
impl Composable for Maker {}
impl<'p> Operator<&'p Vec<i64>> for Maker {
    type Output = Vec<i64>;
    type Error = std::convert::Infallible;
    fn apply<R: rand::Rng + ?Sized>(&self, _: &'p Vec<i64>, rng: &mut R) -> Result<Vec<i64>, Self::Error> {
        let _ = rng.next_u64();
        Ok(self.0.clone())
    }
}
struct GenomeDist(Vec<i64>);
impl Distribution<Vec<i64>> for GenomeDist {
    fn sample<R: rand::Rng + ?Sized>(&self, rng: &mut R) -> Vec<i64> {
        let _ = rng.next_u64();
        self.0.clone()
    }
}

fn run(input: &Tree) -> Option<Tree> {
    let l = input.list()?;
    let kind = l.first()?.int()?;
    Some(match kind {
        0 => ops_ord(&Score(l.get(1)?.i64()?), &Score(l.get(2)?.i64()?)),
        1 => ops_ord(&Error(l.get(1)?.i64()?), &Error(l.get(2)?.i64()?)),
        2 => {
            let (a, b) = (tres(l.get(1)?)?, tres(l.get(2)?)?);
            ops(&a, &b, None)
        }
        3 => {
            let a: TestResults<Score<i64>> = vec64(l.get(1)?)?.into();
            let b: TestResults<Score<i64>> = vec64(l.get(2)?)?.into();
            ops_ord(&a, &b)
        }
        4 => {
            let a: TestResults<Error<i64>> = vec64(l.get(1)?)?.into();
            let b: TestResults<Error<i64>> = vec64(l.get(2)?)?.into();
            ops_ord(&a, &b)
        }
        5 | 6 => {
            let ia = l.get(1)?.list()?;
            let ib = l.get(2)?.list()?;
            let (ga, ra, gb, rb) = (vec64(&ia[0])?, vec64(&ia[1])?, vec64(&ib[0])?, vec64(&ib[1])?);
            if kind == 5 {
                let a = EcIndividual::new(ga, TestResults::<Score<i64>>::from(ra));
                let b = EcIndividual::new(gb, TestResults::<Score<i64>>::from(rb));
                ops_ord(&a, &b)
            } else {
                let a = EcIndividual::new(ga, TestResults::<Error<i64>>::from(ra));
                let b = EcIndividual::new(gb, TestResults::<Error<i64>>::from(rb));
                ops_ord(&a, &b)
            }
        }
        7 => {
            let r: TestResults<Score<i64>> = vec64(l.get(1)?)?.into();
            let mut v = vec![a(r.total_result.0)];
            v.extend(r.results.iter().map(|s| a(s.0)));
            L(v)
        }
        8 => {
            let r: TestResults<Error<i64>> = vec64(l.get(1)?)?.into_iter().collect();
            let mut v = vec![a(r.total_result.0)];
            v.extend(r.results.iter().map(|s| a(s.0)));
            L(v)
        }
        9 => {
            let g = vec64(l.get(1)?)?;
            let scorer = FnScorer(|g: &Vec<i64>| -> TestResults<Score<i64>> { g.iter().map(|x| 3 * x + 1).collect() });
            let op = GenomeScorer::new(Maker(g.clone()), &scorer);
            let mut rng = Sm::new(7);
            let pop: Vec<i64> = vec![];
            let ind = op.apply(&pop, &mut rng).ok()?;
            let gen = GenomeDist(g).with_scorer(&scorer);
            let ind2: EcIndividual<Vec<i64>, TestResults<Score<i64>>> = gen.sample(&mut rng);
            let enc = |i: &EcIndividual<Vec<i64>, TestResults<Score<i64>>>| {
                let mut v: Vec<Tree> = i.genome.iter().map(|x| a(*x)).collect();
                v.push(A(-7));
                v.push(a(i.test_results.total_result.0));
                v.extend(i.test_results.results.iter().map(|s| a(s.0)));
                v
            };
            let (e1, e2) = (enc(&ind), enc(&ind2));
            if e1 == e2 {
                L(e1)
            } else {
                let mut v = e1;
                v.push(A(-8));
                v.extend(e2);
                L(v)
            }
        }
        10 => {
            // Ord's provided methods: min, max (method and free function), clamp
            let (x, y, z) = (l.get(2)?.i64()?, l.get(3)?.i64()?, l.get(4)?.i64()?);
            fn pack<T: Ord + Copy>(a: T, b: T, c: T, val: impl Fn(T) -> i64) -> Tree {
                let (lo, hi) = if b <= c { (b, c) } else { (c, b) };
                tl![a_(val(a.min(b))), a_(val(a.max(b))), a_(val(std::cmp::min(a, b))), a_(val(std::cmp::max(a, b))), a_(val(a.clamp(lo, hi))),
                    a_(val(*[a, b, c].iter().max().unwrap())), a_(val(*[a, b, c].iter().min().unwrap()))]
            }
            fn a_(v: i64) -> Tree {
                a(v)
            }
            match l.get(1)?.int()? {
                0 => pack(Score(x), Score(y), Score(z), |s| s.0),
                1 => pack(Error(x), Error(y), Error(z), |s| s.0),
                _ => return None,
            }
        }
        11 => {
            // clone_from (directly and through Vec::clone_from) must carry the total along with the results
            let (va, vb) = (vec64(l.get(2)?)?, vec64(l.get(3)?)?);
            fn enc<R: Clone + std::iter::Sum + for<'a> std::iter::Sum<&'a R> + 'static>(va: Vec<i64>, vb: Vec<i64>, mk: impl Fn(i64) -> R, val: impl Fn(&R) -> i64) -> Tree
            where
                TestResults<R>: Clone,
            {
                let from = |v: &Vec<i64>| -> TestResults<R> { v.iter().map(|x| mk(*x)).collect() };
                let mut x = from(&va);
                x.clone_from(&from(&vb));
                let mut v = vec![from(&va), from(&va)];
                v.clone_from(&vec![from(&vb), from(&va)]);
                let mut out = vec![a(val(&x.total_result))];
                out.extend(x.results.iter().map(|r| a(val(r))));
                out.push(A(-7));
                out.push(a(val(&v[0].total_result)));
                out.extend(v[0].results.iter().map(|r| a(val(r))));
                L(out)
            }
            match l.get(1)?.int()? {
                0 => enc(va, vb, Score, |s: &Score<i64>| s.0),
                1 => enc(va, vb, Error, |s: &Error<i64>| s.0),
                _ => return None,
            }
        }
        12 => {
            // individuals whose results are a single TestResult (score or error): only partially ordered
            let ia = l.get(1)?.list()?;
            let ib = l.get(2)?.list()?;
            let a = EcIndividual::new(vec64(&ia[0])?, tres(&ia[1])?);
            let b = EcIndividual::new(vec64(&ib[0])?, tres(&ib[1])?);
            ops(&a, &b, None)
        }
        14 => {
            // the same operators at other integer result types (the order is generic in the wrapped type)
            let (ty, pol) = (l.get(1)?.int()?, l.get(2)?.int()?);
            let (x, y) = (l.get(3)?.int()?, l.get(4)?.int()?);
            macro_rules! at {
                ($t:ty) => {{
                    let (x, y) = (<$t>::try_from(x).ok()?, <$t>::try_from(y).ok()?);
                    if pol == 0 { ops_ord(&Score(x), &Score(y)) } else { ops_ord(&Error(x), &Error(y)) }
                }};
            }
            match ty {
                0 => at!(i8),
                1 => at!(u8),
                2 => at!(i32),
                3 => at!(u64),
                4 => at!(i128),
                5 => at!(usize),
                _ => return None,
            }
        }
        15 => {
            // totals at other integer result types
            let ty = l.get(1)?.int()?;
            let v: Vec<i128> = l.get(2)?.list()?.iter().map(Tree::int).collect::<Option<_>>()?;
            macro_rules! at {
                ($t:ty) => {{
                    let v: Vec<$t> = v.iter().map(|x| <$t>::try_from(*x).ok()).collect::<Option<_>>()?;
                    let r: TestResults<Score<$t>> = v.clone().into();
                    let e: TestResults<Error<$t>> = v.into_iter().collect();
                    let mut out = vec![a(r.total_result.0 as i128), a(e.total_result.0 as i128)];
                    out.extend(r.results.iter().map(|s| a(s.0 as i128)));
                    L(out)
                }};
            }
            match ty {
                0 => at!(i8),
                1 => at!(u8),
                2 => at!(i32),
                3 => at!(u64),
                5 => at!(usize),
                _ => return None,
            }
        }
        16 => {
            // comparisons of f64 result collections: by the totals, as far as those are comparable (a NaN total - e.g.
            // inf + -inf - is comparable with nothing); == is structural
            let pol = l.get(1)?.int()?;
            let fl = |t: &Tree| -> Option<Vec<f64>> { t.list()?.iter().map(|b| b.u64().map(f64::from_bits)).collect() };
            let (va, vb) = (fl(l.get(2)?)?, fl(l.get(3)?)?);
            match pol {
                0 => {
                    let (x, y): (TestResults<Score<f64>>, TestResults<Score<f64>>) = (va.into(), vb.into());
                    ops(&x, &y, None)
                }
                1 => {
                    let (x, y): (TestResults<Error<f64>>, TestResults<Error<f64>>) = (va.into(), vb.into());
                    ops(&x, &y, None)
                }
                2 => {
                    let x = EcIndividual::new(1u8, TestResults::<Score<f64>>::from(va));
                    let y = EcIndividual::new(1u8, TestResults::<Score<f64>>::from(vb));
                    ops(&x, &y, None)
                }
                // a value compared with ITSELF through one reference (the second vector is ignored)
                3 => {
                    let x: TestResults<Error<f64>> = va.into();
                    ops(&x, &x, None)
                }
                4 => {
                    let x = EcIndividual::new(1u8, TestResults::<Score<f64>>::from(va));
                    ops(&x, &x, None)
                }
                _ => return None,
            }
        }
        18 => {
            // building the collection from iterators whose size hints are loose / absent: every result counts for the total
            let ty = l.get(1)?.int()?;
            let v = vec64(l.get(2)?)?;
            let n = v.len();
            let pack = |r: TestResults<Score<i64>>| {
                let mut out = vec![a(r.total_result.0)];
                out.extend(r.results.iter().map(|s| a(s.0)));
                L(out)
            };
            match ty {
                0 => pack(v.iter().copied().filter(|_| true).collect()),
                1 => {
                    let mut it = v.clone().into_iter();
                    pack(std::iter::from_fn(move || it.next()).collect())
                }
                2 => pack(v.iter().copied().take_while(|_| true).into()),
                3 => pack(v[..n / 2].iter().copied().chain(v[n / 2..].iter().copied().filter(|_| true)).collect()),
                4 => pack((0..n + 5).filter_map(|i| v.get(i).copied()).collect()),
                5 => pack(v.iter().copied().flat_map(Some).into()),
                _ => return None,
            }
        }
        17 => {
            // a score is never comparable to an error - so there can be no total order (`Ord`) on `TestResult`: probed by
            // method resolution (an inherent item is preferred over a trait item only where its bounds hold)
            struct Probe<T>(std::marker::PhantomData<T>);
            trait NoOrd<T> {
                fn cmp_pair(&self, _: &T, _: &T) -> i64 {
                    2
                }
                fn is_ord(&self) -> bool {
                    false
                }
            }
            impl<T> NoOrd<T> for Probe<T> {}
            impl<T: Ord> Probe<T> {
                #[allow(dead_code)]
                fn cmp_pair(&self, a: &T, b: &T) -> i64 {
                    match Ord::cmp(a, b) {
                        Ordering::Less => -1,
                        Ordering::Equal => 0,
                        Ordering::Greater => 1,
                    }
                }
                #[allow(dead_code)]
                fn is_ord(&self) -> bool {
                    true
                }
            }
            let (x, y): (TestResult<i64, i64>, TestResult<i64, i64>) = (TestResult::Score(Score(1)), TestResult::Error(Error(1)));
            let p = Probe::<TestResult<i64, i64>>(std::marker::PhantomData);
            // (the same probe says `true` for a type that is `Ord`: the technique is checked on every run)
            let control = Probe::<i64>(std::marker::PhantomData);
            tl![ab(p.is_ord()), a(p.cmp_pair(&x, &y)), ab(control.is_ord()), a(control.cmp_pair(&1, &2))]
        }
        13 => {
            // floating-point results: the total is the IN-ORDER sum (addition is not associative there)
            let bits: Vec<u64> = l.get(2)?.list()?.iter().map(Tree::u64).collect::<Option<_>>()?;
            let vals: Vec<f64> = bits.iter().map(|b| f64::from_bits(*b)).collect();
            let fb = |x: f64| if x.is_nan() { a(0x7FF8_0000_0000_0000u64 as i128) } else { a(x.to_bits() as i128) };
            match l.get(1)?.int()? {
                0 => {
                    let r: TestResults<Score<f64>> = vals.into();
                    let mut v = vec![fb(r.total_result.0)];
                    v.extend(r.results.iter().map(|s| fb(s.0)));
                    L(v)
                }
                1 => {
                    let r: TestResults<Error<f64>> = vals.into_iter().collect();
                    let mut v = vec![fb(r.total_result.0)];
                    v.extend(r.results.iter().map(|s| fb(s.0)));
                    L(v)
                }
                _ => return None,
            }
        }
        _ => return None,
    })
}

const FVALS: &[f64] = &[1e16, 1.0, -1e16, 0.1, 3.0, 9007199254740992.0, -0.0, 0.0, 1e308, -1e308, 5e-324, 0.5, -1.0, 1e-9, 123456.789];

const VALS: &[i64] = &[i64::MIN, i64::MIN + 1, -2, -1, 0, 1, 2, i64::MAX - 1, i64::MAX];

fn small_vec(rng: &mut Sm) -> Vec<i64> {
    // sums stay inside i64 (Iterator::sum is Rust's own arithmetic contract, see DESIGN C15)
    let n = rng.below(5);
    match rng.below(6) {
        0 => vec![*rng.pick(VALS)],
        1 => {
            let mut v = vec![0; n];
            if n > 0 {
                v[0] = *rng.pick(VALS);
            }
            v
        }
        _ => (0..n).map(|_| rng.range(-5, 5)).collect(),
    }
}
fn tv(v: &[i64]) -> Tree {
    L(v.iter().map(|x| a(*x)).collect())
}

fn gen(tier: &str, rng: &mut Sm) -> Gen {
    let mut g = Gen::new();
    let n = if tier == "thorough" { 20000 } else { 1500 };
    for &x in VALS {
        for &y in VALS {
            g.inputs.push(tl![A(0), a(x), a(y)]);
            g.inputs.push(tl![A(1), a(x), a(y)]);
            for (ta, tb) in [(0, 0), (0, 1), (1, 0), (1, 1)] {
                g.inputs.push(tl![A(2), tl![A(ta), a(x)], tl![A(tb), a(y)]]);
            }
            g.inputs.push(tl![A(3), tv(&[x]), tv(&[y])]);
            g.inputs.push(tl![A(4), tv(&[x]), tv(&[y])]);
        }
    }
    for &x in VALS {
        for &y in VALS {
            for &z in &[i64::MIN, -1, 0, 3, i64::MAX] {
                g.inputs.push(tl![A(10), A(0), a(x), a(y), a(z)]);
                g.inputs.push(tl![A(10), A(1), a(x), a(y), a(z)]);
            }
            for (ta, tb) in [(0, 0), (0, 1), (1, 0), (1, 1)] {
                g.inputs.push(tl![A(12), tl![tv(&[1]), tl![A(ta), a(x)]], tl![tv(&[1]), tl![A(tb), a(y)]]]);
                g.inputs.push(tl![A(12), tl![tv(&[1]), tl![A(ta), a(x)]], tl![tv(&[2, 3]), tl![A(tb), a(y)]]]);
            }
        }
    }
    for _ in 0..n {
        g.inputs.push(tl![A(11), a(rng.below(2) as i128), tv(&small_vec(rng)), tv(&small_vec(rng))]);
        g.inputs.push(tl![A(10), a(rng.below(2) as i128), a(rng.range(-9, 9)), a(rng.range(-9, 9)), a(rng.range(-9, 9))]);
        let (va, vb) = (small_vec(rng), if rng.chance(1, 5) { vec![] } else { small_vec(rng) });
        // equal totals with different cases, equal vectors, ...
        let vb = match rng.below(6) {
            0 => va.clone(),
            1 => {
                let mut r = va.clone();
                r.reverse();
                r
            }
            2 => vec![va.iter().sum()],
            _ => vb,
        };
        let k = 3 + rng.below(2) as i128;
        g.inputs.push(tl![A(k), tv(&va), tv(&vb)]);
        let (ga, gb) = (small_vec(rng), if rng.chance(1, 3) { small_vec(rng) } else { vec![9, 9] });
        let gb = if rng.chance(1, 4) { ga.clone() } else { gb };
        g.inputs.push(tl![A(5 + rng.below(2) as i128), tl![tv(&ga), tv(&va)], tl![tv(&gb), tv(&vb)]]);
        g.inputs.push(tl![A(7 + rng.below(2) as i128), tv(&small_vec(rng))]);
        let gen: Vec<i64> = (0..rng.below(6)).map(|_| rng.range(-100, 100)).collect();
        g.inputs.push(tl![A(9), tv(&gen)]);
        let (x, y) = (rng.next() as i64, rng.next() as i64);
        g.inputs.push(tl![A(rng.below(2) as i128), a(x), a(if rng.chance(1, 4) { x } else { y })]);
    }
    // other integer result types: all pairs over each type's boundary values, and small totals
    let bounds: [(i128, Vec<i128>); 6] = [
        (0, vec![i8::MIN as i128, -1, 0, 1, i8::MAX as i128]),
        (1, vec![0, 1, 127, 128, u8::MAX as i128]),
        (2, vec![i32::MIN as i128, -1, 0, 1, i32::MAX as i128]),
        (3, vec![0, 1, i64::MAX as i128, i64::MAX as i128 + 1, u64::MAX as i128]),
        // (the wire format carries atoms from -2^63 to 2^64 - 1)
        (4, vec![i64::MIN as i128, -1, 0, i64::MAX as i128 + 1, u64::MAX as i128]),
        (5, vec![0, 1, 255, 256, usize::MAX as i128]),
    ];
    for (ty, vals) in &bounds {
        for x in vals {
            for y in vals {
                g.inputs.push(tl![A(14), a(*ty), A(0), a(*x), a(*y)]);
                g.inputs.push(tl![A(14), a(*ty), A(1), a(*x), a(*y)]);
            }
        }
        if *ty != 4 {
            let lo = if vals[0] < 0 { -3 } else { 0 };
            for _ in 0..6 {
                let v: Vec<Tree> = (0..rng.below(6)).map(|_| a(rng.range(lo, 6) as i128)).collect();
                g.inputs.push(tl![A(15), a(*ty), L(v)]);
            }
        }
    }
    g.inputs.push(tl![A(17)]);
    for ty in 0..6i128 {
        for _ in 0..8 {
            g.inputs.push(tl![A(18), a(ty), tv(&small_vec(rng))]);
        }
        g.inputs.push(tl![A(18), a(ty), tv(&[5, 8, 0, 9, -3, 4, 4])]);
    }
    // comparisons of float result collections, with totals that are not comparable
    {
        let fl = |v: &[f64]| L(v.iter().map(|x| a(x.to_bits() as i128)).collect());
        let vecs: Vec<Vec<f64>> = vec![
            vec![], vec![1.0, 2.0], vec![2.0, 1.0], vec![3.0], vec![f64::INFINITY, f64::NEG_INFINITY], vec![1.0, f64::NAN], vec![2.0, f64::NAN],
            vec![f64::NAN], vec![0.0], vec![-0.0], vec![f64::INFINITY], vec![f64::NEG_INFINITY, 5.0], vec![1e308, 1e308], vec![0.5, 0.25],
        ];
        for x in &vecs {
            for y in &vecs {
                for pol in 0..3i128 {
                    g.inputs.push(tl![A(16), a(pol), fl(x), fl(y)]);
                }
            }
            for pol in 3..5i128 {
                g.inputs.push(tl![A(16), a(pol), fl(x), fl(&[])]);
            }
        }
    }
    // float results: long vectors whose in-order sum differs from any regrouped sum
    let fl = |v: &[f64]| L(v.iter().map(|x| a(x.to_bits() as i128)).collect());
    let mut big = vec![1e16];
    big.extend(std::iter::repeat(1.0).take(20));
    for pol in 0..2i128 {
        g.inputs.push(tl![A(13), a(pol), fl(&big)]);
        g.inputs.push(tl![A(13), a(pol), fl(&[])]);
        g.inputs.push(tl![A(13), a(pol), fl(&[-0.0])]);
        g.inputs.push(tl![A(13), a(pol), fl(&[0.1, 0.2, 0.3])]);
    }
    for _ in 0..n / 5 {
        let len = [0usize, 1, 2, 3, 7, 16, 17, 20, 33, 40, 70][rng.below(11)];
        let v: Vec<f64> = (0..len).map(|_| if rng.chance(1, 3) { 1.0 } else { *rng.pick(FVALS) }).collect();
        g.inputs.push(tl![A(13), a(rng.below(2) as i128), fl(&v)]);
    }
    g.meta("generator", "all pairs over 9 boundary values for Score/Error/TestResult/singleton TestResults; random result vectors (equal totals with different cases, reversed, empty), individuals with equal/different genomes, aggregation, scoring; min / max / clamp; clone_from (also through Vec); individuals scored by a single score-or-error result; the comparison operators and totals at i8 / u8 / i32 / u64 / i128 / usize result types over each type's boundary values; f64 results (vectors of 0..70 values of very different magnitudes: the in-order sum differs from regrouped sums)");
    g
}
