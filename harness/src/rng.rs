//! One deterministic generator for everything: SplitMix64, also usable as a
//! `rand` generator (it then counts the words it hands out).
use rand::RngCore;

#[derive(Clone, Debug, PartialEq, Eq)]
pub struct Sm {
    pub state: u64,
    pub words: u64,
}

impl Sm {
    pub fn new(seed: u64) -> Self {
        Sm { state: seed, words: 0 }
    }
    pub fn sub(&self, k: u64) -> Sm {
        let mut s = Sm::new(self.state ^ k.wrapping_mul(0x9E37_79B9_7F4A_7C15).rotate_left(17) ^ 0xD1B5_4A32_D192_ED03);
        s.next();
        s.next();
        Sm::new(s.next())
    }
    pub fn next(&mut self) -> u64 {
        self.words += 1;
        self.state = self.state.wrapping_add(0x9E37_79B9_7F4A_7C15);
        let mut z = self.state;
        z = (z ^ (z >> 30)).wrapping_mul(0xBF58_476D_1CE4_E5B9);
        z = (z ^ (z >> 27)).wrapping_mul(0x94D0_49BB_1331_11EB);
        z ^ (z >> 31)
    }
    /// uniform in 0..n (n > 0); modulo bias is irrelevant for input generation
    pub fn below(&mut self, n: usize) -> usize {
        (self.next() % (n as u64)) as usize
    }
    pub fn range(&mut self, lo: i64, hi: i64) -> i64 {
        lo + (self.next() % ((hi - lo + 1) as u64)) as i64
    }
    pub fn chance(&mut self, num: u64, den: u64) -> bool {
        self.next() % den < num
    }
    pub fn pick<'a, T>(&mut self, xs: &'a [T]) -> &'a T {
        &xs[self.below(xs.len())]
    }
}

impl RngCore for Sm {
    /// neither half of the word: an adapter that derives 32-bit draws from one half of a 64-bit draw (or 64-bit
    /// draws from two 32-bit ones) does not reproduce this generator
    fn next_u32(&mut self) -> u32 {
        let w = self.next();
        ((w >> 32) ^ w) as u32
    }
    fn next_u64(&mut self) -> u64 {
        self.next()
    }
    fn fill_bytes(&mut self, dst: &mut [u8]) {
        for chunk in dst.chunks_mut(8) {
            let w = self.next().to_le_bytes();
            chunk.copy_from_slice(&w[..chunk.len()]);
        }
    }
}
