//! Trees <-> Push instructions, programs and states (shared by C01/C02/C03/C05/C16/C19).
use ordered_float::OrderedFloat;
use push::instruction::printing::{Print, PrintLn, PrintString};
use push::instruction::variable_name::VariableName;
use push::instruction::{BoolInstruction, ExecInstruction, FloatInstruction, Instruction, IntInstruction, PushInstruction};
use push::push_vm::program::PushProgram;
use push::push_vm::push_state::PushState;
use push::push_vm::stack::Stack;
use push::push_vm::HasStack;

use crate::*;

pub const NAN_BITS: u64 = 0x7FF8_0000_0000_0000;
pub fn fbits(f: f64) -> u64 {
    if f.is_nan() {
        NAN_BITS
    } else {
        f.to_bits()
    }
}
/// distinct ids map to distinct names that a sloppy lookup (trimmed, case-insensitive, prefix) would confuse
pub fn var_name(id: i128) -> String {
    let k = id.div_euclid(5);
    match id.rem_euclid(5) {
        0 => format!("n{k}"),
        1 => format!(" n{k}"),
        2 => format!("N{k}"),
        3 => format!("n{k} "),
        _ => format!("n{k}_"),
    }
}

/// the kind of a fatal error (1 underflow, 2 stack overflow, 3 integer arithmetic, `other` otherwise).  `FatalError`
/// offers only `Debug`; the error part of `StatefulError { state: .., error: .., .. }` is looked at by variant names,
/// not by the layout of the variants (the state part may mention instruction names such as `Int(Add)`)
pub fn fatal_kind(d: &str, other: i128) -> i128 {
    // (the type name in the trailing `PhantomData<push::error::stateful::Fatal>` contains "error::" - a field is "error: ")
    match d.rfind(" error: ") {
        Some(i) => {
            let e = &d[i..];
            if e.contains("Underflow") {
                1
            } else if e.contains("Int(") || e.contains("IntInstructionError") {
                3
            } else if e.contains("Overflow") {
                2
            } else {
                other
            }
        }
        None => {
            if d.contains("Overflow { stack_type") {
                2
            } else if d.contains("Underflow") {
                1
            } else if d.contains("Int(") {
                3
            } else {
                other
            }
        }
    }
}

/// inverse of `var_name`
pub fn var_id(s: &str) -> Option<i128> {
    for r in 0..5i128 {
        let body = match r {
            0 => s.strip_prefix('n'),
            1 => s.strip_prefix(" n"),
            2 => s.strip_prefix('N'),
            3 => s.strip_prefix('n').and_then(|b| b.strip_suffix(' ')),
            _ => s.strip_prefix('n').and_then(|b| b.strip_suffix('_')),
        };
        if let Some(k) = body.and_then(|b| b.parse::<i128>().ok()) {
            if k >= 0 && var_name(5 * k + r) == s {
                return Some(5 * k + r);
            }
        }
    }
    None
}

/// tree -> instruction.  `strings` is the case's string table (for PrintString).
pub fn mk_instr(t: &Tree, strings: &[String]) -> Option<PushInstruction> {
    let l = t.list()?;
    let tag = l.first()?.int()?;
    let arg = |i: usize| l.get(i).and_then(Tree::int);
    use PushInstruction as P;
    Some(match tag {
        0..=5 => {
            let k = arg(1)?;
            match (tag, k) {
                (0, 0) => IntInstruction::pop().into(),
                (1, 0) => IntInstruction::dup().into(),
                (2, 0) => IntInstruction::swap().into(),
                (3, 0) => IntInstruction::is_empty().into(),
                (4, 0) => IntInstruction::stack_depth().into(),
                (5, 0) => IntInstruction::flush().into(),
                (0, 1) => FloatInstruction::pop().into(),
                (1, 1) => FloatInstruction::dup().into(),
                (2, 1) => FloatInstruction::swap().into(),
                (3, 1) => FloatInstruction::is_empty().into(),
                (4, 1) => FloatInstruction::stack_depth().into(),
                (5, 1) => FloatInstruction::flush().into(),
                (0, 2) => BoolInstruction::Pop(Default::default()).into(),
                (1, 2) => BoolInstruction::Dup(Default::default()).into(),
                (2, 2) => BoolInstruction::Swap(Default::default()).into(),
                (3, 2) => BoolInstruction::IsEmpty(Default::default()).into(),
                (4, 2) => BoolInstruction::StackDepth(Default::default()).into(),
                (5, 2) => BoolInstruction::Flush(Default::default()).into(),
                (0, 3) => ExecInstruction::Pop(Default::default()).into(),
                (1, 3) => ExecInstruction::Dup(Default::default()).into(),
                (2, 3) => ExecInstruction::Swap(Default::default()).into(),
                (3, 3) => ExecInstruction::IsEmpty(Default::default()).into(),
                (4, 3) => ExecInstruction::StackDepth(Default::default()).into(),
                (5, 3) => ExecInstruction::Flush(Default::default()).into(),
                _ => return None,
            }
        }
        6 => P::push_int(l.get(1)?.i64()?),
        7 => P::push_float(OrderedFloat(f64::from_bits(l.get(1)?.u64()?))),
        8 => P::push_bool(l.get(1)?.bool()?),
        9 => {
            let p = mk_prog(l.get(1)?, strings)?;
            let mut i = ExecInstruction::Push(Default::default());
            if let ExecInstruction::Push(b) = &mut i {
                b.0 = p;
            }
            i.into()
        }
        10 => match (arg(1)?, arg(2)?) {
            (0, 0) => IntInstruction::Print(Print::new()).into(),
            (0, 1) => IntInstruction::PrintLn(PrintLn::new()).into(),
            (1, 0) => FloatInstruction::Print(Print::new()).into(),
            (1, 1) => FloatInstruction::PrintLn(PrintLn::new()).into(),
            (2, 0) => BoolInstruction::Print(Print::new()).into(),
            (2, 1) => BoolInstruction::Println(PrintLn::new()).into(),
            _ => return None,
        },
        11 => match arg(1)? {
            0 => IntInstruction::Inc,
            1 => IntInstruction::Dec,
            2 => IntInstruction::Square,
            _ => return None,
        }
        .into(),
        12 => match arg(1)? {
            0 => IntInstruction::negate(),
            1 => IntInstruction::abs(),
            _ => return None,
        }
        .into(),
        13 => match arg(1)? {
            0 => IntInstruction::Add,
            1 => IntInstruction::Subtract,
            2 => IntInstruction::Multiply,
            3 => IntInstruction::ProtectedDivide,
            4 => IntInstruction::Mod,
            5 => IntInstruction::Power,
            _ => return None,
        }
        .into(),
        14 => match arg(1)? {
            0 => IntInstruction::Min,
            1 => IntInstruction::Max,
            _ => return None,
        }
        .into(),
        15 => IntInstruction::clamp().into(),
        16 => match arg(1)? {
            0 => IntInstruction::IsZero,
            1 => IntInstruction::IsPositive,
            2 => IntInstruction::IsNegative,
            3 => IntInstruction::IsEven,
            4 => IntInstruction::IsOdd,
            _ => return None,
        }
        .into(),
        17 => match arg(1)? {
            0 => IntInstruction::Equal,
            1 => IntInstruction::NotEqual,
            2 => IntInstruction::LessThan,
            3 => IntInstruction::LessThanEqual,
            4 => IntInstruction::GreaterThan,
            5 => IntInstruction::GreaterThanEqual,
            _ => return None,
        }
        .into(),
        18 => IntInstruction::FromBoolean.into(),
        19 => IntInstruction::FromFloatApprox.into(),
        20 => match arg(1)? {
            0 => FloatInstruction::Add,
            1 => FloatInstruction::Subtract,
            2 => FloatInstruction::Multiply,
            3 => FloatInstruction::ProtectedDivide,
            _ => return None,
        }
        .into(),
        21 => match arg(1)? {
            0 => FloatInstruction::Equal,
            1 => FloatInstruction::NotEqual,
            2 => FloatInstruction::LessThan,
            3 => FloatInstruction::LessThanOrEqual,
            4 => FloatInstruction::GreaterThan,
            5 => FloatInstruction::GreaterThanOrEqual,
            _ => return None,
        }
        .into(),
        22 => FloatInstruction::FromIntApprox.into(),
        23 => BoolInstruction::Not.into(),
        24 => match arg(1)? {
            0 => BoolInstruction::And,
            1 => BoolInstruction::Or,
            2 => BoolInstruction::Xor,
            3 => BoolInstruction::Implies,
            _ => return None,
        }
        .into(),
        25 => BoolInstruction::FromInt.into(),
        26 => ExecInstruction::noop().into(),
        27 => ExecInstruction::dup_block().into(),
        28 => ExecInstruction::when().into(),
        29 => ExecInstruction::unless().into(),
        30 => ExecInstruction::if_else().into(),
        31 => P::InputVar(VariableName::from(var_name(arg(1)?).as_str())),
        32 => P::PrintSpace(Default::default()),
        33 => P::PrintNewline(Default::default()),
        34 => P::PrintPeriod(Default::default()),
        35 => P::PrintString(PrintString(strings.get(l.get(1)?.usize()?)?.clone())),
        _ => return None,
    })
}

pub fn mk_prog(t: &Tree, strings: &[String]) -> Option<PushProgram> {
    let l = t.list()?;
    if l.first()?.int()? == 100 {
        let mut v = Vec::with_capacity(l.len() - 1);
        for c in &l[1..] {
            v.push(mk_prog(c, strings)?);
        }
        Some(PushProgram::Block(v))
    } else {
        Some(PushProgram::Instruction(mk_instr(t, strings)?))
    }
}

/// instruction -> tree; None for a variant this harness does not know
pub fn instr_tree(i: &PushInstruction, strings: &[String]) -> Option<Tree> {
    use BoolInstruction as B;
    use ExecInstruction as E;
    use FloatInstruction as F;
    use IntInstruction as I;
    use PushInstruction as P;
    let t2 = |a: i128, b: i128| Some(tl![A(a), A(b)]);
    let t1 = |a: i128| Some(tl![A(a)]);
    match i {
        P::InputVar(v) => {
            let s = v.to_string();
            t2(31, var_id(&s)?)
        }
        P::PrintSpace(_) => t1(32),
        P::PrintNewline(_) => t1(33),
        P::PrintPeriod(_) => t1(34),
        P::PrintString(s) => t2(35, strings.iter().position(|x| *x == s.0)? as i128),
        P::IntInstruction(i) => match i {
            I::Pop(_) => t2(0, 0),
            I::Dup(_) => t2(1, 0),
            I::Swap(_) => t2(2, 0),
            I::IsEmpty(_) => t2(3, 0),
            I::StackDepth(_) => t2(4, 0),
            I::Flush(_) => t2(5, 0),
            I::Push(v) => t2(6, i128::from(v.0)),
            I::Print(_) => Some(tl![A(10), A(0), A(0)]),
            I::PrintLn(_) => Some(tl![A(10), A(0), A(1)]),
            I::Inc => t2(11, 0),
            I::Dec => t2(11, 1),
            I::Square => t2(11, 2),
            I::Negate(_) => t2(12, 0),
            I::Abs(_) => t2(12, 1),
            I::Add => t2(13, 0),
            I::Subtract => t2(13, 1),
            I::Multiply => t2(13, 2),
            I::ProtectedDivide => t2(13, 3),
            I::Mod => t2(13, 4),
            I::Power => t2(13, 5),
            I::Min => t2(14, 0),
            I::Max => t2(14, 1),
            I::Clamp(_) => t1(15),
            I::IsZero => t2(16, 0),
            I::IsPositive => t2(16, 1),
            I::IsNegative => t2(16, 2),
            I::IsEven => t2(16, 3),
            I::IsOdd => t2(16, 4),
            I::Equal => t2(17, 0),
            I::NotEqual => t2(17, 1),
            I::LessThan => t2(17, 2),
            I::LessThanEqual => t2(17, 3),
            I::GreaterThan => t2(17, 4),
            I::GreaterThanEqual => t2(17, 5),
            I::FromBoolean => t1(18),
            I::FromFloatApprox => t1(19),
            _ => None,
        },
        P::FloatInstruction(i) => match i {
            F::Pop(_) => t2(0, 1),
            F::Dup(_) => t2(1, 1),
            F::Swap(_) => t2(2, 1),
            F::IsEmpty(_) => t2(3, 1),
            F::StackDepth(_) => t2(4, 1),
            F::Flush(_) => t2(5, 1),
            F::Push(v) => t2(7, i128::from(fbits(v.0 .0))),
            F::Print(_) => Some(tl![A(10), A(1), A(0)]),
            F::PrintLn(_) => Some(tl![A(10), A(1), A(1)]),
            F::Add => t2(20, 0),
            F::Subtract => t2(20, 1),
            F::Multiply => t2(20, 2),
            F::ProtectedDivide => t2(20, 3),
            F::Equal => t2(21, 0),
            F::NotEqual => t2(21, 1),
            F::LessThan => t2(21, 2),
            F::LessThanOrEqual => t2(21, 3),
            F::GreaterThan => t2(21, 4),
            F::GreaterThanOrEqual => t2(21, 5),
            F::FromIntApprox => t1(22),
            _ => None,
        },
        P::BoolInstruction(i) => match i {
            B::Pop(_) => t2(0, 2),
            B::Dup(_) => t2(1, 2),
            B::Swap(_) => t2(2, 2),
            B::IsEmpty(_) => t2(3, 2),
            B::StackDepth(_) => t2(4, 2),
            B::Flush(_) => t2(5, 2),
            B::Push(v) => t2(8, i128::from(v.0)),
            B::Print(_) => Some(tl![A(10), A(2), A(0)]),
            B::Println(_) => Some(tl![A(10), A(2), A(1)]),
            B::Not => t1(23),
            B::And => t2(24, 0),
            B::Or => t2(24, 1),
            B::Xor => t2(24, 2),
            B::Implies => t2(24, 3),
            B::FromInt => t1(25),
            _ => None,
        },
        P::Exec(i) => match i {
            E::Pop(_) => t2(0, 3),
            E::Dup(_) => t2(1, 3),
            E::Swap(_) => t2(2, 3),
            E::IsEmpty(_) => t2(3, 3),
            E::StackDepth(_) => t2(4, 3),
            E::Flush(_) => t2(5, 3),
            E::Push(b) => Some(tl![A(9), prog_tree(&b.0, strings)?]),
            E::Noop(_) => t1(26),
            E::DupBlock(_) => t1(27),
            E::When(_) => t1(28),
            E::Unless(_) => t1(29),
            E::IfElse(_) => t1(30),
        },
        _ => None,
    }
}

pub fn prog_tree(p: &PushProgram, strings: &[String]) -> Option<Tree> {
    match p {
        PushProgram::Instruction(i) => instr_tree(i, strings),
        PushProgram::Block(b) => {
            let mut v = vec![A(100)];
            for c in b {
                v.push(prog_tree(c, strings)?);
            }
            Some(L(v))
        }
    }
}

pub fn strings_of(t: &Tree) -> Option<Vec<String>> {
    t.list()?
        .iter()
        .map(|s| {
            let bytes: Vec<u8> = s.list()?.iter().map(|b| b.int().map(|x| x as u8)).collect::<Option<_>>()?;
            String::from_utf8(bytes).ok()
        })
        .collect()
}

fn load<T>(st: &mut Stack<T>, vals: Vec<T>, cap: usize) -> Option<()> {
    // only well-formed states (every stack within its maximum) are in the input language: they are what the
    // builder produces and what every program step preserves (C03, C19); the properties quantify over those
    if vals.len() > cap {
        return None;
    }
    st.set_max_stack_size(usize::MAX);
    st.push_many(vals).ok()?;
    st.set_max_stack_size(cap);
    Some(())
}

/// state tree: [exec_cap, [progs top first], int_cap, [ints], float_cap, [float bits], bool_cap, [bools],
///              [[name, kind, value]...], step_limit]
/// Stack contents are loaded through `HasStack::stack_mut`; a stack holding more than its maximum is
/// rejected (not a reachable state); inputs and the step limit go through the builder.
pub fn mk_state(t: &Tree, strings: &[String]) -> Option<PushState> {
    let l = t.list()?;
    let b = PushState::builder().with_max_stack_size(0).with_no_program();
    let mut b = b.with_instruction_step_limit(l.get(9)?.usize()?);
    for inp in l.get(8)?.list()? {
        let i = inp.list()?;
        let name = var_name(i.first()?.int()?);
        b = match i.get(1)?.int()? {
            0 => b.with_int_input(&name, i.get(2)?.i64()?),
            1 => b.with_float_input(&name, OrderedFloat(f64::from_bits(i.get(2)?.u64()?))),
            2 => b.with_bool_input(&name, i.get(2)?.bool()?),
            _ => return None,
        };
    }
    let mut s = b.build();
    let progs: Vec<PushProgram> = l.get(1)?.list()?.iter().map(|p| mk_prog(p, strings)).collect::<Option<_>>()?;
    load(s.stack_mut::<PushProgram>(), progs, l.first()?.usize()?)?;
    let ints: Vec<i64> = l.get(3)?.list()?.iter().map(Tree::i64).collect::<Option<_>>()?;
    load(s.stack_mut::<i64>(), ints, l.get(2)?.usize()?)?;
    let fl: Vec<OrderedFloat<f64>> =
        l.get(5)?.list()?.iter().map(|x| x.u64().map(|b| OrderedFloat(f64::from_bits(b)))).collect::<Option<_>>()?;
    load(s.stack_mut::<OrderedFloat<f64>>(), fl, l.get(4)?.usize()?)?;
    let bs: Vec<bool> = l.get(7)?.list()?.iter().map(Tree::bool).collect::<Option<_>>()?;
    load(s.stack_mut::<bool>(), bs, l.get(6)?.usize()?)?;
    Some(s)
}

/// does every input declared in the state tree `t` still resolve, in `s`, to its (last) declared value?
/// (`PushState` offers no accessor for its inputs; each is resolved by performing `InputVar` on a clone with
/// room on every stack)
pub fn inputs_intact(s: &PushState, t: &Tree) -> bool {
    let Some(decls) = t.list().and_then(|l| l.get(8)).and_then(Tree::list) else { return false };
    let mut last: std::collections::BTreeMap<i128, (i128, i128)> = Default::default();
    for d in decls {
        let Some(d) = d.list() else { return false };
        let (Some(n), Some(k), Some(v)) = (d.first().and_then(Tree::int), d.get(1).and_then(Tree::int), d.get(2).and_then(Tree::int)) else { return false };
        last.insert(n, (k, v));
    }
    for (n, (k, v)) in last {
        let mut c = s.clone();
        c.stack_mut::<i64>().set_max_stack_size(usize::MAX);
        c.stack_mut::<OrderedFloat<f64>>().set_max_stack_size(usize::MAX);
        c.stack_mut::<bool>().set_max_stack_size(usize::MAX);
        c.stack_mut::<PushProgram>().set_max_stack_size(usize::MAX);
        let i = PushInstruction::InputVar(VariableName::from(var_name(n).as_str()));
        let r = std::panic::catch_unwind(std::panic::AssertUnwindSafe(|| i.perform(c)));
        let ok = match r {
            Ok(Ok(c2)) => match k {
                0 => c2.stack::<i64>().top().ok().map(|x| *x as i128) == Some(v) && c2.stack::<i64>().size() == s.stack::<i64>().size() + 1,
                1 => c2.stack::<OrderedFloat<f64>>().top().ok().map(|x| fbits(x.0) as i128) == Some(fbits(f64::from_bits(v as u64)) as i128),
                2 => c2.stack::<bool>().top().ok().map(|x| i128::from(*x)) == Some(v),
                _ => false,
            },
            _ => false,
        };
        if !ok {
            return false;
        }
    }
    true
}

fn drain<T: Clone>(st: &Stack<T>) -> Vec<T> {
    let mut c = st.clone();
    let mut v = vec![];
    while let Ok(x) = c.pop() {
        v.push(x);
    }
    v
}

/// observed state: [exec_cap, [progs], int_cap, [ints], float_cap, [bits], bool_cap, [bools], [stdout bytes], step_limit]
pub fn state_tree(s: &PushState, strings: &[String]) -> Tree {
    let mut s2 = s.clone();
    let out = s2.stdout_string().map(|x| x.into_bytes()).unwrap_or_else(|e| e.into_bytes());
    let progs: Vec<Tree> = drain(s.stack::<PushProgram>())
        .iter()
        .map(|p| prog_tree(p, strings).unwrap_or(tl![A(-99)]))
        .collect();
    tl![
        au(s.stack::<PushProgram>().max_stack_size()),
        L(progs),
        au(s.stack::<i64>().max_stack_size()),
        L(drain(s.stack::<i64>()).into_iter().map(a).collect()),
        au(s.stack::<OrderedFloat<f64>>().max_stack_size()),
        L(drain(s.stack::<OrderedFloat<f64>>()).into_iter().map(|f| a(fbits(f.0))).collect()),
        au(s.stack::<bool>().max_stack_size()),
        L(drain(s.stack::<bool>()).into_iter().map(ab).collect()),
        L(out.into_iter().map(a).collect()),
        au(s.max_instruction_steps())
    ]
}

/// every instruction variant the code currently has (strum), as trees; None entries = unknown to the harness
pub fn universe() -> Vec<(String, Option<Tree>)> {
    use strum::IntoEnumIterator;
    let mut v = vec![];
    for i in IntInstruction::iter() {
        v.push((format!("Int::{i:?}"), instr_tree(&i.into(), &[])));
    }
    for i in FloatInstruction::iter() {
        v.push((format!("Float::{i:?}"), instr_tree(&i.into(), &[])));
    }
    for i in BoolInstruction::iter() {
        v.push((format!("Bool::{i:?}"), instr_tree(&i.into(), &[])));
    }
    for i in ExecInstruction::iter() {
        v.push((format!("Exec::{i:?}"), instr_tree(&i.into(), &[])));
    }
    v
}
