//! C10: crossover operators and the exchange primitives.
//! input = [kind, a, b, ...]
//!   kind 0/1/2: TwoPointXo on [Vec;2] / (Vec,Vec) / [Bitstring;2]; 3/4/5: UniformXo likewise
//!               rest = [seed, draws, coverage flag]; observation [0, [[child, count]...]] | [1] (error)
//!   kind 8/9: TwoPointXo / UniformXo on (Bitstring, Bitstring)   (same rest and observation as 0..5)
//!   kind 10: TwoPointXo on LONG complementary parents (first all 0, second all 1)   [10, [], [], form, len, seed, draws]
//!               form 0 [Vec;2], 1 (Vec,Vec), 2 [Bitstring;2], 3 (Bitstring,Bitstring); observation as above (child = mask)
//!   kind 11: UniformXo on LONG complementary parents, seen through a few positions  [11, [], [], form, len, [positions], seed, draws]
//!               observation [0, [[mask at the positions, count]...]]
//!   kind 12/13: TwoPointXo / UniformXo on [Vec<u8>;2];  14/15: on (Vec<String>, Vec<String>)   (rest and observation as 0..5)
//!   kind 6: Bitstring::crossover_gene(a, b, i);  kind 7: crossover_segment(a, b, lo..hi)
//!               observation [0, a', b'] | [1, a', b'] (error; genomes afterwards)
use std::collections::BTreeMap;

use ec_core::operator::recombinator::Recombinator;
use ec_linear::genome::bitstring::Bitstring;
use ec_linear::recombinator::crossover::Crossover;
use ec_linear::recombinator::two_point_xo::TwoPointXo;
use ec_linear::recombinator::uniform_xo::UniformXo;

use crate::*;

pub const PROP: Prop = Prop { name: "C10", gen, run };

fn v64(t: &Tree) -> Option<Vec<i64>> {
    t.list()?.iter().map(Tree::i64).collect()
}
fn bits(v: &[i64]) -> Bitstring {
    Bitstring { bits: v.iter().map(|x| *x != 0).collect() }
}
fn tv(v: &[i64]) -> Tree {
    L(v.iter().map(|x| a(*x)).collect())
}
fn tb(b: &Bitstring) -> Tree {
    L(b.bits.iter().map(|x| ab(*x)).collect())
}

/// "reported as errors": the error value can be rendered (message, debug form, source chain) and says something
fn reportable<E: std::error::Error>(e: &E) -> bool {
    let mut ok = !e.to_string().is_empty() && !format!("{e:?}").is_empty();
    let mut src = e.source();
    let mut depth = 0;
    while let Some(s) = src {
        ok &= !s.to_string().is_empty();
        src = s.source();
        depth += 1;
        if depth > 64 {
            return false;
        }
    }
    ok
}
fn draws<E: std::error::Error>(n: usize, seed: u64, mut f: impl FnMut(&mut Sm) -> Result<Vec<i64>, E>) -> Tree {
    let mut rng = Sm::new(seed);
    let mut seen: BTreeMap<Vec<i64>, u64> = BTreeMap::new();
    for _ in 0..n {
        match f(&mut rng) {
            Ok(c) => *seen.entry(c).or_insert(0) += 1,
            Err(e) => return if reportable(&e) { tl![A(1)] } else { tl![A(1), A(-1)] },
        }
    }
    tl![A(0), L(seen.into_iter().map(|(c, k)| tl![tv(&c), a(k)]).collect())]
}

fn run(input: &Tree) -> Option<Tree> {
    let l = input.list()?;
    let kind = l.first()?.int()?;
    let (pa, pb) = (v64(l.get(1)?)?, v64(l.get(2)?)?);
    let bitlike = |v: &[i64]| v.iter().all(|x| *x == 0 || *x == 1);
    let b2v = |b: Bitstring| b.bits.into_iter().map(i64::from).collect::<Vec<i64>>();
    if kind == 10 || kind == 11 {
        let form = l.get(3)?.int()?;
        let len = l.get(4)?.usize()?;
        if !(pa.is_empty() && pb.is_empty() && (0..4).contains(&form) && len <= 512) {
            return None;
        }
        let (za, ob) = (vec![0i64; len], vec![1i64; len]);
        if kind == 10 {
            let (seed, n) = (l.get(5)?.u64()?, l.get(6)?.usize()?);
            if n == 0 || n > 1000 || l.len() != 7 {
                return None;
            }
            return Some(match form {
                0 => draws(n, seed, |r| TwoPointXo.recombine([za.clone(), ob.clone()], r)),
                1 => draws(n, seed, |r| TwoPointXo.recombine((za.clone(), ob.clone()), r)),
                2 => draws(n, seed, |r| TwoPointXo.recombine([bits(&za), bits(&ob)], r).map(b2v)),
                _ => draws(n, seed, |r| TwoPointXo.recombine((bits(&za), bits(&ob)), r).map(b2v)),
            });
        }
        let pos: Vec<usize> = l.get(5)?.list()?.iter().map(Tree::usize).collect::<Option<_>>()?;
        let (seed, n) = (l.get(6)?.u64()?, l.get(7)?.usize()?);
        if n == 0 || l.len() != 8 || pos.is_empty() || pos.len() > 4 || pos.iter().any(|p| *p >= len) || pos.windows(2).any(|w| w[0] >= w[1]) {
            return None;
        }
        let proj = |c: Vec<i64>| pos.iter().map(|p| c[*p]).collect::<Vec<i64>>();
        return Some(match form {
            0 => draws(n, seed, |r| UniformXo.recombine([za.clone(), ob.clone()], r).map(proj)),
            1 => draws(n, seed, |r| UniformXo.recombine((za.clone(), ob.clone()), r).map(proj)),
            2 => draws(n, seed, |r| UniformXo.recombine([bits(&za), bits(&ob)], r).map(b2v).map(proj)),
            _ => draws(n, seed, |r| UniformXo.recombine((bits(&za), bits(&ob)), r).map(b2v).map(proj)),
        });
    }
    if (12..=15).contains(&kind) {
        // the vector impls are generic in the gene type: bytes and heap-allocated strings
        let seed = l.get(3)?.u64()?;
        let n = l.get(4)?.usize()?;
        if n == 0 || l.len() != 6 || pa.iter().chain(pb.iter()).any(|x| !(0..=255).contains(x)) {
            return None;
        }
        let bytes = |v: &[i64]| v.iter().map(|x| *x as u8).collect::<Vec<u8>>();
        let strs = |v: &[i64]| v.iter().map(|x| format!("gene {x}")).collect::<Vec<String>>();
        let unb = |c: Vec<u8>| c.into_iter().map(i64::from).collect::<Vec<i64>>();
        let uns = |c: Vec<String>| c.into_iter().map(|s| s[5..].parse::<i64>().unwrap_or(-1)).collect::<Vec<i64>>();
        return Some(match kind {
            12 => draws(n, seed, |r| TwoPointXo.recombine([bytes(&pa), bytes(&pb)], r).map(unb)),
            13 => draws(n, seed, |r| UniformXo.recombine([bytes(&pa), bytes(&pb)], r).map(unb)),
            14 => draws(n, seed, |r| TwoPointXo.recombine((strs(&pa), strs(&pb)), r).map(uns)),
            _ => draws(n, seed, |r| UniformXo.recombine((strs(&pa), strs(&pb)), r).map(uns)),
        });
    }
    if (kind % 3 == 2 || kind >= 6) && !(bitlike(&pa) && bitlike(&pb)) {
        return None;
    }
    if kind == 8 || kind == 9 {
        let seed = l.get(3)?.u64()?;
        let n = l.get(4)?.usize()?;
        if n == 0 || l.len() != 6 {
            return None;
        }
        return Some(if kind == 8 {
            draws(n, seed, |r| TwoPointXo.recombine((bits(&pa), bits(&pb)), r).map(b2v))
        } else {
            draws(n, seed, |r| UniformXo.recombine((bits(&pa), bits(&pb)), r).map(b2v))
        });
    }
    if kind < 6 {
        let seed = l.get(3)?.u64()?;
        let n = l.get(4)?.usize()?;
        if n == 0 || l.len() != 6 {
            return None;
        }
        return Some(match kind {
            0 => draws(n, seed, |r| TwoPointXo.recombine([pa.clone(), pb.clone()], r)),
            1 => draws(n, seed, |r| TwoPointXo.recombine((pa.clone(), pb.clone()), r)),
            2 => draws(n, seed, |r| TwoPointXo.recombine([bits(&pa), bits(&pb)], r).map(b2v)),
            3 => draws(n, seed, |r| UniformXo.recombine([pa.clone(), pb.clone()], r)),
            4 => draws(n, seed, |r| UniformXo.recombine((pa.clone(), pb.clone()), r)),
            5 => draws(n, seed, |r| UniformXo.recombine([bits(&pa), bits(&pb)], r).map(b2v)),
            _ => return None,
        });
    }
    let (mut x, mut y) = (bits(&pa), bits(&pb));
    let r = match kind {
        6 => x.crossover_gene(&mut y, l.get(3)?.usize()?).map_err(|e| reportable(&e)),
        7 => x.crossover_segment(&mut y, l.get(3)?.usize()?..l.get(4)?.usize()?).map_err(|e| reportable(&e)),
        _ => return None,
    };
    Some(tl![A(match r { Ok(()) => 0, Err(true) => 1, Err(false) => -1 }), tb(&x), tb(&y)])
}

fn gen(tier: &str, rng: &mut Sm) -> Gen {
    let mut g = Gen::new();
    let thorough = tier == "thorough";
    let n = if thorough { 50000 } else { 3000 };
    for len in 0..=6usize {
        let pa: Vec<i64> = (0..len as i64).collect();
        let pb: Vec<i64> = (100..100 + len as i64).collect();
        let za = vec![0i64; len];
        let ob = vec![1i64; len];
        for kind in 0..6 {
            let (x, y) = if kind % 3 == 2 { (&za, &ob) } else { (&pa, &pb) };
            // coverage of the whole support is demanded where the rarest child has probability >= 1/64
            let cover = if kind < 3 { 1 } else { i128::from(len <= 5) };
            g.inputs.push(tl![A(kind), tv(x), tv(y), a(rng.next() >> 1), au(n), A(cover)]);
        }
        // byte and string genes through the generic vector impls (tagged parents, also of different lengths)
        for kind in 12..16i128 {
            let cover = if kind % 2 == 0 { 1 } else { i128::from(len <= 5) };
            g.inputs.push(tl![A(kind), tv(&pa), tv(&pb), a(rng.next() >> 1), au(n), A(cover)]);
            let mut longer = pb.clone();
            longer.push(7);
            g.inputs.push(tl![A(kind), tv(&pa), tv(&longer), a(rng.next() >> 1), A(20), A(0)]);
        }
        // the tuple form of the Bitstring impls
        for kind in [8i128, 9] {
            let cover = if kind == 8 { 1 } else { i128::from(len <= 5) };
            g.inputs.push(tl![A(kind), tv(&za), tv(&ob), a(rng.next() >> 1), au(n), A(cover)]);
            g.inputs.push(tl![A(kind), tv(&za), tv(&vec![1i64; len + 1]), a(rng.next() >> 1), A(20), A(0)]);
        }
        // different lengths: an error, not a panic
        for kind in 0..6 {
            let mut longer = pb.clone();
            longer.push(7);
            let lb: Vec<i64> = if kind % 3 == 2 { vec![1; len + 1] } else { longer };
            let la = if kind % 3 == 2 { za.clone() } else { pa.clone() };
            g.inputs.push(tl![A(kind), tv(&la), tv(&lb), a(rng.next() >> 1), A(20), A(0)]);
            if len > 0 {
                g.inputs.push(tl![A(kind), tv(&lb), tv(&la[..len - 1].to_vec()), a(rng.next() >> 1), A(20), A(0)]);
            }
        }
    }
    // parents sharing genes / duplicate genes (children are then ambiguous as values - soundness only)
    for _ in 0..(if thorough { 200 } else { 30 }) {
        let len = rng.below(7);
        let kind = rng.below(6);
        let hi = if kind % 3 == 2 { 1 } else { 2 };
        let pa: Vec<i64> = (0..len).map(|_| rng.range(0, hi)).collect();
        let pb: Vec<i64> = (0..len).map(|_| rng.range(0, hi)).collect();
        g.inputs.push(tl![au(kind), tv(&pa), tv(&pb), a(rng.next() >> 1), A(300), A(0)]);
    }
    // long parents (a machine word and more): two-point children must still be ONE contiguous segment of the second
    // parent; uniform children, seen through positions a word apart / neighbouring / far apart, must show every
    // combination (each position decided on its own)
    for (t, len) in [65usize, 70, 130, 200].iter().enumerate() {
        for form in 0..4i128 {
            if !thorough && (t + form as usize) % 2 == 1 {
                continue;
            }
            g.inputs.push(tl![A(10), L(vec![]), L(vec![]), A(form), au(*len), a(rng.next() >> 1), au(if thorough { 600 } else { 150 })]);
            let sets: Vec<Vec<usize>> = vec![vec![0, 64], vec![1, 33, len - 1], vec![0, 1, len - 2, len - 1], vec![31, 32, 63, 64], vec![len - 65, len - 1]];
            for ps in sets {
                g.inputs.push(tl![A(11), L(vec![]), L(vec![]), A(form), au(*len), L(ps.iter().map(|p| au(*p)).collect()), a(rng.next() >> 1), au(n)]);
            }
        }
    }
    // exchange primitives: exhaustive over lengths <= 5 (both genomes), all indices 0..7, all ranges incl. reversed / out of range
    let maxlen = if thorough { 5 } else { 4 };
    for la in 0..=maxlen {
        for lb in 0..=maxlen {
            let pa: Vec<i64> = (0..la).map(|i| (i % 2) as i64).collect();
            let pb: Vec<i64> = (0..lb).map(|i| ((i + 1) % 2) as i64).collect();
            for i in 0..8i64 {
                g.inputs.push(tl![A(6), tv(&pa), tv(&pb), a(i)]);
                for j in 0..8i64 {
                    g.inputs.push(tl![A(7), tv(&pa), tv(&pb), a(i), a(j)]);
                }
            }
        }
    }
    // indices and range ends at the top of usize (an index + 1 must not overflow)
    {
        let huge: [i128; 4] = [u64::MAX as i128, u64::MAX as i128 - 1, i64::MAX as i128, i64::MAX as i128 + 1];
        for (la, lb) in [(0usize, 0usize), (2, 2), (3, 1), (1, 4)] {
            let pa: Vec<i64> = (0..la).map(|i| (i % 2) as i64).collect();
            let pb: Vec<i64> = (0..lb).map(|i| ((i + 1) % 2) as i64).collect();
            for h in huge {
                g.inputs.push(tl![A(6), tv(&pa), tv(&pb), a(h)]);
                for other in [0i128, 1, 2, h, h - 1] {
                    g.inputs.push(tl![A(7), tv(&pa), tv(&pb), a(other), a(h)]);
                    g.inputs.push(tl![A(7), tv(&pa), tv(&pb), a(h), a(other)]);
                }
            }
        }
    }
    g.meta("generator", format!("TwoPointXo/UniformXo on [Vec;2], (Vec,Vec), [Bitstring;2], (Bitstring,Bitstring) with tagged / complementary parents of length 0..6, {n} draws each (support soundness on every draw, completeness of the support where demanded), different lengths both ways, random small-alphabet parents; complementary parents of 65..200 genes (two-point: one contiguous segment; uniform: every combination at positions a word apart, neighbouring and far apart); exchange primitives exhaustive over lengths 0..{maxlen} x indices 0..7 x all ranges, and with indices / range ends at the top of usize"));
    g
}
