//! C11 / C12: mutation operators, uniform crossover, random bitstrings and random Plushy genes,
//! observed as histograms of children over seeded draws.
//! input = [seed, draws, [kind, ...]]   observation = [0, [[child, count]...]]
//!  0/1  WithRate on Vec<bool> / Bitstring          [k, rate_num, rate_den, bits]
//!  2/3  WithOneOverLength on Vec<bool> / Bitstring  [k, bits]
//!  4    Umad on Vector<i64> (tagged genes)           [4, a_n, a_d, d_n, d_d, empty_kind, e_n, e_d, genes, alphabet]
//!  5    Umad on Bitstring with BoolGenerator(1/2)   [5, ... same ..., bits, [0,1]]
//!  6    UniformXo on [Vec<i64>; 2]                   [6, a, b]
//!  7    Bitstring::random_with_probability           [7, n, p_n, p_d]
//!  8    Plushy gene generator over n instructions    [8, n, close_kind, c_n, c_d]   child = [0] close, [i+1] instruction i
//!  9    WithRate on Vec<i64> (`!` = bitwise not)     [9, rate_num, rate_den, genes]
//!  11   long genomes, judged through two positions i < j < len   [11, op, len, i, j, rate_num, rate_den]
//!         op 0/1 WithRate on Vec<bool> / Bitstring (child = [flipped at i, flipped at j]); op 2 UniformXo on [Bitstring; 2],
//!         op 3 UniformXo on [Vec<bool>; 2], op 4 UniformXo on (Bitstring, Bitstring) (complementary parents; child = [taken from
//!         the second parent at i, at j]); op 5 Bitstring::random_with_probability (child = [bit i, bit j]); op 6 WithOneOverLength
//!  12   very long genomes, every gene of every child pooled   [12, op, len, rate_num, rate_den]
//!         op 0 WithOneOverLength Bitstring, 1 WithOneOverLength Vec<bool>, 2 WithRate Bitstring, 3 WithRate Vec<bool>;
//!         observation [0, [[[1], number of flipped genes], [[0], number of unflipped genes]]]
//!  13   a whole random Plushy of `len` genes (Distribution<Plushy>), seen at one position   [13, n_instr, len, pos, close_kind, c_n, c_d]
//!         child = [0] close, [i+1] instruction i   (same law as kind 8 at every position)
//!  10   Umad on Plushy (genes = PushInt tags; new genes from a gene generator with close markers)
use std::collections::BTreeMap;

use ec_core::distributions::collection::ConvertToCollectionGenerator;
use ec_core::distributions::conversion::IntoDistribution;
use ec_core::operator::mutator::Mutator;
use ec_core::operator::recombinator::Recombinator;
use ec_linear::genome::bitstring::{Bitstring, BoolGenerator};
use ec_linear::genome::vector::Vector;
use ec_linear::mutator::umad::Umad;
use ec_linear::mutator::with_one_over_length::WithOneOverLength;
use ec_linear::mutator::with_rate::WithRate;
use ec_linear::recombinator::uniform_xo::UniformXo;
use push::genome::plushy::{ConvertToGeneGenerator, Plushy, PushGene};
use push::instruction::PushInstruction;
use rand::distr::Distribution;

use crate::*;

pub const PROP: Prop = Prop { name: "C11", gen: gen_c11, run };
pub const PROP12: Prop = Prop { name: "C12", gen: gen_c12, run };

/// the seeded generator, or - for seeds 0 and 1 - a constant stream of all-zero / all-one words
/// (the extreme draws: `random::<f32>()` == 0.0, respectively the largest value below 1)
pub enum AnyRng {
    Seeded(Sm),
    Const(u64),
}
impl AnyRng {
    pub fn new(seed: u64) -> Self {
        match seed {
            0 => AnyRng::Const(0),
            1 => AnyRng::Const(u64::MAX),
            s => AnyRng::Seeded(Sm::new(s)),
        }
    }
}
impl rand::RngCore for AnyRng {
    fn next_u32(&mut self) -> u32 {
        match self {
            AnyRng::Seeded(s) => s.next_u32(),
            AnyRng::Const(c) => *c as u32,
        }
    }
    fn next_u64(&mut self) -> u64 {
        match self {
            AnyRng::Seeded(s) => s.next_u64(),
            AnyRng::Const(c) => *c,
        }
    }
    fn fill_bytes(&mut self, dst: &mut [u8]) {
        match self {
            AnyRng::Seeded(s) => s.fill_bytes(dst),
            AnyRng::Const(c) => dst.iter_mut().for_each(|b| *b = *c as u8),
        }
    }
}

struct Alpha(Vec<i64>);
impl Distribution<i64> for Alpha {
    fn sample<R: rand::Rng + ?Sized>(&self, rng: &mut R) -> i64 {
        self.0[rng.random_range(0..self.0.len())]
    }
}

fn v64(t: &Tree) -> Option<Vec<i64>> {
    t.list()?.iter().map(Tree::i64).collect()
}
fn bools(v: &[i64]) -> Option<Vec<bool>> {
    v.iter().map(|x| match x {
        0 => Some(false),
        1 => Some(true),
        _ => None,
    }).collect()
}
fn ratio(n: &Tree, d: &Tree) -> Option<f64> {
    let (n, d) = (n.i64()?, d.i64()?);
    if d <= 0 || n < 0 || n > d {
        return None;
    }
    Some(n as f64 / d as f64)
}
fn hist(n: usize, seed: u64, mut f: impl FnMut(&mut AnyRng) -> Vec<i64>) -> Tree {
    let mut rng = AnyRng::new(seed);
    let mut h: BTreeMap<Vec<i64>, u64> = BTreeMap::new();
    for _ in 0..n {
        *h.entry(f(&mut rng)).or_insert(0) += 1;
    }
    tl![A(0), L(h.into_iter().map(|(c, k)| tl![L(c.into_iter().map(a).collect()), a(k)]).collect())]
}
/// a copy of `v` that (for odd seeds) carries spare capacity, as a vector built by pushing would:
/// what a mutator does must depend on the genes, not on the allocation
fn roomy<T: Clone>(v: &[T], seed: u64) -> Vec<T> {
    let mut out = Vec::with_capacity(v.len() + if seed % 2 == 1 || v.len() <= 2 { 13 } else { 0 });
    out.extend_from_slice(v);
    out
}
fn b2v(b: Vec<bool>) -> Vec<i64> {
    b.into_iter().map(i64::from).collect()
}
fn gene_code(g: &PushGene) -> i64 {
    match g {
        PushGene::Close => 50,
        PushGene::Instruction(PushInstruction::IntInstruction(push::instruction::IntInstruction::Push(v))) => v.0,
        PushGene::Instruction(_) => 60,
    }
}

fn run(input: &Tree) -> Option<Tree> {
    let l = input.list()?;
    let seed = l.first()?.u64()?;
    let n = l.get(1)?.usize()?;
    if n == 0 || l.len() != 3 {
        return None;
    }
    let p = l.get(2)?.list()?;
    let kind = p.first()?.int()?;
    Some(match kind {
        0 | 1 | 9 => {
            if p.len() != 4 {
                return None;
            }
            // a flip rate may exceed 1 (every gene is then flipped): not a probability handed to a distribution
            let (rn, rd) = (p.get(1)?.i64()?, p.get(2)?.i64()?);
            if rd <= 0 || rn < 0 {
                return None;
            }
            let r = (rn as f64 / rd as f64) as f32;
            let g = v64(p.get(3)?)?;
            let m = WithRate::new(r);
            match kind {
                0 => {
                    let b = bools(&g)?;
                    hist(n, seed, |rng| b2v(m.mutate(roomy(&b, seed), rng).unwrap()))
                }
                1 => {
                    let b = Bitstring { bits: bools(&g)? };
                    hist(n, seed, |rng| b2v(m.mutate(b.clone(), rng).unwrap().bits))
                }
                _ => hist(n, seed, |rng| m.mutate(roomy(&g, seed), rng).unwrap()),
            }
        }
        2 | 3 => {
            if p.len() != 2 {
                return None;
            }
            let b = bools(&v64(p.get(1)?)?)?;
            if kind == 2 {
                hist(n, seed, |rng| b2v(WithOneOverLength.mutate(roomy(&b, seed), rng).unwrap()))
            } else {
                let bs = Bitstring { bits: b };
                hist(n, seed, |rng| b2v(WithOneOverLength.mutate(bs.clone(), rng).unwrap().bits))
            }
        }
        4 | 5 | 10 => {
            if p.len() != 10 {
                return None;
            }
            let (ar, dr) = (ratio(p.get(1)?, p.get(2)?)?, ratio(p.get(3)?, p.get(4)?)?);
            let ek = p.get(5)?.int()?;
            let er = ratio(p.get(6)?, p.get(7)?)?;
            let g = v64(p.get(8)?)?;
            let alpha = v64(p.get(9)?)?;
            if alpha.is_empty() {
                return None;
            }
            macro_rules! mk {
                ($gen:expr) => {
                    match ek {
                        0 => Umad::new_without_empty(ar, dr, $gen),
                        1 => Umad::new_with_empty_rate(ar, er, dr, $gen),
                        2 => {
                            if (er - ar).abs() > 0.0 {
                                return None;
                            }
                            Umad::new(ar, dr, $gen)
                        }
                        _ => return None,
                    }
                };
            }
            match kind {
                4 => {
                    let u = mk!(Alpha(alpha.clone()));
                    let parent = Vector { genes: g };
                    hist(n, seed, |rng| u.mutate(parent.clone(), rng).unwrap().genes)
                }
                5 => {
                    if alpha != [0, 1] {
                        return None;
                    }
                    let u = mk!(BoolGenerator::new(0.5));
                    let parent = Bitstring { bits: bools(&g)? };
                    hist(n, seed, |rng| b2v(u.mutate(parent.clone(), rng).unwrap().bits))
                }
                _ => {
                    // new genes: PushInt(40) / PushInt(41) or a close marker (code 50)
                    if alpha != [40, 41, 50] {
                        return None;
                    }
                    let instrs = vec![PushInstruction::push_int(40), PushInstruction::push_int(41)];
                    let gg = instrs.into_distribution().ok()?.into_gene_generator_with_close_probability(0.25);
                    let u = mk!(gg);
                    // parent gene 50 = a close marker, anything else a tagged PushInt
                    let parent = Plushy::new(g.iter().map(|t| if *t == 50 { PushGene::Close } else { PushGene::Instruction(PushInstruction::push_int(*t)) }));
                    hist(n, seed, |rng| u.mutate(parent.clone(), rng).unwrap().get_genes().iter().map(gene_code).collect())
                }
            }
        }
        11 => {
            if p.len() != 7 {
                return None;
            }
            let op = p.get(1)?.int()?;
            let (len, i, j) = (p.get(2)?.usize()?, p.get(3)?.usize()?, p.get(4)?.usize()?);
            if !(i < j && j < len && len <= 4096) {
                return None;
            }
            let r = ratio(p.get(5)?, p.get(6)?)?;
            // a fixed, non-trivial parent: bit k is set iff k % 3 == 0
            let parent: Vec<bool> = (0..len).map(|k| k % 3 == 0).collect();
            let other: Vec<bool> = parent.iter().map(|b| !b).collect();
            let pick = |c: &[bool], base: &[bool]| vec![i64::from(c[i] != base[i]), i64::from(c[j] != base[j])];
            match op {
                0 => {
                    let m = WithRate::new(r as f32);
                    hist(n, seed, |rng| pick(&m.mutate(parent.clone(), rng).unwrap(), &parent))
                }
                1 => {
                    let m = WithRate::new(r as f32);
                    let b = Bitstring { bits: parent.clone() };
                    hist(n, seed, |rng| pick(&m.mutate(b.clone(), rng).unwrap().bits, &parent))
                }
                2 => {
                    let (x, y) = (Bitstring { bits: parent.clone() }, Bitstring { bits: other.clone() });
                    hist(n, seed, |rng| pick(&UniformXo.recombine([x.clone(), y.clone()], rng).unwrap().bits, &parent))
                }
                3 => hist(n, seed, |rng| pick(&UniformXo.recombine([parent.clone(), other.clone()], rng).unwrap(), &parent)),
                4 => {
                    let (x, y) = (Bitstring { bits: parent.clone() }, Bitstring { bits: other.clone() });
                    hist(n, seed, |rng| pick(&UniformXo.recombine((x.clone(), y.clone()), rng).unwrap().bits, &parent))
                }
                5 => {
                    let zero = vec![false; len];
                    hist(n, seed, |rng| pick(&Bitstring::random_with_probability(len, r, rng).bits, &zero))
                }
                6 => {
                    let m = WithOneOverLength;
                    let b = Bitstring { bits: parent.clone() };
                    hist(n, seed, |rng| pick(&m.mutate(b.clone(), rng).unwrap().bits, &parent))
                }
                _ => return None,
            }
        }
        12 => {
            if p.len() != 5 {
                return None;
            }
            let op = p.get(1)?.int()?;
            let len = p.get(2)?.usize()?;
            if len == 0 || len > (1 << 20) || n > 5000 {
                return None;
            }
            let r = ratio(p.get(3)?, p.get(4)?)?;
            let parent: Vec<bool> = (0..len).map(|k| k % 3 == 0).collect();
            let mut rng = AnyRng::new(seed);
            let (mut flipped, mut total) = (0u64, 0u64);
            for _ in 0..n {
                let child: Vec<bool> = match op {
                    0 => WithOneOverLength.mutate(Bitstring { bits: parent.clone() }, &mut rng).ok()?.bits,
                    1 => WithOneOverLength.mutate(parent.clone(), &mut rng).ok()?,
                    2 => WithRate::new(r as f32).mutate(Bitstring { bits: parent.clone() }, &mut rng).ok()?.bits,
                    3 => WithRate::new(r as f32).mutate(parent.clone(), &mut rng).ok()?,
                    _ => return None,
                };
                if child.len() != len {
                    return Some(tl![A(0), L(vec![tl![tl![A(2)], A(1)]])]);
                }
                flipped += child.iter().zip(&parent).filter(|(c, p)| c != p).count() as u64;
                total += len as u64;
            }
            tl![A(0), L(vec![tl![tl![A(1)], a(flipped)], tl![tl![A(0)], a(total - flipped)]])]
        }
        14 => {
            // uniform crossover in every argument form: 0 [Vec;2], 1 (Vec,Vec), 2 [Bitstring;2], 3 (Bitstring,Bitstring)
            if p.len() != 4 {
                return None;
            }
            let form = p.get(1)?.int()?;
            let (x, y) = (v64(p.get(2)?)?, v64(p.get(3)?)?);
            if x.len() != y.len() || (form >= 2 && x.iter().chain(y.iter()).any(|b| *b != 0 && *b != 1)) {
                return None;
            }
            let bs = |v: &[i64]| Bitstring { bits: v.iter().map(|b| *b != 0).collect() };
            match form {
                0 => hist(n, seed, |rng| UniformXo.recombine([x.clone(), y.clone()], rng).unwrap()),
                1 => hist(n, seed, |rng| UniformXo.recombine((x.clone(), y.clone()), rng).unwrap()),
                2 => hist(n, seed, |rng| b2v(UniformXo.recombine([bs(&x), bs(&y)], rng).unwrap().bits)),
                3 => hist(n, seed, |rng| b2v(UniformXo.recombine((bs(&x), bs(&y)), rng).unwrap().bits)),
                _ => return None,
            }
        }
        6 => {
            if p.len() != 3 {
                return None;
            }
            let (x, y) = (v64(p.get(1)?)?, v64(p.get(2)?)?);
            if x.len() != y.len() {
                return None;
            }
            hist(n, seed, |rng| UniformXo.recombine([x.clone(), y.clone()], rng).unwrap())
        }
        7 => {
            if p.len() != 4 {
                return None;
            }
            let bits = p.get(1)?.usize()?;
            let pr = ratio(p.get(2)?, p.get(3)?)?;
            hist(n, seed, |rng| b2v(Bitstring::random_with_probability(bits, pr, rng).bits))
        }
        13 => {
            if p.len() != 7 {
                return None;
            }
            let k = p.get(1)?.usize()?;
            let (len, pos) = (p.get(2)?.usize()?, p.get(3)?.usize()?);
            if k == 0 || pos >= len || len > 64 {
                return None;
            }
            let instrs: Vec<PushInstruction> = (0..k as i64).map(PushInstruction::push_int).collect();
            let d = instrs.into_distribution().ok()?;
            let code = |g: &PushGene| match g {
                PushGene::Close => 0,
                other => gene_code(other) + 1,
            };
            match p.get(4)?.int()? {
                0 => {
                    let gg = d.into_gene_generator().into_collection_generator(len);
                    hist(n, seed, |rng| {
                        let pl: Plushy = gg.sample(rng);
                        vec![if pl.get_genes().len() == len { code(&pl.get_genes()[pos]) } else { -5 }]
                    })
                }
                1 => {
                    let c = ratio(p.get(5)?, p.get(6)?)? as f32;
                    let gg = d.into_gene_generator_with_close_probability(c).into_collection_generator(len);
                    hist(n, seed, |rng| {
                        let pl: Plushy = gg.sample(rng);
                        vec![if pl.get_genes().len() == len { code(&pl.get_genes()[pos]) } else { -5 }]
                    })
                }
                _ => return None,
            }
        }
        8 => {
            if p.len() != 5 {
                return None;
            }
            let k = p.get(1)?.usize()?;
            if k == 0 {
                return None;
            }
            let instrs: Vec<PushInstruction> = (0..k as i64).map(PushInstruction::push_int).collect();
            let d = instrs.into_distribution().ok()?;
            // even modes: the default close probability; odd modes: an explicit one; through every constructor
            let c = ratio(p.get(3)?, p.get(4)?)? as f32;
            let genes: Vec<PushGene> = match p.get(2)?.int()? {
                0 => d.into_gene_generator().into_collection_generator(n).sample(&mut AnyRng::new(seed)),
                1 => d.into_gene_generator_with_close_probability(c).into_collection_generator(n).sample(&mut AnyRng::new(seed)),
                2 => d.to_gene_generator().into_collection_generator(n).sample(&mut AnyRng::new(seed)),
                3 => d.to_gene_generator_with_close_probability(c).into_collection_generator(n).sample(&mut AnyRng::new(seed)),
                4 => push::genome::plushy::GeneGenerator::with_uniform_close_probability(d).into_collection_generator(n).sample(&mut AnyRng::new(seed)),
                5 => push::genome::plushy::GeneGenerator::new(c, d).into_collection_generator(n).sample(&mut AnyRng::new(seed)),
                6 => push::genome::plushy::GeneGenerator::with_uniform_close_probability(&d).to_collection_generator(n).sample(&mut AnyRng::new(seed)),
                7 => push::genome::plushy::GeneGenerator::new(c, &d).to_collection_generator(n).sample(&mut AnyRng::new(seed)),
                _ => return None,
            };
            let mut h: BTreeMap<i64, u64> = BTreeMap::new();
            for g in &genes {
                let c = match g {
                    PushGene::Close => 0,
                    other => gene_code(other) + 1,
                };
                *h.entry(c).or_insert(0) += 1;
            }
            tl![A(0), L(h.into_iter().map(|(c, k)| tl![tl![a(c)], a(k)]).collect())]
        }
        _ => return None,
    })
}

fn tv(v: &[i64]) -> Tree {
    L(v.iter().map(|x| a(*x)).collect())
}
fn case(rng: &mut Sm, n: usize, payload: Tree) -> Tree {
    tl![a(rng.next() >> 1), au(n), payload]
}

fn gen_c11(tier: &str, rng: &mut Sm) -> Gen {
    let mut g = Gen::new();
    let n = if tier == "thorough" { 20000 } else { 1500 };
    let reps = if tier == "thorough" { 6 } else { 1 };
    let rates: [(i64, i64); 9] = [(0, 1), (1, 4), (1, 2), (1, 1), (3, 16), (15, 16), (16777217, 16777216), (3, 2), (1000, 1)];
    for _ in 0..reps {
        for len in 0..=12usize {
            let bits: Vec<i64> = (0..len).map(|_| rng.range(0, 1)).collect();
            let tagged: Vec<i64> = (0..len as i64).map(|i| i * 3 - 7).collect();
            for (rn, rd) in rates {
                g.inputs.push(case(rng, n, tl![A(0), a(rn), a(rd), tv(&bits)]));
                g.inputs.push(case(rng, n, tl![A(1), a(rn), a(rd), tv(&bits)]));
                g.inputs.push(case(rng, n, tl![A(9), a(rn), a(rd), tv(&tagged)]));
            }
            g.inputs.push(case(rng, n, tl![A(2), tv(&bits)]));
            g.inputs.push(case(rng, n, tl![A(3), tv(&bits)]));
            // the extreme random streams (every draw 0.0 / every draw the largest value below 1) at the
            // degenerate rates: rate 0 must still be the identity, rate 1 must still flip everything
            for extreme in [0i64, 1] {
                for (rn, rd) in [(0i64, 1i64), (1, 1)] {
                    for kind in [0i64, 1, 9] {
                        let gns = if kind == 9 { &tagged } else { &bits };
                        g.inputs.push(tl![a(extreme), A(3), tl![a(kind), a(rn), a(rd), tv(gns)]]);
                    }
                }
            }
            // UMAD: tagged parent genes 0..len-1, disjoint new-gene alphabet
            let parent: Vec<i64> = (0..len as i64).collect();
            for ((an, ad), (dn, dd)) in [((0, 1), (0, 1)), ((1, 4), (1, 4)), ((1, 2), (1, 8)), ((1, 1), (0, 1)), ((0, 1), (1, 1)), ((1, 2), (1, 1)), ((1, 1), (1, 2)), ((3, 4), (3, 7))] {
                for ek in 0..3i64 {
                    let (en, ed) = if ek == 2 { (an, ad) } else { (1, 2) };
                    if len <= 8 || ek == 0 {
                        g.inputs.push(case(rng, n, tl![A(4), a(an), a(ad), a(dn), a(dd), a(ek), a(en), a(ed), tv(&parent), tv(&[40, 41])]));
                    }
                    if len <= 5 {
                        g.inputs.push(case(rng, n / 3, tl![A(5), a(an), a(ad), a(dn), a(dd), a(ek), a(en), a(ed), tv(&bits), tv(&[0, 1])]));
                        g.inputs.push(case(rng, n / 3, tl![A(10), a(an), a(ad), a(dn), a(dd), a(ek), a(en), a(ed), tv(&parent), tv(&[40, 41, 50])]));
                        // Plushy parents with close markers among (or instead of) their instructions
                        if len >= 1 && len <= 4 {
                            let closes: Vec<i64> = vec![50; len];
                            let mixed: Vec<i64> = (0..len as i64).map(|i| if i % 2 == 0 { 50 } else { i }).collect();
                            g.inputs.push(case(rng, n / 3, tl![A(10), a(an), a(ad), a(dn), a(dd), a(ek), a(en), a(ed), tv(&closes), tv(&[40, 41, 50])]));
                            g.inputs.push(case(rng, n / 3, tl![A(10), a(an), a(ad), a(dn), a(dd), a(ek), a(en), a(ed), tv(&mixed), tv(&[40, 41, 50])]));
                        }
                    }
                }
            }
        }
    }
    g.meta("generator", "bit vectors, bitstrings, i64 vectors (tagged, `!` = bitwise not), tagged gene vectors and Plushy genomes of length 0..12; flip rates {0, 1/4, 1/2, 1, 3/16, 15/16} and 1/len; UMAD (add, del) in {(0,0), (1/4,1/4), (1/2,1/8), (1,0), (0,1), (1/2,1), (1,1/2), (3/4,3/7)} x empty-genome handling {disabled, explicit rate, default}; Plushy parents made of / interleaved with close markers");
    g
}

fn gen_c12(tier: &str, rng: &mut Sm) -> Gen {
    let mut g = Gen::new();
    let n = if tier == "thorough" { 400000 } else { 20000 };
    for len in 1..=8usize {
        let bits: Vec<i64> = (0..len).map(|_| rng.range(0, 1)).collect();
        for (rn, rd) in [(1i64, 16i64), (1, 4), (1, 2), (7, 8)] {
            if len <= 6 || (rn, rd) == (1, 4) {
                g.inputs.push(case(rng, n, tl![A((len % 2) as i128), a(rn), a(rd), tv(&bits)]));
            }
        }
        g.inputs.push(case(rng, n, tl![A(2 + (len % 2) as i128), tv(&bits)]));
    }
    for len in 0..=3usize {
        let parent: Vec<i64> = (0..len as i64).collect();
        for ((an, ad), (dn, dd)) in [((1i64, 8i64), (1i64, 8i64)), ((1, 4), (1, 5)), ((1, 2), (1, 4)), ((1, 1), (0, 1)), ((0, 1), (1, 1)), ((1, 2), (1, 3))] {
            let ek = rng.range(0, 2);
            let (en, ed) = if ek == 2 { (an, ad) } else { (3, 4) };
            g.inputs.push(case(rng, n, tl![A(4), a(an), a(ad), a(dn), a(dd), a(ek), a(en), a(ed), tv(&parent), tv(&[40, 41])]));
        }
    }
    for len in 1..=6usize {
        let pa: Vec<i64> = (0..len as i64).collect();
        let pb: Vec<i64> = (20..20 + len as i64).collect();
        g.inputs.push(case(rng, n, tl![A(6), tv(&pa), tv(&pb)]));
        // every argument form, on complementary parents (a child bit tells its parent)
        for form in 0..4i128 {
            g.inputs.push(case(rng, n, tl![A(14), a(form), tv(&vec![0; len]), tv(&vec![1; len])]));
        }
    }
    for (pn, pd) in [(0i64, 1i64), (1, 8), (1, 2), (7, 8), (1, 1)] {
        g.inputs.push(case(rng, n, tl![A(7), A(5), a(pn), a(pd)]));
    }
    g.inputs.push(case(rng, 200, tl![A(7), A(0), A(1), A(2)]));
    // whole random Plushy genomes, gene by gene: the first, an inner and the last position follow the gene law
    for (t, (k, len)) in [(1i64, 1usize), (2, 3), (3, 5), (4, 8)].iter().enumerate() {
        for pos in [0usize, len / 2, len - 1] {
            if tier != "thorough" && pos != 0 && t % 2 == 1 {
                continue;
            }
            g.inputs.push(case(rng, n, tl![A(13), a(*k), au(*len), au(pos), A(0), A(0), A(1)]));
            g.inputs.push(case(rng, n, tl![A(13), a(*k), au(*len), au(pos), A(1), A(1), A(2)]));
        }
    }
    // very long genomes: the per-gene flip frequency pooled over all genes of all children (1/length must not
    // saturate or lose precision for genomes of 2^16 genes and more)
    for (op, len, rn, rd, k) in [(0i64, (1usize << 17) + 1, 1i64, 1i64, 300usize), (1, 1 << 17, 1, 1, 300), (0, 1 << 18, 1, 1, 200), (2, 100_000, 1, 4096, 40), (3, 65_537, 1, 1024, 60)] {
        if tier != "thorough" && op == 3 {
            continue;
        }
        g.inputs.push(case(rng, k, tl![A(12), a(op), au(len), a(rn), a(rd)]));
    }
    // long genomes (far too many children to tabulate): one position pair per case - neighbours, a word apart
    // (63, 64, 65, 128), far apart - judged against the pair marginals (independence) of the model
    let pairs: &[(usize, usize, usize)] = &[(65, 0, 64), (130, 1, 65), (130, 0, 128), (200, 63, 127), (100, 98, 99), (257, 0, 256), (96, 31, 63), (96, 32, 64)];
    for (t, (len, i, j)) in pairs.iter().enumerate() {
        for op in 0..=6i64 {
            if tier != "thorough" && (t + op as usize) % 4 != 0 {
                continue;
            }
            let (rn, rd) = match op {
                0 | 1 => [(1i64, 4i64), (1, 2), (7, 8)][t % 3],
                5 => [(1, 8), (1, 2), (3, 4)][t % 3],
                6 => (1, *len as i64),
                _ => (1, 2),
            };
            g.inputs.push(case(rng, n, tl![A(11), a(op), au(*len), au(*i), au(*j), a(rn), a(rd)]));
        }
    }
    for k in [1i64, 2, 3, 5] {
        g.inputs.push(case(rng, n, tl![A(8), a(k), A(0), A(0), A(1)]));
        g.inputs.push(case(rng, n, tl![A(8), a(k), A(1), A(1), A(4)]));
        g.inputs.push(case(rng, n, tl![A(8), a(k), A(1), A(0), A(1)]));
        // the same through the borrowing conversions and the constructors themselves
        for (mode, cn, cd) in [(2, 0, 1), (3, 1, 4), (4, 0, 1), (5, 3, 4), (6, 0, 1), (7, 1, 2)] {
            g.inputs.push(case(rng, n, tl![A(8), a(k), A(mode), A(cn), A(cd)]));
        }
    }
    if tier == "thorough" {
        // further dyadic rates, lengths and alphabets
        for len in 1..=6usize {
            let bits: Vec<i64> = (0..len).map(|_| rng.range(0, 1)).collect();
            for (rn, rd) in [(1i64, 32i64), (3, 8), (5, 8), (3, 4), (15, 16), (0, 1), (1, 1)] {
                g.inputs.push(case(rng, n, tl![A((len % 2) as i128), a(rn), a(rd), tv(&bits)]));
            }
        }
        for len in 0..=3usize {
            let parent: Vec<i64> = (0..len as i64).collect();
            for ((an, ad), (dn, dd)) in [((3i64, 4i64), (1i64, 8i64)), ((1, 8), (3, 4)), ((1, 2), (1, 2)), ((1, 4), (3, 4)), ((1, 1), (1, 2)), ((1, 16), (1, 16))] {
                for ek in 0..=2i64 {
                    let (en, ed) = if ek == 2 { (an, ad) } else { (1, 4) };
                    g.inputs.push(case(rng, n, tl![A(4), a(an), a(ad), a(dn), a(dd), a(ek), a(en), a(ed), tv(&parent), tv(&[40, 41])]));
                }
            }
        }
        for k in [4i64, 7] {
            g.inputs.push(case(rng, n, tl![A(8), a(k), A(0), A(0), A(1)]));
            g.inputs.push(case(rng, n, tl![A(8), a(k), A(1), A(1), A(8)]));
            g.inputs.push(case(rng, n, tl![A(8), a(k), A(1), A(1), A(2)]));
            g.inputs.push(case(rng, n, tl![A(8), a(k), A(1), A(1), A(1)]));
        }
    }
    g.meta("generator", "full child distributions: bit-flip rates {1/16, 1/4, 1/2, 7/8} and 1/len for len 1..8; UMAD (a,d) in {(1/8,1/8), (1/4,1/5) [size-neutral], (1/2,1/4), (1,0), (0,1), (1/2,1/3) [size-neutral]} on 0..3 tagged genes with a 2-gene alphabet; uniform crossover len 1..6; random bitstrings p in {0, 1/8, 1/2, 7/8, 1}; gene generators for 1,2,3,5 instructions with the default and explicit close probabilities; genomes of 65..257 genes judged through pairs of positions (neighbours, 32/63/64/65/128/256 apart) for bit-flip, 1/length flip, uniform crossover in all argument forms and random bitstrings");
    g
}
