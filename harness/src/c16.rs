//! C16: all randomness comes from the supplied generator; Push evaluation is deterministic.
//! kind 0: [0, op, seed, data]  ->  [run A, run B, run C]   (each run = [[3 results], next word])
//!    A, B: fresh operator values, generators cloned from one seed;  C: an operator value that was
//!    already used (with another generator) before, again from the same seed.  All three must coincide.
//! kind 1: [1, strings, state, n]  -> the program run under EVERY permutation of its input declarations
//!    (and twice from the same built state): [class, state, errkind, all runs equal]
use ec_core::distributions::collection::ConvertToCollectionGenerator;
use ec_core::distributions::conversion::{IntoDistribution, ToDistribution};
use ec_core::individual::ec::{EcIndividual, WithScorer};
use ec_core::individual::scorer::FnScorer;
use ec_core::operator::genome_extractor::GenomeExtractor;
use ec_core::operator::genome_scorer::GenomeScorer;
use ec_core::operator::mutator::{Mutate, Mutator};
use ec_core::operator::recombinator::Recombinator;
use ec_core::operator::selector::tournament::Tournament;
use ec_core::operator::selector::{Select, Selector};
use ec_core::operator::{Composable, Operator};
use ec_core::test_results::{Score, TestResults};
use ec_linear::genome::bitstring::{Bitstring, BoolGenerator};
use ec_linear::genome::vector::Vector;
use ec_linear::mutator::umad::Umad;
use ec_linear::mutator::with_one_over_length::WithOneOverLength;
use ec_linear::mutator::with_rate::WithRate;
use ec_linear::recombinator::two_point_xo::TwoPointXo;
use ec_linear::recombinator::uniform_xo::UniformXo;
use push::error::into_state::IntoState;
use push::genome::plushy::{ConvertToGeneGenerator, Plushy, PushGene};
use push::instruction::PushInstruction;
use push::push_vm::State;
use rand::distr::Distribution;

use crate::c06::{build, Built, Pop};
use crate::pushio::*;
use crate::*;

pub const PROP: Prop = Prop { name: "C16", gen, run };
pub const NOPS: usize = 48;

struct Alpha(Vec<i64>);
impl Distribution<i64> for Alpha {
    fn sample<R: rand::Rng + ?Sized>(&self, rng: &mut R) -> i64 {
        self.0[rng.random_range(0..self.0.len())]
    }
}

fn triple<O: Sync>(seed: u64, mk: impl Fn() -> O + Sync, call: impl Fn(&O, &mut Sm) -> Tree + Sync) -> Tree {
    let run = |op: &O, mut rng: Sm| {
        let r: Vec<Tree> = (0..3).map(|_| call(op, &mut rng)).collect();
        tl![L(r), a(rng.next())]
    };
    let ra = run(&mk(), Sm::new(seed));
    // run B happens on ANOTHER THREAD (value built and used there): nothing thread-bound may influence the outcome
    let rb = std::thread::scope(|sc| sc.spawn(|| run(&mk(), Sm::new(seed))).join()).unwrap_or_else(|panic| std::panic::resume_unwind(panic));
    let used = mk();
    let mut other = Sm::new(seed ^ 0x5555_AAAA);
    for _ in 0..5 {
        let _ = call(&used, &mut other);
    }
    // run C happens inside a rayon pool of three workers (runs A and B see the global pool): neither the thread nor the
    // size of the surrounding pool may influence the outcome
    let rc = match rayon::ThreadPoolBuilder::new().num_threads(3).build() {
        Ok(pool) => pool.install(|| run(&used, Sm::new(seed))),
        Err(_) => run(&used, Sm::new(seed)),
    };
    // run D: the used value once more, on the calling thread - the thread on which run A, the warm-up and many earlier
    // cases of this process have already run (scratch space kept per thread must not carry anything over)
    let rd = run(&used, Sm::new(seed));
    tl![ra, rb, rc, rd]
}
/// like `triple`, but the three runs use ARGUMENTS that are equal as values and differ in their allocation
/// (exact capacity / spare capacity): the outcome is a function of the values
fn triple_args<O>(seed: u64, mk: impl Fn() -> O, call: impl Fn(&O, &mut Sm, usize) -> Tree) -> Tree {
    let run = |op: &O, mut rng: Sm, variant: usize| {
        let r: Vec<Tree> = (0..3).map(|_| call(op, &mut rng, variant)).collect();
        tl![L(r), a(rng.next())]
    };
    tl![run(&mk(), Sm::new(seed), 0), run(&mk(), Sm::new(seed), 1), run(&mk(), Sm::new(seed), 2)]
}
/// histories: runs A and B use fresh values; run C uses a value with a PAST (`mk_used` builds it, making calls of
/// other kinds - other arguments, builder calls in between - with another generator on the way); then every run
/// makes the same four calls (of alternating kinds) from a generator cloned from the same seed
fn triple_hist<O>(seed: u64, mk: impl Fn() -> O, mk_used: impl Fn(&mut Sm) -> O, call: impl Fn(&O, &mut Sm, usize) -> Tree) -> Tree {
    let run = |op: &O, mut rng: Sm| {
        let r: Vec<Tree> = (0..4).map(|k| call(op, &mut rng, k)).collect();
        tl![L(r), a(rng.next())]
    };
    let ra = run(&mk(), Sm::new(seed));
    let rb = run(&mk(), Sm::new(seed));
    let mut other = Sm::new(seed ^ 0x5555_AAAA);
    let used = mk_used(&mut other);
    let rc = run(&used, Sm::new(seed));
    tl![ra, rb, rc]
}
/// a copy of `v` with `extra` spare capacity
fn roomy<T: Clone>(v: &[T], extra: usize) -> Vec<T> {
    let mut out = Vec::with_capacity(v.len() + extra);
    out.extend_from_slice(v);
    out
}
fn ints(v: &[i64]) -> Tree {
    L(v.iter().map(|x| a(*x)).collect())
}
fn bits(v: &[bool]) -> Tree {
    L(v.iter().map(|x| ab(*x)).collect())
}
fn res<T, E: std::fmt::Display>(r: Result<T, E>, f: impl Fn(T) -> Tree) -> Tree {
    match r {
        Ok(v) => tl![A(0), f(v)],
        Err(e) => tl![A(1), L(e.to_string().bytes().map(a).collect())],
    }
}

fn run_op(op: usize, seed: u64, data: &[i64]) -> Option<Tree> {
    let n = 2 + (data.first().copied().unwrap_or(3).unsigned_abs() as usize % 6);
    let g64: Vec<i64> = (0..n as i64).map(|i| i * 7 + data.get(1).copied().unwrap_or(0) % 5).collect();
    let gb: Vec<bool> = (0..n).map(|i| (i + data.len()) % 3 == 0).collect();
    let gb2: Vec<bool> = (0..n).map(|i| i % 2 == 0).collect();
    let g2: Vec<i64> = g64.iter().map(|x| x + 100).collect();
    // a population with ties and per-case results
    let pop: Pop<Score<i64>> = (0..n)
        .map(|i| EcIndividual::new(i as u32, TestResults::<Score<i64>>::from(vec![(i % 3) as i64, ((i * 5) % 4) as i64])))
        .collect();
    let idx = |p: &Pop<Score<i64>>, r: &EcIndividual<u32, TestResults<Score<i64>>>| p.iter().position(|q| std::ptr::eq(q, r)).map_or(A(-100), au);
    let sel = |spec: Tree| -> Option<Tree> {
        let mk = || match build::<Score<i64>>(&spec) {
            Some(Built::Sel(s)) => s,
            _ => unreachable!(),
        };
        Some(triple(seed, mk, |s, rng| match s.select(&pop, rng) {
            Ok(r) => tl![A(0), idx(&pop, r)],
            Err(e) => tl![A(1), a(e.0)],
        }))
    };
    // a LARGE population (8..47 individuals, all genomes distinct) in which many individuals tie
    let nbig = 8 + (data.first().copied().unwrap_or(0).unsigned_abs() as usize * 7 + data.len() * 13) % 40;
    let big: Pop<Score<i64>> = (0..nbig)
        .map(|i| EcIndividual::new(i as u32, TestResults::<Score<i64>>::from(vec![(i % 3) as i64, ((i / 3) % 2) as i64])))
        .collect();
    let sel_big = |spec: Tree| -> Option<Tree> {
        let mk = || match build::<Score<i64>>(&spec) {
            Some(Built::Sel(s)) => s,
            _ => unreachable!(),
        };
        Some(triple(seed, mk, |s, rng| match s.select(&big, rng) {
            Ok(r) => tl![A(0), idx(&big, r)],
            Err(e) => tl![A(1), a(e.0)],
        }))
    };
    // (first parent spare capacity, second parent spare capacity) per run variant
    let rooms = [(0usize, 0usize), (0, 17), (23, 0)];
    Some(match op {
        31 => triple_args(seed, || TwoPointXo, |m, rng, v| res(m.recombine([roomy(&g64, rooms[v].0), roomy(&g2, rooms[v].1)], rng), |c| ints(&c))),
        32 => triple_args(seed, || TwoPointXo, |m, rng, v| res(m.recombine((roomy(&g64, rooms[v].0), roomy(&g2, rooms[v].1)), rng), |c| ints(&c))),
        33 => triple_args(seed, || UniformXo, |m, rng, v| res(m.recombine([roomy(&g64, rooms[v].0), roomy(&g2, rooms[v].1)], rng), |c| ints(&c))),
        34 => triple_args(seed, || WithOneOverLength, |m, rng, v| bits(&m.mutate(roomy(&gb[..1.max(gb.len() % 3)], rooms[v].0 + rooms[v].1), rng).unwrap())),
        35 => triple_args(seed, || WithRate::new(0.3), |m, rng, v| bits(&m.mutate(roomy(&gb, rooms[v].0 + rooms[v].1), rng).unwrap())),
        // LARGE collections (a parallel or blocked fill would kick in here), reported through a hash
        40 | 41 | 42 => {
            fn hash(it: impl Iterator<Item = u64>) -> Tree {
                const P: u128 = (1 << 61) - 1;
                let (mut h, mut n) = (0u128, 0u64);
                for x in it {
                    h = (h * 1_000_003 + u128::from(x % ((1 << 61) - 1))) % P;
                    n += 1;
                }
                tl![a(n as i128), a(h as i128)]
            }
            let big = 20_000 + n;
            match op {
                40 => triple(seed, || Alpha(vec![1, 2, 3, 5, 8]).into_collection_generator(big), |g, rng| {
                    let v: Vec<i64> = g.sample(rng);
                    hash(v.into_iter().map(|x| x as u64))
                }),
                41 => triple(seed, || (), |_, rng| hash(Bitstring::random(big, rng).bits.into_iter().map(u64::from))),
                _ => triple(
                    seed,
                    || {
                        let instrs = vec![PushInstruction::push_int(1), PushInstruction::push_int(2), PushInstruction::push_bool(true)];
                        instrs.into_distribution().unwrap().into_gene_generator().into_collection_generator(big)
                    },
                    |g, rng| {
                        let p: Plushy = g.sample(rng);
                        hash(p.get_genes().iter().map(|x| match x {
                            PushGene::Close => 0,
                            PushGene::Instruction(i) => instr_tree(i, &[]).map_or(99, |t| t.list().map_or(98, |l| 1 + l.iter().filter_map(Tree::int).map(|v| v.unsigned_abs() as u64 % 1000).sum::<u64>())),
                        }))
                    },
                ),
            }
        }
        // a Lexicase value whose PAST is the same population object with other contents (the next generation written
        // into the same variable, same size): a fresh value must behave the same
        43 => {
            use ec_core::operator::selector::lexicase::Lexicase;
            let next_gen: Pop<Score<i64>> = (0..nbig)
                .map(|i| EcIndividual::new(i as u32, TestResults::<Score<i64>>::from(vec![(i % 3) as i64, ((i / 3) % 2) as i64])))
                .collect();
            let prev_gen: Pop<Score<i64>> = (0..nbig)
                .map(|i| EcIndividual::new(i as u32, TestResults::<Score<i64>>::from(vec![((i + 1) % 2) as i64, (i % 5) as i64])))
                .collect();
            let cell = std::sync::RwLock::new(next_gen.clone());
            triple_hist(
                seed,
                || Lexicase::new(2),
                |other| {
                    let sel = Lexicase::new(2);
                    *cell.write().unwrap() = prev_gen.clone();
                    {
                        let p = cell.read().unwrap();
                        for _ in 0..6 {
                            let _ = sel.select(&*p, other);
                        }
                    }
                    // the next generation replaces the contents of the SAME population object
                    cell.write().unwrap().clone_from(&next_gen);
                    sel
                },
                |sel, rng, _| {
                    let p = cell.read().unwrap();
                    match sel.select(&*p, rng) {
                        Ok(r) => tl![A(0), p.iter().position(|q| std::ptr::eq(q, r)).map_or(A(-100), au)],
                        Err(_) => tl![A(1)],
                    }
                },
            )
        }
        // lexicase with 100 cases on a population in which the case order decides
        47 => {
            use ec_core::operator::selector::lexicase::Lexicase;
            let wide: Pop<Score<i64>> = (0..7usize)
                .map(|i| EcIndividual::new(i as u32, TestResults::<Score<i64>>::from((0..100usize).map(|c| ((i * 7 + c * (i + 3) + c / 3) % 4) as i64).collect::<Vec<i64>>())))
                .collect();
            triple(seed, || Lexicase::new(100), |s, rng| match s.select(&wide, rng) {
                Ok(r) => tl![A(0), wide.iter().position(|q| std::ptr::eq(q, r)).map_or(A(-100), au)],
                Err(_) => tl![A(1)],
            })
        }
        // a population of 10 000 individuals in three tie classes (a blocked or parallel scan would kick in here)
        44 | 45 | 46 => {
            let huge: Pop<Score<i64>> = (0..10_000usize)
                .map(|i| EcIndividual::new(i as u32, TestResults::<Score<i64>>::from(vec![(i % 3) as i64, ((i / 3) % 2) as i64])))
                .collect();
            let spec = match op {
                44 => tl![A(0)],
                45 => tl![A(1)],
                _ => tl![A(3), A(3)],
            };
            let mk = || match build::<Score<i64>>(&spec) {
                Some(Built::Sel(s)) => s,
                _ => unreachable!(),
            };
            triple(seed, mk, |s, rng| match s.select(&huge, rng) {
                Ok(r) => tl![A(0), idx(&huge, r)],
                Err(e) => tl![A(1), a(e.0)],
            })
        }
        // UMAD with an empty-genome addition rate that differs from the addition rate, on empty and non-empty
        // genomes in turn; the used value met them in the opposite order
        36 => {
            let mk = || Umad::new_with_empty_rate(0.25, 0.95, 0.2, BoolGenerator::new(0.5));
            let arg = |k: usize| Bitstring { bits: if k % 2 == 0 { gb.clone() } else { vec![] } };
            triple_hist(
                seed,
                mk,
                |other| {
                    let m = mk();
                    for k in [1usize, 0, 1, 1, 0] {
                        let _ = m.mutate(arg(k), other);
                    }
                    m
                },
                |m, rng, k| bits(&m.mutate(arg(k), rng).unwrap().bits),
            )
        }
        37 => {
            let mk = || Umad::new_with_empty_rate(0.9, 0.1, 0.3, Alpha(vec![40, 41]));
            let arg = |k: usize| Vector { genes: if k % 2 == 1 { g64.clone() } else { vec![] } };
            triple_hist(
                seed,
                mk,
                |other| {
                    let m = mk();
                    for k in [1usize, 1, 0] {
                        let _ = m.mutate(arg(k), other);
                    }
                    m
                },
                |m, rng, k| ints(&m.mutate(arg(k), rng).unwrap().genes),
            )
        }
        // a dynamic weighted selector that was USED between its builder calls against one built in one go
        38 | 39 => {
            use ec_core::operator::selector::best::Best;
            use ec_core::operator::selector::dyn_weighted::DynWeighted;
            use ec_core::operator::selector::random::Random;
            use ec_core::operator::selector::worst::Worst;
            let w0 = if op == 38 { 1 } else { 0 };
            let mk = || DynWeighted::<Pop<Score<i64>>>::new(Best, w0).with_selector(Worst, 2).with_selector(Random, 3);
            triple_hist(
                seed,
                mk,
                |other| {
                    let d = DynWeighted::<Pop<Score<i64>>>::new(Best, w0);
                    let _ = d.select(&big, other);
                    let _ = d.select(&big, other);
                    let d = d.with_selector(Worst, 2);
                    let _ = d.select(&big, other);
                    d.with_selector(Random, 3)
                },
                |d, rng, _| match d.select(&big, rng) {
                    Ok(r) => tl![A(0), idx(&big, r)],
                    Err(e) => tl![A(1), L(e.to_string().bytes().map(a).collect())],
                },
            )
        }
        26 => sel_big(tl![A(3), A(2)])?,
        27 => sel_big(tl![A(3), A(3)])?,
        28 => sel_big(tl![A(4), A(2)])?,
        29 => sel_big(tl![A(0)])?,
        30 => sel_big(tl![A(8), tl![A(3), A(2)], A(2), tl![A(8), tl![A(1)], A(1), tl![A(7)]]])?,
        0 => sel(tl![A(0)])?,
        1 => sel(tl![A(1)])?,
        2 => sel(tl![A(2)])?,
        3 => sel(tl![A(3), A(2)])?,
        4 => sel(tl![A(4), A(2)])?,
        5 => sel(tl![A(6), tl![A(5), A(1), tl![A(0)]], tl![A(5), A(2), tl![A(2)]]])?,
        6 => sel(tl![A(8), tl![A(3), A(3)], A(2), tl![A(8), tl![A(4), A(1)], A(3), tl![A(7)]]])?,
        7 => triple(seed, || WithRate::new(0.3), |m, rng| bits(&m.mutate(gb.clone(), rng).unwrap())),
        8 => triple(seed, || WithOneOverLength, |m, rng| bits(&m.mutate(Bitstring { bits: gb.clone() }, rng).unwrap().bits)),
        9 => triple(seed, || Umad::new(0.3, 0.2, Alpha(vec![40, 41])), |m, rng| ints(&m.mutate(Vector { genes: g64.clone() }, rng).unwrap().genes)),
        10 => triple(seed, || Umad::new_with_empty_rate(0.5, 0.5, 0.3, BoolGenerator::new(0.5)), |m, rng| {
            bits(&m.mutate(Bitstring { bits: if data.len() % 2 == 0 { gb.clone() } else { vec![] } }, rng).unwrap().bits)
        }),
        11 => triple(seed, || UniformXo, |m, rng| res(m.recombine([g64.clone(), g2.clone()], rng), |v| ints(&v))),
        12 => triple(seed, || TwoPointXo, |m, rng| res(m.recombine((g64.clone(), g2.clone()), rng), |v| ints(&v))),
        13 => triple(seed, || UniformXo, |m, rng| {
            res(m.recombine([Bitstring { bits: gb.clone() }, Bitstring { bits: gb2.clone() }], rng), |v| bits(&v.bits))
        }),
        14 => triple(seed, || TwoPointXo, |m, rng| {
            res(m.recombine([Bitstring { bits: gb.clone() }, Bitstring { bits: gb2.clone() }], rng), |v| bits(&v.bits))
        }),
        15 => triple(seed, || Alpha(vec![1, 2, 3]).into_collection_generator(n), |g, rng| {
            let v: Vec<i64> = g.sample(rng);
            ints(&v)
        }),
        16 => triple(seed, || (), |_, rng| bits(&Bitstring::random(n, rng).bits)),
        17 => triple(seed, || (), |_, rng| bits(&Bitstring::random_with_probability(n, 0.3, rng).bits)),
        18 => triple(
            seed,
            || {
                let instrs = vec![PushInstruction::push_int(1), PushInstruction::push_int(2), PushInstruction::push_bool(true)];
                instrs.into_distribution().unwrap().into_gene_generator().into_collection_generator(n)
            },
            |g, rng| {
                let p: Plushy = g.sample(rng);
                L(p.get_genes().iter().map(|x| match x {
                    PushGene::Close => A(0),
                    PushGene::Instruction(i) => instr_tree(i, &[]).unwrap_or(A(-9)),
                }).collect())
            },
        ),
        19 => triple(seed, || g64.clone().into_distribution().unwrap(), |d, rng| a(Distribution::<i64>::sample(d, rng))),
        20 => {
            let src = g64.clone();
            triple(seed, || (), |_, rng| {
                let d = ToDistribution::<i64>::to_distribution(&src).unwrap();
                a(d.sample(rng))
            })
        }
        21 => triple(
            seed,
            || Alpha(vec![1, 2, 3]).into_collection_generator(3).with_scorer_fn(|g: &Vec<i64>| -> TestResults<Score<i64>> { g.iter().copied().collect() }),
            |g, rng| {
                let i: EcIndividual<Vec<i64>, TestResults<Score<i64>>> = g.sample(rng);
                tl![ints(&i.genome), a(i.test_results.total_result.0)]
            },
        ),
        22 => {
            let pop2: Vec<EcIndividual<Vec<bool>, TestResults<Score<i64>>>> = (0..n)
                .map(|i| EcIndividual::new((0..5).map(|k| (i + k) % 2 == 0).collect(), TestResults::<Score<i64>>::from(vec![(i % 3) as i64])))
                .collect();
            triple(seed, || Select::new(Tournament::binary()).then(GenomeExtractor).then(Mutate::new(WithRate::new(0.4))), |o, rng| {
                res(o.apply(&pop2, rng).map_err(|_| "error"), |v| bits(&v))
            })
        }
        23 => {
            let pop2: Vec<EcIndividual<Vec<bool>, TestResults<Score<i64>>>> = (0..n)
                .map(|i| EcIndividual::new((0..4).map(|k| (i * k) % 3 == 0).collect(), TestResults::<Score<i64>>::from(vec![(i % 2) as i64])))
                .collect();
            let scorer = FnScorer(|g: &Vec<bool>| -> TestResults<Score<i64>> { g.iter().map(|b| i64::from(*b)).collect() });
            triple(
                seed,
                || GenomeScorer::new(Select::new(Tournament::binary()).then(GenomeExtractor).then(Mutate::new(WithOneOverLength)), &scorer),
                |o, rng| res(o.apply(&pop2, rng).map_err(|_| "error"), |i| tl![bits(&i.genome), a(i.test_results.total_result.0)]),
            )
        }
        24 => triple(seed, || BoolGenerator::new(0.25).into_collection_generator(n), |g, rng| {
            let b: Bitstring = g.sample(rng);
            bits(&b.bits)
        }),
        25 => {
            // two different operators interleaved on ONE generator
            triple(seed, || (WithRate::new(0.5), UniformXo), |(m, x), rng| {
                let c1 = m.mutate(gb.clone(), rng).unwrap();
                let c2 = x.recombine([c1.clone(), gb2.clone()], rng).unwrap();
                let c3 = m.mutate(c2, rng).unwrap();
                bits(&c3)
            })
        }
        _ => return None,
    })
}

fn permutations(n: usize) -> Vec<Vec<usize>> {
    fn rec(cur: &mut Vec<usize>, used: &mut Vec<bool>, n: usize, out: &mut Vec<Vec<usize>>) {
        if cur.len() == n {
            out.push(cur.clone());
            return;
        }
        for i in 0..n {
            if !used[i] {
                used[i] = true;
                cur.push(i);
                rec(cur, used, n, out);
                cur.pop();
                used[i] = false;
            }
        }
    }
    let mut out = vec![];
    rec(&mut vec![], &mut vec![false; n], n, &mut out);
    out
}

fn run_push(l: &[Tree]) -> Option<Tree> {
    let strings = strings_of(l.get(1)?)?;
    let st = l.get(2)?.list()?;
    let inputs = st.get(8)?.list()?.to_vec();
    if inputs.len() > 5 {
        return None;
    }
    let mut first: Option<Tree> = None;
    let mut first_built = None;
    let mut first_final = None;
    let mut all_equal = true;
    for perm in permutations(inputs.len()) {
        let mut st2 = st.to_vec();
        st2[8] = L(perm.iter().map(|&i| inputs[i].clone()).collect());
        let state = mk_state(&L(st2), &strings)?;
        // the states themselves (`==` on the whole state), as built and as left by the run, must not remember the order of
        // the declarations either
        match &first_built {
            None => first_built = Some(state.clone()),
            Some(b) => all_equal &= *b == state,
        }
        for _ in 0..2 {
            let o = match state.clone().run_to_completion() {
                Ok(s) => {
                    match &first_final {
                        None => first_final = Some(s.clone()),
                        Some(b) => all_equal &= *b == s,
                    }
                    tl![A(0), state_tree(&s, &strings), A(0)]
                }
                Err(e) => {
                    let d = format!("{e:?}");
                    let k = fatal_kind(&d, 3);
                    tl![A(2), state_tree(&e.into_state(), &strings), A(k)]
                }
            };
            match &first {
                None => first = Some(o),
                Some(f) => all_equal &= *f == o,
            }
        }
    }
    // the same with the PROGRAM built on another thread than the one that declares the inputs (names are values: where
    // a name was created must not matter)
    {
        let stv = st.to_vec();
        let worker_state = std::thread::scope(|sc| sc.spawn(|| mk_state(&L(stv.clone()), &strings)).join()).ok()??;
        let mut progs = vec![];
        {
            use push::push_vm::HasStack;
            let mut ex = worker_state.stack::<push::push_vm::program::PushProgram>().clone();
            while let Ok(p) = ex.pop() {
                progs.push(p);
            }
        }
        let mut state = mk_state(&L(st.to_vec()), &strings)?;
        {
            use push::push_vm::HasStack;
            let ex = state.stack_mut::<push::push_vm::program::PushProgram>();
            let n = ex.size();
            ex.discard(n).ok()?;
            ex.push_many(progs).ok()?;
        }
        let o = match state.run_to_completion() {
            Ok(s) => tl![A(0), state_tree(&s, &strings), A(0)],
            Err(e) => {
                let d = format!("{e:?}");
                let k = fatal_kind(&d, 3);
                tl![A(2), state_tree(&e.into_state(), &strings), A(k)]
            }
        };
        if let Some(f) = &first {
            all_equal &= *f == o;
        }
    }
    let f = first?;
    let mut v = f.list()?.to_vec();
    v.push(ab(all_equal));
    Some(L(v))
}

/// kind 2: [2, n, order seed] - a program that reads n inputs (named in0 .. in{n-1}, input i bound to 7 i + 1) once
/// each, in order, with the inputs declared forwards, backwards and in a shuffled order.
/// observation: [[int stack size, hash of the int stack top first] per declaration order] | [[-1, error kind]]
/// (with this many names, identifying names by anything shorter than the name - say a 32-bit hash - confuses some)
fn run_many_names(n: usize, oseed: u64) -> Option<Tree> {
    use push::instruction::variable_name::VariableName;
    use push::push_vm::program::PushProgram;
    use push::push_vm::push_state::PushState;
    use push::push_vm::HasStack;
    if n == 0 || n > 2_000_000 {
        return None;
    }
    let name = |i: usize| format!("in{i}");
    let value = |i: usize| (i as i64) * 7 + 1;
    let mut shuffled: Vec<usize> = (0..n).collect();
    let mut r = Sm::new(oseed);
    for i in (1..n).rev() {
        shuffled.swap(i, r.below(i + 1));
    }
    const P: u128 = (1 << 61) - 1;
    let mut out = vec![];
    for order in [(0..n).collect::<Vec<_>>(), (0..n).rev().collect(), shuffled] {
        let mut b = PushState::builder().with_max_stack_size(0).with_no_program().with_instruction_step_limit(n + 5);
        for &i in &order {
            b = b.with_int_input(&name(i), value(i));
        }
        let mut s = b.build();
        let progs: Vec<PushProgram> = (0..n).map(|i| PushProgram::Instruction(PushInstruction::InputVar(VariableName::from(name(i).as_str())))).collect();
        s.stack_mut::<PushProgram>().set_max_stack_size(n);
        s.stack_mut::<PushProgram>().push_many(progs).ok()?;
        s.stack_mut::<i64>().set_max_stack_size(n);
        match s.run_to_completion() {
            Ok(s) => {
                let mut st = s.stack::<i64>().clone();
                let mut h: u128 = 0;
                let mut len = 0usize;
                while let Ok(x) = st.pop() {
                    h = (h * 1_000_003 + (x.rem_euclid(P as i64) as u128)) % P;
                    len += 1;
                }
                out.push(tl![au(len), a(h as i128)]);
            }
            Err(e) => {
                let d = format!("{e:?}");
                out.push(tl![A(-1), A(if d.contains("Overflow") { 2 } else if d.contains("Underflow") { 1 } else { 3 })]);
            }
        }
    }
    Some(L(out))
}

/// pairs of distinct names that collide under common short hashes (FNV-1a 32, CRC-32, Java's String::hashCode,
/// djb2) or differ only in ways a normalising comparison would ignore
const COLLIDING: &[(&str, &str)] = &[
    ("costarring", "liquid"),
    ("declinate", "macallums"),
    ("altarage", "zinke"),
    ("plumless", "buckeroo"),
    ("Aa", "BB"),
    ("AaAa", "BBBB"),
    ("hetairas", "mentioner"),
    ("heliotropes", "neurospora"),
    ("x", "X"),
    ("x", "x "),
    ("x", " x"),
    ("x1", "x01"),
    ("caf\u{e9}", "cafe\u{301}"),
    ("ab", "ba"),
    ("", " "),
];
/// kind 3: [3, k] - both names of pair k bound to 11 and 22 (declared in either order), read first then second.
/// observation: [[int stack top first] per declaration order]
fn run_colliding(k: usize) -> Option<Tree> {
    use push::instruction::variable_name::VariableName;
    use push::push_vm::program::PushProgram;
    use push::push_vm::push_state::PushState;
    use push::push_vm::HasStack;
    let (n1, n2) = *COLLIDING.get(k)?;
    let mut out = vec![];
    for fwd in [true, false] {
        let b = PushState::builder().with_max_stack_size(0).with_no_program().with_instruction_step_limit(10);
        let b = if fwd { b.with_int_input(n1, 11).with_int_input(n2, 22) } else { b.with_int_input(n2, 22).with_int_input(n1, 11) };
        let mut s = b.build();
        let progs: Vec<PushProgram> = [n1, n2].iter().map(|n| PushProgram::Instruction(PushInstruction::InputVar(VariableName::from(*n)))).collect();
        s.stack_mut::<PushProgram>().set_max_stack_size(2);
        s.stack_mut::<PushProgram>().push_many(progs).ok()?;
        s.stack_mut::<i64>().set_max_stack_size(2);
        match s.run_to_completion() {
            Ok(s) => {
                let mut st = s.stack::<i64>().clone();
                let mut v = vec![];
                while let Ok(x) = st.pop() {
                    v.push(a(x));
                }
                out.push(L(v));
            }
            Err(_) => out.push(tl![A(-1)]),
        }
    }
    Some(L(out))
}

fn run(input: &Tree) -> Option<Tree> {
    let l = input.list()?;
    match l.first()?.int()? {
        3 if l.len() == 2 => run_colliding(l.get(1)?.usize()?),
        2 if l.len() == 3 => run_many_names(l.get(1)?.usize()?, l.get(2)?.u64()?),
        0 => {
            let data: Vec<i64> = l.get(3)?.list()?.iter().map(Tree::i64).collect::<Option<_>>()?;
            run_op(l.get(1)?.usize()?, l.get(2)?.u64()?, &data)
        }
        1 => run_push(l),
        _ => None,
    }
}

fn gen(tier: &str, rng: &mut Sm) -> Gen {
    let mut g = Gen::new();
    let reps = if tier == "thorough" { 200 } else { 12 };
    for op in 0..NOPS {
        for _ in 0..reps {
            let data: Vec<Tree> = (0..1 + rng.below(3)).map(|_| a(rng.range(-20, 20))).collect();
            g.inputs.push(tl![A(0), au(op), a(2 + (rng.next() >> 1)), L(data)]);
        }
    }
    // Push programs that use their inputs, run under every declaration order
    let probe = crate::c01::PROP.gen;
    let progs = probe("quick", &mut rng.sub(16));
    let mut k = 0;
    for inp in progs.inputs {
        let l = inp.list().unwrap();
        if l[0].int() != Some(0) {
            continue;
        }
        let st = l[2].list().unwrap();
        let nin = st[8].list().unwrap().len();
        if nin < 2 {
            continue;
        }
        g.inputs.push(tl![A(1), l[1].clone(), l[2].clone(), au(nin)]);
        k += 1;
        if k >= (if tier == "thorough" { 600 } else { 80 }) {
            break;
        }
    }
    // a LONG evaluation (a counting loop of 1.2 million steps, about a second of wall-clock time): the outcome is a
    // function of the program, the inputs and the limits - not of how long the evaluation takes
    {
        let strings = L(vec![]);
        let block = tl![A(100), tl![A(6), A(1)], tl![A(13), A(0)], tl![A(27)]];
        let state = tl![A(10), L(vec![tl![A(27)], block]), A(5), L(vec![A(0)]), A(2), L(vec![]), A(2), L(vec![]), L(vec![]), au(1_200_001)];
        g.inputs.push(tl![A(1), strings, state, A(0)]);
    }
    // very many distinct input names (declared forwards, backwards, shuffled)
    // (the interpreter looks an input up by scanning all declarations, so the cost is quadratic in their number)
    for n in if tier == "thorough" { vec![1usize, 2, 1000, 3000, 20_000] } else { vec![1usize, 3, 1000, 3000] } {
        g.inputs.push(tl![A(2), au(n), a(rng.next() >> 1)]);
    }
    // pairs of names known to collide under widely used short hash functions
    for k in 0..COLLIDING.len() {
        g.inputs.push(tl![A(3), au(k)]);
    }
    g.meta("generator", format!("{NOPS} operators / generators / compositions of the three crates x {reps} seeds (fresh value twice, used value once, three consecutive calls each, next generator word compared); Push programs with 2-3 bound inputs under every permutation of the declarations, each built state run twice; programs reading up to 3000 (thorough: 20000) distinctly named inputs declared forwards, backwards and shuffled; pairs of names that collide under common short hash functions or differ only in case / spacing / normalisation; operator values with a past of other kinds of calls (UMAD on empty / non-empty genomes with distinct rates; a dynamic weighted selector used between its builder calls)"));
    g
}
