//! C05: Plushy genome -> Vec<PushProgram> through the real conversion.
//! input = [kind, [genes]]   gene = -1 (close) | instruction tree
//! observation = [programs...]  (the top-level Vec<PushProgram>)
use push::genome::plushy::{Plushy, PushGene};
use push::push_vm::program::PushProgram;

use crate::pushio::*;
use crate::*;

pub const PROP: Prop = Prop { name: "C05", gen, run };

pub fn mk_genes(t: &Tree) -> Option<Vec<PushGene>> {
    t.list()?
        .iter()
        .map(|g| match g {
            A(-1) => Some(PushGene::Close),
            _ => mk_instr(g, &[]).map(PushGene::Instruction),
        })
        .collect()
}

fn run(input: &Tree) -> Option<Tree> {
    let l = input.list()?;
    let genes = mk_genes(l.get(1)?)?;
    let mut plushy = Plushy::new(genes);
    let kind = l.first()?.int()?;
    if kind == 4 {
        // genes overwritten IN PLACE (through Linear::gene_mut) after the genome was built: [4, genes, [[position, gene]...]]
        use ec_linear::genome::Linear;
        for e in l.get(2)?.list()? {
            let e = e.list()?;
            let g = mk_genes(&L(vec![e.get(1)?.clone()]))?.pop()?;
            *plushy.gene_mut(e.first()?.usize()?)? = g;
        }
    }
    if kind == 5 {
        // translated again and again (>= 300 times, >= 150 ms) while ANOTHER thread keeps translating a genome with one long open block: the
        // translation of a genome has nothing to do with what other threads translate
        let stop = std::sync::atomic::AtomicBool::new(false);
        let busy: Vec<PushGene> = std::iter::once(PushGene::Instruction(push::instruction::ExecInstruction::when().into()))
            .chain((0..20_000).map(|i| PushGene::Instruction(push::instruction::PushInstruction::push_int(i))))
            .collect();
        let result = std::thread::scope(|sc| {
            sc.spawn(|| {
                while !stop.load(std::sync::atomic::Ordering::Relaxed) {
                    let p: Vec<PushProgram> = Plushy::new(busy.clone()).into();
                    std::hint::black_box(p);
                }
            });
            let first: Vec<PushProgram> = plushy.clone().into();
            let mut same = true;
            // at least 300 times and for at least 150 ms (the other thread must really be at work meanwhile)
            let t0 = std::time::Instant::now();
            let mut k = 0;
            while k < 300 || t0.elapsed().as_millis() < 150 {
                let again: Vec<PushProgram> = plushy.clone().into();
                same &= again == first;
                k += 1;
            }
            stop.store(true, std::sync::atomic::Ordering::Relaxed);
            same.then_some(first)
        });
        return Some(match result {
            Some(prog) => L(prog.iter().map(|p| prog_tree(p, &[])).collect::<Option<Vec<Tree>>>()?),
            None => tl![A(-1)],
        });
    }
    let prog: Vec<PushProgram> = plushy.into();
    let out: Option<Vec<Tree>> = prog.iter().map(|p| prog_tree(p, &[])).collect();
    Some(L(out?))
}

fn gene_alphabet(pos: usize) -> [Tree; 4] {
    [A(-1), tl![A(6), au(pos)], tl![A(28)], tl![A(30)]]
}

fn gen(tier: &str, rng: &mut Sm) -> Gen {
    let mut g = Gen::new();
    let thorough = tier == "thorough";
    // num_opens of every instruction the code has, observed through the parse
    for (_, t) in universe() {
        if let Some(t) = t {
            g.inputs.push(tl![A(2), L(vec![t, tl![A(26)]])]);
        }
    }
    // exhaustive small scope over {close, 0-opener (position tagged), 1-opener, 2-opener}
    let maxlen = if thorough { 8 } else { 6 };
    let mut n_ex = 0usize;
    for len in 0..=maxlen {
        let total = 4usize.pow(len as u32);
        for code in 0..total {
            let mut c = code;
            let mut genes = vec![];
            for pos in 0..len {
                genes.push(gene_alphabet(pos)[c % 4].clone());
                c /= 4;
            }
            g.inputs.push(tl![A(0), L(genes)]);
            n_ex += 1;
        }
    }
    g.meta("exhaustive_genomes", format!("{n_ex} (all gene sequences of length <= {maxlen} over close/0/1/2-opener)"));
    // random genomes over the whole instruction set
    let plain = crate::c01::plain_instrs();
    for i in 0..(if thorough { 4000 } else { 400 }) {
        let len = if i % 10 == 0 { 200 + rng.below(200) } else { rng.below(40) };
        let pclose = 1 + rng.below(4);
        let genes: Vec<Tree> = (0..len)
            .map(|pos| {
                if rng.below(10) < pclose {
                    A(-1)
                } else if rng.chance(1, 3) {
                    rng.pick(&[tl![A(27)], tl![A(28)], tl![A(29)], tl![A(30)]]).clone()
                } else if rng.chance(1, 2) {
                    tl![A(6), au(pos)]
                } else if rng.chance(1, 8) {
                    tl![A(9), rng.pick(&[tl![A(28)], tl![A(30)], tl![A(27)], tl![A(100), tl![A(29)]], tl![A(6), A(7)]]).clone()]
                } else {
                    rng.pick(&plain).clone()
                }
            })
            .collect();
        g.inputs.push(tl![A(1), L(genes)]);
    }
    // exec literals: a program carried as DATA opens no block, whatever it is
    let payloads = [tl![A(28)], tl![A(30)], tl![A(27)], tl![A(29)], tl![A(26)], tl![A(9), tl![A(28)]], tl![A(100), tl![A(28)]], tl![A(100)], tl![A(100), tl![A(30)], tl![A(6), A(1)]]];
    for p in payloads.iter() {
        let lit = tl![A(9), p.clone()];
        let x = |k: i128| tl![A(6), A(k)];
        for genes in [
            vec![lit.clone()],
            vec![lit.clone(), x(1), A(-1), x(2)],
            vec![lit.clone(), A(-1), x(1)],
            vec![tl![A(28)], lit.clone(), x(1), A(-1), x(2), A(-1), x(3)],
            vec![tl![A(30)], lit.clone(), A(-1), lit.clone(), x(1)],
        ] {
            g.inputs.push(tl![A(3), L(genes)]);
        }
    }
    // adversarial shapes
    for n in [1usize, 10, 300] {
        g.inputs.push(tl![A(3), L(vec![A(-1); n])]);
        g.inputs.push(tl![A(3), L(vec![tl![A(30)]; n])]);
        g.inputs.push(tl![A(3), L((0..n).map(|i| if i % 2 == 0 { tl![A(28)] } else { A(-1) }).collect())]);
        g.inputs.push(tl![A(3), L((0..n).map(|i| if i % 3 == 0 { tl![A(30)] } else { A(-1) }).collect())]);
    }
    g.inputs.push(tl![A(3), L(vec![tl![A(28)]; 1000])]);
    // DEEP nesting whose structure is checked (not only that it returns): d openers, a gene, d closes, a gene - for depths
    // around and beyond 2048
    for d in [2047usize, 2049, 3000] {
        for opener in [28i128, 27, 30] {
            let mut genes: Vec<Tree> = vec![tl![A(opener)]; d];
            genes.push(tl![A(6), A(1)]);
            genes.extend(std::iter::repeat(A(-1)).take(d));
            genes.push(tl![A(6), A(2)]);
            g.inputs.push(tl![A(3), L(genes)]);
        }
    }
    // MANY block openers without depth: k closed one-gene blocks in a row (k around and beyond 1024), then a tail that ends
    // the genome inside the first / the second block of a two-block instruction, inside a one-block instruction, or after
    // everything was closed - whatever path long genomes take must still hand out the blocks an instruction is owed
    for k in [1023usize, 1024, 1025, 1100, 3000] {
        for tail in [
            vec![tl![A(30)]],
            vec![tl![A(30)], tl![A(6), A(1)]],
            vec![tl![A(30)], tl![A(6), A(1)], A(-1)],
            vec![tl![A(30)], tl![A(6), A(1)], A(-1), tl![A(6), A(2)]],
            vec![tl![A(30)], tl![A(6), A(1)], A(-1), tl![A(6), A(2)], A(-1), tl![A(6), A(3)]],
            vec![tl![A(27)], tl![A(6), A(1)]],
            vec![tl![A(28)]],
            vec![tl![A(6), A(1)], A(-1), tl![A(29)], tl![A(30)]],
        ] {
            let mut genes: Vec<Tree> = vec![];
            for i in 0..k {
                genes.push(tl![A(if i % 7 == 3 { 27 } else { 28 })]);
                genes.push(tl![A(6), au(i % 5)]);
                genes.push(A(-1));
            }
            genes.extend(tail);
            g.inputs.push(tl![A(3), L(genes)]);
        }
    }
    // genes overwritten in place after the genome was built: a flat genome gets its first block opener, an opener is removed
    for (genes, edits) in [
        (vec![tl![A(6), A(1)], tl![A(6), A(2)], tl![A(6), A(3)], A(-1), tl![A(6), A(4)]], vec![(1usize, tl![A(28)])]),
        (vec![tl![A(6), A(1)], tl![A(6), A(2)], tl![A(6), A(3)]], vec![(0, tl![A(30)]), (2, A(-1))]),
        (vec![tl![A(28)], tl![A(6), A(2)], A(-1), tl![A(6), A(3)]], vec![(0, tl![A(26)])]),
        (vec![A(-1), A(-1), tl![A(6), A(3)]], vec![(0, tl![A(27)]), (1, tl![A(29)])]),
        (vec![], vec![]),
    ] {
        let e: Vec<Tree> = edits.iter().map(|(p, gene)| tl![au(*p), gene.clone()]).collect();
        g.inputs.push(tl![A(4), L(genes), L(e)]);
    }
    // translation while another thread translates
    for genes in [
        vec![tl![A(6), A(1)], A(-1), tl![A(28)], tl![A(6), A(2)], A(-1), tl![A(6), A(3)], A(-1), A(-1), tl![A(6), A(4)]],
        vec![A(-1), tl![A(30)], tl![A(6), A(1)], A(-1), A(-1), tl![A(6), A(2)], A(-1), tl![A(6), A(3)]],
    ] {
        g.inputs.push(tl![A(5), L(genes)]);
    }
    g.meta("generator", "num_opens probe per instruction + exhaustive small genomes + random genomes (len<=400) + adversarial shapes (all closes, all openers to depth 1000, alternating) + exec literals carrying block-opening instructions / blocks; nesting to depth 2047 / 2049 / 3000 with the structure checked; 1023 ... 3000 closed blocks in a row followed by tails that end the genome inside the first / second block of a two-block instruction; genes overwritten in place; translation while another thread translates");
    g
}
