//! C18: collection generators and uniform member choices in every conversion flavour.
//! input = [seed, draws, [kind, ...]]
//!   kind 0: collection of n elements from an element generator over `alphabet`   [0, n, alphabet]
//!   kind 1: Bitstring::random(n)   2: Bitstring::random_with_probability(n, 1/2)   3: Plushy of n genes
//!   kind 4: population of n individuals (genome generator + scorer)
//!        observation [[length, all elements drawn from the element generator (0/1)]] (one entry per draw, tallied)
//!   kind 9: collection of n ZERO-SIZED elements   [9, n]   (observation as for kinds 0..4)
//!   kind 7: uniform choice over a source of `members` zero-sized members (2^32 and more cost nothing)  [7, flavour, members]
//!        observation [-7] | [num_choices, []]
//!   kind 8: owning uniform choice over `members` u8 members, member i = i mod m   [8, members, m]   (4 GiB for 2^32 members)
//!        observation [num_choices, [[value, count]...]]
//!   kind 5: uniform choice: [5, flavour, source values]
//!        observation [-7] (EmptySlice) | [num_choices, [[value, count]...]]
use std::collections::BTreeMap;

use ec_core::distributions::choices::ChoicesDistribution;
use ec_core::distributions::collection::ConvertToCollectionGenerator;
use ec_core::distributions::conversion::{IntoDistribution, ToDistribution};
use ec_core::individual::ec::{EcIndividual, WithScorer};
use ec_core::test_results::{Score, TestResults};
use ec_linear::genome::bitstring::Bitstring;
use push::genome::plushy::{ConvertToGeneGenerator, Plushy};
use push::instruction::PushInstruction;
use rand::distr::Distribution;

use crate::*;

pub const PROP: Prop = Prop { name: "C18", gen, run };

struct Alpha(Vec<i64>);
impl Distribution<i64> for Alpha {
    fn sample<R: rand::Rng + ?Sized>(&self, rng: &mut R) -> i64 {
        self.0[rng.random_range(0..self.0.len())]
    }
}
fn v64(t: &Tree) -> Option<Vec<i64>> {
    t.list()?.iter().map(Tree::i64).collect()
}

/// draws from a distribution over values, tallied
fn tally<D: Distribution<i64>>(d: &D, n: usize, rng: &mut Sm, key: &dyn Fn(i64) -> i64) -> Tree {
    let mut h: BTreeMap<i64, u64> = BTreeMap::new();
    for _ in 0..n {
        *h.entry(key(d.sample(rng))).or_insert(0) += 1;
    }
    L(h.into_iter().map(|(v, k)| tl![a(v), a(k)]).collect())
}
fn tally_ref<'a, D: Distribution<&'a i64>>(d: &D, n: usize, rng: &mut Sm, key: &dyn Fn(i64) -> i64) -> Tree {
    let mut h: BTreeMap<i64, u64> = BTreeMap::new();
    for _ in 0..n {
        *h.entry(key(*d.sample(rng))).or_insert(0) += 1;
    }
    L(h.into_iter().map(|(v, k)| tl![a(v), a(k)]).collect())
}
/// the number of choices as reported directly and through the `&T` / `&mut T` forwarding impls (generic and as a
/// trait object): one number when they agree, a list of all of them when they do not
fn nc<D: ChoicesDistribution>(d: &mut D) -> Tree {
    fn via<C: ChoicesDistribution>(c: C) -> usize {
        c.num_choices().get()
    }
    fn dynamic(c: &dyn ChoicesDistribution) -> usize {
        c.num_choices().get()
    }
    let direct = d.num_choices().get();
    let all = [direct, via(&*d), via(&mut *d), via(&&*d), via(&mut &mut *d), dynamic(&&*d), dynamic(&&mut *d)];
    if all.iter().all(|x| *x == direct) {
        au(direct)
    } else {
        L(all.iter().map(|x| au(*x)).collect())
    }
}
macro_rules! res {
    ($r:expr, $n:expr, $rng:expr, $t:ident, $key:expr) => {
        match $r {
            Ok(mut d) => tl![nc(&mut d), $t(&d, $n, $rng, $key)],
            Err(_) => tl![A(-7)],
        }
    };
}
macro_rules! arr {
    ($src:expr, $N:literal) => {{
        let a: [i64; $N] = <[i64; $N]>::try_from($src.clone()).ok()?;
        a
    }};
}
macro_rules! with_array {
    ($src:expr, |$a:ident| $body:expr) => {
        match $src.len() {
            0 => { let $a = arr!($src, 0); $body }
            1 => { let $a = arr!($src, 1); $body }
            2 => { let $a = arr!($src, 2); $body }
            3 => { let $a = arr!($src, 3); $body }
            4 => { let $a = arr!($src, 4); $body }
            6 => { let $a = arr!($src, 6); $body }
            _ => return None,
        }
    };
}

pub const NFLAVOURS: usize = 15;
fn choice(fl: usize, src: &Vec<i64>, n: usize, rng: &mut Sm, key: &dyn Fn(i64) -> i64) -> Option<Tree> {
    Some(match fl {
        0 => res!(IntoDistribution::<i64>::into_distribution(src.clone()), n, rng, tally, key),
        1 => res!(IntoDistribution::<&i64>::into_distribution(src), n, rng, tally_ref, key),
        2 => res!(IntoDistribution::<i64>::into_distribution(src), n, rng, tally, key),
        3 => res!(ToDistribution::<i64>::to_distribution(src), n, rng, tally, key),
        4 => res!(ToDistribution::<&i64>::to_distribution(src), n, rng, tally_ref, key),
        5 => with_array!(src, |x| res!(IntoDistribution::<i64>::into_distribution(x), n, rng, tally, key)),
        6 => with_array!(src, |x| res!(IntoDistribution::<&i64>::into_distribution(&x), n, rng, tally_ref, key)),
        7 => with_array!(src, |x| res!(IntoDistribution::<i64>::into_distribution(&x), n, rng, tally, key)),
        8 => with_array!(src, |x| res!(ToDistribution::<i64>::to_distribution(&x), n, rng, tally, key)),
        9 => with_array!(src, |x| res!(ToDistribution::<&i64>::to_distribution(&x), n, rng, tally_ref, key)),
        10 => res!(IntoDistribution::<&i64>::into_distribution(&src[..]), n, rng, tally_ref, key),
        11 => res!(IntoDistribution::<i64>::into_distribution(&src[..]), n, rng, tally, key),
        12 => res!(ToDistribution::<&i64>::to_distribution(&src[..]), n, rng, tally_ref, key),
        13 => res!(ToDistribution::<i64>::to_distribution(&src[..]), n, rng, tally, key),
        14 => {
            // the macro form (non-empty by syntax): three fixed members
            if src.len() != 3 {
                return None;
            }
            let mut d = ec_core::uniform_distribution_of![src[0], src[1], src[2]];
            tl![nc(&mut d), tally(&d, n, rng, key)]
        }
        _ => return None,
    })
}

fn run(input: &Tree) -> Option<Tree> {
    let l = input.list()?;
    let seed = l.first()?.u64()?;
    let n = l.get(1)?.usize()?;
    if n == 0 || l.len() != 3 {
        return None;
    }
    let p = l.get(2)?.list()?;
    let mut rng = Sm::new(seed);
    let kind = p.first()?.int()?;
    if kind == 5 {
        return choice(p.get(1)?.usize()?, &v64(p.get(2)?)?, n, &mut rng, &|v| v);
    }
    if kind == 7 {
        let fl = p.get(1)?.usize()?;
        let members = p.get(2)?.usize()?;
        if p.len() != 3 || members > (1usize << 36) {
            return None;
        }
        let src: Vec<()> = vec![(); members];
        macro_rules! zres {
            ($r:expr) => {
                match $r {
                    Ok(mut d) => {
                        for _ in 0..n.min(8) {
                            let _ = d.sample(&mut rng);
                        }
                        tl![nc(&mut d), L(vec![])]
                    }
                    Err(_) => tl![A(-7)],
                }
            };
        }
        return Some(match fl {
            0 => zres!(IntoDistribution::<()>::into_distribution(src)),
            1 => zres!(IntoDistribution::<&()>::into_distribution(&src)),
            2 => zres!(IntoDistribution::<()>::into_distribution(&src)),
            3 => zres!(ToDistribution::<()>::to_distribution(&src)),
            10 => zres!(IntoDistribution::<&()>::into_distribution(&src[..])),
            11 => zres!(IntoDistribution::<()>::into_distribution(&src[..])),
            _ => return None,
        });
    }
    if kind == 8 {
        let members = p.get(1)?.usize()?;
        let m = p.get(2)?.usize()?;
        if p.len() != 3 || !(1..=251).contains(&m) || members == 0 || members > (1usize << 33) {
            return None;
        }
        let src: Vec<u8> = (0..members).map(|i| (i % m) as u8).collect();
        return Some(match IntoDistribution::<u8>::into_distribution(src) {
            Ok(mut d) => {
                let mut h: BTreeMap<i64, u64> = BTreeMap::new();
                for _ in 0..n {
                    *h.entry(i64::from(d.sample(&mut rng))).or_insert(0) += 1;
                }
                tl![nc(&mut d), L(h.into_iter().map(|(v, k)| tl![a(v), a(k)]).collect())]
            }
            Err(_) => tl![A(-7)],
        });
    }
    if kind == 10 {
        // Bitstring::random(size): the bits at two positions, jointly (each bit is its own fair coin)   [10, size, i, j]
        let (size, i, j) = (p.get(1)?.usize()?, p.get(2)?.usize()?, p.get(3)?.usize()?);
        if p.len() != 4 || !(i < j && j < size && size <= 4096) {
            return None;
        }
        let mut h: BTreeMap<i64, u64> = BTreeMap::new();
        for _ in 0..n {
            let b = Bitstring::random(size, &mut rng);
            if b.bits.len() != size {
                return Some(tl![A(-7)]);
            }
            *h.entry(i64::from(b.bits[i]) * 2 + i64::from(b.bits[j])).or_insert(0) += 1;
        }
        return Some(tl![au(size), L(h.into_iter().map(|(v, k)| tl![a(v), a(k)]).collect())]);
    }
    if kind == 11 {
        // Bitstring::random_with_probability(size, num / den): all bits of all draws pooled   [11, size, num, den]
        let (size, num, den) = (p.get(1)?.usize()?, p.get(2)?.u64()?, p.get(3)?.u64()?);
        if p.len() != 4 || den == 0 || !den.is_power_of_two() || num > den || num >= (1 << 53) || size == 0 || size > 4096 {
            return None;
        }
        let pr = num as f64 / den as f64; // exact: a 53-bit numerator over a power of two
        let (mut ones, mut zeros) = (0u64, 0u64);
        for _ in 0..n {
            let b = Bitstring::random_with_probability(size, pr, &mut rng);
            if b.bits.len() != size {
                return Some(tl![A(-7)]);
            }
            let t = b.bits.iter().filter(|x| **x).count() as u64;
            ones += t;
            zeros += size as u64 - t;
        }
        let mut cells = vec![];
        if zeros > 0 {
            cells.push(tl![A(0), a(zeros)]);
        }
        if ones > 0 {
            cells.push(tl![A(1), a(ones)]);
        }
        return Some(tl![au(size), L(cells)]);
    }
    if kind == 6 {
        // a source of `members` members 0..members-1 (millions), tallied by residue class of the value
        let fl = p.get(1)?.usize()?;
        let members = p.get(2)?.i64()?;
        let m = p.get(3)?.i64()?;
        if !(1..=(1 << 26)).contains(&members) || !(1..=64).contains(&m) || ![0usize, 1, 2, 3, 4, 10, 11, 12, 13].contains(&fl) || p.len() != 4 {
            return None;
        }
        let src: Vec<i64> = (0..members).collect();
        return choice(fl, &src, n, &mut rng, &|v| if (0..members).contains(&v) { v % m } else { -1 });
    }
    let size = p.get(1)?.usize()?;
    let mut h: BTreeMap<(usize, bool), u64> = BTreeMap::new();
    for _ in 0..n {
        let (len, ok) = match kind {
            0 => {
                let alpha = v64(p.get(2)?)?;
                let v: Vec<i64> = Alpha(alpha.clone()).into_collection_generator(size).sample(&mut rng);
                (v.len(), v.iter().all(|x| alpha.contains(x)))
            }
            1 => (Bitstring::random(size, &mut rng).bits.len(), true),
            2 => (Bitstring::random_with_probability(size, 0.5, &mut rng).bits.len(), true),
            3 => {
                // the instruction set contains block-opening instructions (a genome may end with blocks still open:
                // it still has exactly the requested number of genes); close markers never / by default / always
                use push::instruction::ExecInstruction;
                let instrs: Vec<PushInstruction> = vec![
                    PushInstruction::push_int(1),
                    ExecInstruction::when().into(),
                    ExecInstruction::if_else().into(),
                    ExecInstruction::dup_block().into(),
                    PushInstruction::push_int(2),
                ];
                let d = instrs.clone().into_distribution().ok()?;
                let mode = rng.next() % 3;
                let pl: Plushy = match mode {
                    0 => d.into_gene_generator_with_close_probability(0.0).to_collection_generator(size).sample(&mut rng),
                    1 => d.into_gene_generator().to_collection_generator(size).sample(&mut rng),
                    _ => d.into_gene_generator_with_close_probability(0.9).to_collection_generator(size).sample(&mut rng),
                };
                // with close probability 0 the gene generator never yields a close marker: every gene of the genome is
                // a draw of that generator, also the last ones while blocks are still open
                let ok = pl.get_genes().iter().all(|g| match g {
                    push::genome::plushy::PushGene::Close => mode != 0,
                    push::genome::plushy::PushGene::Instruction(i) => instrs.contains(i),
                });
                (pl.get_genes().len(), ok)
            }
            4 => {
                let alpha = v64(p.get(2)?)?;
                let ig = Alpha(alpha.clone())
                    .into_collection_generator(3)
                    .with_scorer_fn(|g: &Vec<i64>| -> TestResults<Score<i64>> { g.iter().copied().collect() });
                let pop: Vec<EcIndividual<Vec<i64>, TestResults<Score<i64>>>> = ig.into_collection_generator(size).sample(&mut rng);
                let ok = pop.iter().all(|i| i.genome.len() == 3 && i.genome.iter().all(|x| alpha.contains(x)) && i.test_results.total_result.0 == i.genome.iter().sum::<i64>());
                (pop.len(), ok)
            }
            12 => {
                // WIDE elements (8 KiB each): a fill that works in byte-sized slabs must still deliver all of them
                #[derive(Clone)]
                struct Wide([u64; 1024]);
                struct WideGen;
                impl Distribution<Wide> for WideGen {
                    fn sample<R: rand::Rng + ?Sized>(&self, rng: &mut R) -> Wide {
                        let mut w = [0u64; 1024];
                        w[0] = rng.next_u64();
                        w[1023] = w[0] ^ 0x5555;
                        Wide(w)
                    }
                }
                if size > 300 {
                    return None;
                }
                let v: Vec<Wide> = WideGen.into_collection_generator(size).sample(&mut rng);
                (v.len(), v.iter().all(|w| w.0[1023] == w.0[0] ^ 0x5555))
            }
            9 => {
                // zero-sized elements: `Vec<()>` reports an unbounded capacity
                struct Unit;
                impl Distribution<()> for Unit {
                    fn sample<R: rand::Rng + ?Sized>(&self, rng: &mut R) {
                        let _ = rng.next_u32();
                    }
                }
                let v: Vec<()> = Unit.into_collection_generator(size).sample(&mut rng);
                (v.len(), true)
            }
            _ => return None,
        };
        *h.entry((len, ok)).or_insert(0) += 1;
    }
    Some(L(h.into_iter().map(|((len, ok), k)| tl![au(len), ab(ok), a(k)]).collect()))
}

fn tv(v: &[i64]) -> Tree {
    L(v.iter().map(|x| a(*x)).collect())
}
fn gen(tier: &str, rng: &mut Sm) -> Gen {
    let mut g = Gen::new();
    let thorough = tier == "thorough";
    let n = if thorough { 400000 } else { 20000 };
    for size in [0usize, 1, 2, 17, 1000] {
        for kind in 0..5i64 {
            let draws = if size == 1000 { 5 } else { 50 };
            g.inputs.push(tl![a(rng.next() >> 1), au(draws), tl![a(kind), au(size), tv(&[3, 4, 5])]]);
        }
    }
    // sizes around the block sizes a chunked fill would use
    for size in [255usize, 256, 257, 1023, 1024, 1025, 2048, 3072, 4096, 65536] {
        for kind in [0i64, 1, 2, 3, 4, 9] {
            if size > 4096 && kind == 4 {
                continue;
            }
            g.inputs.push(tl![a(rng.next() >> 1), au(2), tl![a(kind), au(size), tv(&[3, 4, 5])]]);
        }
    }
    let sources: Vec<Vec<i64>> = vec![vec![], vec![7], vec![1, 2], vec![4, 5, 6], vec![1, 2, 3, 4], vec![9, 8, 7, 6, 5, 4], vec![5, 5, 7], vec![2, 2, 2, 3]];
    for fl in 0..NFLAVOURS {
        for s in &sources {
            if fl == 14 && s.len() != 3 {
                continue;
            }
            g.inputs.push(tl![a(rng.next() >> 1), au(if s.is_empty() { 1 } else { n }), tl![A(5), au(fl), tv(s)]]);
        }
    }
    if thorough {
        // random sources with duplicates, every flavour
        for fl in 0..NFLAVOURS - 1 {
            for len in [1usize, 2, 3, 4, 6] {
                for _ in 0..2 {
                    let src: Vec<i64> = (0..len).map(|_| rng.range(0, 3)).collect();
                    g.inputs.push(tl![a(rng.next() >> 1), au(n / 4), tl![A(5), au(fl), tv(&src)]]);
                }
            }
        }
        for size in [3usize, 5, 64, 257] {
            for kind in 0..5i64 {
                g.inputs.push(tl![a(rng.next() >> 1), au(40), tl![a(kind), au(size), tv(&[1, 2])]]);
            }
        }
    }
    for size in [0usize, 1, 2, 3, 17, 200] {
        g.inputs.push(tl![a(rng.next() >> 1), au(3), tl![A(12), au(size), tv(&[])]]);
    }
    // random bitstrings: pairs of positions a half-word / a word / a byte apart, and the requested probability
    for (size, i, j) in [(70usize, 0usize, 32usize), (70, 3, 35), (200, 64, 96), (200, 100, 164), (130, 1, 9), (40, 7, 39), (129, 63, 127), (129, 0, 128)] {
        g.inputs.push(tl![a(rng.next() >> 1), au(n), tl![A(10), au(size), au(i), au(j)]]);
    }
    for (num, den) in [(0u64, 1u64), (1, 1), (3602879701896397, 1 << 55), (1, 256), (255, 256), (1, 1 << 20), (5404319552844595, 1 << 54), (1, 1 << 60), (1, 1 << 62), ((1 << 52) - 1, 1 << 52)] {
        g.inputs.push(tl![a(rng.next() >> 1), au(n / 10), tl![A(11), au(100), a(num as i128), a(den as i128)]]);
    }
    // zero-sized elements and members
    for size in [0usize, 1, 5, 1000] {
        g.inputs.push(tl![a(rng.next() >> 1), au(5), tl![A(9), au(size), tv(&[])]]);
    }
    for members in [0usize, 1, 7, (1 << 32) - 1, 1 << 32, (1 << 32) + 1, 1 << 33] {
        for fl in [0usize, 1, 2, 3, 10, 11] {
            g.inputs.push(tl![a(rng.next() >> 1), au(4), tl![A(7), au(fl), au(members)]]);
        }
    }
    // mid-sized sources (per-member frequencies need more draws): a byte-sized index would not be uniform here
    for members in [100usize, 192, 255, 257] {
        let src: Vec<i64> = (0..members as i64).collect();
        for fl in [0usize, 2, 3, 1, 10] {
            g.inputs.push(tl![a(rng.next() >> 1), au(n * 15), tl![A(5), au(fl), tv(&src)]]);
        }
    }
    if thorough {
        // 2^32 + 2 one-byte members (4 GiB): the index must not be truncated to 32 bits
        g.inputs.push(tl![a(rng.next() >> 1), au(2000), tl![A(8), au((1usize << 32) + 2), au(251)]]);
    }
    // sources of millions of members (every Vec / slice flavour), judged by residue classes of the index
    for (members, m) in [(3i64 << 23, 3i64), (1 << 25, 2), ((1 << 24) + 1, 5)] {
        for fl in [0usize, 1, 2, 3, 4, 10, 11, 12, 13] {
            if !thorough && (fl + members as usize) % 3 != 0 {
                continue;
            }
            g.inputs.push(tl![a(rng.next() >> 1), au(n), tl![A(6), au(fl), a(members), a(m)]]);
        }
    }
    g.meta("generator", "collection generators (Vec, Bitstring x2, Plushy, population of scored individuals) at sizes 0, 1, 2, 17, 1000; uniform choice in 15 conversion flavours (Vec / array / slice x owning / borrowing / cloning x into / to, and the macro) over empty and non-empty sources of 1..6 members, with duplicates; sources of 3*2^23, 2^25 and 2^24+1 members judged by residue classes of the chosen index; zero-sized elements; sources of 2^32-1 .. 2^33 zero-sized members (num_choices, no rejection); sources of 100..257 members with 15x the draws; random bitstrings seen through pairs of positions 8 / 32 / 64 / 128 apart, and with requested probabilities 0, 1, 0.1, 0.3, 1/256, 255/256, 2^-20 (all bits pooled)");
    g
}
