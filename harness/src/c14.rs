//! C14: operator combinators, exercised with probe operators over an explicit word list.
//! input = [shape id, x, fail_at, [words]]; the harness replaces `shape id` by the shape's
//! description tree in the case it writes (so the Coq side interprets exactly what was run).
//! observation = [result, log, words consumed]
use std::cell::RefCell;
use std::rc::Rc;

use ec_core::individual::ec::EcIndividual;
use ec_core::operator::constant::Constant;
use ec_core::operator::genome_extractor::GenomeExtractor;
use ec_core::operator::identity::Identity;
use ec_core::operator::mutator::{Mutate, Mutator};
use ec_core::operator::recombinator::{Recombinator, Recombine};
use ec_core::operator::selector::{Select, Selector};
use ec_core::operator::{Composable, Operator};
use rand::RngCore;

use crate::*;

pub const PROP: Prop = Prop { name: "C14", gen, run };

/// hands out the listed words, then zeros; counts what it handed out
pub struct ListRng {
    pub words: Vec<u64>,
    pub pos: usize,
}
thread_local! {
    /// the whole word behind the latest GENUINE 32-bit draw from a `ListRng` (cleared by every 64-bit draw)
    static LAST_NARROW: std::cell::Cell<Option<u64>> = const { std::cell::Cell::new(None) };
}
fn fold32(w: u64) -> u32 {
    ((w >> 32) ^ w) as u32
}
/// a 32-bit draw, reported as the list word it consumed - or as an impossible word when the value did not come
/// from a genuine 32-bit draw of the generator that was handed in (e.g. was cut out of a 64-bit draw by an adapter)
fn narrow_draw<R: rand::Rng + ?Sized>(rng: &mut R) -> u64 {
    LAST_NARROW.with(|c| c.set(None));
    let v = rng.next_u32();
    match LAST_NARROW.with(std::cell::Cell::take) {
        Some(w) if fold32(w) == v => w,
        _ => u64::MAX,
    }
}
impl RngCore for ListRng {
    fn next_u32(&mut self) -> u32 {
        let w = self.words.get(self.pos).copied().unwrap_or(0);
        self.pos += 1;
        LAST_NARROW.with(|c| c.set(Some(w)));
        fold32(w)
    }
    fn next_u64(&mut self) -> u64 {
        let w = self.words.get(self.pos).copied().unwrap_or(0);
        self.pos += 1;
        LAST_NARROW.with(|c| c.set(None));
        w
    }
    fn fill_bytes(&mut self, dst: &mut [u8]) {
        for c in dst.chunks_mut(8) {
            let w = self.next_u64().to_le_bytes();
            c.copy_from_slice(&w[..c.len()]);
        }
    }
}

pub trait ToVal {
    fn val(&self) -> Tree;
}
impl ToVal for i64 {
    fn val(&self) -> Tree {
        tl![A(0), a(*self)]
    }
}
impl<T: ToVal> ToVal for &T {
    fn val(&self) -> Tree {
        (**self).val()
    }
}
impl<X: ToVal, Y: ToVal> ToVal for (X, Y) {
    fn val(&self) -> Tree {
        tl![A(1), self.0.val(), self.1.val()]
    }
}
impl<X: ToVal> ToVal for Vec<X> {
    fn val(&self) -> Tree {
        let mut v = vec![A(2)];
        v.extend(self.iter().map(ToVal::val));
        L(v)
    }
}
impl<X: ToVal, const N: usize> ToVal for [X; N] {
    fn val(&self) -> Tree {
        let mut v = vec![A(2)];
        v.extend(self.iter().map(ToVal::val));
        L(v)
    }
}
impl ToVal for EcIndividual<i64, i64> {
    fn val(&self) -> Tree {
        tl![A(1), self.genome.val(), self.test_results.val()]
    }
}

#[derive(Clone)]
pub struct Ctl {
    log: Rc<RefCell<Vec<Tree>>>,
    calls: Rc<RefCell<i64>>,
    fail_at: i64,
}
#[derive(Debug)]
pub struct ProbeErr(pub i64);
impl std::fmt::Display for ProbeErr {
    fn fmt(&self, f: &mut std::fmt::Formatter<'_>) -> std::fmt::Result {
        write!(f, "probe {} failed", self.0)
    }
}
impl std::error::Error for ProbeErr {}
impl miette::Diagnostic for ProbeErr {}

impl Ctl {
    /// the common part of every probe: draw one word (probes with an odd number by a 32-bit draw), log, maybe fail
    fn hit<R: rand::Rng + ?Sized>(&self, id: i64, input: Tree, rng: &mut R) -> Result<i64, ProbeErr> {
        let w = if id % 2 == 1 { narrow_draw(rng) } else { rng.next_u64() };
        self.log.borrow_mut().push(tl![a(id), input, a(w)]);
        let c = *self.calls.borrow();
        *self.calls.borrow_mut() += 1;
        if c == self.fail_at {
            Err(ProbeErr(id))
        } else {
            Ok(id * 1000 + (w % 997) as i64)
        }
    }
}

macro_rules! probe {
    ($name:ident) => {
        #[derive(Clone)]
        pub struct $name(pub i64, pub Ctl);
        impl Composable for $name {}
    };
}
probe!(P); // T -> i64
probe!(Q); // T -> T
probe!(D); // T -> (i64, i64)
probe!(V); // T -> Vec<i64>
probe!(R2); // T -> [i64; 2]
probe!(Sel); // selector over Vec<i64>

impl<T: ToVal> Operator<T> for P {
    type Output = i64;
    type Error = ProbeErr;
    fn apply<R: rand::Rng + ?Sized>(&self, x: T, rng: &mut R) -> Result<i64, ProbeErr> {
        self.1.hit(self.0, x.val(), rng)
    }
}
impl<T: ToVal> Operator<T> for Q {
    type Output = T;
    type Error = ProbeErr;
    fn apply<R: rand::Rng + ?Sized>(&self, x: T, rng: &mut R) -> Result<T, ProbeErr> {
        self.1.hit(self.0, x.val(), rng)?;
        Ok(x)
    }
}
impl<T: ToVal> Operator<T> for D {
    type Output = (i64, i64);
    type Error = ProbeErr;
    fn apply<R: rand::Rng + ?Sized>(&self, x: T, rng: &mut R) -> Result<(i64, i64), ProbeErr> {
        let b = self.1.hit(self.0, x.val(), rng)?;
        Ok((b, b + 1))
    }
}
impl<T: ToVal> Operator<T> for V {
    type Output = Vec<i64>;
    type Error = ProbeErr;
    fn apply<R: rand::Rng + ?Sized>(&self, x: T, rng: &mut R) -> Result<Vec<i64>, ProbeErr> {
        let b = self.1.hit(self.0, x.val(), rng)?;
        Ok(vec![b, b + 1, b + 2])
    }
}
impl<T: ToVal> Operator<T> for R2 {
    type Output = [i64; 2];
    type Error = ProbeErr;
    fn apply<R: rand::Rng + ?Sized>(&self, x: T, rng: &mut R) -> Result<[i64; 2], ProbeErr> {
        let b = self.1.hit(self.0, x.val(), rng)?;
        Ok([b, b + 1])
    }
}
impl Mutator<i64> for P {
    type Error = ProbeErr;
    fn mutate<R: rand::Rng + ?Sized>(&self, g: i64, rng: &mut R) -> Result<i64, ProbeErr> {
        self.1.hit(self.0, g.val(), rng)
    }
}
impl Recombinator<(i64, i64)> for P {
    type Output = i64;
    type Error = ProbeErr;
    fn recombine<R: rand::Rng + ?Sized>(&self, g: (i64, i64), rng: &mut R) -> Result<i64, ProbeErr> {
        self.1.hit(self.0, g.val(), rng)
    }
}
impl Selector<Vec<i64>> for Sel {
    type Error = ProbeErr;
    fn select<'p, R: rand::Rng + ?Sized>(&self, pop: &'p Vec<i64>, rng: &mut R) -> Result<&'p i64, ProbeErr> {
        let w = if self.0 % 2 == 1 { narrow_draw(rng) } else { rng.next_u64() };
        self.1.log.borrow_mut().push(tl![a(self.0), pop.val(), a(w)]);
        let c = *self.1.calls.borrow();
        *self.1.calls.borrow_mut() += 1;
        if c == self.1.fail_at {
            Err(ProbeErr(self.0))
        } else {
            Ok(&pop[(w % pop.len() as u64) as usize])
        }
    }
}

// shape descriptions
fn sp(i: i64) -> Tree {
    tl![A(0), a(i)]
}
fn sq(i: i64) -> Tree {
    tl![A(10), a(i)]
}
fn sd(i: i64) -> Tree {
    tl![A(11), a(i)]
}
fn sv(i: i64) -> Tree {
    tl![A(12), a(i)]
}
fn sr(i: i64) -> Tree {
    tl![A(13), a(i)]
}
fn then(x: Tree, y: Tree) -> Tree {
    tl![A(1), x, y]
}
fn and(x: Tree, y: Tree) -> Tree {
    tl![A(2), x, y]
}
fn mapp(x: Tree) -> Tree {
    tl![A(3), x]
}
fn mapv(x: Tree) -> Tree {
    tl![A(5), x]
}
fn rep(n: i64, x: Tree) -> Tree {
    tl![A(6), a(n), x]
}
fn wrap(x: Tree) -> Tree {
    tl![A(9), x]
}

/// The error path is read off the error's `Debug` form (the combinator error types live in private modules and
/// offer nothing else that tells the failing part AND the failing element).  The form is parsed structurally, so that
/// tuple structs, structs with named fields in any order, path-qualified variant names, pretty-printing and extra
/// transparent wrappers all read the same: `First(..)` / `Second(..)` name the part; any other wrapper around exactly
/// one inner error together with exactly one integer says "element k of a map failed"; a wrapper around one inner
/// error and nothing else adds nothing; `ProbeErr(id)` is the probe that failed.
#[derive(Debug, Clone, PartialEq)]
enum Dv {
    Int(i64),
    Node(String, Vec<Dv>),
    Other,
}
struct Dp<'a> {
    s: &'a [u8],
    i: usize,
}
impl<'a> Dp<'a> {
    fn ws(&mut self) {
        while self.i < self.s.len() && (self.s[self.i] as char).is_whitespace() {
            self.i += 1;
        }
    }
    fn ident(&mut self) -> String {
        let st = self.i;
        loop {
            match self.s.get(self.i) {
                Some(b) if (*b as char).is_alphanumeric() || *b == b'_' => self.i += 1,
                Some(b':') if self.s.get(self.i + 1) == Some(&b':') => self.i += 2,
                _ => break,
            }
        }
        String::from_utf8_lossy(&self.s[st..self.i]).into_owned()
    }
    /// value := int | Name | Name(values) | Name { field: value, .. } | "string" | [values] | other
    fn value(&mut self) -> Option<Dv> {
        self.ws();
        let c = *self.s.get(self.i)? as char;
        if c == '-' || c.is_ascii_digit() {
            let st = self.i;
            self.i += 1;
            while self.i < self.s.len() && (self.s[self.i] as char).is_ascii_digit() {
                self.i += 1;
            }
            return Some(std::str::from_utf8(&self.s[st..self.i]).ok()?.parse::<i64>().map_or(Dv::Other, Dv::Int));
        }
        if c == '"' {
            self.i += 1;
            while self.i < self.s.len() && self.s[self.i] != b'"' {
                if self.s[self.i] == b'\\' {
                    self.i += 1;
                }
                self.i += 1;
            }
            self.i += 1;
            return Some(Dv::Other);
        }
        if c == '[' {
            self.i += 1;
            let items = self.list(b']')?;
            return Some(Dv::Node("[]".into(), items));
        }
        if c.is_alphabetic() || c == '_' {
            let name = self.ident();
            self.ws();
            return Some(match self.s.get(self.i).map(|b| *b as char) {
                Some('(') => {
                    self.i += 1;
                    Dv::Node(name, self.list(b')')?)
                }
                Some('{') => {
                    self.i += 1;
                    Dv::Node(name, self.list(b'}')?)
                }
                _ => Dv::Node(name, vec![]),
            });
        }
        None
    }
    /// comma separated values (each optionally `field:` prefixed, `..` allowed) up to the closing byte
    fn list(&mut self, close: u8) -> Option<Vec<Dv>> {
        let mut out = vec![];
        loop {
            self.ws();
            let b = *self.s.get(self.i)?;
            if b == close {
                self.i += 1;
                return Some(out);
            }
            if b == b',' {
                self.i += 1;
                continue;
            }
            if b == b'.' {
                self.i += 1;
                continue;
            }
            // optional `field:` prefix
            let save = self.i;
            if (b as char).is_alphabetic() || b == b'_' {
                let _ = self.ident();
                self.ws();
                if self.s.get(self.i) == Some(&b':') && self.s.get(self.i + 1) != Some(&b':') {
                    self.i += 1;
                } else {
                    self.i = save;
                }
            }
            out.push(self.value()?);
        }
    }
}
fn parse_debug(s: &str) -> Option<Dv> {
    let mut p = Dp { s: s.as_bytes(), i: 0 };
    let v = p.value()?;
    p.ws();
    if p.i == s.len() { Some(v) } else { None }
}
fn dv_tree(v: &Dv) -> Option<Tree> {
    match v {
        Dv::Node(name, kids) => {
            let nodes: Vec<&Dv> = kids.iter().filter(|k| matches!(k, Dv::Node(..))).collect();
            let ints: Vec<i64> = kids.iter().filter_map(|k| if let Dv::Int(i) = k { Some(*i) } else { None }).collect();
            if name == "ProbeErr" && ints.len() == 1 && nodes.is_empty() {
                return Some(tl![A(0), a(ints[0])]);
            }
            if (name == "First" || name.ends_with("::First")) && nodes.len() == 1 && ints.is_empty() {
                return Some(tl![A(1), dv_tree(nodes[0])?]);
            }
            if (name == "Second" || name.ends_with("::Second")) && nodes.len() == 1 && ints.is_empty() {
                return Some(tl![A(2), dv_tree(nodes[0])?]);
            }
            if nodes.len() == 1 && ints.len() == 1 {
                return Some(tl![A(3), dv_tree(nodes[0])?, a(ints[0])]);
            }
            if nodes.len() == 1 && ints.is_empty() {
                return dv_tree(nodes[0]);
            }
            None
        }
        _ => None,
    }
}
fn err_tree(s: &str) -> Tree {
    parse_debug(s).as_ref().and_then(dv_tree).unwrap_or(tl![A(-1)])
}

/// "the error identifies which part or which element failed" also through its MESSAGES: walking the source chain, a
/// level whose debug form says `First` / `Second` must not, in its message, name the other ordinal (a message that
/// names neither, or both, makes no claim), and a level that carries an element index must not name other numbers
/// only
fn messages_consistent(e: &(dyn std::error::Error + 'static)) -> bool {
    let mut cur: Option<&(dyn std::error::Error + 'static)> = Some(e);
    let mut depth = 0;
    while let Some(x) = cur {
        let text = x.to_string().to_lowercase();
        if let Some(Dv::Node(name, kids)) = parse_debug(&format!("{x:?}")) {
            let nodes = kids.iter().filter(|k| matches!(k, Dv::Node(..))).count();
            let ints: Vec<i64> = kids.iter().filter_map(|k| if let Dv::Int(i) = k { Some(*i) } else { None }).collect();
            let (first, second) = (text.contains("first"), text.contains("second"));
            if (name == "First" || name.ends_with("::First")) && second && !first {
                return false;
            }
            if (name == "Second" || name.ends_with("::Second")) && first && !second {
                return false;
            }
            if name != "ProbeErr" && nodes == 1 && ints.len() == 1 {
                let mut named: Vec<i64> = vec![];
                let mut digits = String::new();
                for ch in text.chars().chain(std::iter::once(' ')) {
                    if ch.is_ascii_digit() {
                        digits.push(ch);
                    } else if !digits.is_empty() {
                        if let Ok(v) = digits.parse::<i64>() {
                            named.push(v);
                        }
                        digits.clear();
                    }
                }
                if !named.is_empty() && !named.contains(&ints[0]) {
                    return false;
                }
            }
        }
        cur = x.source();
        depth += 1;
        if depth > 64 {
            return false;
        }
    }
    true
}
/// the combinators' error types cannot be named outside the crate; when the debug form of an error is not structural
/// (hand-written prose), the path is read off what is public instead: the source chain and the messages - a level whose
/// message names exactly one of "first" / "second" is that part, a level that names an element number is a mapped
/// element, and the chain must end in the probe's own error (identified by downcasting)
fn display_path(e: &(dyn std::error::Error + 'static), depth: usize) -> Option<Tree> {
    if depth > 64 {
        return None;
    }
    if let Some(p) = e.downcast_ref::<ProbeErr>() {
        return Some(tl![A(0), a(p.0)]);
    }
    let text = e.to_string().to_lowercase();
    let inner = display_path(e.source()?, depth + 1)?;
    let (first, second) = (text.contains("first"), text.contains("second"));
    if text.contains("element") {
        let digits: String = text.chars().skip_while(|c| !c.is_ascii_digit()).take_while(char::is_ascii_digit).collect();
        return Some(tl![A(3), inner, a(digits.parse::<i64>().ok()?)]);
    }
    match (first, second) {
        (true, false) => Some(tl![A(1), inner]),
        (false, true) => Some(tl![A(2), inner]),
        _ => None,
    }
}
/// the crate's errors are `miette::Diagnostic`s; a diagnostic report walks `diagnostic_source()` and falls back on
/// `source()` where that is `None` - the chain of messages a report shows must be the chain the standard source chain has
/// (a level skipped in the diagnostic chain hides WHICH element or part failed from the reader of the report)
fn report_chain_consistent(d: &(dyn miette::Diagnostic + 'static)) -> bool {
    let mut std_chain: Vec<String> = vec![];
    let mut cur: Option<&(dyn std::error::Error + 'static)> = d.source();
    while let Some(x) = cur {
        std_chain.push(x.to_string());
        cur = x.source();
        if std_chain.len() > 64 {
            return false;
        }
    }
    let mut report: Vec<String> = vec![];
    let mut at: &dyn miette::Diagnostic = d;
    loop {
        if report.len() > 64 {
            return false;
        }
        match at.diagnostic_source() {
            Some(n) => {
                report.push(n.to_string());
                at = n;
            }
            None => {
                let mut cur = at.source();
                while let Some(x) = cur {
                    report.push(x.to_string());
                    cur = x.source();
                    if report.len() > 64 {
                        return false;
                    }
                }
                break;
            }
        }
    }
    report == std_chain
}
fn fin<T: ToVal, E: std::error::Error + miette::Diagnostic + 'static>(r: Result<T, E>) -> Tree {
    match r {
        Ok(v) => tl![A(0), v.val()],
        Err(e) => tl![
            A(1),
            if !report_chain_consistent(&e) {
                tl![A(-3)]
            } else if messages_consistent(&e) {
                match err_tree(&format!("{e:?}")) {
                    L(ref v) if v.len() == 1 && matches!(v[0], A(-1)) => display_path(&e, 0).unwrap_or(tl![A(-1)]),
                    t => t,
                }
            } else {
                tl![A(-2)]
            }
        ],
    }
}

/// `Map` is only constructible through `Composable::map`, which discards its receiver
macro_rules! mk_map {
    ($e:expr) => {
        Identity.map($e)
    };
}
pub const NSHAPES: usize = 40;

/// runs shape `id`; returns (description, input value tree, result tree)
fn run_shape(id: usize, x: i64, c: &Ctl, rng: &mut ListRng) -> Option<(Tree, Tree, Tree)> {
    let p = |i: i64| P(i, c.clone());
    let q = |i: i64| Q(i, c.clone());
    let d = |i: i64| D(i, c.clone());
    let v = |i: i64| V(i, c.clone());
    let r = |i: i64| R2(i, c.clone());
    let xin = x.val();
    Some(match id {
        0 => (then(sp(1), sp(2)), xin, fin(p(1).then(p(2)).apply(x, rng))),
        1 => (then(then(sp(1), sp(2)), sp(3)), xin, fin(p(1).then(p(2)).then(p(3)).apply(x, rng))),
        2 => (then(sp(1), then(sp(2), sp(3))), xin, fin(p(1).then(p(2).then(p(3))).apply(x, rng))),
        3 => (and(sp(1), sp(2)), xin, fin(p(1).and(p(2)).apply(x, rng))),
        4 => (then(and(sp(1), sp(2)), sq(3)), xin, fin(p(1).and(p(2)).then(q(3)).apply(x, rng))),
        5 => (then(sd(1), mapp(sp(2))), xin, fin(d(1).then(mk_map!(p(2))).apply(x, rng))),
        6 => (then(sr(1), mapv(sp(2))), xin, fin(r(1).then(mk_map!(p(2))).apply(x, rng))),
        7 => (then(sv(1), mapv(sp(2))), xin, fin(v(1).then(mk_map!(p(2))).apply(x, rng))),
        8 => (rep(2, sp(1)), xin, fin(p(1).apply_twice().apply(x, rng))),
        9 => (rep(3, sp(1)), xin, fin(p(1).apply_n_times::<3>().apply(x, rng))),
        10 => (rep(0, sp(1)), xin, fin(p(1).apply_n_times::<0>().apply(x, rng))),
        11 => (then(tl![A(7)], sp(1)), xin, fin(Identity.then(p(1)).apply(x, rng))),
        12 => (then(sp(1), tl![A(7)]), xin, fin(p(1).then(Identity).apply(x, rng))),
        13 => (then(tl![A(8), A(5)], sp(1)), xin, fin(Constant::new(5i64).then(p(1)).apply(x, rng))),
        14 => (then(sp(1), tl![A(8), A(7)]), xin, fin(p(1).then(Constant::new(7i64)).apply(x, rng))),
        15 => (wrap(sp(1)), xin, fin(Mutate::new(p(1)).apply(x, rng))),
        16 => {
            let p1 = p(1);
            (then(wrap(sp(1)), sp(2)), xin, fin(Mutate::new(&p1).then(p(2)).apply(x, rng)))
        }
        17 => (then(sd(1), wrap(sp(2))), xin, fin(d(1).then(Recombine::new(p(2))).apply(x, rng))),
        18 => (then(and(sp(1), then(sp(2), sp(3))), mapp(sq(4))), xin, fin(p(1).and(p(2).then(p(3))).then(mk_map!(q(4))).apply(x, rng))),
        19 => (then(sv(1), mapv(and(sp(2), sp(3)))), xin, fin(v(1).then(mk_map!(p(2).and(p(3)))).apply(x, rng))),
        20 => (then(sd(1), mapp(rep(2, sp(2)))), xin, fin(d(1).then(mk_map!(p(2).apply_twice())).apply(x, rng))),
        21 => (then(rep(2, sp(1)), mapv(sp(2))), xin, fin(p(1).apply_twice().then(mk_map!(p(2))).apply(x, rng))),
        22 => (
            then(then(then(sp(1), sv(2)), mapv(sd(3))), mapv(mapp(sp(4)))),
            xin,
            fin(p(1).then(v(2)).then(mk_map!(d(3))).then(mk_map!(mk_map!(p(4)))).apply(x, rng)),
        ),
        23 => (then(then(and(sq(1), sq(2)), mapp(sp(3))), sq(4)), xin, fin(q(1).and(q(2)).then(mk_map!(p(3))).then(q(4)).apply(x, rng))),
        24 => (then(sd(1), mapp(sp(2))), xin, fin(d(1).then_map(p(2)).apply(x, rng))),
        25 => (and(and(sp(1), sp(2)), sp(3)), xin, fin(p(1).and(p(2)).and(p(3)).apply(x, rng))),
        26 => (and(then(sp(1), sp(2)), then(sp(3), sp(4))), xin, fin(p(1).then(p(2)).and(p(3).then(p(4))).apply(x, rng))),
        27 => (then(then(sv(1), mapv(sp(2))), sq(3)), xin, fin(v(1).then(mk_map!(p(2))).then(q(3)).apply(x, rng))),
        28 => (rep(3, then(sp(1), sp(2))), xin, fin(p(1).then(p(2)).apply_n_times::<3>().apply(x, rng))),
        29 => (rep(2, and(sp(1), sp(2))), xin, fin(p(1).and(p(2)).apply_twice().apply(x, rng))),
        30 => (then(then(sp(1), sr(2)), mapv(then(sp(3), sp(4)))), xin, fin(p(1).then(r(2)).then(mk_map!(p(3).then(p(4)))).apply(x, rng))),
        // Composable::map discards its receiver: the operator is Map(op)
        31 => (then(sd(1), mapp(sp(3))), xin, fin(d(1).then(p(2).map(p(3))).apply(x, rng))),
        32 => {
            let pop = vec![x, x + 1, x + 2];
            (then(tl![A(14), A(1)], sq(2)), pop.val(), fin(Select::new(Sel(1, c.clone())).then(q(2)).apply(&pop, rng).map(|r| *r)))
        }
        33 => {
            let ind = EcIndividual::new(x, x + 100);
            (then(tl![A(15)], sp(1)), ind.val(), fin(GenomeExtractor.then(p(1)).apply(&ind, rng)))
        }
        34 => {
            let sel = Sel(1, c.clone());
            let pop = vec![x, x - 1];
            (then(wrap(tl![A(14), A(1)]), sp(2)), pop.val(), fin(Select::new(&sel).then(p(2)).apply(&pop, rng)))
        }
        35 => (
            then(and(then(sp(1), sd(2)), sv(3)), sq(4)),
            xin,
            fin(p(1).then(d(2)).and(v(3)).then(q(4)).apply(x, rng)),
        ),
        // wrappers around type-erased operators (boxed and borrowed trait objects)
        36 => {
            let b: Box<dyn ec_core::operator::mutator::DynMutator<i64, ProbeErr>> = Box::new(p(1));
            (then(wrap(sp(1)), sp(2)), xin, fin(Mutate::new(b).then(p(2)).apply(x, rng)))
        }
        37 => {
            let p1 = p(1);
            let r: &dyn ec_core::operator::mutator::DynMutator<i64, ProbeErr> = &p1;
            (then(sq(2), wrap(sp(1))), xin, fin(q(2).then(Mutate::new(r)).apply(x, rng)))
        }
        38 => {
            let b: Box<dyn ec_core::operator::recombinator::DynRecombinator<(i64, i64), ProbeErr, Output = i64>> = Box::new(p(3));
            (then(sd(1), wrap(sp(3))), xin, fin(d(1).then(Recombine::new(b)).apply(x, rng)))
        }
        39 => {
            let pop = vec![x, x + 1, x + 2];
            let b: Box<dyn ec_core::operator::selector::DynSelector<Vec<i64>, ProbeErr>> = Box::new(Sel(1, c.clone()));
            (then(wrap(tl![A(14), A(1)]), sq(2)), pop.val(), fin(Select::new(b).then(q(2)).apply(&pop, rng).map(|r| *r)))
        }
        _ => return None,
    })
}

fn run(input: &Tree) -> Option<Tree> {
    // the *case input* handed to Coq needs the shape description: the observation carries it back
    // in front, and the driver moves it into the input (see props.py: c14_fix)
    let l = input.list()?;
    let id = l.first()?.usize()?;
    let x = l.get(1)?.i64()?;
    let fail_at = l.get(2)?.i64()?;
    let words: Vec<u64> = l.get(3)?.list()?.iter().map(Tree::u64).collect::<Option<_>>()?;
    let c = Ctl { log: Rc::new(RefCell::new(vec![])), calls: Rc::new(RefCell::new(0)), fail_at };
    let mut rng = ListRng { words, pos: 0 };
    let (desc, xin, res) = run_shape(id, x, &c, &mut rng)?;
    let log = c.log.borrow().clone();
    Some(tl![desc, xin, res, L(log), au(rng.pos)])
}

fn gen(tier: &str, rng: &mut Sm) -> Gen {
    let mut g = Gen::new();
    let streams = if tier == "thorough" { 25 } else { 4 };
    for id in 0..NSHAPES {
        for fail in -1..12i64 {
            for _ in 0..streams {
                let words: Vec<Tree> = (0..16).map(|_| a(rng.next() >> 1)).collect();
                g.inputs.push(tl![au(id), a(rng.range(-50, 50)), a(fail), L(words)]);
            }
        }
    }
    g.meta("generator", format!("{NSHAPES} composition shapes (every combinator and wrapper, nesting depth <= 4) x failure injected at probe call -1 (none), 0..11 x {streams} word streams"));
    g
}
