//! C06 / C07 / C08 / C13: selectors and their weighted / dynamic combinations.
//! input = [seed, draws, [polarity, population, spec]]
//!   population = [[case results...]...] ; polarity 1 = Score (bigger better), 0 = Error
//!   spec: [0] Best [1] Worst [2] Random [3,k] Tournament [4,n] Lexicase
//!         [5,w,S] Weighted<S>   [6,A,B] WeightedPair (A, B weighted)   [8,S,w,rest]/[7] DynWeighted list
//! observation = [[outcome, count]...]   outcome >= 0: index of the selected individual (pointer identity)
//!   -1 empty population, -2 tournament size, -3 missing test case, -4 zero weight, -5 other error,
//!   -100 the returned reference is not an element of the population;  [[-10, a, b]] = WeightSumOverflow(a, b)
use std::collections::BTreeMap;
use std::iter::Sum;
use std::num::NonZeroUsize;

use ec_core::individual::ec::EcIndividual;
use ec_core::operator::selector::best::Best;
use ec_core::operator::selector::dyn_weighted::{DynWeighted, DynWeightedError};
use ec_core::operator::selector::lexicase::{Lexicase, LexicaseError};
use ec_core::operator::selector::random::Random;
use ec_core::operator::selector::tournament::{Tournament, TournamentSizeError};
use ec_core::operator::selector::worst::Worst;
use ec_core::operator::selector::{DynSelector, EmptyPopulation, Selector};
use ec_core::test_results::{Error, Score, TestResults};
use ec_core::weighted::error::{SelectionError, WeightSumOverflow, WeightedPairError};
use ec_core::weighted::weighted_pair::WeightedPair;
use ec_core::weighted::with_weight::WithWeight;
use ec_core::weighted::Weighted;

use crate::*;

pub const PROP: Prop = Prop { name: "C06", gen: gen_c06, run };
pub const PROP7: Prop = Prop { name: "C07", gen: gen_c07, run };
pub const PROP8: Prop = Prop { name: "C08", gen: gen_c08, run };
pub const PROP13: Prop = Prop { name: "C13", gen: gen_c13, run };

#[derive(Debug)]
pub struct SelErr(pub i64);
impl std::fmt::Display for SelErr {
    fn fmt(&self, f: &mut std::fmt::Formatter<'_>) -> std::fmt::Result {
        write!(f, "selection error class {}", self.0)
    }
}
impl std::error::Error for SelErr {}
impl From<EmptyPopulation> for SelErr {
    fn from(_: EmptyPopulation) -> Self {
        SelErr(-1)
    }
}
impl From<TournamentSizeError> for SelErr {
    fn from(_: TournamentSizeError) -> Self {
        SelErr(-2)
    }
}
impl From<LexicaseError> for SelErr {
    fn from(e: LexicaseError) -> Self {
        match e {
            LexicaseError::EmptyPopulation(_) => SelErr(-1),
            LexicaseError::MissingTestCase { current_index, .. } => {
                LAST_MISSING.with(|c| c.set(Some(current_index)));
                SelErr(-3)
            }
        }
    }
}
thread_local! {
    /// the case index the latest MissingTestCase error named
    static LAST_MISSING: std::cell::Cell<Option<usize>> = const { std::cell::Cell::new(None) };
}
impl<E: Into<SelErr>> From<SelectionError<E>> for SelErr {
    fn from(e: SelectionError<E>) -> Self {
        match e {
            SelectionError::ZeroWeight(_) => SelErr(-4),
            SelectionError::Selector(e) => e.into(),
        }
    }
}
impl<A: Into<SelErr>, B: Into<SelErr>> From<WeightedPairError<A, B>> for SelErr {
    fn from(e: WeightedPairError<A, B>) -> Self {
        match e {
            WeightedPairError::A(a) => a.into(),
            WeightedPairError::B(b) => b.into(),
        }
    }
}
impl From<DynWeightedError> for SelErr {
    fn from(e: DynWeightedError) -> Self {
        match e {
            DynWeightedError::EmptyPopulation(_) => SelErr(-1),
            DynWeightedError::ZeroWeightSum(_) => SelErr(-4),
            DynWeightedError::Other(b) => match b.downcast::<SelErr>() {
                Ok(s) => *s,
                // a dynamic list that is itself a member of a dynamic list
                Err(b) => match b.downcast::<DynWeightedError>() {
                    Ok(inner) => (*inner).into(),
                    Err(_) => SelErr(-5),
                },
            },
        }
    }
}

pub type Ind<R> = EcIndividual<u32, TestResults<R>>;
pub type Pop<R> = Vec<Ind<R>>;
pub type Sel<R> = Box<dyn DynSelector<Pop<R>, SelErr> + Send + Sync>;

/// a weighted node with an erased inside: lets WeightedPair trees of any shape be built at run time
pub struct DynW<R> {
    inner: Sel<R>,
    weight: u32,
}
impl<R> WithWeight for DynW<R> {
    fn weight(&self) -> u32 {
        self.weight
    }
}
impl<R: 'static> Selector<Pop<R>> for DynW<R> {
    type Error = SelErr;
    fn select<'p, G: rand::Rng + ?Sized>(&self, pop: &'p Pop<R>, rng: &mut G) -> Result<&'p Ind<R>, SelErr> {
        self.inner.select(pop, rng)
    }
}

/// a member that records being used: counts its calls and draws a word of its own before delegating
pub struct UseProbe<R> {
    inner: Sel<R>,
    id: usize,
}
pub static PROBE_CALLS: [std::sync::atomic::AtomicU64; 64] = [const { std::sync::atomic::AtomicU64::new(0) }; 64];
pub static PROBE_NEXT: std::sync::atomic::AtomicUsize = std::sync::atomic::AtomicUsize::new(0);
impl<R: 'static> Selector<Pop<R>> for UseProbe<R> {
    type Error = SelErr;
    fn select<'p, G: rand::Rng + ?Sized>(&self, pop: &'p Pop<R>, rng: &mut G) -> Result<&'p Ind<R>, SelErr> {
        PROBE_CALLS[self.id].fetch_add(1, std::sync::atomic::Ordering::SeqCst);
        let _ = rng.next_u64();
        self.inner.select(pop, rng)
    }
}

pub trait Res: Ord + From<i64> + for<'a> Sum<&'a Self> + Send + Sync + 'static {}
impl Res for Score<i64> {}
impl Res for Error<i64> {}

pub enum Built<R> {
    Sel(Sel<R>),
    Overflow(u32, u32),
}

fn build_w<R: Res>(t: &Tree) -> Option<Result<DynW<R>, WeightSumOverflow>> {
    let l = t.list()?;
    Some(match l.first()?.int()? {
        5 => {
            let w = u32::try_from(l.get(1)?.int()?).ok()?;
            match build::<R>(l.get(2)?)? {
                Built::Sel(s) => Ok(DynW { inner: Box::new(Weighted::new(s, w)), weight: w }),
                Built::Overflow(a, b) => Err(WeightSumOverflow(a, b)),
            }
        }
        6 => {
            let a = match build_w::<R>(l.get(1)?)? {
                Ok(a) => a,
                Err(e) => return Some(Err(e)),
            };
            let b = match build_w::<R>(l.get(2)?)? {
                Ok(b) => b,
                Err(e) => return Some(Err(e)),
            };
            match WeightedPair::new(a, b) {
                Ok(p) => {
                    let weight = p.weight();
                    Ok(DynW { inner: Box::new(p), weight })
                }
                Err(e) => Err(e),
            }
        }
        _ => return None,
    })
}

/// a dynamic list [8, member, weight, rest] .. [7]; a member that is itself a dynamic list is handed over as the CONCRETE
/// `DynWeighted` value (not boxed first), the way user code nests them
fn build_dyn<R: Res>(l: &[Tree]) -> Option<Result<DynWeighted<Pop<R>>, (u32, u32)>> {
    enum Item<R: Res> {
        Boxed(Sel<R>),
        Dyn(DynWeighted<Pop<R>>),
    }
    let mut items = vec![];
    let mut cur = l;
    loop {
        match cur.first()?.int()? {
            7 => break,
            8 => {
                let m = cur.get(1)?;
                let item = if m.list().and_then(|x| x.first()).and_then(Tree::int) == Some(8) {
                    match build_dyn::<R>(m.list()?)? {
                        Ok(d) => Item::Dyn(d),
                        Err(e) => return Some(Err(e)),
                    }
                } else {
                    match build::<R>(m)? {
                        Built::Sel(s) => Item::Boxed(s),
                        Built::Overflow(a, b) => return Some(Err((a, b))),
                    }
                };
                items.push((item, cur.get(2)?.usize()?));
                cur = cur.get(3)?.list()?;
            }
            _ => return None,
        }
    }
    let mut it = items.into_iter();
    let (s0, w0) = it.next()?;
    let mut d = match s0 {
        Item::Boxed(s) => DynWeighted::new(s, w0),
        Item::Dyn(x) => DynWeighted::new(x, w0),
    };
    for (s, w) in it {
        d = match s {
            Item::Boxed(s) => d.with_selector(s, w),
            Item::Dyn(x) => d.with_selector(x, w),
        };
    }
    Some(Ok(d))
}

pub fn build<R: Res>(t: &Tree) -> Option<Built<R>> {
    let l = t.list()?;
    Some(Built::Sel(match l.first()?.int()? {
        0 => Box::new(Best),
        1 => Box::new(Worst),
        2 => Box::new(Random),
        3 => Box::new(Tournament::new(NonZeroUsize::new(l.get(1)?.usize()?)?)),
        4 => Box::new(Lexicase::new(l.get(1)?.usize()?)),
        9 => {
            // probes are numbered in the order they are met (preorder of the specification)
            let id = PROBE_NEXT.fetch_add(1, std::sync::atomic::Ordering::SeqCst);
            if id >= 64 {
                return None;
            }
            match build::<R>(l.get(1)?)? {
                Built::Sel(inner) => Box::new(UseProbe { inner, id }),
                Built::Overflow(a, b) => return Some(Built::Overflow(a, b)),
            }
        }
        10 => {
            // a chain built with the builder idioms on statically typed values (the members are probes around the marker
            // selectors best / worst / random): [10, style, [weights]] with 2..4 weights;
            // style 0: one expression `Weighted::new(..).with_item_and_weight(..).with_item_and_weight(..)` (chained on the
            // Result), 1: unwrapped after every step, 2: `with_weighted_item(Weighted::new(..))`, 3: 1 and 2 mixed
            use ec_core::weighted::with_weighted_item::WithWeightedItem;
            let style = l.get(1)?.int()?;
            let ws: Vec<u32> = l.get(2)?.list()?.iter().map(|w| w.int().and_then(|x| u32::try_from(x).ok())).collect::<Option<_>>()?;
            if !(2..=4).contains(&ws.len()) || !(0..=3).contains(&style) {
                return None;
            }
            let member = |i: usize| -> Option<Sel<R>> {
                let id = PROBE_NEXT.fetch_add(1, std::sync::atomic::Ordering::SeqCst);
                if id >= 64 {
                    return None;
                }
                let inner: Sel<R> = match i % 3 {
                    0 => Box::new(Best),
                    1 => Box::new(Worst),
                    _ => Box::new(Random),
                };
                Some(Box::new(UseProbe { inner, id }))
            };
            macro_rules! step {
                ($chain:expr, $i:expr) => {{
                    let m = member($i)?;
                    match style {
                        0 => $chain.with_item_and_weight(m, ws[$i]),
                        1 => match $chain {
                            Ok(c) => c.with_item_and_weight(m, ws[$i]),
                            Err(e) => Err(e),
                        },
                        2 => $chain.with_weighted_item(Weighted::new(m, ws[$i])),
                        _ => match $chain {
                            Ok(c) => c.with_weighted_item(Weighted::new(m, ws[$i])),
                            Err(e) => Err(e),
                        },
                    }
                }};
            }
            macro_rules! done {
                ($r:expr) => {
                    match $r {
                        Ok(p) => Box::new(p) as Sel<R>,
                        Err(WeightSumOverflow(a, b)) => return Some(Built::Overflow(a, b)),
                    }
                };
            }
            let first: Result<Weighted<Sel<R>>, WeightSumOverflow> = Ok(Weighted::new(member(0)?, ws[0]));
            let two = step!(first, 1);
            match ws.len() {
                2 => done!(two),
                3 => done!(step!(two, 2)),
                _ => {
                    let three = step!(two, 2);
                    done!(step!(three, 3))
                }
            }
        }
        5 | 6 => match build_w::<R>(t)? {
            Ok(w) => Box::new(w),
            Err(WeightSumOverflow(a, b)) => return Some(Built::Overflow(a, b)),
        },
        8 => Box::new(match build_dyn::<R>(l)? {
            Ok(d) => d,
            Err((a, b)) => return Some(Built::Overflow(a, b)),
        }),
        _ => return None,
    }))
}

/// an ordinary generator whose first word after being armed is a fixed extreme value
struct ExtremeFirst {
    first: Option<u64>,
    armed: bool,
    rest: Sm,
}
impl rand::RngCore for ExtremeFirst {
    fn next_u32(&mut self) -> u32 {
        match (self.armed, self.first) {
            (true, Some(w)) => {
                self.armed = false;
                w as u32
            }
            _ => self.rest.next_u32(),
        }
    }
    fn next_u64(&mut self) -> u64 {
        match (self.armed, self.first) {
            (true, Some(w)) => {
                self.armed = false;
                w
            }
            _ => self.rest.next_u64(),
        }
    }
    fn fill_bytes(&mut self, dst: &mut [u8]) {
        self.rest.fill_bytes(dst)
    }
}

fn run_pol<R: Res>(seed: u64, n: usize, pop: &Tree, spec: &Tree, shared_genomes: bool, warm: &[usize]) -> Option<Tree> {
    // with `shared_genomes` neighbouring individuals carry the SAME genome (re-evaluated copies with
    // possibly different results): selection must look at the results only
    let population: Pop<R> = pop
        .list()?
        .iter()
        .enumerate()
        .map(|(i, r)| {
            let v: Vec<i64> = r.list()?.iter().map(Tree::i64).collect::<Option<_>>()?;
            let genome = if shared_genomes { (i / 2) as u32 } else { i as u32 };
            Some(EcIndividual::new(genome, TestResults::<R>::from(v)))
        })
        .collect::<Option<_>>()?;
    use std::sync::atomic::Ordering::SeqCst;
    PROBE_NEXT.store(0, SeqCst);
    let sel = match build::<R>(spec)? {
        Built::Sel(s) => s,
        Built::Overflow(x, y) => return Some(L(vec![tl![A(-10), a(a_i(x)), a(a_i(y))]])),
    };
    let nprobes = PROBE_NEXT.load(SeqCst);
    // the SAME selector value is first used on other populations (other sizes): a selector carries no state
    // from call to call, so this must not matter for what follows
    let cases = population.first().map_or(1, |i: &EcIndividual<u32, TestResults<R>>| i.test_results.results.len());
    let mut wrng = Sm::new(seed ^ 0x5bd1_e995);
    for &m in warm {
        let wp: Pop<R> = (0..m).map(|j| EcIndividual::new(1000 + j as u32, TestResults::<R>::from(vec![(j % 3) as i64; cases]))).collect();
        for _ in 0..3 {
            let _ = sel.select(&wp, &mut wrng);
        }
    }
    // seeds 0 / 1: the FIRST word of every selection is all-zero / all-one (an extreme draw), the rest of the
    // stream is ordinary (a constant stream would never leave the rejection loops of `rand`)
    let mut rng = ExtremeFirst { first: match seed { 0 => Some(0), 1 => Some(u64::MAX), _ => None }, armed: false, rest: Sm::new(seed) };
    for c in PROBE_CALLS.iter() {
        c.store(0, SeqCst);
    }
    // the measured selections run on ANOTHER THREAD than the one that built (and warmed up) the selector value:
    // nothing thread-bound may influence what is selected
    let hist: BTreeMap<i64, u64> = std::thread::scope(|sc| {
        sc.spawn(|| {
            let mut hist: BTreeMap<i64, u64> = BTreeMap::new();
            for _ in 0..n {
                rng.armed = true;
                LAST_MISSING.with(|c| c.set(None));
                let o = match sel.select(&population, &mut rng) {
                    Ok(r) => population.iter().position(|q| std::ptr::eq(q, r)).map_or(-100, |i| i as i64),
                    // a missing-case error must name a case that some individual really lacks (-30 otherwise)
                    Err(e) if e.0 == -3 => match LAST_MISSING.with(std::cell::Cell::take) {
                        Some(idx) if !population.iter().any(|i| i.test_results.results.len() <= idx) => -30,
                        _ => -3,
                    },
                    Err(e) => e.0,
                };
                *hist.entry(o).or_insert(0) += 1;
            }
            hist
        })
        .join()
    })
    .unwrap_or_else(|panic| std::panic::resume_unwind(panic));
    let hist = L(hist.into_iter().map(|(o, c)| tl![a(o), a(c)]).collect());
    if nprobes == 0 {
        return Some(hist);
    }
    // with probes: [-50, histogram, calls of every probe]
    Some(tl![A(-50), hist, L((0..nprobes).map(|i| a(PROBE_CALLS[i].load(SeqCst))).collect())])
}
fn a_i(x: u32) -> i64 {
    i64::from(x)
}

fn run(input: &Tree) -> Option<Tree> {
    let l = input.list()?;
    let seed = l.first()?.u64()?;
    let n = l.get(1)?.usize()?;
    if n == 0 {
        return None;
    }
    let p = l.get(2)?.list()?;
    if p.len() != 3 && p.len() != 4 {
        return None;
    }
    let warm: Vec<usize> = match p.get(3) {
        Some(w) => w.list()?.iter().map(Tree::usize).collect::<Option<_>>()?,
        None => vec![],
    };
    if warm.iter().any(|m| *m > 4096) {
        return None;
    }
    match p.first()?.int()? {
        1 => run_pol::<Score<i64>>(seed, n, p.get(1)?, p.get(2)?, false, &warm),
        0 => run_pol::<Error<i64>>(seed, n, p.get(1)?, p.get(2)?, false, &warm),
        3 => run_pol::<Score<i64>>(seed, n, p.get(1)?, p.get(2)?, true, &warm),
        2 => run_pol::<Error<i64>>(seed, n, p.get(1)?, p.get(2)?, true, &warm),
        _ => None,
    }
}

// ------------------------------------------------------------------ generators
fn tv(v: &[i64]) -> Tree {
    L(v.iter().map(|x| a(*x)).collect())
}
fn case(rng: &mut Sm, n: usize, pol: i64, pop: Vec<Vec<i64>>, spec: Tree) -> Tree {
    tl![a(rng.next() >> 1), au(n), tl![a(pol), L(pop.iter().map(|r| tv(r)).collect()), spec]]
}
/// the same, with the selector value used on populations of the given sizes beforehand
fn case_warm(rng: &mut Sm, n: usize, pol: i64, pop: Vec<Vec<i64>>, spec: Tree, warm: &[usize]) -> Tree {
    tl![a(rng.next() >> 1), au(n), tl![a(pol), L(pop.iter().map(|r| tv(r)).collect()), spec, L(warm.iter().map(|m| au(*m)).collect())]]
}
/// populations whose individuals with equal totals have identical result vectors
fn pop_by_total(rng: &mut Sm, n: usize, ties: bool) -> Vec<Vec<i64>> {
    (0..n).map(|_| vec![if ties { rng.range(0, 3) } else { rng.range(-50, 50) }]).collect()
}
fn matrix(rng: &mut Sm, n: usize, cases: usize, spread: i64) -> Vec<Vec<i64>> {
    (0..n).map(|_| (0..cases).map(|_| rng.range(0, spread)).collect()).collect()
}
fn base_sel(rng: &mut Sm, n: usize) -> Tree {
    match rng.below(6) {
        0 => tl![A(0)],
        1 => tl![A(1)],
        2 => tl![A(2)],
        3 => tl![A(3), au(1 + rng.below(n + 2))],
        4 => tl![A(4), au(rng.below(4))],
        _ => tl![A(3), A(2)],
    }
}
fn wtree(rng: &mut Sm, n: usize, depth: usize, weights: &[i64]) -> Tree {
    if depth == 0 || rng.chance(1, 3) {
        tl![A(5), a(*rng.pick(weights)), base_sel(rng, n)]
    } else {
        tl![A(6), wtree(rng, n, depth - 1, weights), wtree(rng, n, depth - 1, weights)]
    }
}
fn dynlist(rng: &mut Sm, n: usize, k: usize, weights: &[i64], nest: bool) -> Tree {
    let mut t = tl![A(7)];
    for _ in 0..k {
        let s = if nest && rng.chance(1, 4) { wtree(rng, n, 1, weights) } else { base_sel(rng, n) };
        t = tl![A(8), s, a(*rng.pick(weights)), t];
    }
    t
}

/// dynamic lists with a dynamic list among their members, at every position
fn dyn_in_dyn_specs() -> Vec<Tree> {
    let mk = |ws: &[i128], tail: Tree, shift: usize| -> Tree {
        let mut d = tail;
        for (i, w) in ws.iter().enumerate().rev() {
            d = tl![A(8), tl![A(((i + shift) % 3) as i128)], a(*w), d];
        }
        d
    };
    let mut out = vec![];
    for (inner, wi, outer) in [(vec![1i128, 1], 2i128, vec![1i128, 1]), (vec![3, 6], 1, vec![1, 2]), (vec![0, 0], 3, vec![2]), (vec![2, 0, 1], 0, vec![1]), (vec![1], 5, vec![0, 4])] {
        let inner_t = mk(&inner, tl![A(7)], 0);
        for pos in 0..=outer.len() {
            // outer[..pos], the inner list with weight wi, outer[pos..]
            let tail = mk(&outer[pos..], tl![A(7)], pos + 1);
            let with_inner = tl![A(8), inner_t.clone(), a(wi), tail];
            out.push(mk(&outer[..pos], with_inner, 1));
        }
    }
    out
}

fn gen_c06(tier: &str, rng: &mut Sm) -> Gen {
    let mut g = Gen::new();
    let reps = if tier == "thorough" { 40 } else { 6 };
    let draws = if tier == "thorough" { 400 } else { 60 };
    let w = [0i64, 0, 1, 2, 3, 7];
    for _ in 0..reps {
        for n in [0usize, 1, 2, 3, 5, 8] {
            let pops: Vec<Vec<Vec<i64>>> = vec![
                matrix(rng, n, 3, 3),
                vec![vec![1, 1, 1]; n],                                      // all equal
                (0..n).map(|i| vec![(i % 2) as i64, 2, 0]).collect(),        // duplicate-laden
                (0..n).map(|i| vec![1; i % 4]).collect(),                    // ragged: missing cases (first individual shortest)
                (0..n).map(|i| vec![1; 4 - i % 4]).collect(),                // ragged: a LATER individual is the short one
                (0..n).map(|_| vec![2; 1 + rng.below(4)]).collect(),         // ragged at random, all tied
            ];
            for pop in pops {
                let pol = rng.range(0, 3);
                for spec in [
                    tl![A(0)],
                    tl![A(1)],
                    tl![A(2)],
                    tl![A(3), au(1 + rng.below(n + 2))],
                    tl![A(4), au(rng.below(5))],
                    wtree(rng, n, 2, &w),
                    {
                        let k = 1 + rng.below(3);
                        dynlist(rng, n, k, &w, true)
                    },
                    tl![A(5), A(3), dynlist(rng, n, 2, &w, false)],
                ] {
                    // an extreme first random word (all-zero / all-one) in every selection, a few draws: support only
                    if rng.chance(1, 6) {
                        g.inputs.push(tl![a(rng.below(2) as i128), A(5), tl![a(pol), L(pop.iter().map(|r| tv(r)).collect()), spec.clone()]]);
                    }
                    // every third configuration: the selector value has served other populations before
                    // (larger, then smaller) - selectors carry no state from call to call
                    if rng.chance(1, 3) {
                        let warm = [n + 5 + rng.below(20), rng.below(n + 1)];
                        g.inputs.push(case_warm(rng, draws, pol, pop.clone(), spec, &warm));
                    } else {
                        g.inputs.push(case(rng, draws, pol, pop.clone(), spec));
                    }
                }
            }
        }
    }
    // a dynamic list as a member of a dynamic list (first, in the middle, last; with zero weights inside and outside)
    for d in dyn_in_dyn_specs() {
        let pop = matrix(rng, 5, 2, 4);
        g.inputs.push(case(rng, draws * 10, 1, pop, d));
    }
    // dynamic lists whose usize weights do not sum within usize: an error value, never a panic
    for ws in [vec![u64::MAX as i128, 1], vec![u64::MAX as i128 - 1, 1, 1], vec![1i128 << 63, 1 << 63], vec![1, u64::MAX as i128, 0]] {
        let mut d = tl![A(7)];
        for (i, w) in ws.iter().enumerate().rev() {
            d = tl![A(8), tl![A((i % 3) as i128)], a(*w), d];
        }
        let pop = matrix(rng, 4, 2, 3);
        g.inputs.push(case(rng, 20, 1, pop, d));
    }
    // a population of 300 individuals with pairwise distinct totals (two cases each): membership and law where a byte-sized
    // index or a different sampling path would show
    {
        let n = 300usize;
        let mut perm: Vec<i64> = (0..n as i64).collect();
        for i in (1..n).rev() {
            perm.swap(i, rng.below(i + 1));
        }
        let pop: Vec<Vec<i64>> = perm.iter().enumerate().map(|(i, p)| vec![3 * p, (i % 3) as i64]).collect();
        for spec in [
            tl![A(0)],
            tl![A(1)],
            tl![A(2)],
            tl![A(3), A(2)],
            tl![A(4), A(2)],
            tl![A(6), tl![A(5), A(1), tl![A(0)]], tl![A(5), A(3), tl![A(2)]]],
            tl![A(8), tl![A(2)], A(2), tl![A(8), tl![A(1)], A(1), tl![A(7)]]],
        ] {
            let pol = rng.range(0, 1);
            g.inputs.push(case(rng, draws * 20, pol, pop.clone(), spec));
        }
    }
    // THOUSANDS of cases on which everybody ties (identical individuals): nobody is ever eliminated, the loop over the cases
    // runs to its end, the selection is uniform (closed form C08_all_tied_uniform) - and it must return at all
    for (n, c) in [(2usize, 24000usize), (3, 3000)] {
        let row: Vec<i64> = (0..c).map(|k| ((k * 5) % 11) as i64).collect();
        // identical on every case that is looked at, different on one further result that is not
        let pop: Vec<Vec<i64>> = (0..n).map(|i| { let mut r = row.clone(); r.push(i as i64); r }).collect();
        let pol = rng.range(0, 1);
        g.inputs.push(case(rng, 40, pol, pop, tl![A(4), au(c)]));
    }
    g.meta("generator", "populations: empty, singleton, all-equal, duplicate-laden, ragged (missing cases), random, and one of 300 individuals; identical individuals with 3000 / 24000 cases under lexicase; selectors: best, worst, random, tournament sizes 1..n+2, lexicase case counts 0..4, weighted trees (depth <= 2, weights incl. 0), dynamic lists (also nested); some configurations with an extreme (all-zero / all-one) first random word in every selection (support only); selector values that served other populations before");
    g
}

fn gen_c07(tier: &str, rng: &mut Sm) -> Gen {
    let mut g = Gen::new();
    let draws = if tier == "thorough" { 400000 } else { 20000 };
    let (reps, nmax) = if tier == "thorough" { (6, 9usize) } else { (1, 7usize) };
    for rep in 0..reps {
        for n in 1..=nmax {
            for ties in [false, true] {
                let pop = pop_by_total(rng, n, ties);
                // every polarity code (0/1: separate genomes, 2/3: neighbouring individuals share genomes) over the repetitions
                let pol = if reps > 1 { ((rep + n) % 4) as i64 } else { rng.range(0, 3) };
                for k in 1..=n {
                    g.inputs.push(case(rng, draws, pol, pop.clone(), tl![A(3), au(k)]));
                    // a selector value that has already served a larger, and then a smaller, population
                    if (n + k) % 3 == 0 {
                        g.inputs.push(case_warm(rng, draws, pol, pop.clone(), tl![A(3), au(k)], &[n + 9]));
                        g.inputs.push(case_warm(rng, draws, pol, pop.clone(), tl![A(3), au(k)], &[n + 40, k.max(n.saturating_sub(2)).max(1)]));
                    }
                }
                g.inputs.push(case(rng, 200, pol, pop.clone(), tl![A(0)]));
                g.inputs.push(case(rng, 200, pol, pop.clone(), tl![A(1)]));
            }
        }
    }
    // individuals with SEVERAL cases: selection pressure goes by the total, not by the per-case vector read
    // lexicographically ([0,100] is worse than [5,5] as errors, better as scores)
    for rep in 0..reps {
        for pop in [
            vec![vec![0i64, 100], vec![5, 5], vec![50, 1]],
            vec![vec![9, 0, 0], vec![0, 0, 10], vec![3, 3, 3], vec![0, 9, 0]],
            vec![vec![1, 2], vec![2, 1], vec![0, 3], vec![3, 1]],
            (0..5).map(|_| (0..3).map(|_| rng.range(0, 9)).collect()).collect(),
            // individuals evaluated on DIFFERENT numbers of cases (sub-sampled / early-terminated evaluation, no
            // cases at all): the total still decides
            vec![vec![4], vec![1, 1], vec![9, 0, 0], vec![2, 2, 2, 2]],
            vec![vec![], vec![3, 3], vec![7], vec![1, 1, 1]],
            vec![vec![5, 5, 5], vec![20], vec![6, 6], vec![0, 0, 0, 1]],
        ] {
            let n = pop.len();
            for pol in [0i64, 1, 2, 3] {
                if reps == 1 && pol >= 2 && rep == 0 && n != 4 {
                    continue;
                }
                g.inputs.push(case(rng, 200, pol, pop.clone(), tl![A(0)]));
                g.inputs.push(case(rng, 200, pol, pop.clone(), tl![A(1)]));
                for k in [1usize, 2, n] {
                    g.inputs.push(case(rng, draws, pol, pop.clone(), tl![A(3), au(k)]));
                }
            }
        }
    }
    // populations far too large to enumerate their k-subsets: pairwise distinct totals (a scrambled permutation),
    // judged by the rank law C(r-1, k-1) / C(n, k)
    for n in if tier == "thorough" { vec![40usize, 300, 1000] } else { vec![40usize, 300] } {
        let mut totals: Vec<i64> = (0..n as i64).map(|i| i * 3 - 50).collect();
        for i in (1..n).rev() {
            totals.swap(i, rng.below(i + 1));
        }
        let pop: Vec<Vec<i64>> = totals.iter().map(|t| vec![*t]).collect();
        for (j, k) in [1usize, 2, 3, 7, n].into_iter().enumerate() {
            let pol = ((j + n) % 4) as i64;
            g.inputs.push(case(rng, if k == n { 300 } else { draws * 2 }, pol, pop.clone(), tl![A(3), au(k)]));
        }
        g.inputs.push(case(rng, 50, 1, pop.clone(), tl![A(0)]));
        g.inputs.push(case(rng, 50, 0, pop.clone(), tl![A(1)]));
    }
    g.meta("generator", format!("{reps} x populations of 1..{nmax} single-case individuals with and without ties, both polarities, separate and shared genomes; every tournament size 1..n; best and worst; populations of multi-case individuals whose per-case vectors read lexicographically disagree with their totals, and of individuals evaluated on different numbers of cases (incl. none); selector values that served populations of other sizes before; populations of 40 and 300 (thorough: 1000) individuals with pairwise distinct totals under tournaments of size 1, 2, 3, 7 and n, judged by the rank law"));
    g
}

fn gen_c08(tier: &str, rng: &mut Sm) -> Gen {
    let mut g = Gen::new();
    let draws = if tier == "thorough" { 400000 } else { 20000 };
    let reps = if tier == "thorough" { 12 } else { 3 };
    for _ in 0..reps {
        for (n, c) in [(1usize, 3usize), (2, 2), (3, 3), (4, 4), (5, 3), (6, 4), (4, 0), (3, 1), (2, 4), (2, 3), (3, 4)] {
            let spread = 1 + rng.range(1, 3);
            let mut pop = matrix(rng, n, c, spread);
            if n >= 3 && rng.chance(1, 2) {
                pop[n - 1] = pop[0].clone(); // duplicates
            }
            for pol in [0, 1, 2, 3] {
                // configured case count <= results available
                let nc = if c == 0 { 0 } else { 1 + rng.below(c) };
                g.inputs.push(case(rng, draws, pol, pop.clone(), tl![A(4), au(c)]));
                g.inputs.push(case(rng, draws / 4, pol, pop.clone(), tl![A(4), au(nc)]));
            }
        }
    }
    // more cases than individuals with cases on which everybody ties (a tie case must not use up a round), and
    // equal totals with different per-case vectors
    for pop in [
        vec![vec![1i64, 1, 1, 0], vec![1, 1, 1, 1]],
        vec![vec![0, 0, 0, 5], vec![0, 0, 0, 1], vec![0, 0, 0, 3]],
        vec![vec![2, 2, 0, 1], vec![2, 2, 1, 0]],
        vec![vec![3, 0, 0], vec![0, 2, 1]],
        vec![vec![1, 1, 1, 1], vec![1, 1, 1, 1], vec![1, 1, 1, 2]],
    ] {
        let c = pop[0].len();
        for pol in [0, 1, 2, 3] {
            g.inputs.push(case(rng, draws, pol, pop.clone(), tl![A(4), au(c)]));
        }
    }
    // more cases (the law enumerates all 720 / 5040 / 40320 case orders): a shuffle that only reaches the first few cases,
    // or handles long case lists differently, shows here
    for (n, c) in if tier == "thorough" { vec![(4usize, 6usize), (5, 6), (3, 7), (4, 7), (3, 8)] } else { vec![(4usize, 6usize), (3, 7)] } {
        let pop = matrix(rng, n, c, 3);
        for pol in [0, 1] {
            g.inputs.push(case(rng, draws, pol, pop.clone(), tl![A(4), au(c)]));
        }
        g.inputs.push(case(rng, draws / 4, 1, pop.clone(), tl![A(4), au(c - 2)]));
    }
    // MANY cases (12, 20, 50: far beyond enumerating the case orders): matrices in which every case has exactly one
    // best individual, so that the first case of the shuffled order decides (the closed form C08_decisive_cases)
    for (n, c) in [(5usize, 12usize), (4, 20), (7, 50)] {
        for pol in [0i64, 1] {
            let pop: Vec<Vec<i64>> = (0..n)
                .map(|i| {
                    (0..c)
                        .map(|k| {
                            let winner = (k * 7 + 3 + k / n) % n;
                            // scores: the winner has 9, the others 0..5; errors: the winner has 0, the others 1..6
                            if pol == 1 {
                                if i == winner { 9 } else { rng.range(0, 5) }
                            } else if i == winner {
                                0
                            } else {
                                rng.range(1, 6)
                            }
                        })
                        .collect()
                })
                .collect();
            g.inputs.push(case(rng, draws, pol, pop, tl![A(4), au(c)]));
        }
    }
    // THOUSANDS of cases on which everybody ties (identical individuals): uniform over the population (C08_all_tied_uniform)
    for (n, c) in [(2usize, 24000usize), (3, 3000), (5, 1000)] {
        let row: Vec<i64> = (0..c).map(|k| ((k * 5) % 11) as i64).collect();
        // identical on every case that is looked at, different on one further result that is not
        let pop: Vec<Vec<i64>> = (0..n).map(|i| { let mut r = row.clone(); r.push(i as i64); r }).collect();
        for pol in [0i64, 1] {
            g.inputs.push(case(rng, draws / 20, pol, pop.clone(), tl![A(4), au(c)]));
        }
    }
    g.meta("generator", "result matrices up to 6 individuals x 4 cases with ties and duplicates, zero cases, single individual, both polarities, configured case count <= results available, more cases than individuals incl. cases on which everybody ties, equal totals with different per-case vectors; 6 and 7 (thorough: 8) cases; 12, 20 and 50 cases with a unique best individual on every case; 1000 / 3000 / 24000 cases on which identical individuals tie throughout");
    g
}

fn gen_c13(tier: &str, rng: &mut Sm) -> Gen {
    let mut g = Gen::new();
    let draws = if tier == "thorough" { 400000 } else { 20000 };
    let reps = if tier == "thorough" { 30 } else { 6 };
    let n = 5usize;
    // marker members: distinct deterministic selections: best (index of max), worst, tournament(n) = best ...
    let pop: Vec<Vec<i64>> = vec![vec![3], vec![9], vec![1], vec![5], vec![7]];
    let small = [0i64, 1, 2, 3, 7];
    let big = [0i64, 1, 2147483648, 4294967294, 4294967295];
    // every member is wrapped in a probe that records being used
    let marker = |i: usize| -> Tree {
        tl![A(9), match i % 3 {
            0 => tl![A(0)],
            1 => tl![A(1)],
            _ => tl![A(2)],
        }]
    };
    // deterministic degenerate weight vectors: all zero (the error must be reported, whatever the length
    // and the structure), and exactly one positive member at each position (it alone is used)
    let mut fixed: Vec<Vec<i64>> = vec![];
    for len in 1..=4usize {
        fixed.push(vec![0; len]);
        for p in 0..len {
            let mut w = vec![0; len];
            w[p] = 1 + (p as i64) * 3;
            fixed.push(w);
        }
    }
    for r in 0..reps {
        // left-nested chains (the with_item_and_weight idiom), right-nested and balanced trees
        for len in 1..=5usize {
            let ws: Vec<i64> = (0..len).map(|_| *rng.pick(&small)).collect();
            let leaves: Vec<Tree> = ws.iter().enumerate().map(|(i, w)| tl![A(5), a(*w), marker(i)]).collect();
            let mut left = leaves[0].clone();
            for l in &leaves[1..] {
                left = tl![A(6), left, l.clone()];
            }
            let mut right = leaves[len - 1].clone();
            for l in leaves[..len - 1].iter().rev() {
                right = tl![A(6), l.clone(), right];
            }
            g.inputs.push(case(rng, draws, 1, pop.clone(), left));
            g.inputs.push(case(rng, draws, 1, pop.clone(), right));
            // the dynamic list with the same weights
            let mut d = tl![A(7)];
            for (i, w) in ws.iter().enumerate().rev() {
                d = tl![A(8), marker(i), a(*w), d];
            }
            g.inputs.push(case(rng, draws, 1, pop.clone(), d));
        }
        let t = wtree(rng, n, 3, &small);
        g.inputs.push(case(rng, draws, 1, pop.clone(), t));
        // u32 boundaries: build-time overflow, also when it happened earlier in the chain
        let len = 2 + rng.below(3);
        let mut chain = tl![A(5), a(*rng.pick(&big)), marker(0)];
        for i in 1..len {
            chain = tl![A(6), chain, tl![A(5), a(*rng.pick(&big)), marker(i)]];
        }
        g.inputs.push(case(rng, if r % 2 == 0 { draws } else { 500 }, 1, pop.clone(), chain));
    }
    // large weights whose total is far from a power of two (a reduction of a 32-bit draw modulo the total, or
    // single-precision arithmetic, would be visibly biased here), up to the largest total that fits
    for ws in [vec![1i64 << 30, 1 << 31], vec![1 << 30, 1 << 30, 1 << 30], vec![1 << 31, (1 << 31) - 1], vec![3 << 30, 1, 1 << 29], vec![1, 4294967294]] {
        fixed.push(ws);
    }
    for d in dyn_in_dyn_specs() {
        g.inputs.push(case(rng, draws, 1, pop.clone(), d));
    }
    // weights sharing a factor at one level of a chain (a pair must expose its TOTAL to the level above, not a reduced one)
    for ws in [vec![2i64, 2, 1], vec![1, 3, 3], vec![6, 3, 2, 1], vec![1073741824, 1073741824, 2147483648]] {
        let leaves: Vec<Tree> = ws.iter().enumerate().map(|(i, w)| tl![A(5), a(*w), marker(i)]).collect();
        let mut left = leaves[0].clone();
        for l in &leaves[1..] {
            left = tl![A(6), left, l.clone()];
        }
        let mut right = leaves[ws.len() - 1].clone();
        for l in leaves[..ws.len() - 1].iter().rev() {
            right = tl![A(6), l.clone(), right];
        }
        g.inputs.push(case(rng, draws, 1, pop.clone(), left));
        g.inputs.push(case(rng, draws, 1, pop.clone(), right));
    }
    // the builder idioms on statically typed chains: one expression, unwrapped after every step, with_weighted_item, mixed
    for ws in [vec![1i64, 1, 6], vec![2, 3], vec![3, 0, 2, 5], vec![0, 0, 4], vec![5, 1, 0], vec![0, 0], vec![1, 2, 3, 4], vec![7, 0, 0, 1],
               vec![4294967295, 0], vec![4294967295, 1], vec![2147483648, 2147483647, 1], vec![1, 4294967294, 0, 1]] {
        for style in 0..4i128 {
            let spec = tl![A(10), a(style), L(ws.iter().map(|w| a(*w as i128)).collect())];
            let d = if ws.iter().all(|w| *w == 0) { 200 } else { draws };
            g.inputs.push(case(rng, d, 1, pop.clone(), spec));
        }
    }
    for ws in fixed.iter() {
        let leaves: Vec<Tree> = ws.iter().enumerate().map(|(i, w)| tl![A(5), a(*w), marker(i)]).collect();
        let mut left = leaves[0].clone();
        for l in &leaves[1..] {
            left = tl![A(6), left, l.clone()];
        }
        let mut right = leaves[ws.len() - 1].clone();
        for l in leaves[..ws.len() - 1].iter().rev() {
            right = tl![A(6), l.clone(), right];
        }
        let mut d = tl![A(7)];
        for (i, w) in ws.iter().enumerate().rev() {
            d = tl![A(8), marker(i), a(*w), d];
        }
        let n = if ws.iter().all(|w| *w == 0) { 200 } else if ws.iter().any(|w| *w > 1000) { draws } else { draws / 10 };
        // the same structures with an extreme (all-zero / all-one) first random word in every selection
        for extreme in [0i128, 1] {
            for spec in [left.clone(), right.clone(), d.clone()] {
                g.inputs.push(tl![a(extreme), A(6), tl![A(1), L(pop.iter().map(|r| tv(r)).collect()), spec]]);
            }
        }
        g.inputs.push(case(rng, n, 1, pop.clone(), left));
        if ws.len() > 1 {
            g.inputs.push(case(rng, n, 1, pop.clone(), right));
        }
        g.inputs.push(case(rng, n, 1, pop.clone(), d));
    }
    g.meta("generator", "marker members (best / worst / random over a fixed 5-individual population), each wrapped in a probe that counts its uses; weights of 2^29..2^31 with totals far from a power of two; chains of 2..4 members built with the builder idioms (with_item_and_weight / with_weighted_item, in one expression or unwrapped after every step); every all-zero weight vector and every single-positive weight vector of length 1..4 in all three structures; left-nested chains, right-nested chains and random trees of <= 5 weighted members, the dynamic list with the same weights; weights from {0,1,2,3,7} and u32 boundaries {0,1,2^31,2^32-2,2^32-1}");
    g
}
