//! Integer trees: the interchange format between harness, driver and Coq.
use std::fmt;

#[derive(Clone, Debug, PartialEq, Eq, Hash)]
pub enum Tree {
    A(i128),
    L(Vec<Tree>),
}
pub use Tree::{A, L};

impl fmt::Display for Tree {
    fn fmt(&self, f: &mut fmt::Formatter<'_>) -> fmt::Result {
        match self {
            A(v) => write!(f, "{v}"),
            L(l) => {
                write!(f, "[")?;
                for (i, t) in l.iter().enumerate() {
                    if i > 0 {
                        write!(f, ",")?;
                    }
                    write!(f, "{t}")?;
                }
                write!(f, "]")
            }
        }
    }
}

impl Tree {
    pub fn parse(s: &str) -> Option<Tree> {
        let b = s.as_bytes();
        let mut i = 0;
        let t = parse_at(b, &mut i)?;
        while i < b.len() && b[i].is_ascii_whitespace() {
            i += 1;
        }
        (i == b.len()).then_some(t)
    }
    pub fn int(&self) -> Option<i128> {
        match self {
            A(v) => Some(*v),
            L(_) => None,
        }
    }
    pub fn i64(&self) -> Option<i64> {
        self.int().and_then(|v| i64::try_from(v).ok())
    }
    pub fn u64(&self) -> Option<u64> {
        self.int().and_then(|v| u64::try_from(v).ok())
    }
    pub fn usize(&self) -> Option<usize> {
        self.int().and_then(|v| usize::try_from(v).ok())
    }
    pub fn bool(&self) -> Option<bool> {
        match self {
            A(0) => Some(false),
            A(1) => Some(true),
            _ => None,
        }
    }
    pub fn list(&self) -> Option<&[Tree]> {
        match self {
            L(l) => Some(l),
            A(_) => None,
        }
    }
    pub fn ints(&self) -> Option<Vec<i128>> {
        self.list()?.iter().map(Tree::int).collect()
    }
}

fn parse_at(b: &[u8], i: &mut usize) -> Option<Tree> {
    while *i < b.len() && b[*i].is_ascii_whitespace() {
        *i += 1;
    }
    if *i >= b.len() {
        return None;
    }
    if b[*i] == b'[' {
        *i += 1;
        let mut v = Vec::new();
        loop {
            while *i < b.len() && (b[*i].is_ascii_whitespace() || b[*i] == b',') {
                *i += 1;
            }
            if *i >= b.len() {
                return None;
            }
            if b[*i] == b']' {
                *i += 1;
                return Some(L(v));
            }
            v.push(parse_at(b, i)?);
        }
    }
    let st = *i;
    if b[*i] == b'-' {
        *i += 1;
    }
    while *i < b.len() && b[*i].is_ascii_digit() {
        *i += 1;
    }
    std::str::from_utf8(&b[st..*i]).ok()?.parse::<i128>().ok().map(A)
}

pub fn a<T: Into<i128>>(v: T) -> Tree {
    A(v.into())
}
pub fn au(v: usize) -> Tree {
    A(v as i128)
}
pub fn ab(v: bool) -> Tree {
    A(i128::from(v))
}
pub fn l(v: Vec<Tree>) -> Tree {
    L(v)
}
#[macro_export]
macro_rules! tl {
    ($($e:expr),* $(,)?) => { $crate::tree::Tree::L(vec![$($e),*]) };
}
