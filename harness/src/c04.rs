//! C04: histories of operations on the real `Stack<T>`.
use push::collectable::TryExtend;
use push::push_vm::stack::{Stack, StackError};

use crate::*;

pub const PROP: Prop = Prop { name: "C04", gen, run };

trait Val: Clone {
    fn of(v: i64) -> Self;
    fn to(&self) -> i64;
}
impl Val for i64 {
    fn of(v: i64) -> Self {
        v
    }
    fn to(&self) -> i64 {
        *self
    }
}
impl Val for bool {
    fn of(v: i64) -> Self {
        v != 0
    }
    fn to(&self) -> i64 {
        i64::from(*self)
    }
}
/// a non-Copy element type with a destructor
impl Val for String {
    fn of(v: i64) -> Self {
        v.to_string()
    }
    fn to(&self) -> i64 {
        self.parse().unwrap()
    }
}

fn err(e: &StackError) -> Tree {
    match e {
        StackError::Underflow { num_requested, num_present } => tl![A(4), au(*num_requested), au(*num_present)],
        StackError::Overflow { .. } => tl![A(5)],
    }
}
fn unit(r: Result<(), StackError>) -> Tree {
    match r {
        Ok(()) => tl![A(0)],
        Err(e) => err(&e),
    }
}
fn vals<T: Val>(r: Result<Vec<T>, StackError>) -> Tree {
    match r {
        Ok(v) => tl![A(1), L(v.iter().map(|x| a(x.to())).collect())],
        Err(e) => err(&e),
    }
}

fn contents<T: Val>(s: &Stack<T>) -> Tree {
    let mut c = s.clone();
    let mut v = vec![];
    while let Ok(x) = c.pop() {
        v.push(a(x.to()));
    }
    L(v)
}

fn apply<T: Val>(s: &mut Stack<T>, op: &Tree) -> Option<Tree> {
    let o = op.list()?;
    let vs = |t: &Tree| -> Option<Vec<T>> { Some(t.list()?.iter().map(|x| x.i64().map(T::of)).collect::<Option<Vec<T>>>()?) };
    Some(match o.first()?.int()? {
        0 => unit(s.push(T::of(o.get(1)?.i64()?))),
        1 => vals(s.pop().map(|x| vec![x])),
        2 => vals(s.pop2().map(|(x, y)| vec![x, y])),
        3 => vals(s.pop3().map(|(x, y, z)| vec![x, y, z])),
        4 => vals(s.top().map(|x| vec![x.clone()])),
        5 => vals(s.top2().map(|(x, y)| vec![x.clone(), y.clone()])),
        6 => vals(s.top3().map(|(x, y, z)| vec![x.clone(), y.clone(), z.clone()])),
        7 => unit(s.discard(o.get(1)?.usize()?)),
        8 => unit(s.push_many(vs(o.get(1)?)?)),
        9 => {
            // a plain (not exact-size) iterator
            let v = vs(o.get(1)?)?;
            let mut it = v.into_iter().filter(|_| true);
            unit(s.try_extend(&mut it))
        }
        15 => {
            // an iterator that reports no upper bound on its length (size_hint = (0, None))
            let v = vs(o.get(1)?)?;
            let mut src = v.into_iter();
            let mut it = std::iter::from_fn(move || src.next());
            unit(s.try_extend(&mut it))
        }
        19 => {
            // an iterator whose size hint has a LOOSE upper bound (it could yield up to `extra` more items, but does not)
            let v = vs(o.get(1)?)?;
            let extra = o.get(2)?.usize()?;
            if extra > 1000 {
                return None;
            }
            let n = v.len();
            let mut it = (0..n + extra).filter_map(|i| v.get(i).cloned());
            unit(s.try_extend(&mut it))
        }
        17 => {
            // the trait's slice entry point
            let v = vs(o.get(1)?)?;
            unit(s.try_extend_from_slice(&v))
        }
        18 => {
            // an iterator that is NOT fused: it yields the first list, then None, and when asked again goes on with the second
            let (v1, v2) = (vs(o.get(1)?)?, vs(o.get(2)?)?);
            let mut phase = 0;
            let (mut i1, mut i2) = (v1.into_iter(), v2.into_iter());
            let mut it = std::iter::from_fn(move || {
                if phase == 0 {
                    match i1.next() {
                        Some(x) => Some(x),
                        None => {
                            phase = 1;
                            None
                        }
                    }
                } else {
                    i2.next()
                }
            });
            unit(s.try_extend(&mut it))
        }
        16 => {
            // an exact-size iterator of a huge claimed length (nothing is allocated up front); only valid where
            // it cannot fit, so a correct push_many answers Overflow without drawing a single element
            let n = o.get(1)?.usize()?;
            if n < (1 << 40) || n.checked_add(s.size()).is_some_and(|t| t <= s.max_stack_size()) {
                return None;
            }
            unit(s.push_many((0..n).map(|_| T::of(7))))
        }
        10 => {
            s.set_max_stack_size(o.get(1)?.usize()?);
            tl![A(0)]
        }
        11 => tl![A(2), au(s.size())],
        12 => tl![A(3), ab(s.is_empty())],
        13 => tl![A(3), ab(s.is_full())],
        14 => tl![A(2), au(s.max_stack_size())],
        _ => return None,
    })
}

fn run_hist<T: Val>(ops: &[Tree]) -> Option<Tree> {
    let mut s: Stack<T> = Stack::default();
    let mut out = vec![];
    for op in ops {
        let r = std::panic::catch_unwind(std::panic::AssertUnwindSafe(|| apply(&mut s, op)));
        let r = match r {
            Ok(r) => r?,
            Err(_) => tl![A(9)],
        };
        out.push(tl![r, contents(&s), au(s.max_stack_size())]);
    }
    Some(L(out))
}

fn run(input: &Tree) -> Option<Tree> {
    let i = input.list()?;
    let ops = i.get(1)?.list()?;
    match i.first()?.int()? {
        0 => run_hist::<i64>(ops),
        1 => run_hist::<bool>(ops),
        2 => run_hist::<String>(ops),
        _ => None,
    }
}

fn gen_hist(rng: &mut Sm, kind: i64, maxlen: usize) -> Tree {
    let len = 1 + rng.below(maxlen);
    let mut ops = vec![];
    // a small capacity most of the time, set at the start, sometimes never set
    let capped = rng.chance(9, 10);
    if capped {
        ops.push(tl![A(10), a(rng.range(0, 8))]);
    }
    let mut ctr: i64 = 0;
    let mut fresh = |rng: &mut Sm| -> Tree {
        ctr += 1;
        if kind == 1 {
            a(rng.range(0, 1))
        } else if rng.chance(1, 20) {
            a(*rng.pick(&[i64::MIN, i64::MAX, -1, 0]))
        } else {
            a(ctr)
        }
    };
    for _ in 0..len {
        let k = rng.below(100);
        let op = match k {
            0..=29 => tl![A(0), fresh(rng)],
            30..=37 => tl![A(1)],
            38..=42 => tl![A(2)],
            43..=46 => tl![A(3)],
            47..=50 => tl![A(4)],
            51..=54 => tl![A(5)],
            55..=58 => tl![A(6)],
            59..=64 => tl![A(7), a(rng.range(0, 4))],
            65..=73 => {
                let n = rng.below(5);
                tl![A(8), L((0..n).map(|_| fresh(rng)).collect())]
            }
            74..=78 => {
                let n = rng.below(5);
                tl![A(9), L((0..n).map(|_| fresh(rng)).collect())]
            }
            79..=80 => {
                let n = rng.below(5);
                tl![A(15), L((0..n).map(|_| fresh(rng)).collect())]
            }
            81 => {
                let n = rng.below(5);
                if rng.chance(1, 3) {
                    tl![A(19), L((0..n).map(|_| fresh(rng)).collect()), au(1 + rng.below(9))]
                } else if rng.chance(1, 2) {
                    tl![A(17), L((0..n).map(|_| fresh(rng)).collect())]
                } else {
                    let m = rng.below(3);
                    tl![A(18), L((0..n).map(|_| fresh(rng)).collect()), L((0..m).map(|_| fresh(rng)).collect())]
                }
            }
            82 => {
                if capped {
                    tl![A(16), a(*rng.pick(&[usize::MAX as i128, usize::MAX as i128 - 1, usize::MAX as i128 - 8, 1i128 << 63, 1i128 << 40]))]
                } else {
                    tl![A(13)]
                }
            }
            83..=90 => {
                if !capped && rng.chance(1, 2) {
                    // maxima beyond i64::MAX are legitimate usize values
                    tl![A(10), a(*rng.pick(&[i64::MAX as i128, i64::MAX as i128 + 1, usize::MAX as i128 - 1, usize::MAX as i128]))]
                } else if capped {
                    tl![A(10), a(rng.range(0, 8))]
                } else {
                    tl![A(14)]
                }
            }
            91..=93 => tl![A(11)],
            94..=95 => tl![A(12)],
            96..=97 => tl![A(13)],
            _ => tl![A(14)],
        };
        ops.push(op);
    }
    tl![a(kind), L(ops)]
}

fn exhaustive(g: &mut Gen, depth: usize) {
    // all histories of length <= depth over a 14-operation alphabet, capacity 0..=2
    let alphabet: Vec<Tree> = vec![
        tl![A(0), A(7)],
        tl![A(1)],
        tl![A(2)],
        tl![A(5)],
        tl![A(7), A(1)],
        tl![A(8), L(vec![A(8), A(9)])],
        tl![A(9), L(vec![A(5), A(6)])],
        tl![A(10), A(1)],
        tl![A(13)],
        tl![A(15), L(vec![A(3), A(4)])],
        tl![A(3)],
        tl![A(17), L(vec![A(5), A(6)])],
        tl![A(18), L(vec![A(4)]), L(vec![A(2)])],
        tl![A(19), L(vec![A(1)]), A(3)],
    ];
    for cap in 0..=2i64 {
        let mut stack: Vec<Vec<usize>> = vec![vec![]];
        while let Some(h) = stack.pop() {
            if !h.is_empty() {
                let mut ops = vec![tl![A(10), a(cap)]];
                ops.extend(h.iter().map(|&i| alphabet[i].clone()));
                g.inputs.push(tl![A(0), L(ops)]);
            }
            if h.len() < depth {
                for i in 0..alphabet.len() {
                    let mut h2 = h.clone();
                    h2.push(i);
                    stack.push(h2);
                }
            }
        }
    }
}

fn gen(tier: &str, rng: &mut Sm) -> Gen {
    let mut g = Gen::new();
    let n = if tier == "thorough" { 30000 } else { 3000 };
    // the capacity-lowered-beneath-contents shape, always present
    g.inputs.push(tl![A(0), L(vec![
        tl![A(8), L(vec![A(1), A(2), A(3), A(4), A(5)])],
        tl![A(10), A(3)],
        tl![A(0), A(9)],
        tl![A(13)],
        tl![A(9), L(vec![])],
        tl![A(9), L(vec![A(1)])],
        tl![A(8), L(vec![])],
    ])]);
    // usize arithmetic: on a stack with the default (usize::MAX) maximum a bulk insertion whose claimed length
    // plus the current size does not fit in usize must be an Overflow, whatever the element type
    for kind in 0..3i64 {
        g.inputs.push(tl![a(kind), L(vec![
            tl![A(0), A(1)],
            tl![A(16), a(usize::MAX as i128)],
            tl![A(0), A(0)],
            tl![A(16), a(usize::MAX as i128 - 1)],
            tl![A(15), L(vec![A(1), A(0)])],
            tl![A(10), A(5)],
            tl![A(15), L(vec![A(1), A(0)])],
            tl![A(16), a(1i128 << 62)],
            tl![A(11)],
        ])]);
    }
    for i in 0..n {
        let kind = match i % 10 {
            0..=5 => 0,
            6..=7 => 1,
            _ => 2,
        };
        g.inputs.push(gen_hist(rng, kind, 40));
    }
    exhaustive(&mut g, if tier == "thorough" { 4 } else { 3 });
    g.meta("generator", "random histories (len<=40, cap 0..8 changing mid-history; i64/bool/String elements) + exhaustive small histories");
    g
}
