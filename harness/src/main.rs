//! vh — the correspondence harness: runs the real unhindered-ec code on generated
//! inputs and records what it did, as integer trees.
//!
//!   vh <prop> gen <tier> <seed> <out>     generate inputs (one tree per line)
//!   vh <prop> run <in> <out>              run the inputs listed in <in> (one tree per line)
//!
//! Output: one line per case  `<input tree>\t<observation tree>`; lines starting
//! with `#` carry metadata (`#meta <json>`), `#invalid <tree>` marks an input the
//! harness could not interpret.  A journal `<out>.journal` names the case being
//! run, so a process abort can be attributed.
mod rng;
mod tree;
mod c01;
mod c04;
mod c05;
mod c06;
mod c09;
mod c10;
mod c11;
mod c14;
mod c17;
mod c18;
mod c19;
mod c19_gen;
mod c17_flavours;
mod c15;
mod c16;
mod pushio;

use std::io::Write;
use std::panic::{catch_unwind, AssertUnwindSafe};

pub use rng::Sm;
pub use tree::*;

pub struct Gen {
    pub inputs: Vec<Tree>,
    pub meta: Vec<(String, String)>,
}
impl Gen {
    pub fn new() -> Self {
        Gen { inputs: vec![], meta: vec![] }
    }
    pub fn meta(&mut self, k: &str, v: impl std::fmt::Display) {
        self.meta.push((k.to_string(), v.to_string()));
    }
}

pub struct Prop {
    pub name: &'static str,
    pub gen: fn(tier: &str, rng: &mut Sm) -> Gen,
    /// None = input not understood
    pub run: fn(input: &Tree) -> Option<Tree>,
}

fn props() -> Vec<Prop> {
    vec![c01::PROP, c01::PROP2, c01::PROP3, c04::PROP, c05::PROP, c06::PROP, c06::PROP7, c06::PROP8, c06::PROP13, c09::PROP, c10::PROP, c11::PROP, c11::PROP12, c14::PROP, c17::PROP, c18::PROP, c19::PROP, c15::PROP, c16::PROP]
}

/// observation used when the implementation panicked
pub fn panic_obs() -> Tree {
    tl![A(-1)]
}

fn run_all(p: &Prop, inputs: &[Tree], out: &str, meta: &[(String, String)]) {
    let mut f = std::io::BufWriter::new(std::fs::File::create(out).expect("create out"));
    let mut j = std::fs::File::create(format!("{out}.journal")).expect("create journal");
    for (k, v) in meta {
        writeln!(f, "#meta\t{k}\t{v}").unwrap();
    }
    for (i, inp) in inputs.iter().enumerate() {
        writeln!(j, "START {i} {inp}").unwrap();
        let r = catch_unwind(AssertUnwindSafe(|| (p.run)(inp)));
        match r {
            Ok(Some(obs)) => writeln!(f, "{inp}\t{obs}").unwrap(),
            Ok(None) => writeln!(f, "#invalid\t{inp}").unwrap(),
            Err(_) => writeln!(f, "{inp}\t{}", panic_obs()).unwrap(),
        }
        writeln!(j, "DONE {i}").unwrap();
    }
    f.flush().unwrap();
}

fn real_main() {
    let args: Vec<String> = std::env::args().collect();
    if args.len() < 3 {
        eprintln!("usage: vh <prop> gen <tier> <seed> <out> | vh <prop> run <in> <out>");
        std::process::exit(2);
    }
    if args[1] == "render" {
        // float bit patterns -> Rust's own `{}` rendering (the text oracle for printed floats)
        let txt = std::fs::read_to_string(&args[2]).expect("read");
        let mut f = std::io::BufWriter::new(std::fs::File::create(&args[3]).expect("create"));
        for l in txt.lines() {
            let b: u64 = l.trim().parse().expect("bits");
            writeln!(f, "{}", ordered_float::OrderedFloat(f64::from_bits(b))).unwrap();
        }
        f.flush().unwrap();
        return;
    }
    let ps = props();
    let Some(p) = ps.iter().find(|p| p.name.eq_ignore_ascii_case(&args[1])) else {
        eprintln!("unknown property {}", args[1]);
        std::process::exit(2);
    };
    std::panic::set_hook(Box::new(|_| {}));
    match args[2].as_str() {
        "gen" => {
            let tier = &args[3];
            let seed: u64 = args[4].parse().expect("seed");
            let mut rng = Sm::new(seed ^ 0xC0FF_EE00_0000_0000).sub(u64::from(p.name.as_bytes()[2]) * 256 + u64::from(p.name.as_bytes()[1]));
            let g = (p.gen)(tier, &mut rng);
            let mut f = std::io::BufWriter::new(std::fs::File::create(&args[5]).expect("create out"));
            for (k, v) in &g.meta {
                writeln!(f, "#meta\t{k}\t{v}").unwrap();
            }
            for i in &g.inputs {
                writeln!(f, "{i}").unwrap();
            }
            f.flush().unwrap();
        }
        "run" => {
            let txt = std::fs::read_to_string(&args[3]).expect("read inputs");
            let inputs: Vec<Tree> = txt
                .lines()
                .filter(|l| !l.trim().is_empty() && !l.starts_with('#'))
                .map(|l| Tree::parse(l.split('\t').next().unwrap()).expect("tree"))
                .collect();
            run_all(p, &inputs, &args[4], &[]);
        }
        _ => {
            eprintln!("unknown mode");
            std::process::exit(2);
        }
    }
}

fn deep_probe(args: &[String]) {
    {
        // D7 probe, run in a child process on the plain main thread (8 MiB stack, as a user's
        // program would): a genome of n consecutive block-opening genes
        let n: usize = args[2].parse().expect("n");
        let t = tree::Tree::L(vec![tree::A(3), tree::Tree::L(vec![tl![tree::A(28)]; n])]);
        let r = (c05::PROP.run)(&t);
        println!("deep {} ok {}", n, r.is_some());
    }
}

fn main() {
    let args: Vec<String> = std::env::args().collect();
    if args.len() > 2 && args[1] == "deep" {
        deep_probe(&args);
        return;
    }
    // generous native stack: deep programs must not die in the harness for lack of it
    let t = std::thread::Builder::new().stack_size(1 << 30).spawn(real_main).expect("spawn");
    if t.join().is_err() {
        std::process::exit(3);
    }
}
