From Coq Require Import List ZArith QArith Lia Bool Lqa.
Import ListNotations.
Open Scope Q_scope.

(* ---- finite distributions ---- *)
Definition dist (A : Type) := list (A * Q).
Definition dret {A} (a : A) : dist A := [(a, 1)].
Definition dbind {A B} (d : dist A) (f : A -> dist B) : dist B :=
  flat_map (fun ap => map (fun bq => (fst bq, snd ap * snd bq)) (f (fst ap))) d.
Definition bernoulli (p : Q) : dist bool := [(true, p); (false, 1 - p)].
Fixpoint prob {A} (d : dist A) (P : A -> bool) : Q :=
  match d with [] => 0 | (a, p) :: r => (if P a then p else 0) + prob r P end.
Fixpoint expect {A} (d : dist A) (g : A -> Q) : Q :=
  match d with [] => 0 | (a, p) :: r => p * g a + expect r g end.

Lemma prob_app A (d1 d2 : dist A) P : prob (d1 ++ d2) P == prob d1 P + prob d2 P.
Proof. induction d1 as [|[a p] d1 IH]; cbn; [ring|]. rewrite IH. ring. Qed.

Lemma prob_scale A (d : dist A) (q : Q) P :
  prob (map (fun bq => (fst bq, q * snd bq)) d) P == q * prob d P.
Proof. induction d as [|[a p] d IH]; cbn; [ring|]. rewrite IH. destruct (P a); ring. Qed.

Lemma prob_bind A B (d : dist A) (f : A -> dist B) P :
  prob (dbind d f) P == expect d (fun a => prob (f a) P).
Proof.
  induction d as [|[a p] d IH]; cbn; [reflexivity|].
  rewrite prob_app, prob_scale. unfold dbind in IH. rewrite IH. reflexivity.
Qed.

Lemma prob_ret A (a : A) P : prob (dret a) P == if P a then 1 else 0.
Proof. cbn. destruct (P a); ring. Qed.

(* ---- weighted trees ---- *)
Inductive wtree := Leaf (id : nat) (w : N) | Node (a b : wtree).
Fixpoint weight (t : wtree) : N := match t with Leaf _ w => w | Node a b => (weight a + weight b)%N end.
Definition qn (n : N) : Q := inject_Z (Z.of_N n).
Fixpoint wleaf (t : wtree) (id : nat) : N :=
  match t with Leaf i w => if Nat.eqb i id then w else 0%N | Node a b => (wleaf a id + wleaf b id)%N end.

Fixpoint delegate (t : wtree) : dist (option nat) :=
  match t with
  | Leaf id w => if (w =? 0)%N then dret None else dret (Some id)
  | Node a b =>
      let s := (weight a + weight b)%N in
      if (s =? 0)%N then dret None
      else dbind (bernoulli (qn (weight a) / qn s)) (fun c => if c then delegate a else delegate b)
  end.
Definition is_id (id : nat) (o : option nat) : bool := match o with Some i => Nat.eqb i id | None => false end.

Lemma qn_add a b : qn (a + b) == qn a + qn b.
Proof. unfold qn. rewrite N2Z.inj_add, inject_Z_plus. reflexivity. Qed.
Lemma qn_pos n : (0 < n)%N -> 0 < qn n.
Proof. intros H. unfold qn. change 0 with (inject_Z 0). rewrite <- Zlt_Qlt. lia. Qed.
Lemma qn_0 : qn 0 == 0. Proof. reflexivity. Qed.

Lemma wleaf_le t id : (wleaf t id <= weight t)%N.
Proof. induction t as [i w|a IHa b IHb]; cbn; [destruct (Nat.eqb i id); lia|lia]. Qed.

Lemma zero_tree t id : weight t = 0%N -> prob (delegate t) (is_id id) == 0.
Proof.
  destruct t as [i w|a b]; cbn [weight delegate]; intros ->; cbn; ring.
Qed.

Theorem leaf_prob t id : (0 < weight t)%N ->
  prob (delegate t) (is_id id) == qn (wleaf t id) / qn (weight t).
Proof.
  induction t as [i w|a IHa b IHb]; cbn [weight delegate wleaf]; intros Hpos.
  - destruct (N.eqb_spec w 0); [lia|]. rewrite prob_ret. cbn [is_id].
    destruct (Nat.eqb i id).
    + field. intro H. pose proof (qn_pos w Hpos). lra.
    + rewrite qn_0. field. intro H. pose proof (qn_pos w Hpos). lra.
  - destruct (N.eqb_spec (weight a + weight b) 0); [lia|].
    rewrite prob_bind. cbn [bernoulli expect].
    pose proof (qn_pos _ Hpos) as Hs. rewrite !qn_add in *.
    assert (Ha : prob (delegate a) (is_id id) * qn (weight a) == qn (wleaf a id)).
    { destruct (N.eq_dec (weight a) 0) as [E|E].
      - rewrite zero_tree by exact E. pose proof (wleaf_le a id). replace (wleaf a id) with 0%N by lia. rewrite qn_0. ring.
      - rewrite IHa by lia. field. intro H. pose proof (qn_pos (weight a) ltac:(lia)). lra. }
    assert (Hb : prob (delegate b) (is_id id) * qn (weight b) == qn (wleaf b id)).
    { destruct (N.eq_dec (weight b) 0) as [E|E].
      - rewrite zero_tree by exact E. pose proof (wleaf_le b id). replace (wleaf b id) with 0%N by lia. rewrite qn_0. ring.
      - rewrite IHb by lia. field. intro H. pose proof (qn_pos (weight b) ltac:(lia)). lra. }
    rewrite <- Ha, <- Hb. field. lra.
Qed.
Print Assumptions leaf_prob.
