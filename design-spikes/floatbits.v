From Coq Require Import Floats ZArith List.
Import ListNotations.
Open Scope float_scope.
(* IEEE-754 binary64 bit pattern <-> primitive float (all NaNs identified) *)
Definition bits (f: float) : Z :=
  match Prim2SF f with
  | S754_zero s => if s then (2^63)%Z else 0%Z
  | S754_infinity s => ((if s then 2^63 else 0) + 2047 * 2^52)%Z
  | S754_nan => (2047 * 2^52 + 2^51)%Z
  | S754_finite s m e =>
     let sgn := (if s then 2^63 else 0)%Z in
     if (Z.pos m <? 2^52)%Z then (sgn + Z.pos m)%Z
     else (sgn + (e + 1075) * 2^52 + (Z.pos m - 2^52))%Z
  end.
Definition of_bits (z: Z) : float :=
  let s := (2^63 <=? z)%Z in
  let r := (z mod 2^63)%Z in
  let ef := (r / 2^52)%Z in
  let mf := (r mod 2^52)%Z in
  if (ef =? 2047)%Z then (if (mf =? 0)%Z then (if s then neg_infinity else infinity) else nan)
  else if (ef =? 0)%Z then (match mf with Zpos p => SF2Prim (S754_finite s p (-1074)) | _ => if s then -0 else 0 end)
  else match (mf + 2^52)%Z with Zpos p => SF2Prim (S754_finite s p (ef - 1075)) | _ => nan end.
Eval vm_compute in map bits [1; -0; 0x1p-1074; 0x1.fffffffffffffp+1023; nan; infinity; 0x1.3333333333334p-2].
Eval vm_compute in map (fun z => bits (of_bits z)) [4607182418800017408; 9223372036854775808; 1; 9218868437227405311; 4599075939470750516; 4502148214488346440]%Z.
Lemma add_example : (0x1.999999999999ap-4 + 0x1.999999999999ap-3 =? 0x1.3333333333334p-2) = true.
Proof. vm_compute. reflexivity. Qed.
Print Assumptions add_example.  (* lists the kernel's float primitives *)
