From Coq Require Import PArith NArith Arith Lia.
Section Iter.
  Variable St : Type.
  Variable halted : St -> bool.
  Variable f : St -> St.

  Fixpoint iter (p : positive) (s : St) : St :=
    if halted s then s else
    match p with
    | xH => f s
    | xO p' => iter p' (iter p' s)
    | xI p' => iter p' (iter p' (f s))
    end.

  Fixpoint iter_nat (n : nat) (s : St) : St :=
    match n with O => s | S n' => if halted s then s else iter_nat n' (f s) end.

  Lemma iter_nat_halted n s : halted s = true -> iter_nat n s = s.
  Proof. destruct n; cbn; [reflexivity|]. now intros ->. Qed.

  Lemma iter_nat_add n : forall m s, iter_nat (n + m) s = iter_nat m (iter_nat n s).
  Proof.
    induction n as [|n IH]; intros m s; cbn; [reflexivity|].
    destruct (halted s) eqn:E; [now rewrite iter_nat_halted|apply IH].
  Qed.

  Lemma iter_spec p : forall s, iter p s = iter_nat (Pos.to_nat p) s.
  Proof.
    induction p as [p IH|p IH|]; intros s; cbn [iter].
    - rewrite Pos2Nat.inj_xI. cbn [iter_nat]. destruct (halted s); [reflexivity|].
      rewrite !IH, <- iter_nat_add. f_equal. lia.
    - rewrite Pos2Nat.inj_xO. destruct (halted s) eqn:E; [now rewrite iter_nat_halted|].
      rewrite !IH, <- iter_nat_add. f_equal. lia.
    - change (Pos.to_nat 1) with 1. cbn [iter_nat]. destruct (halted s); reflexivity.
  Qed.

  (* invariants and step bounds transfer through the binary iteration *)
  Variable Inv : St -> Prop.
  Hypothesis Inv_f : forall s, halted s = false -> Inv s -> Inv (f s).
  Lemma iter_inv p s : Inv s -> Inv (iter p s).
  Proof.
    rewrite iter_spec. generalize (Pos.to_nat p) as n. intros n. revert s.
    induction n as [|n IH]; intros s H; cbn; [exact H|].
    destruct (halted s) eqn:E; [exact H|]. apply IH, Inv_f; assumption.
  Qed.

  Variable cnt : St -> nat.
  Hypothesis cnt_f : forall s, cnt (f s) = S (cnt s).
  Lemma iter_steps p s : cnt (iter p s) <= cnt s + Pos.to_nat p.
  Proof.
    rewrite iter_spec. generalize (Pos.to_nat p) as n. intros n. revert s.
    induction n as [|n IH]; intros s; cbn; [lia|].
    destruct (halted s); [lia|]. specialize (IH (f s)). rewrite cnt_f in IH. lia.
  Qed.
End Iter.
Print Assumptions iter_steps.
