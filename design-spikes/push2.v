From Coq Require Import List ZArith Lia Bool.
Import ListNotations.
Open Scope N_scope.

(* abstract bounded stack (top first) — the StackSpec level, proved equal to the Vec level in C04 *)
Record astack (T : Type) := AS { cap : N; items : list T }.
Arguments AS {T}. Arguments cap {T}. Arguments items {T}.
Definition asize {T} (s : astack T) : N := N.of_nat (length (items s)).
Inductive serr := Underflow (req pres : N) | Overflow | IntOverflow.

Definition a_top {T} (s : astack T) : T + serr :=
  match items s with x :: _ => inl x | [] => inr (Underflow 1 0) end.
Definition a_top2 {T} (s : astack T) : (T * T) + serr :=
  match items s with x :: y :: _ => inl (x, y) | l => inr (Underflow 2 (N.of_nat (length l))) end.
Definition a_pop {T} (s : astack T) : (T * astack T) + serr :=
  match items s with x :: r => inl (x, AS (cap s) r) | [] => inr (Underflow 1 0) end.
Definition a_pop2 {T} (s : astack T) : (T * T * astack T) + serr :=
  match items s with x :: y :: r => inl (x, y, AS (cap s) r) | l => inr (Underflow 2 (N.of_nat (length l))) end.
Definition a_push {T} (v : T) (s : astack T) : astack T + serr :=
  if cap s <=? asize s then inr Overflow else inl (AS (cap s) (v :: items s)).
Definition a_discard {T} (n : nat) (s : astack T) : astack T + serr :=
  if (length (items s) <? n)%nat then inr (Underflow (N.of_nat n) (asize s)) else inl (AS (cap s) (skipn n (items s))).
Definition a_full {T} (s : astack T) : bool := asize s =? cap s.

Record state := St { ints : astack Z; bools : astack bool; out : list Z }.
Inductive outcome := Ok (s : state) | Rec (s : state) (e : serr) | Fatal (s : state) (e : serr).
Definition set_ints i s := St i (bools s) (out s).
Definition set_bools b s := St (ints s) b (out s).

(* --- the Rust helper combinators, one definition each --- *)
Definition with_push_int (v : Z) (s : state) : outcome :=
  match a_push v (ints s) with inl i' => Ok (set_ints i' s) | inr e => Fatal s e end.
Definition with_push_bool (v : bool) (s : state) : outcome :=
  match a_push v (bools s) with inl b' => Ok (set_bools b' s) | inr e => Fatal s e end.
Definition with_replace_int (n : nat) (v : Z) (s : state) : outcome :=
  match a_discard n (ints s) with inl i' => with_push_int v (set_ints i' s) | inr e => Fatal s e end.
Definition push_onto_bool (r : bool + serr) (s : state) : outcome :=
  match r with inl v => with_push_bool v s | inr e => Rec s e end.
Definition push_onto_int (r : Z + serr) (s : state) : outcome :=
  match r with inl v => with_push_int v s | inr e => Rec s e end.
Definition replace_on_int (r : Z + serr) (n : nat) (s : state) : outcome :=
  match r with inl v => with_replace_int n v s | inr e => Rec s e end.
Definition discard_int (n : nat) (o : outcome) : outcome :=
  match o with Ok s => match a_discard n (ints s) with inl i' => Ok (set_ints i' s) | inr e => Fatal s e end | o => o end.
Definition discard_bool (n : nat) (o : outcome) : outcome :=
  match o with Ok s => match a_discard n (bools s) with inl b' => Ok (set_bools b' s) | inr e => Fatal s e end | o => o end.
Definition sum_map {A B E} (f : A -> B) (r : A + E) : B + E := match r with inl a => inl (f a) | inr e => inr e end.
Definition sum_bind {A B E} (r : A + E) (f : A -> B + E) : B + E := match r with inl a => f a | inr e => inr e end.

Definition in_i64 (z : Z) : bool := ((-9223372036854775808 <=? z) && (z <=? 9223372036854775807))%Z.
Definition chk (z : Z) : Z + serr := if in_i64 z then inl z else inr IntOverflow.

Inductive instr := Add | Sub | LessThan | IsZero | FromBoolean | Not | And | FromInt | DupInt | SwapInt.

(* implementation layer: composed as the Rust composes it *)
Definition impl (i : instr) (s : state) : outcome :=
  match i with
  | Add => replace_on_int (sum_bind (a_top2 (ints s)) (fun '(x, y) => chk (x + y)%Z)) 2 s
  | Sub => replace_on_int (sum_bind (a_top2 (ints s)) (fun '(x, y) => chk (x - y)%Z)) 2 s
  | LessThan => if a_full (bools s) then Fatal s Overflow else
      discard_int 2 (push_onto_bool (sum_map (fun '(x, y) => (x <? y)%Z) (a_top2 (ints s))) s)
  | IsZero => if a_full (bools s) then Fatal s Overflow else
      discard_int 1 (push_onto_bool (sum_map (fun x => (x =? 0)%Z) (a_top (ints s))) s)
  | FromBoolean => discard_bool 1 (push_onto_int (sum_map (fun b : bool => if b then 1%Z else 0%Z) (a_top (bools s))) s)
  | Not => match a_pop (bools s) with
           | inl (x, b') => push_onto_bool (inl (negb x)) (set_bools b' s)
           | inr e => push_onto_bool (inr e) s end
  | And => match a_pop2 (bools s) with
           | inl (x, y, b') => push_onto_bool (inl (x && y)) (set_bools b' s)
           | inr e => push_onto_bool (inr e) s end
  | FromInt => if a_full (bools s) then Fatal s Overflow else
           match a_pop (ints s) with
           | inl (x, i') => push_onto_bool (inl (negb (x =? 0)%Z)) (set_ints i' s)
           | inr e => push_onto_bool (inr e) s end
  | DupInt => push_onto_int (a_top (ints s)) s
  | SwapInt => match a_pop2 (ints s) with
           | inl (x, y, i') => match with_push_int x (set_ints i' s) with
                               | Ok s1 => with_push_int y s1 | o => o end
           | inr e => Rec s e end
  end.

(* specification layer: a table — operands, result, destination; every error carries the input state *)
Definition room {T} (s : astack T) : bool := asize s <? cap s.
Definition spec (i : instr) (s : state) : outcome :=
  let I := items (ints s) in let B := items (bools s) in
  let ci := cap (ints s) in let cb := cap (bools s) in
  match i with
  | Add => match I with x :: y :: r => if in_i64 (x + y) then Ok (set_ints (AS ci ((x + y)%Z :: r)) s) else Rec s IntOverflow
                      | l => Rec s (Underflow 2 (N.of_nat (length l))) end
  | Sub => match I with x :: y :: r => if in_i64 (x - y) then Ok (set_ints (AS ci ((x - y)%Z :: r)) s) else Rec s IntOverflow
                      | l => Rec s (Underflow 2 (N.of_nat (length l))) end
  | LessThan => if negb (room (bools s)) then Fatal s Overflow else
                match I with x :: y :: r => Ok (St (AS ci r) (AS cb ((x <? y)%Z :: B)) (out s))
                           | l => Rec s (Underflow 2 (N.of_nat (length l))) end
  | IsZero => if negb (room (bools s)) then Fatal s Overflow else
                match I with x :: r => Ok (St (AS ci r) (AS cb ((x =? 0)%Z :: B)) (out s))
                           | [] => Rec s (Underflow 1 0) end
  | FromBoolean => match B with [] => Rec s (Underflow 1 0)
                   | b :: r => if negb (room (ints s)) then Fatal s Overflow
                               else Ok (St (AS ci ((if b then 1 else 0)%Z :: I)) (AS cb r) (out s)) end
  | Not => match B with x :: r => Ok (set_bools (AS cb (negb x :: r)) s) | [] => Rec s (Underflow 1 0) end
  | And => match B with x :: y :: r => Ok (set_bools (AS cb ((x && y) :: r)) s)
                      | l => Rec s (Underflow 2 (N.of_nat (length l))) end
  | FromInt => if negb (room (bools s)) then Fatal s Overflow else
               match I with x :: r => Ok (St (AS ci r) (AS cb (negb (x =? 0)%Z :: B)) (out s))
                          | [] => Rec s (Underflow 1 0) end
  | DupInt => match I with [] => Rec s (Underflow 1 0)
              | x :: _ => if negb (room (ints s)) then Fatal s Overflow else Ok (set_ints (AS ci (x :: I)) s) end
  | SwapInt => match I with x :: y :: r => Ok (set_ints (AS ci (y :: x :: r)) s)
                          | l => Rec s (Underflow 2 (N.of_nat (length l))) end
  end.

Definition wfs {T} (s : astack T) := asize s <= cap s.
Definition wf (s : state) := wfs (ints s) /\ wfs (bools s).

Ltac crush :=
  repeat match goal with
  | |- context [match ?l with [] => _ | _ :: _ => _ end] => is_var l; destruct l
  | |- context [if ?b then _ else _] => let E := fresh "E" in destruct b eqn:E
  | H : negb _ = true |- _ => apply negb_true_iff in H
  | H : negb _ = false |- _ => apply negb_false_iff in H
  | H : (_ <=? _) = true |- _ => apply N.leb_le in H
  | H : (_ <=? _) = false |- _ => apply N.leb_gt in H
  | H : (_ <? _) = true |- _ => apply N.ltb_lt in H
  | H : (_ <? _) = false |- _ => apply N.ltb_ge in H
  | H : (_ =? _) = true |- _ => apply N.eqb_eq in H
  | H : (_ =? _) = false |- _ => apply N.eqb_neq in H
  | H : (_ <? _)%nat = true |- _ => apply Nat.ltb_lt in H
  | H : (_ <? _)%nat = false |- _ => apply Nat.ltb_ge in H
  end.

Theorem refine i s : wf s -> impl i s = spec i s.
Proof.
  destruct s as [[ci I] [cb B] o]. unfold wf, wfs, asize. cbn [ints bools cap items]. intros [Hi Hb].
  destruct i;
    unfold impl, spec, replace_on_int, with_replace_int, push_onto_bool, push_onto_int, with_push_int, with_push_bool,
           discard_int, discard_bool, sum_bind, sum_map, chk, a_top, a_top2, a_pop, a_pop2, a_push, a_discard, a_full, room,
           set_ints, set_bools, asize;
    cbn [ints bools out cap items negb];
    crush; cbn [length skipn ints bools out cap items] in *; crush; try reflexivity; try (exfalso; lia); try congruence.
Qed.
Print Assumptions refine.

Definition err_state (o : outcome) := match o with Ok _ => None | Rec s _ | Fatal s _ => Some s end.
Lemma spec_err_unchanged i s s' : err_state (spec i s) = Some s' -> s' = s.
Proof.
  destruct s as [[ci I] [cb B] o]. destruct i; unfold spec, room, asize; cbn [ints bools out cap items];
  crush; cbn; intros H; inversion H; reflexivity.
Qed.
Theorem impl_err_unchanged i s s' : wf s -> err_state (impl i s) = Some s' -> s' = s.
Proof. intros W. rewrite refine by exact W. apply spec_err_unchanged. Qed.

(* ---- C03-style facts on the table ---- *)
Theorem wf_preserved i s s' : wf s -> spec i s = Ok s' -> wf s'.
Proof.
  destruct s as [[ci I] [cb B] o]. unfold wf, wfs, asize. cbn [ints bools cap items]. intros [Hi Hb].
  destruct i; unfold spec, room, asize, set_ints, set_bools; cbn [ints bools out cap items];
  crush; intros H; inversion H; subst; cbn [ints bools cap items length] in *; crush; split; lia.
Qed.

Definition dest_full (i : instr) (s : state) : Prop :=
  match i with
  | LessThan | IsZero | FromInt => cap (bools s) <= asize (bools s)
  | FromBoolean | DupInt => cap (ints s) <= asize (ints s)
  | _ => False
  end.
Theorem fatal_only_overflow i s s' e : spec i s = Fatal s' e -> e = Overflow /\ dest_full i s.
Proof.
  destruct s as [[ci I] [cb B] o].
  destruct i; unfold spec, room, asize, dest_full; cbn [ints bools out cap items];
  crush; intros H; inversion H; subst; split; try reflexivity; unfold asize; cbn [ints bools cap items length] in *; lia.
Qed.
Theorem underflow_never_fatal i s s' r p : spec i s <> Fatal s' (Underflow r p).
Proof. intros H. apply fatal_only_overflow in H as [H _]. discriminate. Qed.
Print Assumptions fatal_only_overflow.
