Require Import weighted.
From Coq Require Import List ZArith QArith Lia Bool Lqa.
Import ListNotations.
Open Scope Q_scope.

Fixpoint with_rate (r : Q) (g : list bool) : dist (list bool) :=
  match g with
  | [] => dret []
  | b :: t => dbind (bernoulli r) (fun f => dbind (with_rate r t) (fun t' => dret ((if f then negb b else b) :: t')))
  end.
Fixpoint leqb (a b : list bool) : bool :=
  match a, b with [], [] => true | x :: a', y :: b' => Bool.eqb x y && leqb a' b' | _, _ => false end.
Fixpoint law (r : Q) (g c : list bool) : Q :=
  match g, c with
  | [], [] => 1
  | b :: g', x :: c' => (if Bool.eqb x b then 1 - r else r) * law r g' c'
  | _, _ => 0
  end.

Lemma expect_ext A (d : dist A) g h : (forall a, g a == h a) -> expect d g == expect d h.
Proof. intros E. induction d as [|[a p] d IH]; cbn; [reflexivity|]. now rewrite IH, E. Qed.
Lemma expect_scale A (d : dist A) g q : expect d (fun a => q * g a) == q * expect d g.
Proof. induction d as [|[a p] d IH]; cbn; [ring|]. rewrite IH. ring. Qed.
Lemma expect_zero A (d : dist A) : expect d (fun _ => 0) == 0.
Proof. induction d as [|[a p] d IH]; cbn; [reflexivity|]. rewrite IH. ring. Qed.
(* probability as expectation of an indicator *)
Lemma prob_expect A (d : dist A) P : prob d P == expect d (fun a => if P a then 1 else 0).
Proof. induction d as [|[a p] d IH]; cbn; [reflexivity|]. rewrite IH. destruct (P a); ring. Qed.

Theorem flip_law r g : forall c, prob (with_rate r g) (leqb c) == law r g c.
Proof.
  induction g as [|b t IH]; intros c; cbn [with_rate law].
  - rewrite prob_ret. destruct c; reflexivity.
  - rewrite prob_bind. cbn [bernoulli expect].
    destruct c as [|x c'].
    + (* length mismatch: every outcome is non-empty *)
      assert (Z : forall v, prob (dbind (with_rate r t) (fun t' => dret (v :: t'))) (leqb []) == 0).
      { intros v. rewrite prob_bind. rewrite (expect_ext _ _ _ (fun _ => 0)); [apply expect_zero|]. intros a. rewrite prob_ret. reflexivity. }
      rewrite !Z. ring.
    + assert (S : forall v, prob (dbind (with_rate r t) (fun t' => dret (v :: t'))) (leqb (x :: c'))
                           == (if Bool.eqb x v then 1 else 0) * law r t c').
      { intros v. rewrite prob_bind.
        rewrite (expect_ext _ _ _ (fun a => (if Bool.eqb x v then 1 else 0) * (if leqb c' a then 1 else 0))).
        - rewrite expect_scale, <- prob_expect, IH. reflexivity.
        - intros a. rewrite prob_ret. cbn [leqb]. destruct (Bool.eqb x v), (leqb c' a); cbn; ring. }
      rewrite !S. destruct x, b; cbn; ring.
Qed.
Print Assumptions flip_law.
