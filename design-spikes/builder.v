From Coq Require Import List Arith Lia Bool.
Import ListNotations.

(* type-state of the generated builder: one marker per data stack, one for exec, one for the step limit *)
Inductive mark := U | WS | WSD.                        (* () | WithSize | WithSizeAndData *)
Definition dataless m := match m with WSD => false | _ => true end.
Definition sizeset m := match m with U => false | _ => true end.

Inductive call :=
| MaxAll | MaxOf (k : nat) | Values (k : nat) | Program | NoProgram | Input (k : nat) | StepLimit | Build.

Record ts := TS { exec : mark; limit : mark; stacks : list mark }.
Definition upd (k : nat) (m : mark) (l : list mark) := firstn k l ++ m :: skipn (S k) l.

(* transcribed from the trait bounds of each generated impl block *)
Definition step (t : ts) (c : call) : option ts :=
  match c with
  | MaxAll => if dataless (exec t) && forallb dataless (stacks t)
              then Some (TS WS (limit t) (map (fun _ => WS) (stacks t))) else None
  | MaxOf k => match nth_error (stacks t) k with
               | Some m => if dataless m then Some (TS (exec t) (limit t) (upd k WS (stacks t))) else None
               | None => None end
  | Values k => match nth_error (stacks t) k with
               | Some m => if sizeset m then Some (TS (exec t) (limit t) (upd k WSD (stacks t))) else None
               | None => None end
  | Program | NoProgram => match exec t with WS => Some (TS WSD (limit t) (stacks t)) | _ => None end
  | Input _ => Some t
  | StepLimit => Some (TS (exec t) WSD (stacks t))
  | Build => match exec t, limit t with WSD, WSD => Some t | _, _ => None end
  end.
Fixpoint run (t : ts) (cs : list call) : option ts :=
  match cs with [] => Some t | c :: r => match step t c with Some t' => run t' r | None => None end end.
Definition init n := TS U U (repeat U n).
Definition typed n cs := match run (init n) cs with Some _ => true | None => false end.

Lemma run_app t a b : run t (a ++ b) = match run t a with Some t' => run t' b | None => None end.
Proof. revert t. induction a as [|c a IH]; intros t; cbn; [reflexivity|]. destruct (step t c); [apply IH|reflexivity]. Qed.

(* simpler, sufficient formulation by inspection of the machine: *)
Lemma step_exec t c t' : step t c = Some t' ->
  (exec t' = exec t) \/ (c = MaxAll /\ exec t' = WS /\ exec t <> WSD) \/ ((c = Program \/ c = NoProgram) /\ exec t = WS /\ exec t' = WSD).
Proof.
  destruct c; cbn.
  - destruct (dataless (exec t) && forallb dataless (stacks t)) eqn:E; [|discriminate]. intros [= <-].
    right; left. apply andb_true_iff in E as [E _]. split; [reflexivity|]. split; [reflexivity|].
    destruct (exec t); cbn in *; congruence.
  - destruct (nth_error _ _) as [m|]; [|discriminate]. destruct (dataless m); [|discriminate]. intros [= <-]. auto.
  - destruct (nth_error _ _) as [m|]; [|discriminate]. destruct (sizeset m); [|discriminate]. intros [= <-]. auto.
  - destruct (exec t) eqn:E; try discriminate. intros [= <-]. right; right. cbn. auto.
  - destruct (exec t) eqn:E; try discriminate. intros [= <-]. right; right. cbn. auto.
  - intros [= <-]. auto.
  - intros [= <-]. auto.
  - destruct (exec t) eqn:Ee, (limit t) eqn:El; try discriminate; intros [= <-]; left; congruence.
Qed.

Theorem build_requires n cs : typed n (cs ++ [Build]) = true ->
  In MaxAll cs /\ (In Program cs \/ In NoProgram cs) /\ In StepLimit cs.
Proof.
  unfold typed. rewrite run_app. destruct (run (init n) cs) as [t|] eqn:R; [|discriminate].
  cbn. destruct (exec t) eqn:Ee; try discriminate. destruct (limit t) eqn:El; try discriminate. intros _.
  (* generalise over the start state *)
  assert (G : forall cs t0 t, run t0 cs = Some t ->
     (exec t = WSD -> exec t0 = U -> In MaxAll cs /\ (In Program cs \/ In NoProgram cs)) /\
     (exec t = WSD -> exec t0 = WS -> (In Program cs \/ In NoProgram cs)) /\
     (limit t = WSD -> limit t0 = U -> In StepLimit cs)).
  { clear. induction cs as [|c cs IH]; intros t0 t; cbn.
    - intros [= ->]. split; [|split]; intros H1 H2; congruence.
    - destruct (step t0 c) as [t1|] eqn:E; [|discriminate]. intros Hr.
      destruct (IH _ _ Hr) as (A & B & C). pose proof (step_exec _ _ _ E) as Hs.
      assert (Hl : limit t1 = limit t0 \/ c = StepLimit).
      { destruct c; cbn in E;
          repeat match type of E with context [match ?x with _ => _ end] => destruct x eqn:? end;
          try discriminate; try (injection E as <-); cbn; auto; left; congruence. }
      split; [|split].
      + intros H1 H2. destruct Hs as [Hs|[(-> & Hs & _)|(Hc & Hs & _)]].
        * rewrite Hs in *. destruct (A H1 H2) as [A1 A2]. split; [now right|]. destruct A2; [left|right]; now right.
        * split; [now left|]. destruct (B H1 Hs); [left|right]; now right.
        * congruence.
      + intros H1 H2. destruct Hs as [Hs|[(-> & Hs & _)|(Hc & Hs & _)]].
        * rewrite Hs in *. destruct (B H1 H2); [left|right]; now right.
        * destruct (B H1 Hs); [left|right]; now right.
        * destruct Hc as [->| ->]; [left|right]; now left.
      + intros H1 H2. destruct Hl as [Hl| ->]; [|now left]. right. apply C; congruence. }
  destruct (G cs (init n) t R) as (A & _ & C).
  destruct (A Ee eq_refl) as [A1 A2]. repeat split; auto.
Qed.
Print Assumptions build_requires.
