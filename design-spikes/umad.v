Require Import weighted flip.
From Coq Require Import List ZArith QArith Lia Bool Lqa.
Import ListNotations.
Open Scope Q_scope.

Fixpoint mass {A} (d : dist A) : Q := match d with [] => 0 | (_, p) :: r => p + mass r end.

Lemma expect_app A (d1 d2 : dist A) g : expect (d1 ++ d2) g == expect d1 g + expect d2 g.
Proof. induction d1 as [|[a p] d1 IH]; cbn; [ring|]. rewrite IH. ring. Qed.
Lemma expect_map_scale A (d : dist A) q g :
  expect (map (fun bq => (fst bq, q * snd bq)) d) g == q * expect d g.
Proof. induction d as [|[a p] d IH]; cbn; [ring|]. rewrite IH. ring. Qed.
Lemma expect_bind A B (d : dist A) (f : A -> dist B) g :
  expect (dbind d f) g == expect d (fun a => expect (f a) g).
Proof.
  induction d as [|[a p] d IH]; cbn; [reflexivity|].
  rewrite expect_app, expect_map_scale. unfold dbind in IH. rewrite IH. reflexivity.
Qed.
Lemma expect_ret A (a : A) g : expect (dret a) g == g a.
Proof. cbn. ring. Qed.
Lemma expect_const A (d : dist A) c : expect d (fun _ => c) == c * mass d.
Proof. induction d as [|[a p] d IH]; cbn; [ring|]. rewrite IH. ring. Qed.
Lemma expect_plus A (d : dist A) g h : expect d (fun a => g a + h a) == expect d g + expect d h.
Proof. induction d as [|[a p] d IH]; cbn; [ring|]. rewrite IH. ring. Qed.

Section Umad.
  Variable G : Type.
  Variable gen : dist G.
  Hypothesis gen_mass : mass gen == 1.
  Variables a d : Q.               (* addition and deletion rates *)

  (* one parent gene: [old?] ++ [new?], drawn as the code draws them *)
  Definition block (x : G) : dist (list G) :=
    dbind (bernoulli a) (fun add =>
    dbind (bernoulli d) (fun del =>
    dbind (if add then bernoulli d else dret false) (fun delnew =>
    let old := if del then [] else [x] in
    if add && negb delnew then dbind gen (fun y => dret (old ++ [y])) else dret old))).

  Fixpoint umad (g : list G) : dist (list G) :=
    match g with
    | [] => dret []
    | x :: t => dbind (block x) (fun b => dbind (umad t) (fun r => dret (b ++ r)))
    end.

  Definition len (l : list G) : Q := inject_Z (Z.of_nat (length l)).
  Lemma len_app l1 l2 : len (l1 ++ l2) == len l1 + len l2.
  Proof. unfold len. rewrite app_length, Nat2Z.inj_add, inject_Z_plus. reflexivity. Qed.

  Lemma mass_expect A (dd : dist A) : mass dd == expect dd (fun _ => 1).
  Proof. induction dd as [|[x p] dd IH]; cbn; [reflexivity|]. rewrite IH. ring. Qed.

  Lemma new_len old : expect (dbind gen (fun y => dret (old ++ [y]))) len == len old + 1.
  Proof.
    rewrite expect_bind. rewrite (expect_ext _ _ _ (fun _ => len old + 1)).
    - rewrite expect_const, gen_mass. ring.
    - intros y. rewrite expect_ret, len_app. unfold len. cbn. ring.
  Qed.
  Lemma new_one old : expect (dbind gen (fun y => dret (old ++ [y]))) (fun _ => 1) == 1.
  Proof.
    rewrite expect_bind. rewrite (expect_ext _ _ _ (fun _ => 1)).
    - rewrite expect_const, gen_mass. ring.
    - intros y. now rewrite expect_ret.
  Qed.

  Lemma block_len x : expect (block x) len == (1 - d) * (1 + a).
  Proof.
    unfold block. rewrite expect_bind. cbn [bernoulli expect].
    rewrite !expect_bind. cbn [bernoulli expect].
    rewrite !expect_bind. cbn [bernoulli expect dret andb negb].
    rewrite !new_len. unfold len. cbn. ring.
  Qed.

  Lemma block_mass x : mass (block x) == 1.
  Proof.
    rewrite mass_expect. unfold block. rewrite expect_bind. cbn [bernoulli expect].
    rewrite !expect_bind. cbn [bernoulli expect].
    rewrite !expect_bind. cbn [bernoulli expect dret andb negb].
    rewrite !new_one. ring.
  Qed.

  Lemma umad_mass g : mass (umad g) == 1.
  Proof.
    induction g as [|x t IH]; cbn [umad]; [cbn; ring|].
    rewrite mass_expect, expect_bind.
    rewrite (expect_ext _ _ _ (fun _ => 1)); [rewrite <- mass_expect; apply block_mass|].
    intros b. rewrite expect_bind. rewrite (expect_ext _ _ _ (fun _ => 1)); [rewrite <- mass_expect; exact IH|].
    intros r. apply expect_ret.
  Qed.

  Theorem umad_size g : expect (umad g) len == len g * ((1 - d) * (1 + a)).
  Proof.
    induction g as [|x t IH]; cbn [umad].
    - rewrite expect_ret. unfold len. cbn. ring.
    - rewrite expect_bind.
      rewrite (expect_ext _ _ _ (fun b => len b + len t * ((1 - d) * (1 + a)))).
      + rewrite expect_plus, block_len, expect_const, block_mass.
        change (x :: t) with ([x] ++ t). rewrite len_app.
        assert (H1 : len [x] == 1) by reflexivity. rewrite H1. ring.
      + intros b. rewrite expect_bind.
        rewrite (expect_ext _ _ _ (fun r => len b + len r)).
        * rewrite expect_plus, expect_const, umad_mass, IH. ring.
        * intros r. rewrite expect_ret. apply len_app.
  Qed.

  (* size-neutral setting: d = a / (1 + a) *)
  Corollary umad_size_neutral g : 0 <= a -> d == a / (1 + a) -> expect (umad g) len == len g.
  Proof. intros Ha Hd. rewrite umad_size, Hd. field. lra. Qed.
End Umad.
Print Assumptions umad_size_neutral.
