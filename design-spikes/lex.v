From Coq Require Import List Arith Lia Bool.
Import ListNotations.

Section Lex.
  Variable r : nat -> nat -> nat.     (* r i c : result of individual i on case c; higher is better *)

  Definition best (c : nat) (C : list nat) : nat := fold_right (fun i m => Nat.max (r i c) m) 0 C.
  Definition filter_case (c : nat) (C : list nat) : list nat := filter (fun i => r i c =? best c C) C.
  Definition stepc (C : list nat) (c : nat) : list nat :=
    if length C <=? 1 then C else filter_case c C.      (* the code's early exit *)
  Definition survivors (pi : list nat) (C : list nat) : list nat := fold_left stepc pi C.

  Lemma best_ge c C i : In i C -> r i c <= best c C.
  Proof.
    induction C as [|x C IH]; [easy|]. unfold best in *. cbn [fold_right].
    intros [->|H]; [apply Nat.le_max_l|]. specialize (IH H). etransitivity; [exact IH|apply Nat.le_max_r].
  Qed.

  Lemma in_filter_case c C i : In i (filter_case c C) <-> In i C /\ r i c = best c C.
  Proof. unfold filter_case. rewrite filter_In, Nat.eqb_eq. reflexivity. Qed.

  Lemma stepc_sub C c i : In i (stepc C c) -> In i C.
  Proof. unfold stepc. destruct (length C <=? 1); [easy|]. rewrite in_filter_case. tauto. Qed.

  Lemma survivors_sub pi : forall C i, In i (survivors pi C) -> In i C.
  Proof. induction pi as [|c pi IH]; cbn; [easy|]. intros C i H. apply IH in H. now apply stepc_sub in H. Qed.

  Lemma two_in_len (C : list nat) i j : i <> j -> In i C -> In j C -> (length C <=? 1) = false.
  Proof.
    intros Hn Hi Hj. apply Nat.leb_gt. destruct C as [|a [|b C]]; cbn [length]; try lia.
    - destruct Hi.
    - destruct Hi as [<-|[]], Hj as [<-|[]]. congruence.
  Qed.

  (* invariant: if j is at least as good as i on every remaining case, j accompanies i *)
  Lemma accompany pi : forall C i j, i <> j ->
      (forall c, In c pi -> r i c <= r j c) ->
      In j C -> In i (survivors pi C) ->
      In j (survivors pi C) /\ (forall c, In c pi -> r j c <= r i c).
  Proof.
    induction pi as [|c pi IH]; cbn [survivors fold_left]; intros C i j Hn Hge Hj Hi.
    - split; [exact Hj|]. intros c [].
    - fold (survivors pi (stepc C c)) in *.
      assert (HiC : In i (stepc C c)) by (eapply survivors_sub; exact Hi).
      assert (HiC0 : In i C) by (eapply stepc_sub; exact HiC).
      assert (Hstep : stepc C c = filter_case c C).
      { unfold stepc. now rewrite (two_in_len C i j Hn HiC0 Hj). }
      rewrite Hstep in *. apply in_filter_case in HiC as [_ Hbest].
      assert (Hjc : r j c <= r i c) by (rewrite Hbest; now apply best_ge).
      assert (HjC : In j (filter_case c C)).
      { apply in_filter_case. split; [exact Hj|]. specialize (Hge c (or_introl eq_refl)). lia. }
      destruct (IH (filter_case c C) i j Hn (fun c' H' => Hge c' (or_intror H')) HjC Hi) as [H1 H2].
      split; [exact H1|]. intros c' [<-|H']; [exact Hjc|now apply H2].
  Qed.

  Definition dominates (pi : list nat) (j i : nat) : Prop :=
    (forall c, In c pi -> r i c <= r j c) /\ (exists c, In c pi /\ r i c < r j c).

  Theorem winner_not_dominated pi C i :
    In i (survivors pi C) -> ~ exists j, In j C /\ j <> i /\ dominates pi j i.
  Proof.
    intros Hi (j & Hj & Hn & Hge & c & Hc & Hlt).
    destruct (accompany pi C i j (not_eq_sym Hn) Hge Hj Hi) as [_ Hle].
    specialize (Hle c Hc). lia.
  Qed.
End Lex.
Print Assumptions winner_not_dominated.
