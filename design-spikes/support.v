Require Import weighted.
From Coq Require Import List ZArith QArith Lia Bool Lqa.
Import ListNotations.
Open Scope Q_scope.

Definition possible {A} (d : dist A) (a : A) : Prop := exists p, In (a, p) d /\ 0 < p.
Definition nonneg {A} (d : dist A) : Prop := forall a p, In (a, p) d -> 0 <= p.

Lemma possible_ret A (a b : A) : possible (dret a) b <-> b = a.
Proof.
  unfold possible, dret. split.
  - intros (p & [H|[]] & _). now inversion H.
  - intros ->. exists 1. split; [now left|reflexivity].
Qed.

Lemma possible_bind A B (d : dist A) (f : A -> dist B) b :
  nonneg d -> (forall a, nonneg (f a)) ->
  (possible (dbind d f) b <-> exists a, possible d a /\ possible (f a) b).
Proof.
  intros Hd Hf. unfold possible, dbind. split.
  - intros (p & Hin & Hp). apply in_flat_map in Hin as ([a pa] & Ha & Hin).
    apply in_map_iff in Hin as ([b' q] & E & Hb). cbn in E. inversion E; subst.
    pose proof (Hd _ _ Ha) as Hpa. pose proof (Hf _ _ _ Hb) as Hq. cbn in *.
    assert (0 < pa) by nra. assert (0 < q) by nra.
    exists a. split; eauto.
  - intros (a & (pa & Ha & Hpa) & (q & Hb & Hq)).
    exists (pa * q). split; [|nra].
    apply in_flat_map. exists (a, pa). split; [exact Ha|].
    apply in_map_iff. exists (b, q). auto.
Qed.

Lemma nonneg_ret A (a : A) : nonneg (dret a).
Proof. intros x p [H|[]]. inversion H; subst. unfold Qle; cbn; lia. Qed.
Lemma nonneg_bind A B (d : dist A) (f : A -> dist B) : nonneg d -> (forall a, nonneg (f a)) -> nonneg (dbind d f).
Proof.
  intros Hd Hf b p Hin. unfold dbind in Hin. apply in_flat_map in Hin as ([a pa] & Ha & Hin).
  apply in_map_iff in Hin as ([b' q] & E & Hb). cbn in E. inversion E; subst.
  pose proof (Hd _ _ Ha). pose proof (Hf _ _ _ Hb). cbn in *. nra.
Qed.
Lemma nonneg_bernoulli p : 0 <= p <= 1 -> nonneg (bernoulli p).
Proof. intros [H0 H1] b q [H|[H|[]]]; inversion H; subst; lra. Qed.

(* bit-flip: structural support *)
Require Import flip.
Lemma with_rate_nonneg r g : 0 <= r <= 1 -> nonneg (with_rate r g).
Proof.
  intros Hr. induction g as [|b t IH]; cbn [with_rate]; [apply nonneg_ret|].
  apply nonneg_bind; [now apply nonneg_bernoulli|]. intros f.
  apply nonneg_bind; [exact IH|]. intros t'. apply nonneg_ret.
Qed.

Theorem flip_shape r g c : 0 <= r <= 1 -> possible (with_rate r g) c ->
  length c = length g /\ forall p, nth_error c p = nth_error g p \/ nth_error c p = option_map negb (nth_error g p).
Proof.
  intros Hr. revert c. induction g as [|b t IH]; intros c; cbn [with_rate].
  - rewrite possible_ret. intros ->. split; [reflexivity|]. intros p. now left.
  - rewrite possible_bind; [|now apply nonneg_bernoulli|].
    2:{ intros f. apply nonneg_bind; [now apply with_rate_nonneg|]. intros t'. apply nonneg_ret. }
    intros (f & _ & H). rewrite possible_bind in H; [|now apply with_rate_nonneg|intros; apply nonneg_ret].
    destruct H as (t' & Ht' & H). apply possible_ret in H. subst c.
    destruct (IH _ Ht') as [Hl Hn]. split; [cbn; now rewrite Hl|].
    intros [|p]; cbn; [destruct f; auto|apply Hn].
Qed.
Print Assumptions flip_shape.
