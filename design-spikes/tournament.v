From Coq Require Import List Arith Lia Bool.
Import ListNotations.
Fixpoint sublists {A} (k:nat) (l:list A) : list (list A) :=
  match k, l with
  | O, _ => [[]]
  | S _, [] => []
  | S k', x::t => map (cons x) (sublists k' t) ++ sublists k t
  end.
(* match on k first: otherwise [binom n 0] does not reduce *)
Fixpoint binom (n k: nat) {struct n} : nat :=
  match k with
  | O => 1
  | S k' => match n with O => 0 | S n' => binom n' k' + binom n' k end
  end.
Lemma binom_0 n : binom n 0 = 1. Proof. destruct n; reflexivity. Qed.
Definition count {A} (P: A -> bool) (l: list A) := length (filter P l).

Lemma sublists_length A k (l: list A) : length (sublists k l) = binom (length l) k.
Proof.
  revert k. induction l as [|x t IH]; intros [|k]; cbn; auto.
  rewrite app_length, map_length, !IH. reflexivity.
Qed.

Lemma filter_map_cons A (P: A -> bool) x (L: list (list A)) :
  filter (forallb P) (map (cons x) L) = if P x then map (cons x) (filter (forallb P) L) else [].
Proof.
  induction L as [|s L IH]; cbn.
  - now destruct (P x).
  - destruct (P x) eqn:E; cbn.
    + destruct (forallb P s); cbn; now rewrite IH.
    + exact IH.
Qed.

(* the k-sublists all of whose members satisfy P are counted by binom (count P l) k *)
Lemma count_all_P A (P: A -> bool) k (l: list A) :
  count (forallb P) (sublists k l) = binom (count P l) k.
Proof.
  unfold count. revert k. induction l as [|x t IH]; intros k.
  - destruct k; reflexivity.
  - destruct k as [|k].
    + cbn. destruct (P x); cbn; now rewrite ?binom_0.
    + cbn [sublists]. rewrite filter_app, app_length, filter_map_cons.
      cbn [filter]. destruct (P x) eqn:E.
      * rewrite map_length, !IH. cbn [length binom]. reflexivity.
      * cbn [length]. rewrite IH. reflexivity.
Qed.

Definition maxl (l: list nat) := fold_right Nat.max 0 l.
Lemma maxl_le v s : (maxl s <=? v) = forallb (fun u => u <=? v) s.
Proof.
  induction s as [|x s IH]; [reflexivity|].
  cbn [maxl fold_right forallb]. fold (maxl s). rewrite <- IH.
  apply eq_true_iff_eq. rewrite andb_true_iff, !Nat.leb_le. lia.
Qed.
(* CDF of the tournament winner, ties included:
   #{k-subsets with max <= v} = C(#{u <= v}, k);  total = C(n,k) by sublists_length *)
Theorem tournament_cdf k pop v :
  count (fun s => maxl s <=? v) (sublists k pop) = binom (count (fun u => u <=? v) pop) k.
Proof.
  rewrite <- count_all_P. unfold count. f_equal. apply filter_ext. intros s. apply maxl_le.
Qed.
Print Assumptions tournament_cdf.
