From Coq Require Import List Arith NArith Lia Bool.
Import ListNotations.

(* Vec-level model: values bottom first, exactly the operations Stack<T> performs on its Vec *)
Record vstack (T : Type) := VS { vmax : N; vals : list T }.
Arguments VS {T}. Arguments vmax {T}. Arguments vals {T}.
Inductive serr := Underflow (req pres : N) | Overflow.
Definition vsize {T} (s : vstack T) : N := N.of_nat (length (vals s)).

Definition v_top {T} (s : vstack T) : option T := nth_error (vals s) (length (vals s) - 1).     (* values.last() *)
Definition v_top2 {T} (s : vstack T) : (T * T) + serr :=                                          (* checked_sub(2), last, get(len-2) *)
  if (length (vals s) <? 2)%nat then inr (Underflow 2 (vsize s)) else
  match nth_error (vals s) (length (vals s) - 1), nth_error (vals s) (length (vals s) - 2) with
  | Some x, Some y => inl (x, y) | _, _ => inr (Underflow 2 1) end.
Definition v_pop {T} (s : vstack T) : (T * vstack T) + serr :=                                    (* values.pop() *)
  match nth_error (vals s) (length (vals s) - 1) with
  | Some x => inl (x, VS (vmax s) (firstn (length (vals s) - 1) (vals s)))
  | None => inr (Underflow 1 0) end.
Definition v_push {T} (v : T) (s : vstack T) : vstack T + serr :=                                 (* with the D6 fix: >= *)
  if (vmax s <=? vsize s)%N then inr Overflow else inl (VS (vmax s) (vals s ++ [v])).
Definition v_discard {T} (n : nat) (s : vstack T) : vstack T + serr :=
  if (length (vals s) <? n)%nat then inr (Underflow (N.of_nat n) (vsize s))
  else inl (VS (vmax s) (firstn (length (vals s) - n) (vals s))).
Definition v_push_many {T} (l : list T) (s : vstack T) : vstack T + serr :=                       (* extend(iter.rev()) *)
  if (vmax s <? N.of_nat (length l) + vsize s)%N then inr Overflow else inl (VS (vmax s) (vals s ++ rev l)).
Definition v_try_extend {T} (l : list T) (s : vstack T) : vstack T + serr :=
  let cur := length (vals s) in
  let room := N.to_nat (vmax s - vsize s) in                           (* saturating_sub *)
  let taken := firstn room l in                                         (* extend(iter.take(room)) *)
  let v1 := vals s ++ taken in
  match skipn room l with
  | _ :: _ => inr Overflow                                              (* iter.next().is_some(): truncate back *)
  | [] => inl (VS (vmax s) (firstn cur v1 ++ rev (skipn cur v1)))       (* values[cur..].reverse() *)
  end.

(* abstract stack: top first *)
Definition abs {T} (s : vstack T) : list T := rev (vals s).

Lemma nth_last T (l : list T) x : nth_error (l ++ [x]) (length (l ++ [x]) - 1) = Some x.
Proof. rewrite app_length. cbn. replace (length l + 1 - 1) with (length l) by lia. rewrite nth_error_app2 by lia. now rewrite Nat.sub_diag. Qed.

Lemma top_abs T (s : vstack T) : v_top s = hd_error (abs s).
Proof.
  unfold v_top, abs. destruct (vals s) as [|a l] using rev_ind; [reflexivity|].
  rewrite nth_last, rev_app_distr. reflexivity.
Qed.

Lemma pop_abs T (s : vstack T) :
  v_pop s = match abs s with x :: r => inl (x, VS (vmax s) (rev r)) | [] => inr (Underflow 1 0) end.
Proof.
  unfold v_pop, abs. destruct (vals s) as [|a l _] using rev_ind; [reflexivity|].
  rewrite nth_last, rev_app_distr. cbn [rev app]. rewrite rev_involutive.
  rewrite app_length. cbn. replace (length l + 1 - 1) with (length l) by lia.
  rewrite firstn_app, firstn_all, Nat.sub_diag. cbn. now rewrite app_nil_r.
Qed.

Lemma push_abs T v (s s' : vstack T) : v_push v s = inl s' -> abs s' = v :: abs s /\ vmax s' = vmax s.
Proof. unfold v_push. destruct (vmax s <=? vsize s)%N; [discriminate|]. intros [= <-]. unfold abs. cbn. now rewrite rev_app_distr. Qed.

Lemma discard_abs T n (s s' : vstack T) : v_discard n s = inl s' -> abs s' = skipn n (abs s) /\ vmax s' = vmax s.
Proof.
  unfold v_discard. destruct (Nat.ltb_spec (length (vals s)) n); [discriminate|]. intros [= <-]. unfold abs. cbn.
  split; [|reflexivity]. rewrite skipn_rev. reflexivity.
Qed.

Lemma push_many_abs T l (s s' : vstack T) : v_push_many l s = inl s' -> abs s' = l ++ abs s.
Proof. unfold v_push_many. destruct (_ <? _)%N; [discriminate|]. intros [= <-]. unfold abs. cbn. now rewrite rev_app_distr, rev_involutive. Qed.

Lemma try_extend_abs T l (s s' : vstack T) : v_try_extend l s = inl s' -> abs s' = l ++ abs s.
Proof.
  unfold v_try_extend. destruct (skipn _ l) eqn:E; [|discriminate]. intros [= <-]. unfold abs. cbn [vals].
  assert (Hall : firstn (N.to_nat (vmax s - vsize s)) l = l).
  { rewrite <- (firstn_skipn (N.to_nat (vmax s - vsize s)) l) at 2. now rewrite E, app_nil_r. }
  rewrite Hall. rewrite firstn_app, firstn_all, Nat.sub_diag, skipn_app, skipn_all, Nat.sub_diag. cbn.
  rewrite app_nil_r. now rewrite rev_app_distr, rev_involutive.
Qed.
(* all-or-nothing is immediate: every error branch returns without constructing a new stack *)
Print Assumptions try_extend_abs.
