#!/bin/sh
# Offline build of the verification framework: the whole Coq development (full .vo
# build, no -vos) and the Rust harness against /repo's current tree.
set -e
cd "$(dirname "$0")"
mkdir -p work evidence
( cd coq && coq_makefile -f _CoqProject -o Makefile >/dev/null && timeout 3000 make -j16 >work_build.log 2>&1 || { tail -50 work_build.log; exit 1; } ; rm -f work_build.log )
( cd harness && CARGO_NET_OFFLINE=true RUSTFLAGS="--cfg unhindered_ec_verif" CARGO_TARGET_DIR="$PWD/../work/target" timeout 3000 cargo build --offline --quiet )
# the same in the release profile (every check also runs its inputs through a release build)
( cd harness && CARGO_NET_OFFLINE=true RUSTFLAGS="--cfg unhindered_ec_verif" CARGO_TARGET_DIR="$PWD/../work/target" timeout 3000 cargo build --offline --quiet --release )
echo "setup done"
