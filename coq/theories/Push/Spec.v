(* The instruction semantics as a table (DESIGN.md Appendix A): for every
   instruction its operands (top of which stacks), its result and destination,
   and its faults in order.  EVERY error returns the input state.

   [prec i] chooses, for the instructions that can face two faults at once (an
   operand missing AND the destination full), which one is reported: [true] =
   the capacity check comes first.  The properties leave this open; every
   theorem is for all [prec], and [code_prec] is what the code currently does. *)
From Coq Require Import List ZArith NArith Floats Bool.
From UEC Require Import Base.I64 Base.F64 Push.Stack Push.Syntax.
Import ListNotations.

Definition full {T} (st : sstack T) : bool := (smax st <=? ssize st)%N.
Definition push1 {T} (v : T) (st : sstack T) : sstack T := SS (smax st) (v :: elems st).
Definition with_elems {T} (l : list T) (st : sstack T) : sstack T := SS (smax st) l.

Definition ksize (k : stk) (s : state) : N :=
  match k with
  | KInt => ssize (ints s) | KFloat => ssize (floats s) | KBool => ssize (bools s) | KExec => ssize (exec s)
  end.
Definition kfull (k : stk) (s : state) : bool :=
  match k with
  | KInt => full (ints s) | KFloat => full (floats s) | KBool => full (bools s) | KExec => full (exec s)
  end.
(* drop the n top elements of stack k (n <= size) *)
Definition kdrop (n : nat) (k : stk) (s : state) : state :=
  match k with
  | KInt => set_ints (with_elems (skipn n (elems (ints s))) (ints s)) s
  | KFloat => set_floats (with_elems (skipn n (elems (floats s))) (floats s)) s
  | KBool => set_bools (with_elems (skipn n (elems (bools s))) (bools s)) s
  | KExec => set_exec (with_elems (skipn n (elems (exec s))) (exec s)) s
  end.
Definition dup_list {T} (l : list T) : list T := match l with x :: r => x :: x :: r | [] => [] end.
Definition kdup (k : stk) (s : state) : state :=
  match k with
  | KInt => set_ints (with_elems (dup_list (elems (ints s))) (ints s)) s
  | KFloat => set_floats (with_elems (dup_list (elems (floats s))) (floats s)) s
  | KBool => set_bools (with_elems (dup_list (elems (bools s))) (bools s)) s
  | KExec => set_exec (with_elems (dup_list (elems (exec s))) (exec s)) s
  end.
Definition swap_list {T} (l : list T) : list T := match l with x :: y :: r => y :: x :: r | l => l end.
Definition kswap (k : stk) (s : state) : state :=
  match k with
  | KInt => set_ints (with_elems (swap_list (elems (ints s))) (ints s)) s
  | KFloat => set_floats (with_elems (swap_list (elems (floats s))) (floats s)) s
  | KBool => set_bools (with_elems (swap_list (elems (bools s))) (bools s)) s
  | KExec => set_exec (with_elems (swap_list (elems (exec s))) (exec s)) s
  end.

Definition pushI (v : Z) s := set_ints (push1 v (ints s)) s.
Definition pushF (v : float) s := set_floats (push1 v (floats s)) s.
Definition pushB (v : bool) s := set_bools (push1 v (bools s)) s.
Definition pushE (v : prog) s := set_exec (push1 v (exec s)) s.

Definition underflow (req : N) (k : stk) (s : state) : outcome := Rec s (EUnderflow req (ksize k s)).

(* two possible faults, reported in the order [prec] picks *)
Definition dual (prec : bool) (s : state) (dest_full : bool) (operand_missing : option err) (k : outcome) : outcome :=
  if prec then
    if dest_full then Fatal s EOverflow
    else match operand_missing with Some e => Rec s e | None => k end
  else
    match operand_missing with
    | Some e => Rec s e
    | None => if dest_full then Fatal s EOverflow else k
    end.

(* ---- the arithmetic ---- *)
Definition iun_fn (o : iun) (x : Z) : option Z :=
  match o with Inc => checked_add x 1 | Dec => checked_sub x 1 | Square => checked_mul x x end.
Definition isat_fn (o : isat) (x : Z) : Z :=
  match o with Negate => saturating_neg x | Abs => saturating_abs x end.
Definition ibin_fn (o : ibin) (x y : Z) : option Z :=
  match o with
  | Add => checked_add x y | Sub => checked_sub x y | Mul => checked_mul x y
  | Div => if Z.eqb y 0 then Some 1%Z else checked_div x y
  | Mod => if Z.eqb y 0 then Some 0%Z else checked_rem x y
  | Pow => checked_pow x y
  end.
Definition imm_fn (o : imm) (x y : Z) : Z := match o with Min => Z.min x y | Max => Z.max x y end.
Definition clamp_fn (v a b : Z) : Z :=
  let lo := Z.min a b in let hi := Z.max a b in
  if Z.ltb v lo then lo else if Z.ltb hi v then hi else v.
Definition ipred_fn (p : ipred) (x : Z) : bool :=
  match p with
  | IsZero => Z.eqb x 0 | IsPositive => Z.ltb 0 x | IsNegative => Z.ltb x 0
  | IsEven => Z.even x | IsOdd => Z.odd x
  end.
Definition icmp_fn (c : cmp) (x y : Z) : bool :=
  match c with
  | CEq => Z.eqb x y | CNe => negb (Z.eqb x y) | CLt => Z.ltb x y | CLe => Z.leb x y
  | CGt => Z.ltb y x | CGe => Z.leb y x
  end.
Definition fbin_fn (o : fbin) (x y : float) : float :=
  match o with
  | FAdd => PrimFloat.add x y | FSub => PrimFloat.sub x y | FMul => PrimFloat.mul x y
  | FDiv => fdiv_protected x y
  end.
Definition fcmp_fn (c : cmp) (x y : float) : bool :=
  match c with
  | CEq => oeq x y | CNe => negb (oeq x y) | CLt => olt x y | CLe => ole x y | CGt => ogt x y | CGe => oge x y
  end.
Definition bbin_fn (o : bbin) (x y : bool) : bool :=
  match o with BAnd => x && y | BOr => x || y | BXor => xorb x y | BImplies => negb x || y end.

Definition depth_value (n : N) : Z := Z.min (Z.of_N n) i64_max.

Definition lit_instr (l : lit) : instr :=
  match l with LInt z => PushI z | LFloat f => PushF f | LBool b => PushB b end.

(* ---- the table ---- *)
Section Perform.
Context (prec : instr -> bool).

Definition perform_plain (i : instr) (s : state) : outcome :=
  let I := elems (ints s) in let F := elems (floats s) in
  let B := elems (bools s) in let E := elems (exec s) in
  match i with
  | Pop k => if (ksize k s =? 0)%N then underflow 1 k s else Ok (kdrop 1 k s)
  | Dup k => dual (prec i) s (kfull k s) (if (ksize k s =? 0)%N then Some (EUnderflow 1 0) else None) (Ok (kdup k s))
  | Swap k => if (ksize k s <? 2)%N then underflow 2 k s else Ok (kswap k s)
  | IsEmpty k => if full (bools s) then Fatal s EOverflow else Ok (pushB (ksize k s =? 0)%N s)
  | StackDepth k => if full (ints s) then Fatal s EOverflow else Ok (pushI (depth_value (ksize k s)) s)
  | Flush k => Ok (kdrop (N.to_nat (ksize k s)) k s)
  | PushI z => if full (ints s) then Fatal s EOverflow else Ok (pushI z s)
  | PushF f => if full (floats s) then Fatal s EOverflow else Ok (pushF f s)
  | PushB b => if full (bools s) then Fatal s EOverflow else Ok (pushB b s)
  | PushE p => if full (exec s) then Fatal s EOverflow else Ok (pushE p s)
  | Print VInt nl =>
    match I with x :: _ => Ok (add_out (TInt x :: if nl then [TChar 10] else []) (kdrop 1 KInt s)) | [] => underflow 1 KInt s end
  | Print VFloat nl =>
    match F with x :: _ => Ok (add_out (TFloat x :: if nl then [TChar 10] else []) (kdrop 1 KFloat s)) | [] => underflow 1 KFloat s end
  | Print VBool nl =>
    match B with x :: _ => Ok (add_out (TBool x :: if nl then [TChar 10] else []) (kdrop 1 KBool s)) | [] => underflow 1 KBool s end
  | IUn o =>
    match I with
    | x :: r => match iun_fn o x with Some v => Ok (set_ints (with_elems (v :: r) (ints s)) s) | None => Rec s EIntOverflow end
    | [] => underflow 1 KInt s
    end
  | ISat o =>
    match I with x :: r => Ok (set_ints (with_elems (isat_fn o x :: r) (ints s)) s) | [] => underflow 1 KInt s end
  | IBin o =>
    match I with
    | x :: y :: r => match ibin_fn o x y with Some v => Ok (set_ints (with_elems (v :: r) (ints s)) s) | None => Rec s EIntOverflow end
    | _ => underflow 2 KInt s
    end
  | IMm o =>
    match I with x :: y :: r => Ok (set_ints (with_elems (imm_fn o x y :: r) (ints s)) s) | _ => underflow 2 KInt s end
  | Clamp =>
    match I with x :: y :: z :: r => Ok (set_ints (with_elems (clamp_fn x y z :: r) (ints s)) s) | _ => underflow 3 KInt s end
  | IPred p =>
    dual (prec i) s (full (bools s)) (match I with [] => Some (EUnderflow 1 0) | _ => None end)
      (match I with x :: _ => Ok (pushB (ipred_fn p x) (kdrop 1 KInt s)) | [] => Panic end)
  | ICmp c =>
    dual (prec i) s (full (bools s)) (match I with _ :: _ :: _ => None | _ => Some (EUnderflow 2 (ksize KInt s)) end)
      (match I with x :: y :: _ => Ok (pushB (icmp_fn c x y) (kdrop 2 KInt s)) | _ => Panic end)
  | FromBoolean =>
    dual (prec i) s (full (ints s)) (match B with [] => Some (EUnderflow 1 0) | _ => None end)
      (match B with b :: _ => Ok (pushI (if b then 1 else 0)%Z (kdrop 1 KBool s)) | [] => Panic end)
  | FromFloatApprox =>
    dual (prec i) s (full (ints s)) (match F with [] => Some (EUnderflow 1 0) | _ => None end)
      (match F with f :: _ => Ok (pushI (f2i f) (kdrop 1 KFloat s)) | [] => Panic end)
  | FBin o =>
    match F with x :: y :: r => Ok (set_floats (with_elems (fbin_fn o x y :: r) (floats s)) s) | _ => underflow 2 KFloat s end
  | FCmp c =>
    dual (prec i) s (full (bools s)) (match F with _ :: _ :: _ => None | _ => Some (EUnderflow 2 (ksize KFloat s)) end)
      (match F with x :: y :: _ => Ok (pushB (fcmp_fn c x y) (kdrop 2 KFloat s)) | _ => Panic end)
  | FromIntApprox =>
    dual (prec i) s (full (floats s)) (match I with [] => Some (EUnderflow 1 0) | _ => None end)
      (match I with x :: _ => Ok (pushF (i2f x) (kdrop 1 KInt s)) | [] => Panic end)
  | BNot =>
    match B with x :: r => Ok (set_bools (with_elems (negb x :: r) (bools s)) s) | [] => underflow 1 KBool s end
  | BBin o =>
    match B with x :: y :: r => Ok (set_bools (with_elems (bbin_fn o x y :: r) (bools s)) s) | _ => underflow 2 KBool s end
  | BFromInt =>
    dual (prec i) s (full (bools s)) (match I with [] => Some (EUnderflow 1 0) | _ => None end)
      (match I with x :: _ => Ok (pushB (negb (Z.eqb x 0)) (kdrop 1 KInt s)) | [] => Panic end)
  | Noop => Ok s
  | DupBlock => dual (prec i) s (full (exec s)) (match E with [] => Some (EUnderflow 1 0) | _ => None end) (Ok (kdup KExec s))
  | When =>
    match B, E with
    | true :: _, _ :: _ => Ok (kdrop 1 KBool s)
    | false :: _, _ :: _ => Ok (kdrop 1 KExec (kdrop 1 KBool s))
    | [], _ :: _ => Ok (kdrop 1 KExec s)
    | _ :: _, [] => Ok s
    | [], [] => Rec s (EUnderflow 1 0)
    end
  | Unless =>
    match B, E with
    | false :: _, _ :: _ => Ok (kdrop 1 KBool s)
    | true :: _, _ :: _ => Ok (kdrop 1 KExec (kdrop 1 KBool s))
    | [], _ :: _ => Ok s
    | _ :: _, [] => Ok s
    | [], [] => Rec s (EUnderflow 1 0)
    end
  | IfElse =>
    match B, E with
    | false :: _, _ :: _ :: _ => Ok (kdrop 1 KExec (kdrop 1 KBool s))          (* drop `then` *)
    | true :: _, t :: _ :: r => Ok (set_exec (with_elems (t :: r) (exec s)) (kdrop 1 KBool s))  (* drop `else` *)
    | true :: _, [_] => Ok (kdrop 1 KBool s)                                    (* as When *)
    | false :: _, [_] => Ok (kdrop 1 KExec (kdrop 1 KBool s))
    | [], _ :: _ => Ok (kdrop 1 KExec s)
    | _, [] => Rec s (EUnderflow 2 0)
    end
  | InputVar _ => Panic   (* resolved in [perform] *)
  | PrintSpace => Ok (add_out [TChar 32] s)
  | PrintNewline => Ok (add_out [TChar 10] s)
  | PrintPeriod => Ok (add_out [TChar 46] s)
  | PrintString id => Ok (add_out [TStr id] s)
  end.

Definition perform (i : instr) (s : state) : outcome :=
  match i with
  | InputVar n =>
    match lookup n (inputs s) with
    | Some l => perform_plain (lit_instr l) s
    | None => Panic               (* the one documented panic: an unbound input variable *)
    end
  | _ => perform_plain i s
  end.

(* a block unfolds onto the exec stack, its first element on top *)
Definition perform_prog (p : prog) (s : state) : outcome :=
  match p with
  | PI i => perform i s
  | PB l => if (smax (exec s) <? N.of_nat (length l) + ssize (exec s))%N then Fatal s EOverflow
            else Ok (set_exec (with_elems (l ++ elems (exec s)) (exec s)) s)
  end.
End Perform.

(* what the code currently does when two faults coincide *)
Definition code_prec (i : instr) : bool :=
  match i with
  | IPred _ | ICmp _ | FCmp _ | BFromInt => true
  | _ => false
  end.
