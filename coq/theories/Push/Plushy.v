(* Plushy genomes -> Push programs (push_vm/program.rs: parse_from_plushy).

   The Rust is a recursive descent over ONE shared gene iterator: a top-level call
   and, for each block an instruction opens, a nested call that returns at the
   first Close.  [parse fuel top g] returns the items parsed, the genes left, and
   whether it stopped at a Close.  Fuel [S (length g)] always suffices (proved). *)
From Coq Require Import List Arith Lia Bool.
From UEC Require Import Push.Stack Push.Syntax.
Import ListNotations.

Inductive gene := Close | G (i : instr).

Definition res := option (list prog * list gene * bool).   (* items, remaining genes, ended-by-Close? *)

Fixpoint blocks_with (P : list gene -> res) (k : nat) (r : list gene) : option (list prog * list gene) :=
  match k with
  | O => Some ([], r)
  | S k' => match P r with
            | None => None
            | Some (b, r1, _) => match blocks_with P k' r1 with
                                 | None => None
                                 | Some (bs, r2) => Some (PB b :: bs, r2)
                                 end
            end
  end.

Fixpoint parse (fuel : nat) (top : bool) (g : list gene) {struct fuel} : res :=
  match fuel with
  | O => None
  | S f =>
    match g with
    | [] => Some ([], [], false)
    | Close :: r => if top then parse f top r else Some ([], r, true)
    | G i :: r =>
        match blocks_with (parse f false) (num_opens i) r with
        | None => None
        | Some (bs, r1) =>
            match parse f top r1 with
            | None => None
            | Some (rest, r2, c) => Some (PI i :: bs ++ rest, r2, c)
            end
        end
    end
  end.

Definition parse_top (g : list gene) : option (list prog) :=
  match parse (S (length g)) true g with Some (p, _, _) => Some p | None => None end.

(* ---------- totality ---------- *)
Definition good (P : list gene -> res) (n : nat) :=
  forall g, length g <= n -> exists p r c, P g = Some (p, r, c) /\ length r <= length g.

Lemma blocks_total P n k : good P n -> forall g, length g <= n ->
  exists bs r, blocks_with P k g = Some (bs, r) /\ length r <= length g.
Proof.
  intros HP. induction k as [|k IH]; intros g Hg; cbn.
  - eauto.
  - destruct (HP g Hg) as (b & r1 & c & -> & Hr1).
    destruct (IH r1 ltac:(lia)) as (bs & r2 & -> & Hr2). eexists _, _. split; [reflexivity|lia].
Qed.


Lemma parse_total : forall fuel top g, length g < fuel ->
  exists p r c, parse fuel top g = Some (p, r, c) /\ length r <= length g.
Proof.
  induction fuel as [|f IH]; intros top g Hg; [lia|].
  destruct g as [|[|i] r]; cbn [parse].
  - eauto 6.
  - destruct top.
    + cbn in Hg. destruct (IH true r ltac:(lia)) as (p & r' & c & -> & Hr). eexists _, _, _. split; [reflexivity|cbn; lia].
    + eexists _, _, _. split; [reflexivity|cbn; lia].
  - cbn in Hg.
    assert (HG : good (parse f false) (length r)).
    { intros g' Hg'. apply IH. lia. }
    destruct (blocks_total _ _ (num_opens i) HG r (le_n _)) as (bs & r1 & -> & Hr1).
    destruct (IH top r1 ltac:(lia)) as (rest & r2 & c & -> & Hr2).
    eexists _, _, _. split; [reflexivity|cbn; lia].
Qed.

Theorem parse_top_total g : exists p, parse_top g = Some p.
Proof.
  unfold parse_top. destruct (parse_total (S (length g)) true g ltac:(lia)) as (p & r & c & -> & _). eauto.
Qed.

(* ---------- flatten ---------- *)
Fixpoint flat (p : prog) : list instr :=
  match p with PI i => [i] | PB l => flat_map flat l end.
Definition flats (l : list prog) := flat_map flat l.
Definition instrs (g : list gene) := flat_map (fun x => match x with Close => [] | G i => [i] end) g.

Lemma flats_app a b : flats (a ++ b) = flats a ++ flats b.
Proof. unfold flats. now rewrite flat_map_app. Qed.

Definition flat_ok (P : list gene -> res) :=
  forall g p r c, P g = Some (p, r, c) -> flats p ++ instrs r = instrs g.

Lemma blocks_flat P k : flat_ok P -> forall g bs r, blocks_with P k g = Some (bs, r) -> flats bs ++ instrs r = instrs g.
Proof.
  intros HP. induction k as [|k IH]; intros g bs r; cbn.
  - intros [= <- <-]. reflexivity.
  - destruct (P g) as [[[b r1] c]|] eqn:E; [|discriminate].
    destruct (blocks_with P k r1) as [[bs' r2]|] eqn:E2; [|discriminate].
    intros [= <- <-]. cbn [flats flat_map flat]. fold (flats b) (flats bs').
    rewrite <- (HP _ _ _ _ E), <- (IH _ _ _ E2). now rewrite app_assoc.
Qed.

Lemma parse_flat fuel : forall top, flat_ok (parse fuel top).
Proof.
  induction fuel as [|f IH]; intros top g p r c; cbn [parse]; [discriminate|].
  destruct g as [|[|i] g'].
  - intros [= <- <- <-]. reflexivity.
  - destruct top.
    + intros H. apply IH in H. exact H.
    + intros [= <- <- <-]. reflexivity.
  - destruct (blocks_with (parse f false) (num_opens i) g') as [[bs r1]|] eqn:E; [|discriminate].
    destruct (parse f top r1) as [[[rest r2] c']|] eqn:E2; [|discriminate].
    intros [= <- <- <-].
    pose proof (blocks_flat _ _ (IH false) _ _ _ E) as H1. pose proof (IH top _ _ _ _ E2) as H2.
    cbn [flats flat_map flat instrs]. fold (flats (bs ++ rest)). rewrite flats_app.
    fold (instrs g'). rewrite <- H1, <- H2. cbn. now rewrite !app_assoc.
Qed.

(* ---------- a trailing Close changes nothing at top level ---------- *)
Definition rel (c : bool) (r r' : list gene) := if c then r' = r ++ [Close] else r' = [].

Definition close_ok (P P' : list gene -> res) :=
  forall g p r c, P g = Some (p, r, c) ->
    (c = false -> r = []) /\
    exists r' c', P' (g ++ [Close]) = Some (p, r', c') /\ rel c r r'.

Lemma blocks_close P P' k : close_ok P P' ->
  P' [] = Some ([], [], false) -> P [] = Some ([], [], false) ->
  forall g bs r, blocks_with P k g = Some (bs, r) ->
    exists fl r', blocks_with P' k (g ++ [Close]) = Some (bs, r') /\ rel fl r r' /\ (fl = false -> r = []).
Proof.
  intros HP Hnil' Hnil. induction k as [|k IH]; intros g bs r; cbn [blocks_with].
  - intros [= <- <-]. exists true, (g ++ [Close]). cbn. repeat split; auto. discriminate.
  - destruct (P g) as [[[b r1] c]|] eqn:E; [|discriminate].
    destruct (blocks_with P k r1) as [[bs' r2]|] eqn:E2; [|discriminate].
    intros [= <- <-].
    destruct (HP _ _ _ _ E) as (Hc & r1' & c' & E' & Hrel). rewrite E'.
    destruct c; cbn in Hrel; subst r1'.
    + destruct (IH _ _ _ E2) as (fl & r' & -> & Hr & Hfl). exists fl, r'. repeat split; auto.
    + specialize (Hc eq_refl). subst r1.
      (* remaining blocks parse [] both before and after *)
      assert (Hall : forall k, blocks_with P k [] = Some (repeat (PB []) k, []) /\ blocks_with P' k [] = Some (repeat (PB []) k, [])).
      { clear - Hnil Hnil'. induction k as [|k [A B]]; cbn; [auto|]. now rewrite Hnil, Hnil', A, B. }
      destruct (Hall k) as [A B]. rewrite A in E2. injection E2 as <- <-. rewrite B.
      exists false, []. cbn. repeat split; auto.
Qed.

Lemma parse_nil f top : parse (S f) top [] = Some ([], [], false).
Proof. reflexivity. Qed.

Lemma parse_G f top i g : parse (S f) top (G i :: g) =
  match blocks_with (parse f false) (num_opens i) g with
  | None => None
  | Some (bs, r1) => match parse f top r1 with None => None
                     | Some (rest, r2, c) => Some (PI i :: bs ++ rest, r2, c) end end.
Proof. reflexivity. Qed.
Lemma parse_C f top g : parse (S f) top (Close :: g) = if top then parse f top g else Some ([], g, true).
Proof. reflexivity. Qed.
Lemma parse_0 top g : parse 0 top g = None.
Proof. reflexivity. Qed.
Opaque parse.

Lemma parse_close f : forall top, close_ok (parse f top) (parse (S f) top) /\
   (top = true -> forall g p r c, parse f top g = Some (p, r, c) -> c = false).
Proof.
  induction f as [|f IH]; intros top.
  { split; [intros g p r c H|intros _ g p r c H]; rewrite parse_0 in H; discriminate. }
  split.
  - intros g p r c. destruct g as [|[|i] g'].
    + rewrite parse_nil. intros [= <- <- <-]. split; [auto|]. cbn [app]. rewrite parse_C. destruct top.
      * rewrite parse_nil. exists [], false. split; reflexivity.
      * exists [], true. split; reflexivity.
    + rewrite parse_C. cbn [app]. rewrite parse_C. destruct top.
      * intros H. destruct (proj1 (IH true) _ _ _ _ H) as (Hc & r' & c' & E' & Hrel).
        split; [exact Hc|]. exists r', c'. split; [exact E'|exact Hrel].
      * intros [= <- <- <-]. split; [discriminate|]. exists (g' ++ [Close]), true. split; reflexivity.
    + rewrite parse_G. cbn [app]. rewrite parse_G.
      destruct (blocks_with (parse f false) (num_opens i) g') as [[bs r1]|] eqn:E; [|discriminate].
      destruct (parse f top r1) as [[[rest r2] c2]|] eqn:E2; [|discriminate].
      intros [= <- <- <-].
      assert (Hf : exists f0, f = S f0).
      { destruct f; [|eauto]. rewrite parse_0 in E2. discriminate. }
      destruct Hf as [f0 ->].
      destruct (blocks_close _ _ (num_opens i) (proj1 (IH false)) (parse_nil _ _) (parse_nil _ _) _ _ _ E)
        as (fl & r1' & E' & Hrel & Hfl).
      rewrite E'. destruct fl; cbn in Hrel; subst r1'.
      * destruct (proj1 (IH top) _ _ _ _ E2) as (Hc & r2' & c2' & E2' & Hrel2). rewrite E2'.
        split; [exact Hc|]. eauto.
      * specialize (Hfl eq_refl). subst r1. rewrite parse_nil in E2. injection E2 as <- <- <-.
        rewrite parse_nil. split; [auto|]. exists [], false. split; reflexivity.
  - intros -> g p r c. destruct g as [|[|i] g'].
    + rewrite parse_nil. now intros [= _ _ <-].
    + rewrite parse_C. intros H. eapply (proj2 (IH true)); eauto.
    + rewrite parse_G.
      destruct (blocks_with (parse f false) (num_opens i) g') as [[bs r1]|]; [|discriminate].
      destruct (parse f true r1) as [[[rest r2] c2]|] eqn:E2; [|discriminate].
      intros [= _ _ <-]. eapply (proj2 (IH true)); eauto.
Qed.

Lemma parse_top_all_consumed f g p r c : parse f true g = Some (p, r, c) -> r = [].
Proof. intros H. pose proof (proj2 (parse_close f true) eq_refl _ _ _ _ H) as ->. exact (proj1 (proj1 (parse_close f true) _ _ _ _ H) eq_refl). Qed.

Theorem close_at_end g : parse_top (g ++ [Close]) = parse_top g.
Proof.
  unfold parse_top. rewrite app_length. cbn [length]. rewrite Nat.add_1_r.
  destruct (parse_total (S (length g)) true g ltac:(lia)) as (p & r & c & E & _).
  destruct (proj1 (parse_close _ true) _ _ _ _ E) as (_ & r' & c' & E' & _).
  now rewrite E, E'.
Qed.

(* ---------- a Close at top level is ignored ---------- *)
Transparent parse.
Theorem close_toplevel g : parse_top (Close :: g) = parse_top g.
Proof. unfold parse_top. cbn [length]. reflexivity. Qed.

Theorem parse_top_nil : parse_top [] = Some [].
Proof. reflexivity. Qed.

(* ---------- shape: an instruction opening k blocks is immediately followed by exactly
              k blocks, and blocks occur nowhere else ---------- *)
Inductive shaped : nat -> list prog -> Prop :=
| sh_nil : shaped 0 []
| sh_instr i r : shaped (num_opens i) r -> shaped 0 (PI i :: r)
| sh_block b e r : shaped 0 b -> shaped e r -> shaped (S e) (PB b :: r).

Definition shape_ok (P : list gene -> res) :=
  forall g p r c, P g = Some (p, r, c) -> shaped 0 p.

Lemma blocks_shape P k : shape_ok P -> forall g bs r, blocks_with P k g = Some (bs, r) ->
  forall rest, shaped 0 rest -> shaped k (bs ++ rest).
Proof.
  intros HP. induction k as [|k IH]; intros g bs r; cbn [blocks_with].
  - intros [= <- <-] rest Hr. exact Hr.
  - destruct (P g) as [[[b r1] c]|] eqn:E; [|discriminate].
    destruct (blocks_with P k r1) as [[bs' r2]|] eqn:E2; [|discriminate].
    intros [= <- <-] rest Hr. cbn [app]. constructor; [eapply HP; eassumption|eapply IH; eassumption].
Qed.

Lemma parse_shape fuel : forall top, shape_ok (parse fuel top).
Proof.
  induction fuel as [|f IH]; intros top g p r c; cbn [parse]; [discriminate|].
  destruct g as [|[|i] g'].
  - intros [= <- <- <-]. constructor.
  - destruct top.
    + intros H. eapply IH; eassumption.
    + intros [= <- <- <-]. constructor.
  - destruct (blocks_with (parse f false) (num_opens i) g') as [[bs r1]|] eqn:E; [|discriminate].
    destruct (parse f top r1) as [[[rest r2] c']|] eqn:E2; [|discriminate].
    intros [= <- <- <-]. constructor.
    eapply blocks_shape; [apply IH|eassumption|eapply IH; eassumption].
Qed.

Theorem parse_top_shaped g p : parse_top g = Some p -> shaped 0 p.
Proof.
  unfold parse_top. destruct (parse (S (length g)) true g) as [[[p' r] c]|] eqn:E; [|discriminate].
  intros [= <-]. eapply parse_shape; eassumption.
Qed.

Theorem parse_top_flat g p : parse_top g = Some p -> flats p = instrs g.
Proof.
  unfold parse_top. destruct (parse (S (length g)) true g) as [[[p' r] c]|] eqn:E; [|discriminate].
  intros [= <-]. pose proof (parse_flat _ _ _ _ _ _ E) as H.
  assert (r = []) by (eapply parse_top_all_consumed; eassumption). subst r.
  cbn in H. now rewrite app_nil_r in H.
Qed.

(* executable versions for the correspondence check *)
Fixpoint shaped_b (fuel : nat) (e : nat) (l : list prog) : bool :=
  match fuel with
  | O => false
  | S f =>
    match l with
    | [] => Nat.eqb e 0
    | PI i :: r => Nat.eqb e 0 && shaped_b f (num_opens i) r
    | PB b :: r => match e with S e' => shaped_b f 0 b && shaped_b f e' r | O => false end
    end
  end.
