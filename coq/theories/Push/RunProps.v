(* Facts about the interpreter loop, for every report order [prec]. *)
From Coq Require Import List ZArith NArith Floats Bool Lia.
From UEC Require Import Base.Iter Push.Stack Push.Syntax Push.Spec Push.SpecProps Push.Run.
Import ListNotations.

(* every input variable mentioned anywhere in a program is bound *)
Fixpoint bound_instr (names : list Z) (i : instr) {struct i} : bool :=
  match i with
  | InputVar n => existsb (Z.eqb n) names
  | PushE p => bound_prog names p
  | _ => true
  end
with bound_prog (names : list Z) (p : prog) {struct p} : bool :=
  match p with
  | PI i => bound_instr names i
  | PB l => forallb (bound_prog names) l
  end.

Definition names_of (s : state) : list Z := map fst (inputs s).
Definition inputs_bound (s : state) : Prop :=
  forallb (bound_prog (names_of s)) (elems (exec s)) = true.

Lemma lookup_bound n l : existsb (Z.eqb n) (map fst l) = true -> lookup n l <> None.
Proof.
  induction l as [|[k v] l IH]; cbn; [discriminate|].
  rewrite Z.eqb_sym. destruct (Z.eqb k n); [discriminate|]. exact IH.
Qed.

Lemma forallb_skipn {X} (f : X -> bool) n l : forallb f l = true -> forallb f (skipn n l) = true.
Proof.
  revert l. induction n as [|n IH]; intros l H; [exact H|].
  destruct l as [|x l]; [reflexivity|]. cbn in *. apply andb_true_iff in H. apply IH, H.
Qed.

Section Facts.
Context (prec : instr -> bool).

Definition rs_wf (r : rs) : Prop := match state_of r with Some s => wf s | None => True end.

Lemma pop_exec_wf s p s' : wf s -> pop_exec s = Some (p, s') -> wf s'.
Proof.
  destruct s as [[ce E] ci cf cb ins out lim]. unfold pop_exec, wf, wfs, ssize.
  cbn [exec ints floats bools smax elems]. intros (He & Hr) H.
  destruct E as [|x E]; inversion H; subst. cbn [exec ints floats bools smax elems set_exec with_elems].
  cbn [length] in He. split; [lia|exact Hr].
Qed.

(* C03: wf is an inductive invariant of the loop: it holds at EVERY intermediate state *)
Lemma step_wf r : rs_wf r -> rs_wf (step prec r).
Proof.
  destruct r as [s n|s n|s e n|]; cbn [step]; try (intros H; exact H).
  unfold rs_wf at 1. cbn [state_of]. intros W.
  destruct (pop_exec s) as [[p s1]|] eqn:P; [|exact W].
  pose proof (pop_exec_wf _ _ _ W P) as W1.
  destruct (perform_prog prec p s1) as [s2|s2 e|s2 e|] eqn:Q; unfold rs_wf; cbn [state_of].
  - eapply perform_prog_wf; eassumption.
  - assert (s2 = s1) by (apply (perform_prog_err_unchanged prec p); rewrite Q; reflexivity). now subst.
  - assert (s2 = s1) by (apply (perform_prog_err_unchanged prec p); rewrite Q; reflexivity). now subst.
  - exact I.
Qed.

Theorem run_wf s : wf s -> rs_wf (run prec s).
Proof.
  intros W. rewrite run_run_nat. unfold run_nat.
  apply (iter_nat_inv halted (step prec) rs_wf); [intros r _; apply step_wf | exact W].
Qed.

(* C03: at most max_steps instruction steps *)
Lemma step_count r : halted r = false -> N.to_nat (steps_of (step prec r)) <= S (N.to_nat (steps_of r)).
Proof.
  destruct r as [s n|s n|s e n|]; cbn [halted]; try discriminate. intros _. cbn [step].
  destruct (pop_exec s) as [[p s1]|]; [|cbn; lia].
  destruct (perform_prog prec p s1); cbn [steps_of]; lia.
Qed.

Theorem run_steps s : (steps_of (run prec s) <= max_steps s)%N.
Proof.
  rewrite run_run_nat. unfold run_nat.
  pose proof (iter_nat_steps halted (step prec) (fun r => N.to_nat (steps_of r)) step_count
                (N.to_nat (max_steps s)) (Running s 0)) as H.
  cbn [steps_of] in H. lia.
Qed.

(* C03: the loop only ever fails with a stack overflow *)
Definition fails_only_overflow (r : rs) : Prop := match r with Failed _ e _ => e = EOverflow | _ => True end.
Lemma step_fail r : fails_only_overflow r -> fails_only_overflow (step prec r).
Proof.
  destruct r as [s n|s n|s e n|]; cbn [step]; try (intros H; exact H). intros _.
  destruct (pop_exec s) as [[p s1]|]; [|exact I].
  destruct (perform_prog prec p s1) as [s2|s2 e|s2 e|] eqn:Q; cbn; try exact I.
  apply perform_prog_fatal in Q. apply Q.
Qed.
Theorem run_fails_only_overflow s : fails_only_overflow (run prec s).
Proof.
  rewrite run_run_nat. unfold run_nat.
  apply (iter_nat_inv halted (step prec) fails_only_overflow); [intros r _; apply step_fail | exact I].
Qed.

(* C02: after a recoverable error the interpreter is exactly where a no-op would have left it *)
Theorem step_skips s n p s1 s2 e :
  pop_exec s = Some (p, s1) -> perform_prog prec p s1 = Rec s2 e ->
  step prec (Running s n) = Running s1 (n + 1) /\
  step prec (Running s n) = step prec (Running (set_exec (with_elems (PI Noop :: elems (exec s1)) (exec s1)) s1) n).
Proof.
  intros P Q. cbn [step]. rewrite P, Q.
  assert (s2 = s1) by (apply (perform_prog_err_unchanged prec p); rewrite Q; reflexivity). subst s2.
  split; [reflexivity|].
  unfold pop_exec. destruct s1 as [[ce E] ci cf cb ins out lim]. reflexivity.
Qed.

(* ... and stays there: however many further steps the interpreter takes, it is where it would be had the failed
   instruction been a no-op, namely where it gets from the state after the instruction with one step counted *)
Theorem skips_carry_on s n p s1 s2 e k :
  pop_exec s = Some (p, s1) -> perform_prog prec p s1 = Rec s2 e ->
  iter_nat halted (step prec) (S k) (Running s n) =
    iter_nat halted (step prec) (S k) (Running (set_exec (with_elems (PI Noop :: elems (exec s1)) (exec s1)) s1) n) /\
  iter_nat halted (step prec) (S k) (Running s n) = iter_nat halted (step prec) k (Running s1 (n + 1)).
Proof.
  intros P Q. destruct (step_skips s n p s1 s2 e P Q) as [H1 H2].
  cbn [iter_nat halted]. rewrite <- H2, H1. split; reflexivity.
Qed.

(* C03: no panic when every mentioned input variable is bound *)
Definition rs_bound (r : rs) : Prop :=
  match r with Running s _ => inputs_bound s | Panicked => False | _ => True end.

Lemma perform_plain_bound i s s' :
  inputs_bound s -> bound_instr (names_of s) i = true -> perform_plain prec i s = Ok s' -> inputs_bound s'.
Proof.
  destruct s as [[ce E] [ci I] [cf F] [cb B] ins out lim].
  unfold inputs_bound, names_of. cbn [exec inputs elems]. intros Hb Hi H.
  destruct i; try destruct k; try destruct newline;
    unfold_spec H; split_hyp H; try discriminate; inversion H; subst; clear H;
    cbn [exec inputs elems forallb bound_instr bound_prog] in *;
    rewrite ?andb_true_iff in *; try tauto; try (apply forallb_skipn; assumption);
    try (destruct E; cbn [forallb] in *; rewrite ?andb_true_iff in *; tauto).
Qed.

Lemma step_bound r : rs_bound r -> rs_bound (step prec r).
Proof.
  destruct r as [s n|s n|s e n|]; cbn [step]; try (intros H; exact H). cbn [rs_bound]. intros Hb.
  destruct (pop_exec s) as [[p s1]|] eqn:P; [|exact I].
  assert (Hp : bound_prog (names_of s1) p = true /\ inputs_bound s1).
  { unfold pop_exec in P. destruct s as [[ce E] ci cf cb ins out lim]. unfold inputs_bound, names_of in *.
    cbn [exec inputs elems] in *. destruct E as [|x E]; inversion P; subst.
    cbn [exec inputs elems set_exec with_elems forallb] in *. apply andb_true_iff in Hb. exact Hb. }
  destruct Hp as [Hp Hs1].
  destruct (perform_prog prec p s1) as [s2|s2 e|s2 e|] eqn:Q; cbn [rs_bound]; try exact I.
  - destruct p as [i|l]; cbn [perform_prog bound_prog] in *.
    + destruct i; try (eapply perform_plain_bound; eassumption).
      cbn [perform] in Q. destruct (lookup name (inputs s1)) as [v|]; [|discriminate].
      eapply perform_plain_bound; [eassumption| |eassumption]. destruct v; reflexivity.
    + destruct (_ <? _)%N; inversion Q; subst. unfold inputs_bound, names_of in *.
      destruct s1 as [[ce E] ci cf cb ins out lim]. cbn [exec inputs elems set_exec with_elems] in *.
      rewrite forallb_app. now rewrite Hp, Hs1.
  - assert (s2 = s1) by (apply (perform_prog_err_unchanged prec p); rewrite Q; reflexivity). now subst.
  - destruct p as [i|l]; cbn [perform_prog] in Q; [|destruct (_ <? _)%N; discriminate].
    apply perform_panic_iff in Q. destruct Q as [n0 [-> L]]. cbn [bound_prog bound_instr] in Hp.
    apply lookup_bound in Hp. contradiction.
Qed.

Theorem run_no_panic s : inputs_bound s -> run prec s <> Panicked.
Proof.
  intros Hb E.
  assert (H : rs_bound (run prec s)).
  { rewrite run_run_nat. unfold run_nat.
    apply (iter_nat_inv halted (step prec) rs_bound); [intros r _; apply step_bound | exact Hb]. }
  rewrite E in H. exact H.
Qed.
End Facts.
