(* Facts about the semantics table, for every instruction, every state and every
   choice [prec] of report order. *)
From Coq Require Import List ZArith NArith Floats Bool Lia.
From UEC Require Import Base.I64 Base.F64 Push.Stack Push.Syntax Push.Spec.
Import ListNotations.

Ltac break_step :=
  match goal with
  | |- context [match ?x with _ => _ end] => is_var x; destruct x
  | |- context [if ?b then _ else _] => let E := fresh "E" in destruct b eqn:E
  | |- context [match ?x with _ => _ end] => let E := fresh "E" in destruct x eqn:E
  end.
Ltac break := repeat (break_step; cbn -[N.add N.leb N.ltb N.eqb N.of_nat] in * ).

Definition err_state (o : outcome) : option state :=
  match o with Rec s _ | Fatal s _ => Some s | _ => None end.

Section Facts.
Context (prec : instr -> bool).

(* ---------- C02: every error hands back the input state ---------- *)
Lemma perform_plain_err_unchanged i s s' :
  err_state (perform_plain prec i s) = Some s' -> s' = s.
Proof.
  destruct i; try destruct k; try destruct newline; cbn -[N.add N.leb N.ltb N.eqb N.of_nat];
    unfold dual, underflow; intros H;
    repeat match type of H with
    | context [match ?x with _ => _ end] => destruct x eqn:?; cbn in H
    | context [if ?b then _ else _] => destruct b eqn:?; cbn in H
    end; try discriminate; try (inversion H; reflexivity).
Qed.

Lemma perform_err_unchanged i s s' :
  err_state (perform prec i s) = Some s' -> s' = s.
Proof.
  destruct i; try apply perform_plain_err_unchanged.
  cbn [perform]. destruct (lookup name (inputs s)); [apply perform_plain_err_unchanged|discriminate].
Qed.

Theorem perform_prog_err_unchanged p s s' :
  err_state (perform_prog prec p s) = Some s' -> s' = s.
Proof.
  destruct p as [i|l]; [apply perform_err_unchanged|].
  cbn [perform_prog]. destruct (_ <? _)%N; cbn; intros H; inversion H; reflexivity.
Qed.
End Facts.

Ltac bools := repeat match goal with
 | H : (_ <=? _)%N = true |- _ => apply N.leb_le in H
 | H : (_ <=? _)%N = false |- _ => apply N.leb_gt in H
 | H : (_ <? _)%N = true |- _ => apply N.ltb_lt in H
 | H : (_ <? _)%N = false |- _ => apply N.ltb_ge in H
 | H : (_ =? _)%N = true |- _ => apply N.eqb_eq in H
 | H : (_ =? _)%N = false |- _ => apply N.eqb_neq in H end.

Ltac split_hyp H :=
    repeat match type of H with
    | context [match ?x with _ => _ end] => destruct x eqn:?; cbn -[N.add N.leb N.ltb N.eqb N.of_nat skipn] in H
    | context [if ?b then _ else _] => destruct b eqn:?; cbn -[N.add N.leb N.ltb N.eqb N.of_nat skipn] in H
    end.

Ltac residual := repeat match goal with
  | Hx : (if ?b then _ else _) = _ |- _ => destruct b
  | Hx : match ?x with _ => _ end = _ |- _ => destruct x
  | Hx : Some _ = Some _ |- _ => inversion Hx; subst; clear Hx
  | Hx : None = Some _ |- _ => discriminate Hx
  | Hx : Some _ = None |- _ => discriminate Hx
  end.

Ltac unfold_spec H :=
    cbn -[N.add N.leb N.ltb N.eqb N.of_nat skipn] in H;
    unfold dual, underflow, full, ssize, ksize, kfull, kdrop, kdup, kswap, pushI, pushF, pushB, pushE, push1, with_elems,
           set_ints, set_floats, set_bools, set_exec, add_out, dup_list, swap_list in H;
    cbn -[N.add N.leb N.ltb N.eqb N.of_nat skipn] in H.

(* which stack an instruction pushes onto (for the fatal-error characterisation) *)
Definition dest (i : instr) : option stk :=
  match i with
  | Dup k => Some k
  | IsEmpty _ | IPred _ | ICmp _ | FCmp _ | BFromInt | PushB _ => Some KBool
  | StackDepth _ | FromBoolean | FromFloatApprox | PushI _ => Some KInt
  | FromIntApprox | PushF _ => Some KFloat
  | PushE _ | DupBlock => Some KExec
  | _ => None
  end.

Section Facts2.
Context (prec : instr -> bool).

(* ---------- C03: every stack stays within its capacity ---------- *)
Lemma perform_plain_wf i s s' : wf s -> perform_plain prec i s = Ok s' -> wf s'.
Proof.
  destruct s as [[ce E] [ci I] [cf F] [cb B] ins out lim].
  unfold wf, wfs, ssize. cbn [exec ints floats bools smax elems]. intros (He & Hi & Hf & Hb) H.
  destruct i; try destruct k; try destruct newline;
    unfold_spec H;
    split_hyp H; try discriminate; inversion H; subst; clear H;
    cbn [exec ints floats bools smax elems]; bools;
    cbn [length skipn] in *; rewrite ?skipn_length; repeat split; try lia;
    match goal with |- context [match ?l with _ => _ end] => destruct l end; cbn [length] in *; lia.
Qed.

Lemma lit_instr_plain l s : perform prec (lit_instr l) s = perform_plain prec (lit_instr l) s.
Proof. destruct l; reflexivity. Qed.

Lemma perform_wf i s s' : wf s -> perform prec i s = Ok s' -> wf s'.
Proof.
  destruct i; try apply perform_plain_wf.
  cbn [perform]. destruct (lookup name (inputs s)); [apply perform_plain_wf|discriminate].
Qed.

Theorem perform_prog_wf p s s' : wf s -> perform_prog prec p s = Ok s' -> wf s'.
Proof.
  destruct p as [i|l]; [apply perform_wf|].
  destruct s as [[ce E] [ci I] [cf F] [cb B] ins out lim].
  unfold wf, wfs, ssize. cbn [perform_prog exec ints floats bools smax elems]. intros (He & Hi & Hf & Hb).
  unfold ssize. cbn [exec smax elems].
  destruct (N.ltb_spec ce (N.of_nat (length l) + N.of_nat (length E))) as [Hlt|Hge]; intros H; inversion H; subst.
  cbn [exec ints floats bools smax elems set_exec with_elems]. rewrite app_length. repeat split; lia.
Qed.

(* ---------- C03: a fatal error is an overflow of a destination that lacks room;
              a recoverable one is a missing operand or an arithmetic fault ---------- *)
Lemma perform_plain_fatal i s s' e :
  perform_plain prec i s = Fatal s' e ->
  e = EOverflow /\ exists k, dest i = Some k /\ kfull k s = true.
Proof.
  intros H. destruct i; try destruct k; try destruct newline;
    unfold_spec H; split_hyp H; try discriminate; inversion H; subst; clear H;
    (split; [reflexivity|]); cbn [dest];
    eexists; (split; [reflexivity|]); unfold kfull, full, ssize; assumption.
Qed.

Lemma perform_plain_rec i s s' e :
  perform_plain prec i s = Rec s' e -> e = EIntOverflow \/ exists a b, e = EUnderflow a b.
Proof.
  intros H. destruct i; try destruct k; try destruct newline;
    unfold_spec H; split_hyp H; try discriminate; inversion H; subst; clear H;
    residual; first [left; reflexivity | right; eexists; eexists; reflexivity].
Qed.

Theorem perform_prog_fatal p s s' e :
  perform_prog prec p s = Fatal s' e ->
  e = EOverflow /\
  match p with
  | PB l => (smax (exec s) < N.of_nat (length l) + ssize (exec s))%N
  | PI (InputVar n) => exists l k, lookup n (inputs s) = Some l /\ dest (lit_instr l) = Some k /\ kfull k s = true
  | PI i => exists k, dest i = Some k /\ kfull k s = true
  end.
Proof.
  destruct p as [i|l]; cbn [perform_prog].
  - destruct i; try (intros H; exact (perform_plain_fatal _ _ _ _ H)).
    cbn [perform]. match goal with |- context [lookup ?n _] => destruct (lookup n (inputs s)) as [l|] eqn:E end; [|discriminate].
    intros H. apply perform_plain_fatal in H. destruct H as [He [k [Hd Hk]]]. split; [exact He|]. eauto.
  - destruct (N.ltb_spec (smax (exec s)) (N.of_nat (length l) + ssize (exec s))) as [Hlt|Hge];
      intros H; inversion H; subst. split; [reflexivity|assumption].
Qed.

Theorem perform_prog_rec p s s' e :
  perform_prog prec p s = Rec s' e -> e = EIntOverflow \/ exists a b, e = EUnderflow a b.
Proof.
  destruct p as [i|l]; cbn [perform_prog].
  - destruct i; try apply perform_plain_rec.
    cbn [perform]. match goal with |- context [lookup ?n _] => destruct (lookup n (inputs s)) end; [apply perform_plain_rec|discriminate].
  - destruct (_ <? _)%N; discriminate.
Qed.

(* the only panic is an unbound input variable *)
Lemma perform_plain_no_panic i s : (forall n, i <> InputVar n) -> perform_plain prec i s <> Panic.
Proof.
  intros Hn H. destruct i; try destruct k; try destruct newline;
    try (exfalso; eapply Hn; reflexivity);
    unfold_spec H; split_hyp H; discriminate.
Qed.

Theorem perform_panic_iff i s :
  perform prec i s = Panic <-> exists n, i = InputVar n /\ lookup n (inputs s) = None.
Proof.
  split.
  - intros H. destruct i; try (exfalso; revert H; apply perform_plain_no_panic; intros ? ?; discriminate).
    cbn [perform] in H. match type of H with context [lookup ?n _] => destruct (lookup n (inputs s)) as [l|] eqn:E end.
    + exfalso. revert H. apply perform_plain_no_panic. intros n. destruct l; discriminate.
    + eauto.
  - intros [n [-> E]]. cbn [perform]. now rewrite E.
Qed.

(* instructions never touch the inputs or the step limit; only printing touches the output *)
Lemma perform_plain_frame i s s' :
  perform_plain prec i s = Ok s' -> inputs s' = inputs s /\ max_steps s' = max_steps s.
Proof.
  intros H. destruct i; try destruct k; try destruct newline;
    unfold_spec H; split_hyp H; try discriminate; inversion H; subst; clear H; split; reflexivity.
Qed.
End Facts2.
