(* The bounded stack of push_vm/stack.rs.

   Two layers:
   - [vstack]: the Vec-level model, values BOTTOM FIRST as the Rust [Vec] holds
     them, every operation written the way stack.rs performs it;
   - [sstack]: the abstract object the property talks about: a capacity and a
     TOP-FIRST list, each operation all-or-nothing.
   [Push/StackRefine.v] proves that the first refines the second over every
   history of operations.                                                     *)
From Coq Require Import List Arith NArith Lia Bool.
Import ListNotations.

Inductive op (T : Type) :=
| OPush (v : T) | OPop | OPop2 | OPop3 | OTop | OTop2 | OTop3
| ODiscard (n : N) | OPushMany (l : list T) | OTryExtend (l : list T)
| OSetMax (n : N) | OSize | OIsEmpty | OIsFull | OMax.
Arguments OPush {T}. Arguments OPop {T}. Arguments OPop2 {T}. Arguments OPop3 {T}.
Arguments OTop {T}. Arguments OTop2 {T}. Arguments OTop3 {T}. Arguments ODiscard {T}.
Arguments OPushMany {T}. Arguments OTryExtend {T}. Arguments OSetMax {T}.
Arguments OSize {T}. Arguments OIsEmpty {T}. Arguments OIsFull {T}. Arguments OMax {T}.

Inductive res (T : Type) :=
| RUnit | RVals (l : list T) | RNum (n : N) | RBool (b : bool)
| RUnderflow (req pres : N) | ROverflow.
Arguments RUnit {T}. Arguments RVals {T}. Arguments RNum {T}. Arguments RBool {T}.
Arguments RUnderflow {T}. Arguments ROverflow {T}.

Definition is_err {T} (r : res T) : bool :=
  match r with RUnderflow _ _ | ROverflow => true | _ => false end.

(* ------------------------------------------------------------------ *)
(* Vec level                                                           *)
Record vstack (T : Type) := VS { vmax : N; vals : list T }.
Arguments VS {T}. Arguments vmax {T}. Arguments vals {T}.

Section Vec.
Context {T : Type}.
Implicit Type s : vstack T.

Definition vlen s : nat := length (vals s).
Definition vsize s : N := N.of_nat (vlen s).

(* values.last() *)
Definition v_last s : option T := nth_error (vals s) (vlen s - 1).
(* values.get(i) *)
Definition v_get s (i : nat) : option T := nth_error (vals s) i.
(* values.pop() *)
Definition v_vecpop s : option (T * vstack T) :=
  match v_last s with
  | Some x => Some (x, VS (vmax s) (firstn (vlen s - 1) (vals s)))
  | None => None
  end.

Definition v_top s : res T :=
  match v_last s with Some x => RVals [x] | None => RUnderflow 1 0 end.

(* size().checked_sub(2) ?; top()? ; values.get(size-2) *)
Definition v_top2 s : res T :=
  if (vlen s <? 2)%nat then RUnderflow 2 (vsize s) else
  match v_last s with
  | None => RUnderflow 1 0
  | Some x =>
    match v_get s (vlen s - 2) with
    | None => RUnderflow 2 1
    | Some y => RVals [x; y]
    end
  end.

Definition v_top3 s : res T :=
  if (vlen s <? 3)%nat then RUnderflow 3 (vsize s) else
  match v_last s with
  | None => RUnderflow 1 0
  | Some x =>
    match v_get s (vlen s - 3 + 1) with
    | None => RUnderflow 3 (vsize s - 1)
    | Some y =>
      match v_get s (vlen s - 3) with
      | None => RUnderflow 3 (vsize s - 2)
      | Some z => RVals [x; y; z]
      end
    end
  end.

Definition v_pop s : vstack T * res T :=
  match v_vecpop s with
  | Some (x, s') => (s', RVals [x])
  | None => (s, RUnderflow 1 0)
  end.

(* if size >= 2 { pop()?; pop()? } else underflow(2, size) *)
Definition v_pop2 s : vstack T * res T :=
  if (2 <=? vlen s)%nat then
    match v_vecpop s with
    | None => (s, RUnderflow 1 0)
    | Some (x, s1) =>
      match v_vecpop s1 with
      | None => (s1, RUnderflow 1 0)
      | Some (y, s2) => (s2, RVals [x; y])
      end
    end
  else (s, RUnderflow 2 (vsize s)).

Definition v_pop3 s : vstack T * res T :=
  if (3 <=? vlen s)%nat then
    match v_vecpop s with
    | None => (s, RUnderflow 1 0)
    | Some (x, s1) =>
      match v_vecpop s1 with
      | None => (s1, RUnderflow 1 0)
      | Some (y, s2) =>
        match v_vecpop s2 with
        | None => (s2, RUnderflow 1 0)
        | Some (z, s3) => (s3, RVals [x; y; z])
        end
      end
    end
  else (s, RUnderflow 3 (vsize s)).

(* for _ in 0..n { pop()? } *)
Fixpoint v_popn (n : nat) s : vstack T * res T :=
  match n with
  | O => (s, RUnit)
  | S n' =>
    match v_vecpop s with
    | None => (s, RUnderflow 1 0)
    | Some (_, s') => v_popn n' s'
    end
  end.

Definition v_discard (n : N) s : vstack T * res T :=
  if (vsize s <? n)%N then (s, RUnderflow n (vsize s)) else v_popn (N.to_nat n) s.

(* if size >= max { overflow } else values.push(v)        [>= : see D6] *)
Definition v_push (v : T) s : vstack T * res T :=
  if (vmax s <=? vsize s)%N then (s, ROverflow) else (VS (vmax s) (vals s ++ [v]), RUnit).

(* if len + size > max { overflow } else values.extend(iter.rev()) *)
Definition v_push_many (l : list T) s : vstack T * res T :=
  if (vmax s <? N.of_nat (length l) + vsize s)%N then (s, ROverflow)
  else (VS (vmax s) (vals s ++ rev l), RUnit).

(* extend(iter.take(max ∸ len)); if iter.next().is_some() { truncate(len); overflow }
   else values[len..].reverse() *)
Definition v_try_extend (l : list T) s : vstack T * res T :=
  let cur := vlen s in
  let room := N.to_nat (vmax s - vsize s) in
  let v1 := vals s ++ firstn room l in
  match skipn room l with
  | _ :: _ => (VS (vmax s) (firstn cur v1), ROverflow)
  | [] => (VS (vmax s) (firstn cur v1 ++ rev (skipn cur v1)), RUnit)
  end.

Definition vstep s (o : op T) : vstack T * res T :=
  match o with
  | OPush v => v_push v s
  | OPop => v_pop s
  | OPop2 => v_pop2 s
  | OPop3 => v_pop3 s
  | OTop => (s, v_top s)
  | OTop2 => (s, v_top2 s)
  | OTop3 => (s, v_top3 s)
  | ODiscard n => v_discard n s
  | OPushMany l => v_push_many l s
  | OTryExtend l => v_try_extend l s
  | OSetMax n => (VS n (vals s), RUnit)
  | OSize => (s, RNum (vsize s))
  | OIsEmpty => (s, RBool (match vals s with [] => true | _ => false end))
  | OIsFull => (s, RBool (vsize s =? vmax s)%N)
  | OMax => (s, RNum (vmax s))
  end.
End Vec.

(* ------------------------------------------------------------------ *)
(* Abstract LIFO                                                       *)
Record sstack (T : Type) := SS { smax : N; elems : list T }.   (* top first *)
Arguments SS {T}. Arguments smax {T}. Arguments elems {T}.

Section Spec.
Context {T : Type}.
Implicit Type s : sstack T.

Definition ssize s : N := N.of_nat (length (elems s)).

Definition sstep s (o : op T) : sstack T * res T :=
  match o with
  | OPush v => if (smax s <=? ssize s)%N then (s, ROverflow) else (SS (smax s) (v :: elems s), RUnit)
  | OPop => match elems s with x :: r => (SS (smax s) r, RVals [x]) | [] => (s, RUnderflow 1 0) end
  | OPop2 => match elems s with x :: y :: r => (SS (smax s) r, RVals [x; y]) | _ => (s, RUnderflow 2 (ssize s)) end
  | OPop3 => match elems s with x :: y :: z :: r => (SS (smax s) r, RVals [x; y; z]) | _ => (s, RUnderflow 3 (ssize s)) end
  | OTop => (s, match elems s with x :: _ => RVals [x] | [] => RUnderflow 1 0 end)
  | OTop2 => (s, match elems s with x :: y :: _ => RVals [x; y] | _ => RUnderflow 2 (ssize s) end)
  | OTop3 => (s, match elems s with x :: y :: z :: _ => RVals [x; y; z] | _ => RUnderflow 3 (ssize s) end)
  | ODiscard n => if (ssize s <? n)%N then (s, RUnderflow n (ssize s))
                  else (SS (smax s) (skipn (N.to_nat n) (elems s)), RUnit)
  | OPushMany l => if (smax s <? N.of_nat (length l) + ssize s)%N then (s, ROverflow)
                   else (SS (smax s) (l ++ elems s), RUnit)
  | OTryExtend l => if (smax s - ssize s <? N.of_nat (length l))%N then (s, ROverflow)
                    else (SS (smax s) (l ++ elems s), RUnit)
  | OSetMax n => (SS n (elems s), RUnit)
  | OSize => (s, RNum (ssize s))
  | OIsEmpty => (s, RBool (match elems s with [] => true | _ => false end))
  | OIsFull => (s, RBool (ssize s =? smax s)%N)
  | OMax => (s, RNum (smax s))
  end.

(* running a history, collecting every result *)
Fixpoint srun (h : list (op T)) s : sstack T * list (res T) :=
  match h with
  | [] => (s, [])
  | o :: h' => let '(s1, r) := sstep s o in let '(s2, rs) := srun h' s1 in (s2, r :: rs)
  end.
End Spec.

Fixpoint vrun {T} (h : list (op T)) (s : vstack T) : vstack T * list (res T) :=
  match h with
  | [] => (s, [])
  | o :: h' => let '(s1, r) := vstep s o in let '(s2, rs) := vrun h' s1 in (s2, r :: rs)
  end.

Definition abs {T} (s : vstack T) : sstack T := SS (vmax s) (rev (vals s)).
