(* An independent printer for programs and the round trip parse (unparse p) = p on
   well-shaped programs: pins that a Close ends the INNERMOST open block and that the
   blocks an instruction opens are the ones immediately following it. *)
From Coq Require Import List Arith Lia Bool.
From UEC Require Import Push.Stack Push.Syntax Push.Plushy.
Import ListNotations.

Fixpoint unp (p : prog) : list gene :=
  match p with
  | PI i => [G i]
  | PB l => flat_map unp l ++ [Close]
  end.
Definition unparse (l : list prog) : list gene := flat_map unp l.

Lemma unparse_cons p l : unparse (p :: l) = unp p ++ unparse l.
Proof. reflexivity. Qed.
Lemma unparse_app a b : unparse (a ++ b) = unparse a ++ unparse b.
Proof. unfold unparse. now rewrite flat_map_app. Qed.

(* what a parse at level [top] does when it meets [tail] with nothing before it *)
Definition fin (top : bool) (tail : list gene) : option (list gene * bool) :=
  match tail with
  | [] => Some ([], false)
  | Close :: t => if top then None else Some (t, true)
  | G _ :: _ => None
  end.

Definition Q (e : nat) (l : list prog) : Prop :=
  forall top tail r c f, fin top tail = Some (r, c) -> length (unparse l ++ tail) < f ->
    exists bs rest, l = bs ++ rest /\
      blocks_with (parse f false) e (unparse l ++ tail) = Some (bs, unparse rest ++ tail) /\
      parse f top (unparse rest ++ tail) = Some (rest, r, c).

Lemma shaped_Q e l : shaped e l -> Q e l.
Proof.
  induction 1 as [|i r Hs IH|b e r Hb IHb Hr IHr]; intros top tail r0 c f Hfin Hlen.
  - exists [], []. split; [reflexivity|]. split; [reflexivity|].
    cbn [unparse flat_map app] in *. destruct f as [|f]; [lia|].
    destruct tail as [|[|j] t]; cbn in Hfin.
    + injection Hfin as <- <-. reflexivity.
    + destruct top; [discriminate|]. injection Hfin as <- <-. reflexivity.
    + discriminate.
  - exists [], (PI i :: r). split; [reflexivity|]. split; [reflexivity|].
    rewrite unparse_cons in *. cbn [unp app] in *. destruct f as [|f]; [cbn in Hlen; lia|].
    cbn [length] in Hlen.
    destruct (IH top tail r0 c f Hfin ltac:(lia)) as (bs & rest & -> & Eb & Ep).
    cbn [parse]. rewrite Eb, Ep. reflexivity.
  - rewrite unparse_cons in *. cbn [unp] in *.
    rewrite <- !app_assoc in *. cbn [app] in *.
    destruct (IHb false (Close :: unparse r ++ tail) (unparse r ++ tail) true f eq_refl Hlen)
      as (bs0 & rest0 & -> & Eb0 & Ep0).
    cbn [blocks_with] in Eb0. injection Eb0 as <- E0.
    assert (Hlen' : length (unparse r ++ tail) < f).
    { rewrite !app_length in *. cbn [length] in Hlen. rewrite app_length in Hlen. lia. }
    destruct (IHr top tail r0 c f Hfin Hlen') as (bs & rest & -> & Eb & Ep).
    exists (PB rest0 :: bs), rest. split; [reflexivity|].
    cbn [blocks_with app]. fold (unparse rest0). rewrite Ep0, Eb. split; [reflexivity|exact Ep].
Qed.

Theorem parse_unparse p : shaped 0 p -> parse_top (unparse p) = Some p.
Proof.
  intros H. unfold parse_top.
  destruct (shaped_Q _ _ H true [] [] false (S (length (unparse p))) eq_refl) as (bs & rest & -> & Eb & Ep).
  { rewrite app_nil_r. lia. }
  cbn [blocks_with] in Eb. injection Eb as <- _. cbn [app] in *.
  rewrite app_nil_r in Ep. now rewrite Ep.
Qed.

(* the printer inverts the parser up to the canonical form of a genome: printing what
   was parsed and parsing again gives the same program (parse is idempotent through unparse) *)
Corollary parse_canonical g p : parse_top g = Some p -> parse_top (unparse p) = Some p.
Proof. intros H. apply parse_unparse. eapply parse_top_shaped; eassumption. Qed.

(* the printed genome has exactly the program's instructions, in depth-first order *)
Lemma instrs_app a b : instrs (a ++ b) = instrs a ++ instrs b.
Proof. unfold instrs. now rewrite flat_map_app. Qed.

Lemma instrs_unp : forall p, instrs (unp p) = flat p.
Proof.
  fix IH 1. intros [i|b]; [reflexivity|].
  cbn [unp flat]. rewrite instrs_app. cbn. rewrite app_nil_r.
  induction b as [|x xs IHxs]; [reflexivity|].
  cbn [flat_map]. rewrite instrs_app, (IH x). f_equal. exact IHxs.
Qed.

Lemma instrs_unparse l : instrs (unparse l) = flats l.
Proof.
  induction l as [|p l IHl]; [reflexivity|].
  rewrite unparse_cons, instrs_app, instrs_unp, IHl. reflexivity.
Qed.

Theorem parse_canonical_full g p : parse_top g = Some p -> parse_top (unparse p) = Some p /\ instrs (unparse p) = instrs g.
Proof. intros H. split; [exact (parse_canonical g p H)|]. rewrite instrs_unparse. exact (parse_top_flat g p H). Qed.
