(* Refinement: the Vec-level stack implements the abstract LIFO, for every
   operation and hence every history of operations. *)
From Coq Require Import List Arith NArith Lia Bool.
From UEC Require Import Push.Stack.
Import ListNotations.

Section Refine.
Context {T : Type}.

Lemma last_rev m (x : T) r : v_last (VS m (rev (x :: r))) = Some x.
Proof.
  unfold v_last, vlen. cbn [vals rev]. rewrite app_length. cbn [length].
  replace (length (rev r) + 1 - 1) with (length (rev r)) by lia.
  rewrite nth_error_app2 by lia. now rewrite Nat.sub_diag.
Qed.

Lemma last_nil m : v_last (VS m (@nil T)) = None.
Proof. reflexivity. Qed.

Lemma vecpop_rev m (x : T) r :
  v_vecpop (VS m (rev (x :: r))) = Some (x, VS m (rev r)).
Proof.
  unfold v_vecpop. rewrite last_rev. unfold vlen. cbn [vals vmax rev].
  rewrite app_length. cbn [length].
  replace (length (rev r) + 1 - 1) with (length (rev r)) by lia.
  rewrite firstn_app, firstn_all, Nat.sub_diag. cbn. now rewrite app_nil_r.
Qed.

Lemma vecpop_nil m : v_vecpop (VS m (@nil T)) = None.
Proof. reflexivity. Qed.

Lemma vlen_rev m (l : list T) : vlen (VS m (rev l)) = length l.
Proof. unfold vlen. cbn. apply rev_length. Qed.

Lemma vsize_rev m (l : list T) : vsize (VS m (rev l)) = N.of_nat (length l).
Proof. unfold vsize. now rewrite vlen_rev. Qed.


Lemma nth_error_rev (l : list T) i :
  i < length l -> nth_error (rev l) (length l - S i) = nth_error l i.
Proof.
  revert i. induction l as [|x l IH]; intros i Hi; cbn [length] in *; [lia|].
  cbn [rev]. destruct i as [|i].
  - replace (S (length l) - 1) with (length (rev l)) by (rewrite rev_length; lia).
    rewrite nth_error_app2 by lia. now rewrite Nat.sub_diag.
  - cbn [nth_error]. replace (S (length l) - S (S i)) with (length l - S i) by lia.
    rewrite nth_error_app1 by (rewrite rev_length; lia). apply IH. lia.
Qed.

Lemma popn_rev m n (l : list T) :
  n <= length l -> v_popn n (VS m (rev l)) = (VS m (rev (skipn n l)), RUnit).
Proof.
  revert l. induction n as [|n IH]; intros l Hn; [reflexivity|].
  destruct l as [|x l]; cbn [length] in Hn; [lia|].
  cbn [v_popn]. rewrite vecpop_rev. cbn [skipn]. apply IH. lia.
Qed.

Theorem vstep_refines m (l : list T) o :
  vstep (VS m (rev l)) o =
  let '(s', r) := sstep (SS m l) o in (VS (smax s') (rev (elems s')), r).
Proof.
  destruct o as [v| | | | | | |n|k|k|n| | | |]; cbn [vstep sstep smax elems].
  - (* push *) unfold v_push. rewrite vsize_rev. unfold ssize. cbn [vmax vals elems smax].
    destruct (m <=? N.of_nat (length l))%N; reflexivity.
  - (* pop *) unfold v_pop. destruct l as [|x r]; [reflexivity|]. now rewrite vecpop_rev.
  - (* pop2 *) unfold v_pop2. rewrite vlen_rev, vsize_rev.
    destruct l as [|x [|y r]]; try reflexivity.
    cbn [length Nat.leb]. now rewrite !vecpop_rev.
  - (* pop3 *) unfold v_pop3. rewrite vlen_rev, vsize_rev.
    destruct l as [|x [|y [|z r]]]; try reflexivity.
    cbn [length Nat.leb]. now rewrite !vecpop_rev.
  - (* top *) unfold v_top. destruct l as [|x r]; [reflexivity|]. now rewrite last_rev.
  - (* top2 *) unfold v_top2. rewrite vlen_rev, vsize_rev.
    destruct l as [|x [|y r]]; try reflexivity.
    rewrite last_rev. unfold v_get. cbn [vals].
    rewrite (nth_error_rev (x :: y :: r) 1) by (cbn; lia). reflexivity.
  - (* top3 *) unfold v_top3. rewrite vlen_rev, vsize_rev.
    destruct l as [|x [|y [|z r]]]; try reflexivity.
    rewrite last_rev. unfold v_get. cbn [vals].
    replace (length (x :: y :: z :: r) - 3 + 1) with (length (x :: y :: z :: r) - 2) by (cbn; lia).
    rewrite (nth_error_rev (x :: y :: z :: r) 1) by (cbn; lia).
    rewrite (nth_error_rev (x :: y :: z :: r) 2) by (cbn; lia). reflexivity.
  - (* discard *) unfold v_discard. rewrite vsize_rev. unfold ssize. cbn [elems smax].
    destruct (N.ltb_spec (N.of_nat (length l)) n) as [Hlt|Hge]; [reflexivity|].
    apply popn_rev. lia.
  - (* push_many *) unfold v_push_many. rewrite vsize_rev. unfold ssize. cbn [vmax vals elems smax].
    destruct (m <? _)%N; [reflexivity|]. cbn [smax elems]. now rewrite rev_app_distr.
  - (* try_extend *) unfold v_try_extend. rewrite vsize_rev, vlen_rev. unfold ssize.
    cbn [vmax vals elems smax].
    set (room := N.to_nat (m - N.of_nat (length l))).
    destruct (N.ltb_spec (m - N.of_nat (length l)) (N.of_nat (length k))) as [Hlt|Hge].
    + (* more supplied than fits: rolled back *)
      assert (Hr : room < length k) by (unfold room; lia). clearbody room.
      destruct (skipn room k) as [|a t] eqn:E.
      { apply (f_equal (@length T)) in E. rewrite skipn_length in E. cbn [length] in E. lia. }
      rewrite firstn_app, rev_length, Nat.sub_diag. cbn [firstn].
      rewrite app_nil_r. rewrite <- (rev_length l) at 1. now rewrite firstn_all.
    + assert (Hr : length k <= room) by (unfold room; lia). clearbody room.
      rewrite skipn_all2 by lia. rewrite (@firstn_all2 T room k) by lia.
      rewrite firstn_app, rev_length, Nat.sub_diag. cbn [firstn]. rewrite app_nil_r.
      rewrite <- (rev_length l) at 1. rewrite firstn_all.
      rewrite <- (rev_length l) at 1. rewrite skipn_app, skipn_all, Nat.sub_diag. cbn [skipn app].
      cbn [smax elems]. now rewrite rev_app_distr.
  - reflexivity.
  - now rewrite vsize_rev.
  - destruct l as [|x r]; [reflexivity|]. cbn [vals rev].
    destruct (rev r ++ [x]) eqn:E; [|reflexivity]. now apply app_eq_nil in E as [_ E].
  - rewrite vsize_rev. reflexivity.
  - reflexivity.
Qed.

(* one step, stated through the abstraction function *)
Corollary vstep_abs (s : vstack T) o :
  let '(s', r) := vstep s o in sstep (abs s) o = (abs s', r).
Proof.
  destruct s as [m vs]. unfold abs at 1. cbn [vmax vals].
  pose proof (vstep_refines m (rev vs) o) as H. rewrite rev_involutive in H.
  rewrite H. destruct (sstep (SS m (rev vs)) o) as [[m' l'] r]. cbn [smax elems].
  unfold abs. cbn [vmax vals]. now rewrite rev_involutive.
Qed.

(* every history: the final abstract states and ALL results coincide *)
Theorem vrun_refines (h : list (op T)) (s : vstack T) :
  let '(s', rs) := vrun h s in srun h (abs s) = (abs s', rs).
Proof.
  revert s. induction h as [|o h IH]; intros s; [reflexivity|].
  cbn [vrun srun]. pose proof (vstep_abs s o) as H1.
  destruct (vstep s o) as [s1 r]. rewrite H1.
  specialize (IH s1). destruct (vrun h s1) as [s2 rs]. now rewrite IH.
Qed.
End Refine.
