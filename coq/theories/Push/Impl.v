(* The implementation layer: every instruction composed the way the Rust composes it, out of the
   stack operations (top / top2 / pop / pop2 / push / discard - the abstract forms, which C04 proves
   equal to the Vec-level ones) and the helper combinators of push_vm/stack.rs (with_push,
   with_replace, push_onto, replace_on, with_stack_discard, not_full).  State threading is explicit:
   e.g. [Not] pops, THEN pushes onto the state that has already lost the operand.
   Push/Refine.v proves that on well-formed states this layer equals the table Spec.perform. *)
From Coq Require Import List ZArith NArith Floats Bool.
From UEC Require Import Base.I64 Base.F64 Push.Stack Push.Syntax Push.Spec.
Import ListNotations.

(* ---- stack operations (abstract LIFO level) ---- *)
Definition st_top {T} (s : sstack T) : T + err :=
  match elems s with x :: _ => inl x | [] => inr (EUnderflow 1 0) end.
Definition st_top2 {T} (s : sstack T) : (T * T) + err :=
  match elems s with x :: y :: _ => inl (x, y) | _ => inr (EUnderflow 2 (ssize s)) end.
Definition st_top3 {T} (s : sstack T) : (T * T * T) + err :=
  match elems s with x :: y :: z :: _ => inl (x, y, z) | _ => inr (EUnderflow 3 (ssize s)) end.
Definition st_pop {T} (s : sstack T) : (T * sstack T) + err :=
  match elems s with x :: r => inl (x, SS (smax s) r) | [] => inr (EUnderflow 1 0) end.
Definition st_pop2 {T} (s : sstack T) : (T * T * sstack T) + err :=
  match elems s with x :: y :: r => inl (x, y, SS (smax s) r) | _ => inr (EUnderflow 2 (ssize s)) end.
Definition st_push {T} (v : T) (s : sstack T) : sstack T + err :=
  if (smax s <=? ssize s)%N then inr EOverflow else inl (SS (smax s) (v :: elems s)).
Definition st_discard {T} (n : nat) (s : sstack T) : sstack T + err :=
  if (ssize s <? N.of_nat n)%N then inr (EUnderflow (N.of_nat n) (ssize s)) else inl (SS (smax s) (skipn n (elems s))).
(* Stack::is_full compares with == *)
Definition st_is_full {T} (s : sstack T) : bool := (ssize s =? smax s)%N.

(* ---- access to the four stacks of a state ---- *)
Record lens (T : Type) := { lget : state -> sstack T; lset : sstack T -> state -> state }.
Arguments lget {T}. Arguments lset {T}.
Definition Lint : lens Z := {| lget := ints; lset := set_ints |}.
Definition Lfloat : lens float := {| lget := floats; lset := set_floats |}.
Definition Lbool : lens bool := {| lget := bools; lset := set_bools |}.
Definition Lexec : lens prog := {| lget := exec; lset := set_exec |}.

Section Helpers.
Context {T : Type} (L : lens T).

(* HasStack::with_push: Fatal carries `self` (the push did not happen) *)
Definition with_push (v : T) (s : state) : outcome :=
  match st_push v (lget L s) with inl st' => Ok (lset L st' s) | inr e => Fatal s e end.
(* HasStack::with_replace: discard, then with_push on the state that has lost the operands *)
Definition with_replace (n : nat) (v : T) (s : state) : outcome :=
  match st_discard n (lget L s) with
  | inl st' => with_push v (lset L st' s)
  | inr e => Fatal s e
  end.
(* PushOnto for Result<T, E> *)
Definition push_onto (r : T + err) (s : state) : outcome :=
  match r with inl v => with_push v s | inr e => Rec s e end.
Definition replace_on (n : nat) (r : T + err) (s : state) : outcome :=
  match r with inl v => with_replace n v s | inr e => Rec s e end.
(* StackDiscard for InstructionResult *)
Definition with_stack_discard (n : nat) (o : outcome) : outcome :=
  match o with
  | Ok s => match st_discard n (lget L s) with inl st' => Ok (lset L st' s) | inr e => Fatal s e end
  | o => o
  end.
(* HasStack::not_full *)
Definition not_full (s : state) : outcome := if st_is_full (lget L s) then Fatal s EOverflow else Ok s.

(* common instructions, generic in the stack *)
Definition i_pop (s : state) : outcome :=
  match st_pop (lget L s) with inl (_, st') => Ok (lset L st' s) | inr e => Rec s e end.
Definition i_dup (s : state) : outcome := push_onto (st_top (lget L s)) s.
Definition i_swap (s : state) : outcome :=
  match st_pop2 (lget L s) with
  | inl (x, y, st') =>
    match with_push x (lset L st' s) with
    | Ok s1 => with_push y s1
    | o => o
    end
  | inr e => Rec s e
  end.
(* while stack.pop().is_ok() {} *)
Fixpoint drain (fuel : nat) (st : sstack T) : sstack T :=
  match fuel with
  | O => st
  | S f => match st_pop st with inl (_, st') => drain f st' | inr _ => st end
  end.
Definition i_flush (s : state) : outcome := Ok (lset L (drain (length (elems (lget L s))) (lget L s)) s).
Definition size_of (s : state) : N := ssize (lget L s).
Definition is_empty_of (s : state) : bool := match elems (lget L s) with [] => true | _ => false end.
End Helpers.

Definition sum_map {A B} (f : A -> B) (r : A + err) : B + err := match r with inl a => inl (f a) | inr e => inr e end.
Definition sum_bind {A B} (r : A + err) (f : A -> B + err) : B + err := match r with inl a => f a | inr e => inr e end.
Definition ovf (o : option Z) : Z + err := match o with Some v => inl v | None => inr EIntOverflow end.

(* printing: pop, then append to the output *)
Definition i_print {T} (L : lens T) (tok : T -> token) (nl : bool) (s : state) : outcome :=
  match st_pop (lget L s) with
  | inl (v, st') => Ok (add_out (tok v :: if nl then [TChar 10] else []) (lset L st' s))
  | inr e => Rec s e
  end.

Definition generic (k : stk) (f : forall T, lens T -> state -> outcome) (s : state) : outcome :=
  match k with KInt => f _ Lint s | KFloat => f _ Lfloat s | KBool => f _ Lbool s | KExec => f _ Lexec s end.

Definition perform_plain (i : instr) (s : state) : outcome :=
  match i with
  | Pop k => generic k (@i_pop) s
  | Dup k => generic k (@i_dup) s
  | Swap k => generic k (@i_swap) s
  | Flush k => generic k (@i_flush) s
  | IsEmpty k => with_push Lbool (match k with KInt => is_empty_of Lint s | KFloat => is_empty_of Lfloat s
                                               | KBool => is_empty_of Lbool s | KExec => is_empty_of Lexec s end) s
  | StackDepth k => with_push Lint (depth_value (ksize k s)) s
  | PushI z => with_push Lint z s
  | PushF f => with_push Lfloat f s
  | PushB b => with_push Lbool b s
  | PushE p => with_push Lexec p s
  | Print VInt nl => i_print Lint TInt nl s
  | Print VFloat nl => i_print Lfloat TFloat nl s
  | Print VBool nl => i_print Lbool TBool nl s
  (* int_stack.top().map(..).and_then(overflow?).replace_on(1, state) *)
  | IUn o => replace_on Lint 1 (sum_bind (st_top (ints s)) (fun x => ovf (iun_fn o x))) s
  | ISat o => replace_on Lint 1 (sum_map (isat_fn o) (st_top (ints s))) s
  | IBin o => replace_on Lint 2 (sum_bind (st_top2 (ints s)) (fun '(x, y) => ovf (ibin_fn o x y))) s
  | IMm o => replace_on Lint 2 (sum_map (fun '(x, y) => imm_fn o x y) (st_top2 (ints s))) s
  | Clamp => replace_on Lint 3 (sum_map (fun '(x, y, z) => clamp_fn x y z) (st_top3 (ints s))) s
  (* if bool.is_full() { fatal } ; int_stack.top().map(p).push_onto(state).with_stack_discard::<i64>(1) *)
  | IPred p =>
    if st_is_full (bools s) then Fatal s EOverflow
    else with_stack_discard Lint 1 (push_onto Lbool (sum_map (ipred_fn p) (st_top (ints s))) s)
  | ICmp c =>
    if st_is_full (bools s) then Fatal s EOverflow
    else with_stack_discard Lint 2 (push_onto Lbool (sum_map (fun '(x, y) => icmp_fn c x y) (st_top2 (ints s))) s)
  | FromBoolean =>
    with_stack_discard Lbool 1 (push_onto Lint (sum_map (fun b : bool => if b then 1 else 0)%Z (st_top (bools s))) s)
  | FromFloatApprox => with_stack_discard Lfloat 1 (push_onto Lint (sum_map f2i (st_top (floats s))) s)
  | FBin o => replace_on Lfloat 2 (sum_map (fun '(x, y) => fbin_fn o x y) (st_top2 (floats s))) s
  | FCmp c =>
    if st_is_full (bools s) then Fatal s EOverflow
    else with_stack_discard Lfloat 2 (push_onto Lbool (sum_map (fun '(x, y) => fcmp_fn c x y) (st_top2 (floats s))) s)
  | FromIntApprox => with_stack_discard Lint 1 (push_onto Lfloat (sum_map i2f (st_top (ints s))) s)
  (* bool_stack.pop().map(not).push_onto(state): the state has already lost the operand *)
  | BNot =>
    match st_pop (bools s) with
    | inl (x, st') => push_onto Lbool (inl (negb x)) (set_bools st' s)
    | inr e => push_onto Lbool (inr e) s
    end
  | BBin o =>
    match st_pop2 (bools s) with
    | inl (x, y, st') => push_onto Lbool (inl (bbin_fn o x y)) (set_bools st' s)
    | inr e => push_onto Lbool (inr e) s
    end
  | BFromInt =>
    match not_full Lbool s with
    | Ok s1 =>
      match st_pop (ints s1) with
      | inl (x, st') => push_onto Lbool (inl (negb (Z.eqb x 0))) (set_ints st' s1)
      | inr e => push_onto Lbool (inr e) s1
      end
    | o => o
    end
  | Noop => Ok s
  | DupBlock => i_dup Lexec s
  (* match (condition, block) { ... } *)
  | When =>
    match st_top (bools s), st_top (exec s) with
    | inl true, inl _ => with_stack_discard Lbool 1 (Ok s)
    | inl false, inl _ => with_stack_discard Lexec 1 (with_stack_discard Lbool 1 (Ok s))
    | inr _, inl _ => with_stack_discard Lexec 1 (Ok s)
    | inl _, inr _ => Ok s
    | inr _, inr e => Rec s e
    end
  | Unless =>
    match st_top (bools s), st_top (exec s) with
    | inl false, inl _ => with_stack_discard Lbool 1 (Ok s)
    | inl true, inl _ => with_stack_discard Lexec 1 (with_stack_discard Lbool 1 (Ok s))
    | inl _, inr _ => Ok s
    | inr _, inl _ => Ok s
    | inr _, inr e => Rec s e
    end
  | IfElse =>
    let cond := st_top (bools s) in
    let top_block := st_top (exec s) in
    let top2 := st_top2 (exec s) in
    let then_ := match top2 with inl (a, _) => inl a | inr _ => top_block end in
    let else_ := sum_map (fun '(_, b) => b) top2 in
    match cond, then_, else_ with
    | inl false, inl _, inl _ => with_stack_discard Lexec 1 (with_stack_discard Lbool 1 (Ok s))
    | inl true, inl _, inl _ =>
      match st_pop (bools s) with
      | inr e => Fatal s e
      | inl (_, b') =>
        let s1 := set_bools b' s in
        match st_pop2 (exec s1) with
        | inr e => Fatal s1 e
        | inl (t, _, e') => with_push Lexec t (set_exec e' s1)
        end
      end
    | inl c, inl _, inr _ =>
      (* When.perform(state) *)
      if c then with_stack_discard Lbool 1 (Ok s) else with_stack_discard Lexec 1 (with_stack_discard Lbool 1 (Ok s))
    | inr _, inl _, _ => with_stack_discard Lexec 1 (Ok s)
    | _, inr _, inr e => Rec s e
    | _, inr _, inl _ => Panic  (* unreachable!: an `else` block without a `then` block *)
    end
  | InputVar _ => Panic
  | PrintSpace => Ok (add_out [TChar 32] s)
  | PrintNewline => Ok (add_out [TChar 10] s)
  | PrintPeriod => Ok (add_out [TChar 46] s)
  | PrintString id => Ok (add_out [TStr id] s)
  end.

Definition perform (i : instr) (s : state) : outcome :=
  match i with
  | InputVar n =>
    match lookup n (inputs s) with
    | Some l => perform_plain (lit_instr l) s
    | None => Panic
    end
  | _ => perform_plain i s
  end.

(* Vec<I>::perform: push_many(self.iter().cloned()) *)
Definition perform_prog (p : prog) (s : state) : outcome :=
  match p with
  | PI i => perform i s
  | PB l => if (smax (exec s) <? N.of_nat (length l) + ssize (exec s))%N then Fatal s EOverflow
            else Ok (set_exec (SS (smax (exec s)) (l ++ elems (exec s))) s)
  end.
