(* A program that reads named inputs: every `InputVar n` pushes the integer bound to n, whatever else is declared
   and in whatever order - the closed form the correspondence for "very many distinctly named inputs" compares with. *)
From Coq Require Import List ZArith NArith Bool Lia.
From UEC Require Import Base.Iter Push.Stack Push.Syntax Push.Spec Push.Run.
Import ListNotations.

Section Reads.
Context (prec : instr -> bool).

Definition reads (names : list Z) : list prog := map (fun n => PI (InputVar n)) names.

(* the state after the program has read `vs` (in that order) with `rest` still to be executed *)
Definition after_reads (s : state) (rest : list prog) (vs : list Z) : state :=
  set_ints (SS (smax (ints s)) (rev vs ++ elems (ints s))) (set_exec (with_elems rest (exec s)) s).

Lemma after_reads_nil s : after_reads s (elems (exec s)) [] = s.
Proof. destruct s as [[me ee] [mi ei] f b i o m]. reflexivity. Qed.

(* one step: an InputVar whose name is bound to an integer, with room on the int stack *)
Lemma step_read s k n v rest :
  elems (exec s) = PI (InputVar n) :: rest -> lookup n (inputs s) = Some (LInt v) ->
  (ssize (ints s) < smax (ints s))%N ->
  step prec (Running s k) = Running (after_reads s rest [v]) (k + 1).
Proof.
  intros He Hl Hroom. cbn [step]. unfold pop_exec. rewrite He.
  cbn [perform_prog perform]. cbn [inputs set_exec]. rewrite Hl. cbn [lit_instr perform_plain].
  unfold full. cbn [ints set_exec]. destruct (N.leb_spec (smax (ints s)) (ssize (ints s))) as [Hle|Hlt]; [lia|].
  reflexivity.
Qed.

(* all of them: after |names| steps the int stack holds the values, the last one read on top *)
Lemma reads_run names : forall s k vs rest,
  elems (exec s) = reads names ++ rest ->
  Forall2 (fun n v => lookup n (inputs s) = Some (LInt v)) names vs ->
  (ssize (ints s) + N.of_nat (length names) <= smax (ints s))%N ->
  iter_nat halted (step prec) (length names) (Running s k) = Running (after_reads s rest vs) (k + N.of_nat (length names)).
Proof.
  induction names as [|n names IH]; intros s k vs rest He Hf Hroom.
  - inversion Hf; subst. cbn [length iter_nat reads map app] in *. rewrite N.add_0_r. f_equal.
    rewrite <- He. symmetry. apply after_reads_nil.
  - inversion Hf as [|? v ? vs' Hl Hf']; subst. cbn [length iter_nat halted].
    cbn [reads map app] in He. fold (reads names) in He.
    assert (Hr : (ssize (ints s) < smax (ints s))%N) by (cbn [length] in Hroom; lia).
    rewrite (step_read s k n v (reads names ++ rest) He Hl Hr).
    set (s1 := after_reads s (reads names ++ rest) [v]).
    assert (He1 : elems (exec s1) = reads names ++ rest) by reflexivity.
    assert (Hi1 : inputs s1 = inputs s) by reflexivity.
    assert (Hf1 : Forall2 (fun n v => lookup n (inputs s1) = Some (LInt v)) names vs') by (rewrite Hi1; exact Hf').
    assert (Hroom1 : (ssize (ints s1) + N.of_nat (length names) <= smax (ints s1))%N).
    { unfold s1, after_reads, ssize in *. cbn [ints set_ints set_exec elems smax rev app length] in *. lia. }
    rewrite (IH s1 (k + 1)%N vs' rest He1 Hf1 Hroom1). f_equal.
    + unfold s1, after_reads. destruct s as [[me ee] [mi ei] f b i o m]. cbn.
      rewrite <- app_assoc. reflexivity.
    + cbn [length]. lia.
Qed.

(* the whole evaluation: a program consisting of reads only, run with enough steps and room *)
Theorem reads_evaluate names vs s :
  elems (exec s) = reads names ->
  Forall2 (fun n v => lookup n (inputs s) = Some (LInt v)) names vs ->
  (ssize (ints s) + N.of_nat (length names) <= smax (ints s))%N ->
  (N.of_nat (length names) <= max_steps s)%N ->
  state_of (run prec s) = Some (after_reads s [] vs).
Proof.
  intros He Hf Hroom Hsteps. rewrite run_run_nat. unfold run_nat.
  replace (N.to_nat (max_steps s)) with (length names + (N.to_nat (max_steps s) - length names)) by lia.
  rewrite iter_nat_add. rewrite (reads_run names s 0%N vs []); [|rewrite app_nil_r; exact He|exact Hf|exact Hroom].
  set (s1 := after_reads s [] vs). set (m := N.to_nat (max_steps s) - length names).
  destruct m as [|m]; [reflexivity|]. cbn [iter_nat halted]. cbn [step]. unfold pop_exec.
  change (elems (exec s1)) with (@nil prog). rewrite iter_nat_halted; reflexivity.
Qed.
End Reads.

(* binding distinct names: each name resolves to its own value *)
Lemma lookup_skip n pre l : ~ In n (map fst pre) -> lookup n (pre ++ l) = lookup n l.
Proof.
  induction pre as [|[k v] pre IH]; intros Hn; [reflexivity|]. cbn [app lookup]. cbn [map fst In] in Hn.
  destruct (Z.eqb_spec k n) as [->|Hne]; [exfalso; apply Hn; left; reflexivity|]. apply IH. intros H. apply Hn. right. exact H.
Qed.
Lemma lookup_combine_distinct_pre names : forall vs pre,
  NoDup names -> length names = length vs -> (forall n, In n names -> ~ In n (map fst pre)) ->
  Forall2 (fun n v => lookup n (pre ++ combine names (map LInt vs)) = Some (LInt v)) names vs.
Proof.
  induction names as [|n names IH]; intros [|v vs] pre Hnd Hlen Hdis; try discriminate; [constructor|].
  inversion Hnd as [|? ? Hnin Hnd']; subst. cbn [combine map]. constructor.
  - rewrite lookup_skip by (apply Hdis; left; reflexivity). cbn [lookup]. rewrite Z.eqb_refl. reflexivity.
  - replace (pre ++ (n, LInt v) :: combine names (map LInt vs)) with ((pre ++ [(n, LInt v)]) ++ combine names (map LInt vs))
      by (rewrite <- app_assoc; reflexivity).
    apply IH; [exact Hnd'|exact (eq_add_S _ _ Hlen)|].
    intros m Hm. rewrite map_app, in_app_iff. cbn [map fst In]. intros [H|[H|[]]].
    + exact (Hdis m (or_intror Hm) H).
    + subst m. exact (Hnin Hm).
Qed.
Theorem lookup_combine_distinct names vs :
  NoDup names -> length names = length vs ->
  Forall2 (fun n v => lookup n (combine names (map LInt vs)) = Some (LInt v)) names vs.
Proof. intros Hnd Hlen. apply (lookup_combine_distinct_pre names vs [] Hnd Hlen). intros n _ []. Qed.

(* ... in whatever order the inputs were declared *)
From Coq Require Import Permutation.
From UEC Require Import Push.InputOrder.
Lemma map_fst_combine {A B} (l : list A) (m : list B) : length l = length m -> map fst (combine l m) = l.
Proof. revert m. induction l as [|x l IH]; intros [|y m] H; try discriminate; [reflexivity|]. cbn. f_equal. apply IH. now injection H. Qed.

Theorem reads_any_declaration_order prec names vs decls s :
  NoDup names -> length names = length vs ->
  Permutation (combine names (map LInt vs)) decls -> inputs s = decls ->
  elems (exec s) = reads names ->
  (ssize (ints s) + N.of_nat (length names) <= smax (ints s))%N ->
  (N.of_nat (length names) <= max_steps s)%N ->
  state_of (run prec s) = Some (after_reads s [] vs).
Proof.
  intros Hnd Hlen Hperm Hin He Hroom Hsteps. apply (reads_evaluate prec names vs s He); [|exact Hroom|exact Hsteps].
  pose proof (lookup_combine_distinct names vs Hnd Hlen) as Hf.
  assert (Hk : NoDup (map fst (combine names (map LInt vs)))) by (rewrite map_fst_combine; [exact Hnd|rewrite map_length; exact Hlen]).
  rewrite Hin. set (l := combine names (map LInt vs)) in *. clearbody l.
  clear Hnd Hlen He Hroom Hsteps. induction Hf as [|n v ns' ws' Hl Hf IH]; [constructor|].
  constructor; [|exact IH]. rewrite (lookup_perm _ _ n Hk Hperm). exact Hl.
Qed.
