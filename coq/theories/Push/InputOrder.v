(* Evaluating a Push program does not depend on the order in which inputs were declared (C16). *)
From Coq Require Import List ZArith NArith Floats Bool Lia Permutation.
From UEC Require Import Base.Iter Push.Stack Push.Syntax Push.Spec Push.SpecProps Push.Run.
Import ListNotations.

Definition with_inputs (l : list (Z * lit)) (s : state) : state :=
  St (exec s) (ints s) (floats s) (bools s) l (out s) (max_steps s).

Lemma lookup_in n l v : NoDup (map fst l) -> In (n, v) l -> lookup n l = Some v.
Proof.
  induction l as [|[k w] l IH]; cbn; intros Hd Hin; [destruct Hin|].
  inversion Hd as [|? ? Hnin Hd']; subst. destruct Hin as [[= -> ->]|Hin].
  - now rewrite Z.eqb_refl.
  - destruct (Z.eqb_spec k n) as [->|Hne]; [|now apply IH].
    exfalso. apply Hnin. apply in_map_iff. exists (n, v). auto.
Qed.
Lemma lookup_none n l : (forall v, ~ In (n, v) l) -> lookup n l = None.
Proof.
  induction l as [|[k w] l IH]; cbn; intros H; [reflexivity|].
  destruct (Z.eqb_spec k n) as [->|Hne]; [exfalso; eapply H; now left|]. apply IH. intros v Hv. eapply H. right. exact Hv.
Qed.
Lemma lookup_some_in n l v : lookup n l = Some v -> In (n, v) l.
Proof.
  induction l as [|[k w] l IH]; cbn; [discriminate|].
  destruct (Z.eqb_spec k n) as [->|Hne]; [intros [= ->]; now left|]. intros H. right. now apply IH.
Qed.

(* named inputs resolve to their values regardless of the declaration order *)
Theorem lookup_perm l l' n : NoDup (map fst l) -> Permutation l l' -> lookup n l' = lookup n l.
Proof.
  intros Hd Hp.
  assert (Hd' : NoDup (map fst l')) by (eapply Permutation_NoDup; [apply Permutation_map; exact Hp|exact Hd]).
  destruct (lookup n l) as [v|] eqn:E.
  - apply lookup_some_in in E. apply lookup_in; [exact Hd'|]. eapply Permutation_in; eassumption.
  - apply lookup_none. intros v Hv. apply Permutation_sym in Hp.
    pose proof (Permutation_in _ Hp Hv) as Hin. apply (lookup_in n l v Hd) in Hin. congruence.
Qed.

Definition map_outcome (f : state -> state) (o : outcome) : outcome :=
  match o with Ok s => Ok (f s) | Rec s e => Rec (f s) e | Fatal s e => Fatal (f s) e | Panic => Panic end.

Section Order.
Context (prec : instr -> bool).

(* no instruction reads or writes the inputs except through the lookup of an input variable *)
Lemma perform_plain_inputs i l s :
  perform_plain prec i (with_inputs l s) = map_outcome (with_inputs l) (perform_plain prec i s).
Proof.
  destruct s as [[ce E] [ci I] [cf F] [cb B] ins ou lim].
  destruct i; try destruct k; try destruct newline;
    cbn -[N.add N.leb N.ltb N.eqb N.of_nat skipn];
    unfold dual, underflow, full, ssize, ksize, kfull, kdrop, kdup, kswap, pushI, pushF, pushB, pushE, push1, with_elems,
           set_ints, set_floats, set_bools, set_exec, add_out, dup_list, swap_list, with_inputs;
    cbn -[N.add N.leb N.ltb N.eqb N.of_nat skipn];
    repeat match goal with
    | |- context [match ?x with _ => _ end] => destruct x; cbn -[N.add N.leb N.ltb N.eqb N.of_nat skipn]
    | |- context [if ?b then _ else _] => destruct b; cbn -[N.add N.leb N.ltb N.eqb N.of_nat skipn]
    end; reflexivity.
Qed.

Lemma perform_inputs i l l' s :
  (forall n, lookup n l' = lookup n l) ->
  perform prec i (with_inputs l' s) = map_outcome (with_inputs l') (perform prec i (with_inputs l s)).
Proof.
  intros Hl. destruct i; try (cbn [perform]; rewrite !perform_plain_inputs;
    destruct (perform_plain prec _ s); reflexivity).
  cbn [perform]. cbn [inputs with_inputs]. rewrite Hl.
  destruct (lookup name l) as [v|]; [|reflexivity].
  rewrite !perform_plain_inputs. destruct (perform_plain prec (lit_instr v) s); reflexivity.
Qed.

Lemma perform_prog_inputs p l l' s :
  (forall n, lookup n l' = lookup n l) ->
  perform_prog prec p (with_inputs l' s) = map_outcome (with_inputs l') (perform_prog prec p (with_inputs l s)).
Proof.
  intros Hl. destruct p as [i|b]; [now apply perform_inputs|].
  cbn [perform_prog]. destruct s as [[ce E] ci cf cb ins ou lim]. cbn.
  destruct (_ <? _)%N; reflexivity.
Qed.

Definition map_rs (f : state -> state) (r : rs) : rs :=
  match r with Running s n => Running (f s) n | Finished s n => Finished (f s) n | Failed s e n => Failed (f s) e n | Panicked => Panicked end.
Definition rs_inputs (l : list (Z * lit)) (r : rs) : Prop :=
  match state_of r with Some s => inputs s = l | None => True end.

Lemma with_inputs_same s : with_inputs (inputs s) s = s.
Proof. now destruct s. Qed.

(* instructions never change the inputs *)
Lemma perform_prog_keeps_inputs p s o :
  perform_prog prec p s = o -> match o with Ok s' | Rec s' _ | Fatal s' _ => inputs s' = inputs s | Panic => True end.
Proof.
  intros <-. pose proof (perform_prog_inputs p (inputs s) (inputs s) s (fun _ => eq_refl)) as H.
  rewrite with_inputs_same in H. destruct (perform_prog prec p s) as [s'|s' e|s' e|]; cbn in H; try exact I;
    injection H as H; rewrite H; reflexivity.
Qed.

Lemma step_inputs l l' r :
  (forall n, lookup n l' = lookup n l) -> rs_inputs l r ->
  step prec (map_rs (with_inputs l') r) = map_rs (with_inputs l') (step prec r) /\ rs_inputs l (step prec r).
Proof.
  intros Hl Hr. destruct r as [s n|s n|s e n|]; try (split; [reflexivity|exact Hr]).
  unfold rs_inputs in Hr. cbn [state_of] in Hr. cbn [map_rs step].
  unfold pop_exec. destruct s as [[ce E] ci cf cb ins ou lim]. cbn [inputs] in Hr. subst ins.
  cbn [exec with_inputs elems].
  destruct E as [|p E]; [split; [reflexivity|reflexivity]|].
  cbn [set_exec with_elems exec ints floats bools inputs out max_steps smax].
  assert (H : perform_prog prec p (St (SS ce E) ci cf cb l' ou lim) =
              map_outcome (with_inputs l') (perform_prog prec p (St (SS ce E) ci cf cb l ou lim)))
    by (exact (perform_prog_inputs p l l' (St (SS ce E) ci cf cb l ou lim) Hl)).
  pose proof (perform_prog_keeps_inputs p (St (SS ce E) ci cf cb l ou lim) _ eq_refl) as K.
  split.
  - match goal with
    | |- match perform_prog prec p ?st1 with _ => _ end = map_rs _ (match perform_prog prec p ?st2 with _ => _ end) =>
      change st1 with (St (SS ce E) ci cf cb l' ou lim); change st2 with (St (SS ce E) ci cf cb l ou lim)
    end.
    rewrite H. destruct (perform_prog prec p (St (SS ce E) ci cf cb l ou lim)); reflexivity.
  - match goal with
    | |- rs_inputs l (match perform_prog prec p ?st2 with _ => _ end) => change st2 with (St (SS ce E) ci cf cb l ou lim)
    end.
    destruct (perform_prog prec p (St (SS ce E) ci cf cb l ou lim)); unfold rs_inputs; cbn [state_of]; try exact K; exact I.
Qed.

Lemma halted_map f r : halted (map_rs f r) = halted r.
Proof. destruct r; reflexivity. Qed.

Lemma iter_inputs l l' k : (forall n, lookup n l' = lookup n l) -> forall r, rs_inputs l r ->
  iter_nat halted (step prec) k (map_rs (with_inputs l') r) =
  map_rs (with_inputs l') (iter_nat halted (step prec) k r).
Proof.
  intros Hl. induction k as [|k IH]; intros r Hr; cbn [iter_nat]; [reflexivity|].
  rewrite halted_map. destruct (halted r); [reflexivity|].
  destruct (step_inputs l l' r Hl Hr) as [E Hr']. rewrite E. now apply IH.
Qed.

(* evaluation is independent of the order in which the inputs were declared: running with a permuted
   (duplicate-free) input list gives the same stacks, output, limits, outcome and step count *)
Theorem run_input_order l l' s :
  NoDup (map fst l) -> Permutation l l' -> inputs s = l ->
  run prec (with_inputs l' s) = map_rs (with_inputs l') (run prec s).
Proof.
  intros Hd Hp Hs. rewrite !run_run_nat. unfold run_nat. cbn [with_inputs max_steps].
  apply (iter_inputs l l' _ (fun n => lookup_perm l l' n Hd Hp) (Running s 0)). exact Hs.
Qed.
End Order.
