(* Consequences of the LIFO specification, and their transfer to the Vec level. *)
From Coq Require Import List Arith NArith Lia Bool.
From UEC Require Import Push.Stack Push.StackRefine.
Import ListNotations.

Section Props.
Context {T : Type}.
Implicit Type s : sstack T.

Definition requested (o : op T) : N :=
  match o with
  | OPop | OTop => 1 | OPop2 | OTop2 => 2 | OPop3 | OTop3 => 3
  | ODiscard n => n | _ => 0
  end.

Definition inserts (o : op T) : bool :=
  match o with
  | OPush _ => true
  | OPushMany (_ :: _) | OTryExtend (_ :: _) => true
  | _ => false
  end.

Definition is_query (o : op T) : bool :=
  match o with OTop | OTop2 | OTop3 | OSize | OIsEmpty | OIsFull | OMax => true | _ => false end.

Lemma sstack_eta s : SS (smax s) (elems s) = s.
Proof. now destruct s. Qed.

Lemma all_or_nothing s o s' r : sstep s o = (s', r) -> is_err r = true -> s' = s.
Proof.
  destruct o as [v| | | | | | |n|k|k|n| | | |]; cbn [sstep]; intros H E.
  - destruct (smax s <=? ssize s)%N; inversion H; subst; [reflexivity|discriminate].
  - destruct (elems s) as [|x r0]; inversion H; subst; [reflexivity|discriminate].
  - destruct (elems s) as [|x [|y r0]]; inversion H; subst; try reflexivity; discriminate.
  - destruct (elems s) as [|x [|y [|z r0]]]; inversion H; subst; try reflexivity; discriminate.
  - now inversion H.
  - now inversion H.
  - now inversion H.
  - destruct (ssize s <? n)%N; inversion H; subst; [reflexivity|discriminate].
  - destruct (smax s <? _)%N; inversion H; subst; [reflexivity|discriminate].
  - destruct (_ <? _)%N; inversion H; subst; [reflexivity|discriminate].
  - inversion H; subst; discriminate.
  - now inversion H.
  - now inversion H.
  - now inversion H.
  - now inversion H.
Qed.

Lemma underflow_payload s o s' req pres :
  sstep s o = (s', RUnderflow req pres) ->
  req = requested o /\ pres = ssize s /\ (pres < req)%N.
Proof.
  destruct o as [v| | | | | | |n|k|k|n| | | |]; cbn [sstep requested]; intros H.
  - destruct (_ <=? _)%N; inversion H.
  - destruct s as [m [|x r0]]; inversion H; subst. unfold ssize; cbn. lia.
  - destruct s as [m [|x [|y r0]]]; inversion H; subst; unfold ssize; cbn; lia.
  - destruct s as [m [|x [|y [|z r0]]]]; inversion H; subst; unfold ssize; cbn; lia.
  - destruct s as [m [|x r0]]; inversion H; subst. unfold ssize; cbn. lia.
  - destruct s as [m [|x [|y r0]]]; inversion H; subst; unfold ssize; cbn; lia.
  - destruct s as [m [|x [|y [|z r0]]]]; inversion H; subst; unfold ssize; cbn; lia.
  - destruct (N.ltb_spec (ssize s) n) as [Hlt|Hge]; inversion H; subst. lia.
  - destruct (_ <? _)%N; inversion H.
  - destruct (_ <? _)%N; inversion H.
  - inversion H.
  - inversion H.
  - inversion H.
  - inversion H.
  - inversion H.
Qed.

(* an underflow is reported exactly when fewer elements are present than requested *)
Lemma underflow_iff s o :
  (exists a b, snd (sstep s o) = RUnderflow a b) <-> (ssize s < requested o)%N.
Proof.
  destruct s as [m l].
  destruct o as [v| | | | | | |n|k|k|n| | | |]; cbn [sstep requested]; unfold ssize; cbn [elems smax].
  - destruct (_ <=? _)%N; split; [intros [a [b H]]; discriminate | lia | intros [a [b H]]; discriminate | lia].
  - destruct l as [|x r0]; cbn; split; try lia; eauto; intros [a [b H]]; discriminate.
  - destruct l as [|x [|y r0]]; cbn; split; try lia; eauto; intros [a [b H]]; discriminate.
  - destruct l as [|x [|y [|z r0]]]; cbn; split; try lia; eauto; intros [a [b H]]; discriminate.
  - destruct l as [|x r0]; cbn; split; try lia; eauto; intros [a [b H]]; discriminate.
  - destruct l as [|x [|y r0]]; cbn; split; try lia; eauto; intros [a [b H]]; discriminate.
  - destruct l as [|x [|y [|z r0]]]; cbn; split; try lia; eauto; intros [a [b H]]; discriminate.
  - destruct (N.ltb_spec (N.of_nat (length l)) n) as [Hlt|Hge]; cbn [snd]; split; eauto; try lia.
    intros [a [b H]]; discriminate.
  - destruct (_ <? _)%N; split; try lia; intros [a [b H]]; discriminate.
  - destruct (_ <? _)%N; split; try lia; intros [a [b H]]; discriminate.
  - split; [intros [a [b H]]; discriminate | lia].
  - split; [intros [a [b H]]; discriminate | lia].
  - split; [intros [a [b H]]; discriminate | lia].
  - split; [intros [a [b H]]; discriminate | lia].
  - split; [intros [a [b H]]; discriminate | lia].
Qed.

Lemma push_pop s v s1 : sstep s (OPush v) = (s1, RUnit) -> sstep s1 OPop = (s, RVals [v]).
Proof.
  cbn [sstep]. destruct (_ <=? _)%N; intros H; inversion H; subst.
  cbn. now rewrite sstack_eta.
Qed.

Lemma push_top s v s1 : sstep s (OPush v) = (s1, RUnit) ->
  elems s1 = v :: elems s /\ smax s1 = smax s.
Proof. cbn [sstep]. destruct (_ <=? _)%N; intros H; inversion H; subst. now cbn. Qed.

(* reading or removing n elements returns the n most recent, top first *)
Lemma read_recent s o s' l : sstep s o = (s', RVals l) ->
  l = firstn (length l) (elems s) /\ N.of_nat (length l) = requested o /\
  elems s' = if is_query o then elems s else skipn (length l) (elems s).
Proof.
  destruct o as [v| | | | | | |n|k|k|n| | | |]; cbn [sstep requested is_query]; intros H;
    try (destruct (_ <=? _)%N; inversion H; fail);
    try (destruct (_ <? _)%N; inversion H; fail);
    try (inversion H; fail);
    destruct s as [m [|x [|y [|z r0]]]]; cbn in H; inversion H; subst; cbn; auto.
Qed.

Lemma bulk_order s o l s' :
  (o = OPushMany l \/ o = OTryExtend l) -> sstep s o = (s', RUnit) ->
  elems s' = l ++ elems s /\ smax s' = smax s.
Proof.
  intros [-> | ->]; cbn [sstep]; destruct (_ <? _)%N; intros H; inversion H; subst; now cbn.
Qed.

Lemma bulk_as_pushes s l s' :
  sstep s (OPushMany l) = (s', RUnit) ->
  fst (srun (map OPush (rev l)) s) = s'.
Proof.
  cbn [sstep]. destruct (N.ltb_spec (smax s) (N.of_nat (length l) + ssize s)) as [Hlt|Hge];
    intros H; inversion H; subst; clear H.
  rewrite <- (rev_involutive l) at 2. rewrite <- (rev_length l) in Hge.
  generalize dependent s. induction (rev l) as [|x r IH]; intros s Hge.
  - cbn. now rewrite sstack_eta.
  - cbn [map srun sstep]. cbn [length] in Hge.
    destruct (N.leb_spec (smax s) (ssize s)) as [Hle|Hgt]; [lia|].
    specialize (IH (SS (smax s) (x :: elems s))).
    destruct (srun (map OPush r) (SS (smax s) (x :: elems s))) as [s2 rs] eqn:E.
    cbn [fst] in *. rewrite IH.
    + cbn [smax elems rev]. now rewrite <- app_assoc.
    + unfold ssize in *. cbn [smax elems length]. lia.
Qed.

Lemma discard_exact s n s' : sstep s (ODiscard n) = (s', RUnit) ->
  elems s' = skipn (N.to_nat n) (elems s) /\ smax s' = smax s /\ (ssize s' + n = ssize s)%N.
Proof.
  cbn [sstep]. destruct (N.ltb_spec (ssize s) n) as [Hlt|Hge]; intros H; inversion H; subst.
  cbn [elems smax]. unfold ssize in *. cbn [elems]. rewrite skipn_length. repeat split. lia.
Qed.

(* no assumption that the stack was within its capacity beforehand *)
Lemma insert_respects_max s o s' :
  inserts o = true -> sstep s o = (s', RUnit) -> (ssize s' <= smax s')%N.
Proof.
  destruct o as [v| | | | | | |n|k|k|n| | | |]; cbn [inserts]; try discriminate; intros I.
  - cbn [sstep]. destruct (N.leb_spec (smax s) (ssize s)) as [Hle|Hgt]; intros H; inversion H; subst.
    unfold ssize in *. cbn [elems smax length]. lia.
  - destruct k as [|a k]; [discriminate|]. cbn [sstep].
    destruct (N.ltb_spec (smax s) (N.of_nat (length (a :: k)) + ssize s)) as [Hlt|Hge];
      intros H; inversion H; subst.
    unfold ssize in *. cbn [elems smax app length] in *. rewrite ?app_length. lia.
  - destruct k as [|a k]; [discriminate|]. cbn [sstep].
    destruct (N.ltb_spec (smax s - ssize s) (N.of_nat (length (a :: k)))) as [Hlt|Hge];
      intros H; inversion H; subst.
    unfold ssize in *. cbn [elems smax app length] in *. rewrite ?app_length. lia.
Qed.

Lemma query_pure s o : is_query o = true -> fst (sstep s o) = s.
Proof. destruct o; cbn; try discriminate; reflexivity. Qed.

Lemma capacity_only_by_setmax s o : smax (fst (sstep s o)) = match o with OSetMax n => n | _ => smax s end.
Proof.
  destruct o as [v| | | | | | |n|k|k|n| | | |]; cbn [sstep]; try reflexivity;
    try (destruct (_ <=? _)%N; reflexivity); try (destruct (_ <? _)%N; reflexivity).
  - destruct (elems s); reflexivity.
  - destruct (elems s) as [|x [|y r]]; reflexivity.
  - destruct (elems s) as [|x [|y [|z r]]]; reflexivity.
Qed.

(* ---- transfer to the Vec level ---- *)
Lemma abs_inj (a b : vstack T) : abs a = abs b -> a = b.
Proof.
  destruct a as [ma va], b as [mb vb]. unfold abs. cbn. intros H. inversion H as [[Hm Hv]].
  f_equal. rewrite <- (rev_involutive va), <- (rev_involutive vb). now f_equal.
Qed.

Lemma vec_all_or_nothing (s : vstack T) o (s' : vstack T) r :
  vstep s o = (s', r) -> is_err r = true -> s' = s.
Proof.
  intros H E. pose proof (vstep_abs s o) as R. rewrite H in R.
  apply abs_inj. eapply all_or_nothing; eassumption.
Qed.

Lemma vec_insert_respects_max (s : vstack T) o (s' : vstack T) :
  inserts o = true -> vstep s o = (s', RUnit) -> (vsize s' <= vmax s')%N.
Proof.
  intros I H. pose proof (vstep_abs s o) as R. rewrite H in R.
  pose proof (insert_respects_max _ _ _ I R) as M.
  unfold ssize, abs in M. cbn [elems smax] in M. rewrite rev_length in M. exact M.
Qed.

Lemma vec_underflow_payload (s : vstack T) o (s' : vstack T) req pres :
  vstep s o = (s', RUnderflow req pres) ->
  req = requested o /\ pres = vsize s /\ (pres < req)%N.
Proof.
  intros H. pose proof (vstep_abs s o) as R. rewrite H in R.
  apply underflow_payload in R. unfold ssize, abs in R. cbn [elems] in R.
  now rewrite rev_length in R.
Qed.
End Props.
