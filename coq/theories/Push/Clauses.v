(* The clauses of property C01, each for ALL operand values / states / report orders. *)
From Coq Require Import List ZArith NArith Floats Bool Lia.
From UEC Require Import Base.I64 Base.F64 Push.Stack Push.Syntax Push.Spec Push.SpecProps Push.Run.
Import ListNotations.
Local Open Scope Z_scope.

Definition ints_to (l : list Z) (s : state) : state := set_ints (with_elems l (ints s)) s.
Definition bools_to (l : list bool) (s : state) : state := set_bools (with_elems l (bools s)) s.
Definition floats_to (l : list float) (s : state) : state := set_floats (with_elems l (floats s)) s.
Definition exec_to (l : list prog) (s : state) : state := set_exec (with_elems l (exec s)) s.

Section Clauses.
Context (prec : instr -> bool).

(* arithmetic: operands are the top (x) and second (y); exactly those are replaced by the result *)
Lemma ibin_perform o x y r s :
  elems (ints s) = x :: y :: r ->
  perform prec (IBin o) s =
  match ibin_fn o x y with Some v => Ok (ints_to (v :: r) s) | None => Rec s EIntOverflow end.
Proof. intros E. cbn [perform perform_plain]. now rewrite E. Qed.

Lemma ibin_underflow o s : (ssize (ints s) < 2)%N -> exists a b, perform prec (IBin o) s = Rec s (EUnderflow a b).
Proof.
  unfold ssize. intros H. cbn [perform perform_plain]. destruct (elems (ints s)) as [|x [|y r]]; cbn [length] in H;
    try (eexists; eexists; reflexivity). lia.
Qed.

Lemma ibin_table x y :
  ibin_fn Add x y = chk (x + y) /\ ibin_fn Sub x y = chk (x - y) /\ ibin_fn Mul x y = chk (x * y) /\
  ibin_fn Div x 0 = Some 1 /\ ibin_fn Mod x 0 = Some 0 /\
  (y <> 0 -> ~ (x = i64_min /\ y = -1) -> ibin_fn Div x y = Some (Z.quot x y) /\ ibin_fn Mod x y = Some (Z.rem x y)) /\
  ibin_fn Div i64_min (-1) = None /\ ibin_fn Mod i64_min (-1) = None /\
  (0 <= y < 4294967296 -> ibin_fn Pow x y = chk (x ^ y)) /\
  (y < 0 \/ 4294967296 <= y -> ibin_fn Pow x y = None).
Proof.
  repeat split; try reflexivity.
  - unfold ibin_fn, checked_div. destruct (Z.eqb_spec y 0); [contradiction|].
    destruct (Z.eqb_spec x i64_min), (Z.eqb_spec y (-1)); cbn [andb]; try reflexivity. exfalso; auto.
  - unfold ibin_fn, checked_rem. destruct (Z.eqb_spec y 0); [contradiction|].
    destruct (Z.eqb_spec x i64_min), (Z.eqb_spec y (-1)); cbn [andb]; try reflexivity. exfalso; auto.
  - apply checked_pow_spec.
  - apply checked_pow_out_of_range.
Qed.

(* every value the arithmetic produces is a representable i64: nothing wraps *)
Lemma ibin_in_range o x y v :
  in_i64 x = true -> in_i64 y = true -> ibin_fn o x y = Some v -> in_i64 v = true.
Proof.
  intros Hx Hy. apply in_i64_iff in Hx, Hy. unfold i64_min, i64_max in *.
  destruct o; cbn [ibin_fn]; unfold checked_add, checked_sub, checked_mul; try (intros H; apply chk_Some in H; apply H).
  - destruct (Z.eqb_spec y 0); [intros H; inversion H; reflexivity|].
    unfold checked_div. destruct (Z.eqb_spec y 0); [discriminate|].
    destruct (Z.eqb_spec x i64_min), (Z.eqb_spec y (-1)); cbn [andb]; try discriminate;
      intros H; inversion H; subst v; apply in_i64_iff; unfold i64_min, i64_max in *.
    all: destruct (Z.eq_dec y 1) as [->|Ny1]; [rewrite Z.quot_1_r; lia|].
    all: destruct (Z.eq_dec y (-1)) as [->|Nym1];
           [change (-1) with (- (1)); rewrite Z.quot_opp_r, Z.quot_1_r by lia; lia|].
    all: assert (Hq : Z.abs (x ÷ y) <= 4611686018427387904) by
          (rewrite <- Z.quot_abs by lia; apply Z.quot_le_upper_bound; lia).
    all: lia.
  - destruct (Z.eqb_spec y 0); [intros H; inversion H; reflexivity|].
    unfold checked_rem. destruct (Z.eqb_spec y 0); [discriminate|].
    destruct ((x =? i64_min) && (y =? -1)); [discriminate|].
    intros H; inversion H; subst v. apply in_i64_iff. unfold i64_min, i64_max.
    pose proof (Z.rem_bound_abs x y ltac:(lia)). lia.
  - unfold checked_pow. repeat match goal with |- context [if ?b then _ else _] => destruct b end;
      try discriminate; try (intros H; inversion H; reflexivity); intros H; apply chk_Some in H; apply H.
Qed.

Lemma iun_table x :
  iun_fn Inc x = chk (x + 1) /\ iun_fn Dec x = chk (x - 1) /\ iun_fn Square x = chk (x * x).
Proof. repeat split. Qed.

(* negate / abs saturate: MIN |-> MAX, everything else exact *)
Lemma isat_table x :
  isat_fn Negate i64_min = i64_max /\ isat_fn Abs i64_min = i64_max /\
  (x <> i64_min -> isat_fn Negate x = - x /\ isat_fn Abs x = Z.abs x).
Proof.
  split; [reflexivity|]. split; [reflexivity|]. intros N. unfold isat_fn, saturating_neg, saturating_abs.
  destruct (Z.eqb_spec x i64_min); [contradiction|]. split; reflexivity.
Qed.

Lemma isat_perform o x r s :
  elems (ints s) = x :: r -> perform prec (ISat o) s = Ok (ints_to (isat_fn o x :: r) s).
Proof. intros E. cbn [perform perform_plain]. now rewrite E. Qed.

(* predicates answer mathematically - parity of negative numbers included - and
   remove their operand *)
Lemma ipred_math p x :
  ipred_fn p x = match p with
                 | IsZero => x =? 0 | IsPositive => 0 <? x | IsNegative => x <? 0
                 | IsEven => Z.even x | IsOdd => Z.odd x end.
Proof. destruct p; reflexivity. Qed.

Lemma odd_negative : ipred_fn IsOdd (-3) = true /\ ipred_fn IsOdd (-1) = true /\ ipred_fn IsEven (-2) = true
  /\ forall x, ipred_fn IsOdd x = negb (ipred_fn IsEven x).
Proof. repeat split. intros x. cbn. now rewrite Z.negb_even. Qed.

Lemma ipred_perform p x r s :
  elems (ints s) = x :: r -> full (bools s) = false ->
  perform prec (IPred p) s = Ok (pushB (ipred_fn p x) (ints_to r s)).
Proof.
  intros E Fb. cbn [perform perform_plain]. unfold dual. rewrite E, Fb.
  destruct (prec (IPred p)); cbn [kdrop skipn]; unfold kdrop; rewrite E; reflexivity.
Qed.

(* two-operand comparisons: x ? y with x the top, BOTH operands consumed *)
Lemma icmp_math c x y :
  icmp_fn c x y = match c with
                  | CEq => x =? y | CNe => negb (x =? y) | CLt => x <? y | CLe => x <=? y
                  | CGt => y <? x | CGe => y <=? x end.
Proof. destruct c; reflexivity. Qed.

Lemma icmp_perform c x y r s :
  elems (ints s) = x :: y :: r -> full (bools s) = false ->
  perform prec (ICmp c) s = Ok (pushB (icmp_fn c x y) (ints_to r s)).
Proof.
  intros E Fb. cbn [perform perform_plain]. unfold dual. rewrite E, Fb.
  destruct (prec (ICmp c)); unfold kdrop; rewrite E; reflexivity.
Qed.

Lemma fcmp_perform c x y r s :
  elems (floats s) = x :: y :: r -> full (bools s) = false ->
  perform prec (FCmp c) s = Ok (pushB (fcmp_fn c x y) (floats_to r s)).
Proof.
  intros E Fb. cbn [perform perform_plain]. unfold dual. rewrite E, Fb.
  destruct (prec (FCmp c)); unfold kdrop; rewrite E; reflexivity.
Qed.

Lemma fbin_perform o x y r s :
  elems (floats s) = x :: y :: r -> perform prec (FBin o) s = Ok (floats_to (fbin_fn o x y :: r) s).
Proof. intros E. cbn [perform perform_plain]. now rewrite E. Qed.

Lemma bbin_perform o x y r s :
  elems (bools s) = x :: y :: r -> perform prec (BBin o) s = Ok (bools_to (bbin_fn o x y :: r) s).
Proof. intros E. cbn [perform perform_plain]. now rewrite E. Qed.

Lemma clamp_perform x y z r s :
  elems (ints s) = x :: y :: z :: r ->
  perform prec Clamp s = Ok (ints_to (clamp_fn x y z :: r) s) /\
  Z.min y z <= clamp_fn x y z <= Z.max y z /\ (Z.min y z <= x <= Z.max y z -> clamp_fn x y z = x).
Proof.
  intros E. split; [cbn [perform perform_plain]; now rewrite E|].
  unfold clamp_fn. destruct (Z.ltb_spec x (Z.min y z)), (Z.ltb_spec (Z.max y z) x); lia.
Qed.

(* the conditional action tables, as data: rows are (top of bool, blocks on exec) *)
Inductive cond := CTrue | CFalse | CMissing.
Definition cond_of (l : list bool) : cond := match l with true :: _ => CTrue | false :: _ => CFalse | [] => CMissing end.
Definition pop_bool (s : state) : state := kdrop 1 KBool s.
Definition drop_block (s : state) : state := kdrop 1 KExec s.

Definition when_table (c : cond) (block_present : bool) (s : state) : outcome :=
  match c, block_present with
  | CTrue, true => Ok (pop_bool s)                       (* run the block *)
  | CFalse, true => Ok (drop_block (pop_bool s))         (* skip the block *)
  | CMissing, true => Ok (drop_block s)
  | (CTrue | CFalse), false => Ok s
  | CMissing, false => Rec s (EUnderflow 1 0)
  end.
Definition unless_table (c : cond) (block_present : bool) (s : state) : outcome :=
  match c, block_present with
  | CFalse, true => Ok (pop_bool s)
  | CTrue, true => Ok (drop_block (pop_bool s))
  | CMissing, true => Ok s
  | (CTrue | CFalse), false => Ok s
  | CMissing, false => Rec s (EUnderflow 1 0)
  end.
Definition has_block (s : state) : bool := match elems (exec s) with [] => false | _ => true end.

Lemma when_is_table s : perform prec When s = when_table (cond_of (elems (bools s))) (has_block s) s.
Proof.
  cbn [perform perform_plain]. unfold has_block, cond_of, when_table, pop_bool, drop_block.
  destruct (elems (bools s)) as [|[|] B], (elems (exec s)); reflexivity.
Qed.
Lemma unless_is_table s : perform prec Unless s = unless_table (cond_of (elems (bools s))) (has_block s) s.
Proof.
  cbn [perform perform_plain]. unfold has_block, cond_of, unless_table, pop_bool, drop_block.
  destruct (elems (bools s)) as [|[|] B], (elems (exec s)); reflexivity.
Qed.

(* IfElse: then = top block, else = second block *)
Lemma ifelse_table s :
  perform prec IfElse s =
  match cond_of (elems (bools s)), elems (exec s) with
  | CTrue, t :: _ :: r => Ok (exec_to (t :: r) (pop_bool s))          (* keep then, drop else *)
  | CFalse, _ :: e :: r => Ok (exec_to (e :: r) (pop_bool s))         (* drop then, keep else *)
  | c, [_] => when_table c true s                                     (* only a then block: as When *)
  | CMissing, _ :: _ :: _ => Ok (drop_block s)
  | _, [] => Rec s (EUnderflow 2 0)
  end.
Proof.
  cbn [perform perform_plain]. unfold cond_of, when_table, pop_bool, drop_block, exec_to, kdrop.
  destruct s as [[ce E] ci cf [cb B] ins out lim]. cbn [exec bools elems].
  destruct B as [|[|] B], E as [|t [|e r]]; reflexivity.
Qed.

(* a block unfolds onto the exec stack in order: its first element is executed next *)
Lemma block_unfolds l s :
  (N.of_nat (length l) + ssize (exec s) <= smax (exec s))%N ->
  perform_prog prec (PB l) s = Ok (exec_to (l ++ elems (exec s)) s).
Proof. intros H. cbn [perform_prog]. destruct (N.ltb_spec (smax (exec s)) (N.of_nat (length l) + ssize (exec s))); [lia|reflexivity]. Qed.

Lemma block_overflows l s :
  (smax (exec s) < N.of_nat (length l) + ssize (exec s))%N -> perform_prog prec (PB l) s = Fatal s EOverflow.
Proof. intros H. cbn [perform_prog]. destruct (N.ltb_spec (smax (exec s)) (N.of_nat (length l) + ssize (exec s))); [reflexivity|lia]. Qed.

(* execution proceeds front to back: one loop iteration pops the top of exec and performs it *)
Lemma step_front_to_back p r s n :
  elems (exec s) = p :: r ->
  step prec (Running s n) =
  match perform_prog prec p (exec_to r s) with
  | Ok s' | Rec s' _ => Running s' (n + 1) | Fatal s' e => Failed s' e n | Panic => Panicked end.
Proof. intros E. cbn [step]. unfold pop_exec. rewrite E. reflexivity. Qed.

Lemma step_empty s n : elems (exec s) = [] -> step prec (Running s n) = Finished s n.
Proof. intros E. cbn [step]. unfold pop_exec. now rewrite E. Qed.

(* literals and input variables *)
Lemma input_var_is_literal n l s :
  lookup n (inputs s) = Some l -> perform prec (InputVar n) s = perform prec (lit_instr l) s.
Proof. intros E. cbn [perform]. rewrite E. now destruct l. Qed.
End Clauses.
