(* The interpreter loop of PushState::run_to_completion:
     steps := 0; while steps < limit { pop exec (stop if empty); perform;
       recoverable => carry on with the state the error carries; fatal => stop; steps += 1 } *)
From Coq Require Import List ZArith NArith Bool.
From UEC Require Import Base.Iter Push.Stack Push.Syntax Push.Spec.
Import ListNotations.

Inductive rs :=
| Running (s : state) (n : N)           (* n = instruction steps taken so far *)
| Finished (s : state) (n : N)          (* exec stack ran empty *)
| Failed (s : state) (e : err) (n : N)  (* fatal error *)
| Panicked.

Definition halted (r : rs) : bool := match r with Running _ _ => false | _ => true end.

Definition pop_exec (s : state) : option (prog * state) :=
  match elems (exec s) with
  | p :: r => Some (p, set_exec (with_elems r (exec s)) s)
  | [] => None
  end.

Section Run.
Context (prec : instr -> bool).

Definition step (r : rs) : rs :=
  match r with
  | Running s n =>
    match pop_exec s with
    | None => Finished s n
    | Some (p, s') =>
      match perform_prog prec p s' with
      | Ok s'' => Running s'' (n + 1)
      | Rec s'' _ => Running s'' (n + 1)
      | Fatal s'' e => Failed s'' e n
      | Panic => Panicked
      end
    end
  | r => r
  end.

Definition run (s : state) : rs := iterN halted step (max_steps s) (Running s 0).
Definition run_nat (s : state) : rs := iter_nat halted step (N.to_nat (max_steps s)) (Running s 0).

Lemma run_run_nat s : run s = run_nat s.
Proof. apply iterN_spec. Qed.
End Run.

Definition steps_of (r : rs) : N := match r with Running _ n | Finished _ n | Failed _ _ n => n | Panicked => 0 end.
Definition state_of (r : rs) : option state :=
  match r with Running s _ | Finished s _ | Failed s _ _ => Some s | Panicked => None end.

(* Every way the run can end when, at each step where two faults coincide, either
   report is allowed: the final result of always reporting the missing operand
   (the run continues), plus a fatal stop at each such step. *)
Definition step_alts (ra : rs * list rs) : rs * list rs :=
  let '(r, alts) := ra in
  match r with
  | Running s n =>
    match pop_exec s with
    | None => (Finished s n, alts)
    | Some (p, s') =>
      let a := perform_prog (fun _ => true) p s' in
      let b := perform_prog (fun _ => false) p s' in
      let alts' := match a, b with
                   | Fatal sa e, Rec _ _ => Failed sa e n :: alts
                   | _, _ => alts
                   end in
      (step (fun _ => false) r, alts')
    end
  | _ => ra
  end.
Definition run_alts (s : state) : list rs :=
  let '(r, alts) := iterN (fun ra => halted (fst ra)) step_alts (max_steps s) (Running s 0, []) in
  r :: alts.
