(* Refinement: on well-formed states (every stack within its capacity - an invariant of all reachable
   states, C03) the Rust-shaped implementation layer coincides with the semantics table. *)
From Coq Require Import List ZArith NArith Floats Bool Lia.
From UEC Require Import Base.I64 Base.F64 Push.Stack Push.Syntax Push.Spec Push.SpecProps Push.Impl.
Import ListNotations.

Lemma drain_all {T} (st : sstack T) : drain (length (elems st)) st = SS (smax st) [].
Proof.
  destruct st as [m l]. cbn [elems smax]. revert m. induction l as [|x l IH]; intros m; [reflexivity|].
  cbn [length drain]. unfold st_pop. cbn [elems smax]. apply IH.
Qed.

Lemma drain_len {T} m (l : list T) : drain (length l) (SS m l) = SS m [].
Proof. exact (drain_all (SS m l)). Qed.
Lemma skipn_len {T} (l : list T) : skipn (N.to_nat (N.of_nat (length l))) l = [].
Proof. rewrite Nat2N.id. apply skipn_all. Qed.

Ltac norm_hyps :=
  repeat match goal with
  | H : (_ <=? _)%N = true |- _ => apply N.leb_le in H
  | H : (_ <=? _)%N = false |- _ => apply N.leb_gt in H
  | H : (_ <? _)%N = true |- _ => apply N.ltb_lt in H
  | H : (_ <? _)%N = false |- _ => apply N.ltb_ge in H
  | H : (_ =? _)%N = true |- _ => apply N.eqb_eq in H
  | H : (_ =? _)%N = false |- _ => apply N.eqb_neq in H
  end.

Ltac crush :=
  repeat (match goal with
          | |- context [match ?l with [] => _ | _ :: _ => _ end] => is_var l; destruct l
          | |- context [if ?b then _ else _] => let E := fresh "E" in destruct b eqn:E
          | |- context [match ?x with Some _ => _ | None => _ end] => let E := fresh "E" in destruct x eqn:E
          | |- context [match ?x with inl _ => _ | inr _ => _ end] => let E := fresh "E" in destruct x eqn:E
          end; cbn [length skipn app fst snd] in * ).

Ltac unfold_all :=
  unfold Impl.perform_plain, Spec.perform_plain, generic, i_pop, i_dup, i_swap, i_flush, i_print, is_empty_of, size_of,
         with_stack_discard, push_onto, replace_on, with_replace, with_push, not_full, sum_bind, sum_map, ovf,
         st_top, st_top2, st_top3, st_pop, st_pop2, st_push, st_discard, st_is_full,
         dual, underflow, full, ssize, ksize, kfull, kdrop, kdup, kswap, pushI, pushF, pushB, pushE, push1, with_elems,
         dup_list, swap_list, Lint, Lfloat, Lbool, Lexec, set_ints, set_floats, set_bools, set_exec, add_out, code_prec.

Theorem refine_plain i s : wf s -> Impl.perform_plain i s = Spec.perform_plain code_prec i s.
Proof.
  destruct s as [[ce E] [ci I] [cf F] [cb B] ins ou lim].
  unfold wf, wfs, ssize. cbn [exec ints floats bools smax elems]. intros (He & Hi & Hf & Hb).
  destruct i; try destruct k; try destruct newline.
  all: try (rewrite ?drain_all; fail).
  all: unfold_all; cbn [lget lset exec ints floats bools inputs out max_steps smax elems length skipn app].
  all: try rewrite !drain_all.
  all: crush.
  all: try reflexivity.
  all: rewrite ?drain_len, ?skipn_len; try reflexivity.
  all: unfold full, ssize in *; cbn [exec ints floats bools elems smax length] in *; norm_hyps; try (exfalso; lia); try congruence.
  all: rewrite ?drain_len, ?skipn_len; try reflexivity.
  all: repeat match goal with H : inl _ = inl _ |- _ => injection H as <- end; reflexivity.
Qed.

Theorem refine i s : wf s -> Impl.perform i s = Spec.perform code_prec i s.
Proof.
  intros W. destruct i; try (apply refine_plain; exact W).
  cbn [Impl.perform Spec.perform]. destruct (lookup name (inputs s)); [apply refine_plain; exact W|reflexivity].
Qed.

Theorem refine_prog p s : wf s -> Impl.perform_prog p s = Spec.perform_prog code_prec p s.
Proof.
  intros W. destruct p as [i|l]; [now apply refine|].
  cbn [Impl.perform_prog Spec.perform_prog]. destruct (_ <? _)%N; [reflexivity|].
  unfold set_exec, with_elems. reflexivity.
Qed.

(* C02 for the code as it is composed: an error carries the input state - on well-formed states *)
Theorem impl_err_unchanged p s s' :
  wf s -> err_state (Impl.perform_prog p s) = Some s' -> s' = s.
Proof. intros W. rewrite refine_prog by exact W. apply perform_prog_err_unchanged. Qed.

(* the hypothesis is not cosmetic: on a stack whose capacity was lowered beneath its contents, `Not`
   (pop, then push the negation) hands back a state that has lost the operand *)
Example wf_is_needed :
  let s := St (SS 5 []) (SS 5 []) (SS 5 []) (SS 1 [true; false; true]) [] [] 9 in
  Impl.perform BNot s = Fatal (St (SS 5 []) (SS 5 []) (SS 5 []) (SS 1 [false; true]) [] [] 9) EOverflow /\
  ~ wf s.
Proof.
  split; [reflexivity|]. unfold wf, wfs, ssize. cbn. intros (_ & _ & _ & H). lia.
Qed.
