(* Push instructions, programs and machine states (push/src/instruction/**,
   push_vm/program.rs, push_vm/push_state.rs). *)
From Coq Require Import List ZArith NArith Floats.
From UEC Require Import Push.Stack.
Import ListNotations.

Inductive stk := KInt | KFloat | KBool | KExec.
Inductive vk := VInt | VFloat | VBool.                   (* printable stacks *)
Inductive iun := Inc | Dec | Square.                     (* checked, one operand *)
Inductive isat := Negate | Abs.                          (* saturating, one operand *)
Inductive ibin := Add | Sub | Mul | Div | Mod | Pow.     (* checked, two operands *)
Inductive imm := Min | Max.
Inductive ipred := IsZero | IsPositive | IsNegative | IsEven | IsOdd.
Inductive cmp := CEq | CNe | CLt | CLe | CGt | CGe.
Inductive fbin := FAdd | FSub | FMul | FDiv.
Inductive bbin := BAnd | BOr | BXor | BImplies.

Inductive instr :=
| Pop (k : stk) | Dup (k : stk) | Swap (k : stk) | IsEmpty (k : stk) | StackDepth (k : stk) | Flush (k : stk)
| PushI (z : Z) | PushF (f : float) | PushB (b : bool) | PushE (p : prog)
| Print (k : vk) (newline : bool)
| IUn (o : iun) | ISat (o : isat) | IBin (o : ibin) | IMm (o : imm) | Clamp
| IPred (p : ipred) | ICmp (c : cmp) | FromBoolean | FromFloatApprox
| FBin (o : fbin) | FCmp (c : cmp) | FromIntApprox
| BNot | BBin (o : bbin) | BFromInt
| Noop | DupBlock | When | Unless | IfElse
| InputVar (name : Z)
| PrintSpace | PrintNewline | PrintPeriod | PrintString (id : Z)
with prog :=
| PI (i : instr)
| PB (l : list prog).

Inductive lit := LInt (z : Z) | LFloat (f : float) | LBool (b : bool).

(* the output buffer as tokens; decimal rendering of floats is outside the model *)
Inductive token := TInt (z : Z) | TFloat (f : float) | TBool (b : bool) | TStr (id : Z) | TChar (c : Z).

Inductive err := EUnderflow (req pres : N) | EOverflow | EIntOverflow.

Record state := St {
  exec : sstack prog; ints : sstack Z; floats : sstack float; bools : sstack bool;
  inputs : list (Z * lit); out : list token; max_steps : N }.

Inductive outcome := Ok (s : state) | Rec (s : state) (e : err) | Fatal (s : state) (e : err) | Panic.

Definition set_exec v s := St v (ints s) (floats s) (bools s) (inputs s) (out s) (max_steps s).
Definition set_ints v s := St (exec s) v (floats s) (bools s) (inputs s) (out s) (max_steps s).
Definition set_floats v s := St (exec s) (ints s) v (bools s) (inputs s) (out s) (max_steps s).
Definition set_bools v s := St (exec s) (ints s) (floats s) v (inputs s) (out s) (max_steps s).
Definition add_out (t : list token) s := St (exec s) (ints s) (floats s) (bools s) (inputs s) (out s ++ t) (max_steps s).

(* a stack is within its capacity *)
Definition wfs {T} (st : sstack T) : Prop := (ssize st <= smax st)%N.
Definition wf (s : state) : Prop := wfs (exec s) /\ wfs (ints s) /\ wfs (floats s) /\ wfs (bools s).

Definition num_opens (i : instr) : nat :=
  match i with DupBlock | When | Unless => 1 | IfElse => 2 | _ => 0 end.

Fixpoint lookup (n : Z) (l : list (Z * lit)) : option lit :=
  match l with
  | [] => None
  | (k, v) :: r => if Z.eqb k n then Some v else lookup n r
  end.
