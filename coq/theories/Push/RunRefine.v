(* The interpreter loop over the implementation layer equals the loop over the semantics table,
   for every program, from every well-formed state (C01). *)
From Coq Require Import List ZArith NArith Bool Lia.
From UEC Require Import Base.Iter Push.Stack Push.Syntax Push.Spec Push.SpecProps Push.Run Push.RunProps Push.Impl Push.Refine.
Import ListNotations.

Definition istep (r : rs) : rs :=
  match r with
  | Running s n =>
    match pop_exec s with
    | None => Finished s n
    | Some (p, s') =>
      match Impl.perform_prog p s' with
      | Ok s'' => Running s'' (n + 1)
      | Rec s'' _ => Running s'' (n + 1)
      | Fatal s'' e => Failed s'' e n
      | Panic => Panicked
      end
    end
  | r => r
  end.
Definition irun (s : state) : rs := iterN halted istep (max_steps s) (Running s 0).

Lemma istep_step r : rs_wf r -> istep r = step code_prec r.
Proof.
  destruct r as [s n|s n|s e n|]; try reflexivity. unfold rs_wf. cbn [state_of]. intros W.
  cbn [istep step]. destruct (pop_exec s) as [[p s1]|] eqn:P; [|reflexivity].
  rewrite (refine_prog p s1); [reflexivity|]. eapply pop_exec_wf; eassumption.
Qed.

Theorem run_refines s : wf s -> irun s = run code_prec s.
Proof.
  intros W. unfold irun, run. rewrite !iterN_spec.
  apply (iter_nat_agree halted istep (step code_prec) rs_wf).
  - intros r Hr. now apply istep_step.
  - intros r _ Hr. now apply step_wf.
  - exact W.
Qed.

(* the C03 guarantees for the interpreter over the code AS IT IS COMPOSED (Impl layer) *)
Theorem irun_wf s : wf s -> rs_wf (irun s).
Proof. intros W. rewrite (run_refines s W). now apply run_wf. Qed.
Theorem irun_steps s : wf s -> (steps_of (irun s) <= max_steps s)%N.
Proof. intros W. rewrite (run_refines s W). apply run_steps. Qed.
Theorem irun_fails_only_overflow s : wf s -> fails_only_overflow (irun s).
Proof. intros W. rewrite (run_refines s W). apply run_fails_only_overflow. Qed.
Theorem irun_no_panic s : wf s -> inputs_bound s -> irun s <> Panicked.
Proof. intros W B. rewrite (run_refines s W). now apply run_no_panic. Qed.
