(* The generated state builder (push-macros: generate_builder.rs): its type-state - which call
   sequences compile - and what a built state contains. *)
From Coq Require Import List Arith NArith ZArith Lia Bool.
From UEC Require Import Push.Stack Push.StackProps.
Import ListNotations.

(* ---------- compile time: the type-state ---------- *)
Inductive mark := U | WS | WSD.                        (* () | WithSize | WithSizeAndData *)
Definition dataless m := match m with WSD => false | _ => true end.
Definition sizeset m := match m with U => false | _ => true end.

Inductive call :=
| MaxAll (n : N)                     (* with_max_stack_size *)
| MaxOf (k : nat) (n : N)            (* with_<stack>_max_size *)
| Values (k : nat) (l : list Z)      (* with_<stack>_values *)
| Program (l : list Z)               (* with_program *)
| NoProgram                          (* with_no_program *)
| Input (k : nat) (name : Z) (v : Z) (* with_<stack>_input *)
| StepLimit (n : N)                  (* with_instruction_step_limit *)
| Build.

Record ts := TS { t_exec : mark; t_limit : mark; t_stacks : list mark }.
Fixpoint upd {X} (k : nat) (m : X) (l : list X) {struct l} : list X :=
  match l, k with
  | [], _ => []
  | _ :: r, O => m :: r
  | x :: r, S k' => x :: upd k' m r
  end.

(* transcribed from the trait bounds of each generated impl block *)
Definition tstep (t : ts) (c : call) : option ts :=
  match c with
  | MaxAll _ => if dataless (t_exec t) && forallb dataless (t_stacks t)
                then Some (TS WS (t_limit t) (map (fun _ => WS) (t_stacks t))) else None
  | MaxOf k _ => match nth_error (t_stacks t) k with
                 | Some m => if dataless m then Some (TS (t_exec t) (t_limit t) (upd k WS (t_stacks t))) else None
                 | None => None end
  | Values k _ => match nth_error (t_stacks t) k with
                  | Some m => if sizeset m then Some (TS (t_exec t) (t_limit t) (upd k WSD (t_stacks t))) else None
                  | None => None end
  | Program _ | NoProgram => match t_exec t with WS => Some (TS WSD (t_limit t) (t_stacks t)) | _ => None end
  | Input k _ _ => match nth_error (t_stacks t) k with Some _ => Some t | None => None end
  | StepLimit _ => Some (TS (t_exec t) WSD (t_stacks t))
  | Build => match t_exec t, t_limit t with WSD, WSD => Some t | _, _ => None end
  end.
Fixpoint trun (t : ts) (cs : list call) : option ts :=
  match cs with [] => Some t | c :: r => match tstep t c with Some t' => trun t' r | None => None end end.
Definition tinit n := TS U U (repeat U n).
Definition typed n cs := match trun (tinit n) cs with Some _ => true | None => false end.

Definition is_maxall c := match c with MaxAll _ => true | _ => false end.
Definition is_program c := match c with Program _ | NoProgram => true | _ => false end.
Definition is_limit c := match c with StepLimit _ => true | _ => false end.

Lemma trun_app t a b : trun t (a ++ b) = match trun t a with Some t' => trun t' b | None => None end.
Proof. revert t. induction a as [|c a IH]; intros t; cbn; [reflexivity|]. destruct (tstep t c); [apply IH|reflexivity]. Qed.

Lemma tstep_exec t c t' : tstep t c = Some t' ->
  (t_exec t' = t_exec t) \/ (is_maxall c = true /\ t_exec t' = WS /\ t_exec t <> WSD) \/
  (is_program c = true /\ t_exec t = WS /\ t_exec t' = WSD).
Proof.
  destruct c; cbn.
  - destruct (dataless (t_exec t) && forallb dataless (t_stacks t)) eqn:E; [|discriminate]. intros [= <-].
    right; left. apply andb_true_iff in E as [E _]. split; [reflexivity|]. split; [reflexivity|].
    destruct (t_exec t); cbn in *; congruence.
  - destruct (nth_error _ _) as [m|]; [|discriminate]. destruct (dataless m); [|discriminate]. intros [= <-]. auto.
  - destruct (nth_error _ _) as [m|]; [|discriminate]. destruct (sizeset m); [|discriminate]. intros [= <-]. auto.
  - destruct (t_exec t) eqn:E; try discriminate. intros [= <-]. right; right. cbn. auto.
  - destruct (t_exec t) eqn:E; try discriminate. intros [= <-]. right; right. cbn. auto.
  - destruct (nth_error _ _); [|discriminate]. intros [= <-]. auto.
  - intros [= <-]. auto.
  - destruct (t_exec t) eqn:Ee, (t_limit t) eqn:El; try discriminate; intros [= <-]; left; congruence.
Qed.

Lemma tstep_limit t c t' : tstep t c = Some t' -> t_limit t' = t_limit t \/ is_limit c = true.
Proof.
  destruct c; cbn; intros E;
    repeat match type of E with context [match ?x with _ => _ end] => destruct x eqn:? end;
    try discriminate; try (injection E as <-); cbn; auto.
Qed.

(* a builder can only be built after the global stack size, a program decision and a step limit *)
Theorem build_requires n cs : typed n (cs ++ [Build]) = true ->
  existsb is_maxall cs = true /\ existsb is_program cs = true /\ existsb is_limit cs = true.
Proof.
  unfold typed. rewrite trun_app. destruct (trun (tinit n) cs) as [t|] eqn:R; [|discriminate].
  cbn. destruct (t_exec t) eqn:Ee; try discriminate. destruct (t_limit t) eqn:El; try discriminate. intros _.
  assert (G : forall cs t0 t, trun t0 cs = Some t ->
     (t_exec t = WSD -> t_exec t0 = U -> existsb is_maxall cs = true /\ existsb is_program cs = true) /\
     (t_exec t = WSD -> t_exec t0 = WS -> existsb is_program cs = true) /\
     (t_limit t = WSD -> t_limit t0 = U -> existsb is_limit cs = true)).
  { clear. induction cs as [|c cs IH]; intros t0 t; cbn [trun existsb].
    - intros [= ->]. split; [|split]; intros H1 H2; congruence.
    - destruct (tstep t0 c) as [t1|] eqn:E; [|discriminate]. intros Hr.
      destruct (IH _ _ Hr) as (A & B & C). pose proof (tstep_exec _ _ _ E) as Hs. pose proof (tstep_limit _ _ _ E) as Hl.
      split; [|split].
      + intros H1 H2. destruct Hs as [Hs|[(Hc & Hs & _)|(Hc & Hs & _)]].
        * rewrite Hs in *. destruct (A H1 H2) as [A1 A2]. rewrite A1, A2, !orb_true_r. auto.
        * rewrite Hc. cbn [orb]. split; [reflexivity|]. rewrite (B H1 Hs). apply orb_true_r.
        * congruence.
      + intros H1 H2. destruct Hs as [Hs|[(Hc & Hs & _)|(Hc & Hs & _)]].
        * rewrite Hs in *. rewrite (B H1 H2). apply orb_true_r.
        * rewrite (B H1 Hs). apply orb_true_r.
        * now rewrite Hc.
      + intros H1 H2. destruct Hl as [Hl|Hl]; [|now rewrite Hl]. rewrite C; [apply orb_true_r|exact H1|congruence]. }
  destruct (G cs (tinit n) t R) as (A & _ & C).
  destruct (A Ee eq_refl) as [A1 A2]. repeat split; auto.
Qed.


Lemma upd_nth {X} k j (m : X) l :
  nth_error (upd k m l) j = if Nat.eqb j k then (match nth_error l j with Some _ => Some m | None => None end) else nth_error l j.
Proof.
  revert k j. induction l as [|x l IH]; intros k j; cbn [upd].
  - destruct (Nat.eqb j k); destruct j; reflexivity.
  - destruct k as [|k], j as [|j]; cbn [nth_error Nat.eqb]; try reflexivity. apply IH.
Qed.

(* once values were loaded into a stack its size can no longer be changed, individually or globally *)
Lemma tstep_keeps_data t c t' k : tstep t c = Some t' -> nth_error (t_stacks t) k = Some WSD ->
  nth_error (t_stacks t') k = Some WSD /\
  match c with MaxAll _ => False | MaxOf j _ => j <> k | _ => True end.
Proof.
  intros E Hk. destruct c; cbn in E.
  - destruct (dataless (t_exec t) && forallb dataless (t_stacks t)) eqn:D; [|discriminate].
    exfalso. apply andb_true_iff in D as [_ D]. rewrite forallb_forall in D.
    specialize (D WSD (nth_error_In _ _ Hk)). discriminate.
  - destruct (nth_error (t_stacks t) k0) as [m|] eqn:N; [|discriminate]. destruct (dataless m) eqn:D; [|discriminate].
    injection E as <-. cbn [t_stacks]. split.
    + rewrite upd_nth. destruct (Nat.eqb_spec k k0) as [->|]; [|exact Hk]. rewrite Hk in N. injection N as <-. discriminate.
    + intros ->. rewrite Hk in N. injection N as <-. discriminate.
  - destruct (nth_error (t_stacks t) k0) as [m|] eqn:N; [|discriminate]. destruct (sizeset m); [|discriminate].
    injection E as <-. cbn [t_stacks]. split; [|exact I]. rewrite upd_nth. destruct (Nat.eqb_spec k k0) as [->|]; [now rewrite Hk|exact Hk].
  - destruct (t_exec t); try discriminate. injection E as <-. auto.
  - destruct (t_exec t); try discriminate. injection E as <-. auto.
  - destruct (nth_error (t_stacks t) k0); [|discriminate]. injection E as <-. auto.
  - injection E as <-. auto.
  - destruct (t_exec t), (t_limit t); try discriminate; injection E as <-; auto.
Qed.

Theorem no_resize_after_values n a k l b :
  typed n (a ++ Values k l :: b) = true ->
  forall c, In c b -> match c with MaxAll _ => False | MaxOf j _ => j <> k | _ => True end.
Proof.
  unfold typed. rewrite trun_app. destruct (trun (tinit n) a) as [t|]; [|discriminate].
  cbn [trun]. destruct (tstep t (Values k l)) as [t1|] eqn:E; [|discriminate].
  assert (Hk : nth_error (t_stacks t1) k = Some WSD).
  { cbn in E. destruct (nth_error (t_stacks t) k) as [m|] eqn:N; [|discriminate]. destruct (sizeset m); [|discriminate].
    injection E as <-. cbn [t_stacks]. rewrite upd_nth, Nat.eqb_refl, N. reflexivity. }
  clear E. revert t1 Hk. induction b as [|c0 b IH]; intros t1 Hk Hr c Hc; [destruct Hc|].
  cbn [trun] in Hr. destruct (tstep t1 c0) as [t2|] eqn:E; [|discriminate].
  destruct (tstep_keeps_data _ _ _ k E Hk) as [Hk2 Hc0].
  destruct Hc as [<-|Hc]; [exact Hc0|]. eapply IH; eassumption.
Qed.

(* the same for the exec stack, whose values are the program: once the program decision is made (a program was
   loaded, or "no program" was chosen) the general size - the only way to size the exec stack - can no longer be set,
   and the decision cannot be made again *)
Lemma tstep_exec_data t c t' : tstep t c = Some t' -> t_exec t = WSD ->
  t_exec t' = WSD /\ is_maxall c = false /\ is_program c = false.
Proof.
  intros E Hd. destruct (tstep_exec _ _ _ E) as [H|[(Hm & _ & Hn)|(Hp & Hw & _)]]; [|congruence|congruence].
  split; [congruence|]. destruct c; cbn in E |- *; try (split; reflexivity).
  - rewrite Hd in E. cbn in E. discriminate.
  - rewrite Hd in E. discriminate.
  - rewrite Hd in E. discriminate.
Qed.
Theorem no_resize_after_program n a p b :
  typed n (a ++ p :: b) = true -> is_program p = true ->
  forall c, In c b -> is_maxall c = false /\ is_program c = false.
Proof.
  unfold typed. rewrite trun_app. destruct (trun (tinit n) a) as [t|]; [|discriminate].
  cbn [trun]. destruct (tstep t p) as [t1|] eqn:E; [|discriminate]. intros Hr Hp.
  assert (Hd : t_exec t1 = WSD).
  { destruct (tstep_exec _ _ _ E) as [H|[(Hm & _)|(_ & _ & H)]]; [|destruct p; discriminate|exact H].
    destruct p; try discriminate; cbn in E; destruct (t_exec t); try discriminate; injection E as <-; reflexivity. }
  clear E Hp. revert t1 Hd Hr. induction b as [|c0 b IH]; intros t1 Hd Hr c Hc; [destruct Hc|].
  cbn [trun] in Hr. destruct (tstep t1 c0) as [t2|] eqn:E; [|discriminate].
  destruct (tstep_exec_data _ _ _ E Hd) as (Hd2 & Hm & Hp).
  destruct Hc as [<-|Hc]; [split; assumption|]. eapply IH; eassumption.
Qed.

Theorem typed_prefix_closed n a b : typed n (a ++ b) = true -> typed n a = true.
Proof. unfold typed. rewrite trun_app. destruct (trun (tinit n) a); [reflexivity|discriminate]. Qed.

(* ---------- run time: what the built state contains ---------- *)
Definition usize_max : N := 18446744073709551615.
Record bstate := BS { b_exec : sstack Z; b_stacks : list (sstack Z); b_inputs : list (Z * (nat * Z)); b_limit : N }.
Definition binit (n : nat) : bstate := BS (SS usize_max []) (repeat (SS usize_max []) n) [] 0.

Definition set_max (n : N) (s : sstack Z) : sstack Z := SS n (elems s).
(* HashMap::insert: a later declaration of the same name replaces the earlier one *)
Definition insert_input (name : Z) (v : nat * Z) (l : list (Z * (nat * Z))) : list (Z * (nat * Z)) :=
  (name, v) :: filter (fun e => negb (Z.eqb (fst e) name)) l.

Inductive bres := BOk (s : bstate) | BOverflow.

Definition push_many (l : list Z) (s : sstack Z) : option (sstack Z) :=
  match sstep s (OPushMany l) with (s', RUnit) => Some s' | _ => None end.

Definition bstep (s : bstate) (c : call) : bres :=
  match c with
  | MaxAll n => BOk (BS (set_max n (b_exec s)) (map (set_max n) (b_stacks s)) (b_inputs s) (b_limit s))
  | MaxOf k n => match nth_error (b_stacks s) k with
                 | Some st => BOk (BS (b_exec s) (upd k (set_max n st) (b_stacks s)) (b_inputs s) (b_limit s))
                 | None => BOk s end
  | Values k l => match nth_error (b_stacks s) k with
                  | Some st => match push_many l st with
                               | Some st' => BOk (BS (b_exec s) (upd k st' (b_stacks s)) (b_inputs s) (b_limit s))
                               | None => BOverflow end
                  | None => BOk s end
  | Program l => match push_many l (b_exec s) with
                 | Some e' => BOk (BS e' (b_stacks s) (b_inputs s) (b_limit s))
                 | None => BOverflow end
  | NoProgram | Build => BOk s
  | Input k name v => BOk (BS (b_exec s) (b_stacks s) (insert_input name (k, v) (b_inputs s)) (b_limit s))
  | StepLimit n => BOk (BS (b_exec s) (b_stacks s) (b_inputs s) n)
  end.
Fixpoint brun (s : bstate) (cs : list call) : bres :=
  match cs with
  | [] => BOk s
  | c :: r => match bstep s c with BOk s' => brun s' r | BOverflow => BOverflow end
  end.

(* loading values: the first supplied value ends up on top; repeated loads stack up *)
Theorem values_order s k l st s' :
  nth_error (b_stacks s) k = Some st -> bstep s (Values k l) = BOk s' ->
  exists st', nth_error (b_stacks s') k = Some st' /\ elems st' = l ++ elems st /\ smax st' = smax st /\
              (N.of_nat (length l) + ssize st <= smax st)%N.
Proof.
  intros Hk. cbn [bstep]. rewrite Hk. unfold push_many. cbn [sstep].
  destruct (N.ltb_spec (smax st) (N.of_nat (length l) + ssize st)) as [Hlt|Hge]; [discriminate|].
  intros [= <-]. cbn [b_stacks]. eexists. rewrite upd_nth, Nat.eqb_refl, Hk. split; [reflexivity|]. cbn. auto.
Qed.
(* more values than the stack's maximum: an overflow error, and nothing is built *)
Theorem values_overflow s k l st :
  nth_error (b_stacks s) k = Some st -> (smax st < N.of_nat (length l) + ssize st)%N ->
  bstep s (Values k l) = BOverflow /\ forall r, brun s (Values k l :: r) = BOverflow.
Proof.
  intros Hk Hlt. assert (E : bstep s (Values k l) = BOverflow).
  { cbn [bstep]. rewrite Hk. unfold push_many. cbn [sstep].
    destruct (N.ltb_spec (smax st) (N.of_nat (length l) + ssize st)); [reflexivity|lia]. }
  split; [exact E|]. intros r. cbn [brun]. now rewrite E.
Qed.
Theorem program_order s l s' : bstep s (Program l) = BOk s' ->
  elems (b_exec s') = l ++ elems (b_exec s) /\ b_stacks s' = b_stacks s.
Proof.
  cbn [bstep]. unfold push_many. cbn [sstep]. destruct (_ <? _)%N; [discriminate|]. intros [= <-]. cbn. auto.
Qed.
Theorem program_overflow s l : (smax (b_exec s) < N.of_nat (length l) + ssize (b_exec s))%N -> bstep s (Program l) = BOverflow.
Proof.
  intros H. cbn [bstep]. unfold push_many. cbn [sstep].
  destruct (N.ltb_spec (smax (b_exec s)) (N.of_nat (length l) + ssize (b_exec s))); [reflexivity|lia].
Qed.

(* the maximum size of a stack is the one set last, globally or individually: each size-setting call
   overrides whatever was set before, and no other call touches the maximum *)
Definition max_after (c : call) (k : nat) (before : N) : N :=
  match c with
  | MaxAll n => n
  | MaxOf j n => if Nat.eqb j k then n else before
  | _ => before
  end.
Theorem step_max s c s' k st :
  bstep s c = BOk s' -> nth_error (b_stacks s) k = Some st ->
  exists st', nth_error (b_stacks s') k = Some st' /\ smax st' = max_after c k (smax st).
Proof.
  intros E Hk. destruct c; cbn [bstep max_after] in *.
  - injection E as <-. cbn [b_stacks]. rewrite nth_error_map, Hk. cbn. eauto.
  - destruct (nth_error (b_stacks s) k0) as [st0|] eqn:N.
    + injection E as <-. cbn [b_stacks]. rewrite upd_nth, Nat.eqb_sym.
      destruct (Nat.eqb_spec k0 k) as [->|]; [rewrite Hk; cbn; eauto|eauto].
    + injection E as <-. destruct (Nat.eqb_spec k0 k) as [->|]; [congruence|eauto].
  - destruct (nth_error (b_stacks s) k0) as [st0|] eqn:N; [|injection E as <-; eauto].
    unfold push_many in E. cbn [sstep] in E. destruct (_ <? _)%N; [discriminate|]. injection E as <-.
    cbn [b_stacks]. rewrite upd_nth. destruct (Nat.eqb_spec k k0) as [->|]; [|eauto].
    rewrite Hk. rewrite Hk in N. injection N as <-. cbn. eauto.
  - unfold push_many in E. cbn [sstep] in E. destruct (_ <? _)%N; [discriminate|]. injection E as <-. eauto.
  - injection E as <-. eauto.
  - injection E as <-. eauto.
  - injection E as <-. eauto.
  - injection E as <-. eauto.
Qed.
Theorem exec_max s c s' :
  bstep s c = BOk s' -> smax (b_exec s') = match c with MaxAll n => n | _ => smax (b_exec s) end.
Proof.
  intros E. destruct c; cbn [bstep] in E; try (injection E as <-; reflexivity).
  - destruct (nth_error (b_stacks s) k); injection E as <-; reflexivity.
  - destruct (nth_error (b_stacks s) k) as [st|]; [|injection E as <-; reflexivity].
    destruct (push_many l st); [injection E as <-; reflexivity|discriminate].
  - unfold push_many in E. cbn [sstep] in E. destruct (_ <? _)%N; [discriminate|]. injection E as <-. reflexivity.
Qed.

(* named inputs: a name resolves to the value of its LAST declaration, whatever else was declared,
   in whatever order *)
Fixpoint blookup (name : Z) (l : list (Z * (nat * Z))) : option (nat * Z) :=
  match l with [] => None | (n, v) :: r => if Z.eqb n name then Some v else blookup name r end.
Lemma blookup_filter name other l : other <> name ->
  blookup name (filter (fun e => negb (Z.eqb (fst e) other)) l) = blookup name l.
Proof.
  intros Hn. induction l as [|[n v] l IH]; cbn; [reflexivity|].
  destruct (Z.eqb_spec n other) as [->|Hne]; cbn.
  - destruct (Z.eqb_spec other name); [contradiction|exact IH].
  - destruct (Z.eqb n name); [reflexivity|exact IH].
Qed.
Theorem input_lookup name v other w l :
  blookup name (insert_input name v l) = Some v /\
  (other <> name -> blookup name (insert_input other w l) = blookup name l).
Proof.
  split.
  - unfold insert_input. cbn. now rewrite Z.eqb_refl.
  - intros Hn. unfold insert_input. cbn. destruct (Z.eqb_spec other name); [contradiction|]. now apply blookup_filter.
Qed.
Theorem inputs_commute n1 v1 n2 v2 l name : n1 <> n2 ->
  blookup name (insert_input n1 v1 (insert_input n2 v2 l)) = blookup name (insert_input n2 v2 (insert_input n1 v1 l)).
Proof.
  intros Hn. destruct (Z.eq_dec name n1) as [->|H1]; [|destruct (Z.eq_dec name n2) as [->|H2]].
  - rewrite (proj1 (input_lookup n1 v1 n2 v2 _)). rewrite (proj2 (input_lookup n1 v1 n2 v2 _)) by auto.
    now rewrite (proj1 (input_lookup n1 v1 n2 v2 _)).
  - rewrite (proj2 (input_lookup n2 v2 n1 v1 _)) by auto. rewrite !(proj1 (input_lookup n2 v2 n1 v1 _)). reflexivity.
  - rewrite !(proj2 (input_lookup name v1 _ _ _)) by auto. reflexivity.
Qed.

(* The two halves of C19 meet: every state a WELL-TYPED call sequence builds has every stack within its
   maximum (the well-formedness C02/C03 start from).  Invariant: a stack whose type-state is not
   "with data" is still empty, and every stack is within its current maximum - sizes can only be set
   while the stack is empty, and loading checks the room. *)
Definition swf (s : sstack Z) : Prop := (ssize s <= smax s)%N.
Definition binv (t : ts) (s : bstate) : Prop :=
  (t_exec t <> WSD -> elems (b_exec s) = []) /\ swf (b_exec s) /\
  forall k m st, nth_error (t_stacks t) k = Some m -> nth_error (b_stacks s) k = Some st ->
                 (m <> WSD -> elems st = []) /\ swf st.

Lemma swf_empty n : swf (SS n (@nil Z)).
Proof. unfold swf, ssize. cbn. lia. Qed.

Lemma nth_error_repeat {X} (x : X) n k y : nth_error (repeat x n) k = Some y -> y = x.
Proof. revert k. induction n as [|n IH]; intros [|k]; cbn; try discriminate; [now intros [= <-]|apply IH]. Qed.

Lemma binv_init n : binv (tinit n) (binit n).
Proof.
  split; [reflexivity|]. split; [apply swf_empty|].
  intros k m st Hm Hs. cbn in Hm, Hs. apply nth_error_repeat in Hs. subst st. split; [reflexivity|apply swf_empty].
Qed.

Lemma forallb_nth {X} (P : X -> bool) l k x : forallb P l = true -> nth_error l k = Some x -> P x = true.
Proof. intros H Hk. rewrite forallb_forall in H. apply H. eapply nth_error_In; eassumption. Qed.

Lemma push_many_wf l st st' : push_many l st = Some st' -> swf st' /\ smax st' = smax st.
Proof.
  unfold push_many. cbn [sstep]. destruct (N.ltb_spec (smax st) (N.of_nat (length l) + ssize st)) as [|Hge]; [discriminate|].
  intros [= <-]. unfold swf, ssize in *. cbn [smax elems]. rewrite app_length, Nat2N.inj_add. split; [lia|reflexivity].
Qed.

Lemma binv_step t s c t' s' : binv t s -> tstep t c = Some t' -> bstep s c = BOk s' -> binv t' s'.
Proof.
  intros (He & Hwe & Hst) Ht Hb. destruct c; cbn [tstep bstep] in *.
  - (* MaxAll: only while everything is still empty *)
    destruct (dataless (t_exec t) && forallb dataless (t_stacks t)) eqn:E; [|discriminate].
    apply andb_true_iff in E as [E1 E2]. injection Ht as <-. injection Hb as <-. cbn [t_exec t_stacks b_exec b_stacks].
    assert (Hee : elems (b_exec s) = []) by (apply He; destruct (t_exec t); cbn in E1; congruence).
    split; [intros _; exact Hee|]. split; [unfold swf, ssize, set_max; cbn; rewrite Hee; cbn; lia|].
    intros k m st Hm Hs. cbn [t_exec t_stacks b_exec b_stacks] in Hm, Hs. rewrite nth_error_map in Hm. rewrite nth_error_map in Hs.
    destruct (nth_error (t_stacks t) k) as [m0|] eqn:Em; [|discriminate]. injection Hm as <-.
    destruct (nth_error (b_stacks s) k) as [st0|] eqn:Es; [|discriminate]. injection Hs as <-.
    destruct (Hst k m0 st0 Em Es) as [Hemp _].
    assert (Hd : dataless m0 = true) by (eapply forallb_nth; eassumption).
    assert (E0 : elems st0 = []) by (apply Hemp; destruct m0; cbn in Hd; congruence).
    split; [intros _; exact E0|]. unfold swf, ssize, set_max. cbn. rewrite E0. cbn. lia.
  - (* MaxOf *)
    destruct (nth_error (t_stacks t) k) as [m0|] eqn:Em; [|discriminate].
    destruct (dataless m0) eqn:Hd; [|discriminate]. injection Ht as <-.
    destruct (nth_error (b_stacks s) k) as [st0|] eqn:Es.
    + injection Hb as <-. cbn [t_exec t_stacks b_exec b_stacks]. split; [exact He|]. split; [exact Hwe|].
      intros j m st Hm Hs. cbn [t_exec t_stacks b_exec b_stacks] in Hm, Hs. rewrite upd_nth in Hm. rewrite upd_nth in Hs. destruct (Nat.eqb_spec j k) as [->|Hne].
      * rewrite Em in Hm. rewrite Es in Hs. injection Hm as <-. injection Hs as <-.
        destruct (Hst k m0 st0 Em Es) as [Hemp _].
        assert (E0 : elems st0 = []) by (apply Hemp; destruct m0; cbn in Hd; congruence).
        split; [intros _; exact E0|]. unfold swf, ssize, set_max. cbn. rewrite E0. cbn. lia.
      * exact (Hst j m st Hm Hs).
    + injection Hb as <-. cbn [t_exec t_stacks]. split; [exact He|]. split; [exact Hwe|].
      intros j m st Hm Hs. cbn [t_exec t_stacks b_exec b_stacks] in Hm, Hs. rewrite upd_nth in Hm. destruct (Nat.eqb_spec j k) as [->|Hne]; [congruence|]. exact (Hst j m st Hm Hs).
  - (* Values *)
    destruct (nth_error (t_stacks t) k) as [m0|] eqn:Em; [|discriminate].
    destruct (sizeset m0); [|discriminate]. injection Ht as <-.
    destruct (nth_error (b_stacks s) k) as [st0|] eqn:Es.
    + destruct (push_many l st0) as [st1|] eqn:Ep; [|discriminate]. injection Hb as <-.
      cbn [t_exec t_stacks b_exec b_stacks]. split; [exact He|]. split; [exact Hwe|].
      intros j m st Hm Hs. cbn [t_exec t_stacks b_exec b_stacks] in Hm, Hs. rewrite upd_nth in Hm. rewrite upd_nth in Hs. destruct (Nat.eqb_spec j k) as [->|Hne].
      * rewrite Em in Hm. rewrite Es in Hs. injection Hm as <-. injection Hs as <-.
        split; [intros H; exfalso; apply H; reflexivity|]. apply (push_many_wf _ _ _ Ep).
      * exact (Hst j m st Hm Hs).
    + injection Hb as <-. cbn [t_exec t_stacks]. split; [exact He|]. split; [exact Hwe|].
      intros j m st Hm Hs. cbn [t_exec t_stacks b_exec b_stacks] in Hm, Hs. rewrite upd_nth in Hm. destruct (Nat.eqb_spec j k) as [->|Hne]; [congruence|]. exact (Hst j m st Hm Hs).
  - (* Program *)
    destruct (t_exec t) eqn:Ee; try discriminate. injection Ht as <-.
    destruct (push_many l (b_exec s)) as [e1|] eqn:Ep; [|discriminate]. injection Hb as <-.
    cbn [t_exec t_stacks b_exec b_stacks]. split; [intros H; exfalso; apply H; reflexivity|]. split; [apply (push_many_wf _ _ _ Ep)|exact Hst].
  - destruct (t_exec t) eqn:Ee; try discriminate. injection Ht as <-. injection Hb as <-.
    cbn [t_exec t_stacks]. split; [intros H; exfalso; apply H; reflexivity|]. split; [exact Hwe|exact Hst].
  - destruct (nth_error (t_stacks t) k); [|discriminate]. injection Ht as <-. injection Hb as <-.
    cbn [b_exec b_stacks]. split; [exact He|]. split; [exact Hwe|exact Hst].
  - injection Ht as <-. injection Hb as <-. cbn [t_exec t_stacks b_exec b_stacks]. split; [exact He|]. split; [exact Hwe|exact Hst].
  - assert (E : t' = t) by (destruct (t_exec t), (t_limit t); try discriminate; congruence).
    injection Hb as <-. subst t'. exact (conj He (conj Hwe Hst)).
Qed.

Lemma binv_run cs : forall t s t' s', binv t s -> trun t cs = Some t' -> brun s cs = BOk s' -> binv t' s'.
Proof.
  induction cs as [|c cs IH]; intros t s t' s' Hi; cbn [trun brun].
  - intros [= <-] [= <-]. exact Hi.
  - destruct (tstep t c) as [t1|] eqn:Et; [|discriminate]. destruct (bstep s c) as [s1|] eqn:Eb; [|discriminate].
    apply IH. eapply binv_step; eassumption.
Qed.

Lemma tstep_len t c t' : tstep t c = Some t' -> length (t_stacks t') = length (t_stacks t).
Proof.
  assert (U : forall X k (m : X) l, length (upd k m l) = length l).
  { intros X k m l. revert k. induction l as [|x l IHl]; intros [|k]; cbn; auto. }
  destruct c; cbn [tstep]; intros E;
    repeat match type of E with context [match ?x with _ => _ end] => destruct x eqn:? end;
    try discriminate; injection E as <-; cbn [t_stacks]; rewrite ?map_length, ?U; reflexivity.
Qed.
Lemma bstep_len s c s' : bstep s c = BOk s' -> length (b_stacks s') = length (b_stacks s).
Proof.
  assert (U : forall X k (m : X) l, length (upd k m l) = length l).
  { intros X k m l. revert k. induction l as [|x l IHl]; intros [|k]; cbn; auto. }
  destruct c; cbn [bstep]; intros E;
    repeat match type of E with context [match ?x with _ => _ end] => destruct x eqn:? end;
    try discriminate; injection E as <-; cbn [b_stacks]; rewrite ?map_length, ?U; reflexivity.
Qed.
Lemma run_len cs : forall t s t' s', length (t_stacks t) = length (b_stacks s) ->
  trun t cs = Some t' -> brun s cs = BOk s' -> length (t_stacks t') = length (b_stacks s').
Proof.
  induction cs as [|c cs IH]; intros t s t' s' Hl; cbn [trun brun].
  - intros [= <-] [= <-]. exact Hl.
  - destruct (tstep t c) as [t1|] eqn:Et; [|discriminate]. destruct (bstep s c) as [s1|] eqn:Eb; [|discriminate].
    apply IH. rewrite (tstep_len _ _ _ Et), (bstep_len _ _ _ Eb). exact Hl.
Qed.

Theorem typed_built_wf n cs s : typed n cs = true -> brun (binit n) cs = BOk s ->
  swf (b_exec s) /\ forall st, In st (b_stacks s) -> swf st.
Proof.
  unfold typed. destruct (trun (tinit n) cs) as [t|] eqn:R; [|discriminate]. intros _ Hb.
  pose proof (binv_run cs _ _ _ _ (binv_init n) R Hb) as (_ & Hwe & Hst).
  split; [exact Hwe|]. intros st Hin. apply In_nth_error in Hin. destruct Hin as [k Hk].
  assert (Hl : length (t_stacks t) = length (b_stacks s)).
  { eapply run_len; [|exact R|exact Hb]. cbn. now rewrite !repeat_length. }
  destruct (nth_error (t_stacks t) k) as [m|] eqn:Em.
  - exact (proj2 (Hst k m st Em Hk)).
  - apply nth_error_None in Em. assert (k < length (b_stacks s)) by (apply nth_error_Some; congruence). lia.
Qed.
