(* Correspondence for C15. input = [kind; a; b] (or one value), observation = what Rust's operators answered. *)
From Coq Require Import List ZArith Bool Floats.
From UEC Require Import Base.Wire Base.F64 Ec.Order.
Import ListNotations.
Local Open Scope Z_scope.

Definition enc_cmp (c : option comparison) : Z := match c with Some Lt => -1 | Some Eq => 0 | Some Gt => 1 | None => 2 end.
Definition b2z (b : bool) : Z := if b then 1 else 0.

(* expected operator vector [lt; le; gt; ge; eq; ne; cmp; partial_cmp]; has_ord = the type implements Ord *)
Definition expect (pc : option comparison) (eq : bool) (has_ord : bool) : list Z :=
  let o := ops_of pc in
  [b2z (o_lt o); b2z (o_le o); b2z (o_gt o); b2z (o_ge o); b2z eq; b2z (negb eq);
   if has_ord then enc_cmp pc else 2; enc_cmp pc].

Fixpoint zlist_eqb (a b : list Z) : bool :=
  match a, b with [], [] => true | x :: a', y :: b' => (x =? y) && zlist_eqb a' b' | _, _ => false end.

Definition dec_tres (t : tree) : option tres :=
  match t with L [A 0; A v] => Some (RScore v) | L [A 1; A v] => Some (RError v) | _ => None end.

Definition model (t : tree) : option (list Z) :=
  match t with
  | L [A 0; A a; A b] => Some (expect (Some (score_cmp a b)) (a =? b) true)
  | L [A 1; A a; A b] => Some (expect (Some (error_cmp a b)) (a =? b) true)
  | L [A 2; a; b] => olet a := dec_tres a in olet b := dec_tres b in Some (expect (tres_pcmp a b) (tres_eqb a b) false)
  | L [A 3; a; b] => olet a := tlist tZ a in olet b := tlist tZ b in
      Some (expect (Some (results_cmp score_cmp (results_from a) (results_from b))) (zlist_eqb a b) true)
  | L [A 4; a; b] => olet a := tlist tZ a in olet b := tlist tZ b in
      Some (expect (Some (results_cmp error_cmp (results_from a) (results_from b))) (zlist_eqb a b) true)
  (* individuals: [genome; results] with genome a list *)
  | L [A 5; L [ga; ra]; L [gb; rb]] =>
      olet ga := tlist tZ ga in olet gb := tlist tZ gb in olet ra := tlist tZ ra in olet rb := tlist tZ rb in
      Some (expect (Some (results_cmp score_cmp (results_from ra) (results_from rb))) (zlist_eqb ga gb && zlist_eqb ra rb) true)
  | L [A 6; L [ga; ra]; L [gb; rb]] =>
      olet ga := tlist tZ ga in olet gb := tlist tZ gb in olet ra := tlist tZ ra in olet rb := tlist tZ rb in
      Some (expect (Some (results_cmp error_cmp (results_from ra) (results_from rb))) (zlist_eqb ga gb && zlist_eqb ra rb) true)
  (* aggregation: results vector -> [total; cases...] *)
  | L [A 7; l] | L [A 8; l] => olet l := tlist tZ l in Some (total (results_from l) :: cases (results_from l))
  (* scoring: the genome the maker produced, scorer(genome) = [sum; product-ish] : [genome...; -7; results...] *)
  | L [A 9; g] => olet g := tlist tZ g in
      let r := map (fun x => 3 * x + 1) g in Some (g ++ [-7] ++ (total (results_from r) :: r))
  (* min, max (method and free function), clamp to the ordered pair of the other two, iterator max / min *)
  | L [A 10; A pol; A x; A y; A z] =>
      let c := if pol =? 0 then score_cmp else error_cmp in
      let lo := match c y z with Gt => z | _ => y end in
      let hi := match c y z with Gt => y | _ => z end in
      (* Iterator::max keeps the LAST of equal maxima, Iterator::min the first of equal minima: equal values are
         indistinguishable here (they are equal integers) *)
      Some [omin c x y; omax c x y; omin c x y; omax c x y; oclamp c x lo hi; omax c (omax c x y) z; omin c (omin c x y) z]
  (* clone_from: the target ends up with the source's results and total *)
  | L [A 11; A _; _; vb] => olet vb := tlist tZ vb in
      let r := total (results_from vb) :: cases (results_from vb) in Some (r ++ [-7] ++ r)
  (* individuals over a single score-or-error result *)
  (* the operators and the totals at other integer result types: the same order, the same sum *)
  | L [A 14; A _; A pol; A a; A b] =>
      Some (expect (Some (if pol =? 0 then score_cmp a b else error_cmp a b)) (a =? b) true)
  | L [A 18; A _; l] => olet l := tlist tZ l in Some (total (results_from l) :: cases (results_from l))
  | L [A 15; A _; l] => olet l := tlist tZ l in
      Some (total (results_from l) :: total (results_from l) :: cases (results_from l))
  | L [A 12; L [ga; ra]; L [gb; rb]] =>
      olet ga := tlist tZ ga in olet gb := tlist tZ gb in olet ra := dec_tres ra in olet rb := dec_tres rb in
      Some (expect (tres_pcmp ra rb) (zlist_eqb ga gb && tres_eqb ra rb) false)
  | _ => None
  end.

(* f64 results, as bit patterns: the total is the left-to-right sum. Rust's `Sum for f64` starts from -0.0
   (from +0.0 in older releases): either start is "the sum of the per-case results in the order given" *)
Definition judge_float (l o : list Z) : bool :=
  zlist_eqb o (bits (ftotal (fzero true) (map of_bits l)) :: l) || zlist_eqb o (bits (ftotal (fzero false) (map of_bits l)) :: l).

Definition judge (t : tree) : option (list Z) :=
  match t with
  (* comparisons of float result collections ([0] scores, [1] errors, [2] individuals over scores): by the totals where
     those are comparable; == structural (with equal genomes for the individuals) *)
  | L [L [A 16; A pol; la; lb]; o] =>
      olet la := tlist tZ la in olet lb := tlist tZ lb in olet o := tlist tZ o in
      (* [3] error collections / [4] individuals compared with THEMSELVES: still by the total - a NaN total is not even
         comparable (or equal) to itself *)
      let self := (3 <=? pol) in
      let (fa, fb) := (map of_bits la, if self then map of_bits la else map of_bits lb) in
      let z := fzero true in
      Some [if zlist_eqb o (expect (fresults_pcmp ((pol =? 1) || (pol =? 3)) z fa fb) (fresults_eqb z fa fb) false) then 0 else 2]
  (* no total order on TestResult: [not Ord; 2 (no cmp); control: i64 is Ord; cmp 1 2 = Less] *)
  | L [L [A 17]; o] => olet o := tlist tZ o in Some [if zlist_eqb o [0; 2; 1; -1] then 0 else 2]
  | L [L [A 13; A _; l]; o] => olet l := tlist tZ l in olet o := tlist tZ o in
      if forallb (fun b => (0 <=? b) && (b <? 2^64) && (bits (of_bits b) =? b)) l
      then Some [if judge_float l o then 0 else 2] else None
  | L [i; o] => olet m := model i in olet o := tlist tZ o in Some [if zlist_eqb m o then 0 else 2]
  | _ => None
  end.
Definition show (t : tree) : option (list Z) := match t with L (i :: _) => model i | _ => None end.
