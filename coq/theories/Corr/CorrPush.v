(* Correspondence for C01 / C02 / C03: the real PushState against Spec + Run. *)
From Coq Require Import List ZArith NArith Floats Bool.
From UEC Require Import Base.Wire Base.F64 Push.Stack Push.Syntax Push.Spec Push.Run Corr.PushWire.
Import ListNotations.
Local Open Scope Z_scope.

Inductive observation :=
| OPanic
| OOut (class : Z) (s : ostate) (kind : Z) (same : bool).
(* [same]: nothing that must be preserved was lost - for the error of a single step, the state carried by the
   error is == a clone of the input state (PushState ==: stacks, capacities, output, inputs, limits);
   otherwise (success, whole runs) every declared input still resolves to its value *)

Definition dec_obs (t : tree) : option observation :=
  match t with
  | L [A (-1)] => Some OPanic
  | L [A c; s; A k] => olet s := dec_ostate s in Some (OOut c s k true)
  | L [A c; s; A k; b] => olet s := dec_ostate s in olet b := tbool b in Some (OOut c s k b)
  | _ => None
  end.

(* the model's view of one way an execution can end *)
Inductive final := FOk (s : state) | FRec (s : state) (e : err) | FFatal (s : state) (e : err) | FPanic.

Definition final_of_outcome (o : outcome) : final :=
  match o with Ok s => FOk s | Rec s e => FRec s e | Fatal s e => FFatal s e | Panic => FPanic end.
Definition final_of_rs (r : rs) : final :=
  match r with Running s _ | Finished s _ => FOk s | Failed s e _ => FFatal s e | Panicked => FPanic end.

Definition final_matches (f : final) (o : observation) : bool :=
  match f, o with
  | FPanic, OPanic => true
  | FOk s, OOut 0 os _ _ => state_matches s os
  | FRec s e, OOut 1 os k _ => state_matches s os && Z.eqb k (err_kind e)
  | FFatal s e, OOut 2 os k _ => state_matches s os && Z.eqb k (err_kind e)
  | _, _ => false
  end.

Definition final_state (f : final) : option state :=
  match f with FOk s | FRec s _ | FFatal s _ => Some s | FPanic => None end.

Definition alternatives (mode : Z) (s : state) (extra : tree) : option (list final) :=
  match mode with
  | 0 => Some (map final_of_rs (run_alts s))
  (* two phases: a run, then (the printed output having been looked at) another run from the state the first one left *)
  | 2 => Some (flat_map (fun r => match r with
                                  | Running s1 _ | Finished s1 _ => map final_of_rs (run_alts s1)
                                  | _ => [final_of_rs r]
                                  end) (run_alts s))
  (* PrintChar<c> for an arbitrary character c (given by its code point): the character is appended to the output,
     nothing else changes *)
  | 3 => match extra with
         | L [A c] => Some [FOk (add_out [TChar c] s)]
         | _ => None
         end
  | 1 => olet p := dec_prog extra in
         Some [final_of_outcome (perform_prog code_prec p s);
               final_of_outcome (perform_prog (fun _ => true) p s);
               final_of_outcome (perform_prog (fun _ => false) p s)]
  | _ => None
  end.

Fixpoint first_match (l : list final) (o : observation) : option final :=
  match l with
  | [] => None
  | f :: r => if final_matches f o then Some f else first_match r o
  end.

Definition out_of (f : final) : list Z := match final_state f with Some s => enc_out s | None => [] end.

(* ---- the property predicates, evaluated on the implementation's output ---- *)
Definition ostack_within {X} (st : sstack X) : bool := (N.of_nat (length (elems st)) <=? smax st)%N.
Definition sizes_within (os : ostate) : bool :=
  ostack_within (o_exec os) && ostack_within (o_ints os) && ostack_within (o_floats os) && ostack_within (o_bools os).
Definition state_within (s : state) : bool :=
  ostack_within (exec s) && ostack_within (ints s) && ostack_within (floats s) && ostack_within (bools s).

(* C02: an error hands back the input state; recoverable <-> operand/arithmetic fault, fatal <-> overflow *)
Definition holds_c02 (mode : Z) (s : state) (_ : list final) (o : observation) : bool :=
  match o with
  | OPanic => false
  | OOut c os k same =>
    match mode, c with
    | 1, 1 => same && state_matches s os && list_eqb Z.eqb (o_out os) [] && (Z.eqb k 1 || Z.eqb k 3)
    | 1, 2 => same && state_matches s os && list_eqb Z.eqb (o_out os) [] && Z.eqb k 2
    | _, _ => same
    end
  end.

(* C03: no panic, every stack within its capacity, an error only for overflow - and only WHEN a stack would
   overflow: the semantics (in one of its admissible readings) must end in an overflow too *)
Definition is_fatal (f : final) : bool := match f with FFatal _ _ => true | _ => false end.
Definition holds_c03 (mode : Z) (s : state) (alts : list final) (o : observation) : bool :=
  match o with
  | OPanic => false
  | OOut c os k _ =>
    (negb (state_within s) || sizes_within os) &&
    match c with 0 => true | 1 => Z.eqb mode 1 | 2 => Z.eqb k 2 && existsb is_fatal alts | _ => false end
  end.

Definition intact (o : observation) : bool := match o with OOut _ _ _ same => same | OPanic => true end.
Definition judge_with (strict : bool) (holds : Z -> state -> list final -> observation -> bool) (t : tree) : option (list Z) :=
  match t with
  | L [L [A mode; _; s; extra]; o] =>
    olet s := dec_state s in olet o := dec_obs o in
    olet alts := alternatives mode s extra in
    match (if strict && negb (intact o) then None else first_match alts o) with
    | Some f => Some (0 :: out_of f)
    | None =>
      Some ((if holds mode s alts o then 1 else 2) :: match alts with f :: _ => out_of f | [] => [] end)
    end
  | _ => None
  end.

(* C01: the property IS equality with the semantics *)
Definition judge_c01 := judge_with true (fun _ _ _ _ => false).
Definition judge_c02 := judge_with true holds_c02.
Definition judge_c03 := judge_with false holds_c03.

(* ---- display of the model's answer ---- *)
Definition show_final (f : final) : list (list Z) :=
  match f with
  | FPanic => [[-1]]
  | FOk s | FRec s _ | FFatal s _ =>
    [[match f with FOk _ => 0 | FRec _ _ => 1 | _ => 2 end;
      match f with FRec _ e | FFatal _ e => err_kind e | _ => 0 end];
     [Z.of_N (smax (exec s)); Z.of_nat (length (elems (exec s)))];
     Z.of_N (smax (ints s)) :: elems (ints s);
     Z.of_N (smax (floats s)) :: map bits (elems (floats s));
     Z.of_N (smax (bools s)) :: map (fun b : bool => if b then 1 else 0) (elems (bools s));
     enc_out s]
  end.
Definition show (t : tree) : option (list (list Z)) :=
  match t with
  | L (L [A mode; _; s; extra] :: _) =>
    olet s := dec_state s in olet alts := alternatives mode s extra in
    match alts with f :: _ => Some (show_final f) | [] => None end
  | _ => None
  end.
