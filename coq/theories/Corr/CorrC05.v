(* Correspondence for C05: Vec::<PushProgram>::from(Plushy) against Plushy.parse_top. *)
From Coq Require Import List ZArith Bool.
From UEC Require Import Base.Wire Push.Syntax Push.Plushy Corr.PushWire.
Import ListNotations.
Local Open Scope Z_scope.

Definition dec_gene (t : tree) : option gene :=
  match t with
  | A (-1) => Some Close
  | _ => match dec_prog t with Some (PI i) => Some (G i) | _ => None end
  end.

(* genes overwritten in place: the genome that is translated is the edited one *)
Fixpoint set_nth {X} (k : nat) (x : X) (l : list X) : list X :=
  match l, k with [], _ => [] | _ :: r, O => x :: r | y :: r, S k' => y :: set_nth k' x r end.
Definition apply_edits (g : list gene) (edits : list tree) : option (list gene) :=
  fold_left (fun acc e => match acc, e with
                          | Some g, L [A p; x] => if (0 <=? p) && (p <? Z.of_nat (length g))
                                                  then option_map (fun x' => set_nth (Z.to_nat p) x' g) (dec_gene x) else None
                          | _, _ => None end) edits (Some g).

Definition judge_genes (g : list gene) (o : tree) : option (list Z) :=
    match o with
    | L [A (-1)] => Some [2]
    | _ =>
      olet q := tlist dec_prog o in
      match parse_top g with
      | Some p => Some [if list_eqb prog_eqb p q then 0 else 2]
      | None => Some [3]
      end
    end.

Definition judge (t : tree) : option (list Z) :=
  match t with
  | L [L [A 4; g; L edits]; o] => olet g := tlist dec_gene g in olet g := apply_edits g edits in judge_genes g o
  | L [L [_; g]; o] =>
    olet g := tlist dec_gene g in
    match o with
    | L [A (-1)] => Some [2]
    | _ =>
      olet q := tlist dec_prog o in
      match parse_top g with
      | Some p => Some [if list_eqb prog_eqb p q then 0 else 2]
      | None => Some [3]
      end
    end
  | _ => None
  end.

Fixpoint enc_prog (fuel : nat) (p : prog) : list Z :=
  match fuel with
  | O => [-9]
  | S f =>
    match p with
    | PI i => [Z.of_nat (num_opens i)]
    | PB l => (-1) :: flat_map (enc_prog f) l ++ [-2]
    end
  end.
(* the model's program as a bracket string: n = an instruction opening n blocks, -1/-2 = block start/end *)
Definition show (t : tree) : option (list Z) :=
  match t with
  | L (L [_; g] :: _) => olet g := tlist dec_gene g in
                    match parse_top g with Some p => Some (flat_map (enc_prog 3000) p) | None => None end
  | _ => None
  end.
