(* Correspondence for C10. input = [kind; a; b; args; draws; coverage?]; observation see harness/src/c10.rs *)
From Coq Require Import List ZArith Bool Arith.
From UEC Require Import Base.Wire Ec.Crossover.
Import ListNotations.
Local Open Scope Z_scope.

Fixpoint zl_eqb (a b : list Z) : bool :=
  match a, b with [], [] => true | x :: a', y :: b' => (x =? y) && zl_eqb a' b' | _, _ => false end.
Definition mem (c : list Z) (l : list (list Z)) : bool := existsb (zl_eqb c) l.

Definition dec_children (t : tree) : option (list (list Z)) :=
  tlist (fun e => match e with L [c; _] => tlist tZ c | _ => None end) t.

(* long complementary parents (first all 0, second all 1: the child IS the mask of genes taken from the second) *)
Fixpoint drop_zeros (l : list Z) : list Z := match l with 0 :: r => drop_zeros r | _ => l end.
Fixpoint drop_ones (l : list Z) : list Z := match l with 1 :: r => drop_ones r | _ => l end.
(* the ones form one contiguous (possibly empty) segment: 0* 1* 0* *)
Definition one_segment (m : list Z) : bool :=
  match drop_zeros (drop_ones (drop_zeros m)) with [] => true | _ => false end.
Fixpoint all_masks (k : nat) : list (list Z) :=
  match k with O => [[]] | S k' => flat_map (fun m => [0 :: m; 1 :: m]) (all_masks k') end.

Definition judge_long (kind : Z) (rest : list tree) (o : tree) : option (list Z) :=
  match kind, rest, o with
  | 10, [A _; A len; _; _], L [A 0; ch] =>
    olet ch := dec_children ch in
    Some [if forallb (fun c => Nat.eqb (length c) (Z.to_nat len) && one_segment c) ch then 0 else 2]
  | 11, [A _; A _; pos; _; _], L [A 0; ch] =>
    olet pos := tlist tZ pos in olet ch := dec_children ch in
    let want := all_masks (length pos) in
    let sound := forallb (fun c => mem c want) ch in
    let complete := forallb (fun c => mem c ch) want in
    Some [if sound && complete then 0 else 2; if sound then 0 else 1; if complete then 0 else 1]
  | _, _, _ => Some [2; 9]
  end.

Definition judge (t : tree) : option (list Z) :=
  match t with
  | L [L (A kind :: a :: b :: rest); o] =>
    olet a := tlist tZ a in olet b := tlist tZ b in
    if (kind =? 10) || (kind =? 11) then judge_long kind rest o else
    (* 12 / 13: byte genes, 14 / 15: string genes through the generic vector impls *)
    let two_point := (kind <? 3) || (kind =? 8) || (kind =? 12) || (kind =? 14) in
    if (kind <? 6) || (kind =? 8) || (kind =? 9) || ((12 <=? kind) && (kind <=? 15)) then
      let sup := if two_point then two_point_support a b else uniform_support a b in
      let coverage := match rest with [_; _; A 1] => true | _ => false end in
      match sup, o with
      | None, L [A 1] => Some [0]
      | Some l, L [A 0; ch] =>
        olet ch := dec_children ch in
        let sound := forallb (fun c => mem c l) ch in
        let complete := negb coverage || forallb (fun c => mem c ch) l in
        Some [if sound && complete then 0 else 2; if sound then 0 else 1; if complete then 0 else 1]
      | _, _ => Some [2; 9]
      end
    else
      let expected := match kind, rest with
                      (* (an index beyond every genome the generators build is out of range whatever the genomes are: it is
                         not turned into a unary number) *)
                      | 6, [A i] => if (i <? 0) || (100000 <? i) then None else crossover_gene a b (Z.to_nat i)
                      | 7, [A lo; A hi] => if (lo <? 0) || (hi <? 0) || (100000 <? lo) || (100000 <? hi) then None
                                           else crossover_segment a b (Z.to_nat lo) (Z.to_nat hi)
                      | _, _ => None
                      end in
      match expected, o with
      | None, L [A 1; a'; b'] =>
        (* an error must leave both genomes as they were *)
        olet a' := tlist tZ a' in olet b' := tlist tZ b' in Some [if zl_eqb a a' && zl_eqb b b' then 0 else 2]
      | Some (x, y), L [A 0; a'; b'] =>
        olet a' := tlist tZ a' in olet b' := tlist tZ b' in Some [if zl_eqb x a' && zl_eqb y b' then 0 else 2]
      | _, _ => Some [2; 9]
      end
  | _ => None
  end.

Definition show (t : tree) : option (list (list Z)) :=
  match t with
  | L (L (A kind :: a :: b :: rest) :: _) =>
    olet a := tlist tZ a in olet b := tlist tZ b in
    if kind <? 6 then (if kind <? 3 then two_point_support a b else uniform_support a b)
    else match kind, rest with
         | 6, [A i] => match (if 100000 <? i then None else crossover_gene a b (Z.to_nat i)) with Some (x, y) => Some [x; y] | None => Some [[-1]] end
         | 7, [A lo; A hi] => match (if (100000 <? lo) || (100000 <? hi) then None else crossover_segment a b (Z.to_nat lo) (Z.to_nat hi)) with Some (x, y) => Some [x; y] | None => Some [[-1]] end
         | _, _ => None
         end
  | _ => None
  end.
