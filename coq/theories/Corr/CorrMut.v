(* Correspondence for C11 (shape of every child) and C12 (the law of the children). *)
From Coq Require Import List ZArith QArith Bool Arith.
From UEC Require Import Base.Wire Base.Dist Ec.Mutation Ec.Generators Ec.Crossover.
Import ListNotations.
Local Open Scope Z_scope.

Definition q_of (n d : Z) : Q := Qmake n (Z.to_pos d).
Fixpoint zl_eqb (a b : list Z) : bool :=
  match a, b with [], [] => true | x :: a', y :: b' => (x =? y) && zl_eqb a' b' | _, _ => false end.
Definition b2z (b : bool) : Z := if b then 1 else 0.
Definition z2b (z : Z) : bool := negb (z =? 0).

(* injective code of a gene list over values 0..62 *)
Fixpoint code_of (l : list Z) : Z := match l with [] => 0 | x :: r => (x + 1) + 64 * code_of r end.

(* i64 genes under WithRate: `!x` is the bitwise complement *)
Definition inot (x : Z) : Z := - x - 1.
Fixpoint flip_shape_b (g c : list Z) : bool :=
  match g, c with
  | [], [] => true
  | x :: g', y :: c' => ((y =? x) || (y =? inot x)) && flip_shape_b g' c'
  | _, _ => false
  end.

(* UMAD language: per parent gene optionally that gene, then optionally one new gene *)
(* written with explicit conditionals: vm_compute is call-by-value, [||] would evaluate every branch *)
Fixpoint lang_b (is_new : Z -> bool) (g c : list Z) : bool :=
  match g with
  | [] => match c with [] => true | _ => false end
  | x :: t =>
    match c with
    | [] => lang_b is_new t c
    | y :: r =>
      if (if y =? x then lang_b is_new t r else false) then true
      else if (if y =? x then match r with y2 :: r2 => if is_new y2 then lang_b is_new t r2 else false | [] => false end else false) then true
      else if (if is_new y then lang_b is_new t r else false) then true
      else lang_b is_new t c
    end
  end.
Fixpoint interleaved_b (is_new : Z -> bool) (g c : list Z) : bool :=
  match g, c with
  | [], [] => true
  | x :: t, y1 :: y2 :: r => (y1 =? x) && is_new y2 && interleaved_b is_new t r
  | _, _ => false
  end.

Definition dec_children (t : tree) : option (list (list Z)) :=
  tlist (fun e => match e with L [c; _] => tlist tZ c | _ => None end) t.

Definition rate_is (n d v : Z) : bool := (n =? v * d).

(* C11: every observed child has the right shape *)
Definition shape_ok (p : list tree) (c : list Z) : option bool :=
  match p with
  | [A 0; A rn; A rd; g] | [A 1; A rn; A rd; g] =>
    olet g := tlist tZ g in
    Some ((Nat.eqb (length g) (length c)) && forallb (fun y => (y =? 0) || (y =? 1)) c
          && (negb (rate_is rn rd 0) || zl_eqb c g)
          && (negb (rd <=? rn) || zl_eqb c (map (fun x => 1 - x) g)))
  | [A 9; A rn; A rd; g] =>
    olet g := tlist tZ g in
    Some (flip_shape_b g c
          && (negb (rate_is rn rd 0) || zl_eqb c g)
          && (negb (rd <=? rn) || zl_eqb c (map inot g)))
  | [A 2; g] | [A 3; g] => olet g := tlist tZ g in
    (* 1/length: a genome of ONE gene is mutated at rate 1, i.e. its gene is flipped with certainty *)
    Some ((Nat.eqb (length g) (length c)) && forallb (fun y => (y =? 0) || (y =? 1)) c
          && (negb (Nat.eqb (length g) 1) || zl_eqb c (map (fun x => 1 - x) g)))
  | [A 4; A an; A ad; A dn; A dd; A ek; A en; A ed; g; alpha]
  | [A 5; A an; A ad; A dn; A dd; A ek; A en; A ed; g; alpha]
  | [A 10; A an; A ad; A dn; A dd; A ek; A en; A ed; g; alpha] =>
    olet g := tlist tZ g in olet alpha := tlist tZ alpha in
    let is_new := fun y => existsb (Z.eqb y) alpha in
    Some (match g with
          | [] => if ek =? 0 then zl_eqb c [] else match c with [] => true | [y] => is_new y | _ => false end
          | _ => lang_b is_new g c
                 && (negb (rate_is an ad 0 && rate_is dn dd 0) || zl_eqb c g)
                 && (negb (rate_is dn dd 1) || zl_eqb c [])
                 && (negb (rate_is an ad 1 && rate_is dn dd 0) || interleaved_b is_new g c)
          end)
  | _ => None
  end.

Definition judge_c11 (t : tree) : option (list Z) :=
  match t with
  | L [L [_; _; L p]; L [A 0; ch]] =>
    olet ch := dec_children ch in
    olet oks := omap (shape_ok p) ch in
    Some [if forallb (fun b => b) oks then 0 else 2]
  | L [_; L [A (-1)]] => Some [2]
  | _ => None
  end.

(* C12: the model law of the children, as (code, probability) *)
Definition bools_code (l : list bool) : Z := code_of (map b2z l).
Definition law_of (p : list tree) : option (list (Z * Q)) :=
  match p with
  | [A 0; A rn; A rd; g] | [A 1; A rn; A rd; g] =>
    olet g := tlist tZ g in
    Some (tally Z.eqb (dmap bools_code (with_rate (q_of rn rd) (map z2b g))))
  | [A 2; g] | [A 3; g] =>
    olet g := tlist tZ g in Some (tally Z.eqb (dmap bools_code (one_over_length (map z2b g))))
  | [A 4; A an; A ad; A dn; A dd; A ek; A en; A ed; g; alpha]
  | [A 5; A an; A ad; A dn; A dd; A ek; A en; A ed; g; alpha] =>
    olet g := tlist tZ g in olet alpha := tlist tZ alpha in
    Some (tally Z.eqb (dmap code_of (umad (uniform alpha) (q_of an ad) (q_of dn dd)
                                          (if ek =? 0 then None else Some (q_of en ed)) g)))
  | [A 14; A _; a; b]   (* the same in every argument form *)
  | [A 6; a; b] =>
    olet a := tlist tZ a in olet b := tlist tZ b in
    if Nat.eqb (length a) (length b)
    then Some (tally Z.eqb (dmap (fun m => code_of (mix m a b)) (uniform_xo_masks (length a))))
    else None
  | [A 7; A n; A pn; A pd] => Some (tally Z.eqb (dmap bools_code (random_bits (q_of pn pd) (Z.to_nat n))))
  | [A 11; A op; A len; A i; A j; A rn; A rd] =>
    (* a genome of `len` genes seen through positions i < j: the pair marginal of the model
       (Generators.flip_pair_marginal / random_bits_pair / uniform_xo_pair): independent, each with rate r *)
    if (0 <=? i) && (i <? j) && (j <? len) then
      let r := if (op =? 2) || (op =? 3) || (op =? 4) then 1 # 2 else if op =? 6 then Qmake 1 (Z.to_pos len) else q_of rn rd in
      Some (map (fun ab => (code_of [b2z (fst ab); b2z (snd ab)], Qmult (bern r (fst ab)) (bern r (snd ab))))
                [(false, false); (true, false); (false, true); (true, true)])
    else None
  | [A 12; A op; A len; A rn; A rd] =>
    (* every gene of every child of a very long genome pooled: each is flipped with the rate, independently
       (C12_flip_marginals), so the pooled genes are independent trials with that rate *)
    if 0 <? len then
      let r := if (op =? 0) || (op =? 1) then Qmake 1 (Z.to_pos len) else q_of rn rd in
      Some [(code_of [1], r); (code_of [0], Qminus 1 r)]
    else None
  | [A 13; A n; A _; A _; A ck; A cn; A cd]
  | [A 8; A n; A ck; A cn; A cd] =>
    (* even construction modes take the default close probability, odd ones the explicit one *)
    let c := if Z.even ck then default_close (Z.to_nat n) else q_of cn cd in
    Some (tally Z.eqb (dmap (fun o => match o with None => 0 | Some i => Z.of_nat i + 1 end)
                            (gene_gen c (uniform (seq 0 (Z.to_nat n))))))
  | _ => None
  end.
Definition enc_law (l : list (Z * Q)) : list Z :=
  flat_map (fun cq => [fst cq; Qnum (snd cq); Z.pos (Qden (snd cq))]) l.
Definition judge_c12 (t : tree) : option (list Z) :=
  match t with
  | L [L [_; _; L p]; _] => olet l := law_of p in Some (4 :: 0 :: enc_law l)
  | _ => None
  end.
