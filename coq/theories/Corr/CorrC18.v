(* Correspondence for C18. *)
From Coq Require Import List ZArith QArith Bool Arith.
From UEC Require Import Base.Wire Base.Dist Ec.Generators.
Import ListNotations.
Local Open Scope Z_scope.

Definition enc_law (l : list (Z * Q)) : list Z :=
  flat_map (fun cq => [fst cq; Qnum (snd cq); Z.pos (Qden (snd cq))]) l.

Definition judge (t : tree) : option (list Z) :=
  match t with
  | L [L [_; _; L [A 5; _; src]]; o] =>
    olet src := tlist tZ src in
    match one_of src, o with
    | None, L [A (-7)] => Some [0]
    | None, _ => Some [2; 1]
    | Some d, L [A nc; _] =>
      if nc =? Z.of_nat (length src)
      then Some (4 :: 0 :: enc_law (tally Z.eqb (dmap (fun i => nth i src 0) d)))
      else Some [2; 2]
    | Some _, _ => Some [2; 3]
    end
  | L [L [_; _; L [A 6; _; A n; A m]]; o] =>
    (* a source of n members 0..n-1, far too many to tabulate: index classes modulo m, with the law of
       Generators.one_of_class_prob / class_count_Z; a value outside 0..n-1 is reported as class -1 *)
    if (n <=? 0) || (m <=? 0) then None else
    match o with
    | L [A nc; _] =>
      if nc =? n
      then Some (4 :: 0 :: enc_law (map (fun r => (Z.of_nat r, Qmake ((n + m - 1 - Z.of_nat r) / m) (Z.to_pos n))) (seq 0 (Z.to_nat m))))
      else Some [2; 2]
    | _ => Some [2; 3]
    end
  (* Bitstring::random: two positions jointly - four equally likely combinations (C18_collection_iid: the bits are
     independent draws of the element generator) *)
  | L [L [_; _; L [A 10; A size; _; _]]; o] =>
    match o with
    | L [A len; _] => if len =? size then Some (4 :: 0 :: enc_law [(0, 1 # 4); (1, 1 # 4); (2, 1 # 4); (3, 1 # 4)]) else Some [2; 2]
    | _ => Some [2; 3]
    end
  (* Bitstring::random_with_probability: every bit of every draw is set with the requested probability *)
  | L [L [_; _; L [A 11; A size; A num; A den]]; o] =>
    if (den <=? 0) || (num <? 0) || (den <? num) then None else
    match o with
    | L [A len; _] =>
      if len =? size
      then Some (4 :: 0 :: enc_law (filter (fun cq => negb (Qeq_bool (snd cq) 0))
                                           [(0, Qred (Qmake (den - num) (Z.to_pos den))); (1, Qred (Qmake num (Z.to_pos den)))]))
      else Some [2; 2]
    | _ => Some [2; 3]
    end
  | L [L [_; _; L [A 7; _; A members]]; o] =>
    (* `members` zero-sized members: rejected exactly when there are none, otherwise num_choices = members *)
    Some [match o with
          | L [A (-7)] => if members =? 0 then 0 else 2
          | L [A nc; _] => if (0 <? members) && (nc =? members) then 0 else 2
          | _ => 2 end]
  | L [L [_; _; L [A 8; A n; A m]]; o] =>
    if (n <=? 0) || (m <=? 0) then None else
    match o with
    | L [A nc; _] =>
      if nc =? n
      then Some (4 :: 0 :: enc_law (map (fun r => (Z.of_nat r, Qmake ((n + m - 1 - Z.of_nat r) / m) (Z.to_pos n))) (seq 0 (Z.to_nat m))))
      else Some [2; 2]
    | _ => Some [2; 3]
    end
  | L [L [_; _; L (A k :: A size :: _)]; L entries] =>
    (* every draw produced exactly `size` elements, all from the element generator *)
    Some [if forallb (fun e => match e with L [A len; A 1; _] => len =? size | _ => false end) entries
             && negb (match entries with [] => true | _ => false end) then 0 else 2]
  | _ => None
  end.
