(* Correspondence for C19: compiled-in call sequences run on the real builder (kind 0) and compile
   probes (kind 1: does rustc accept the call sequence?). *)
From Coq Require Import List ZArith NArith Bool Arith.
From UEC Require Import Base.Wire Push.Stack Push.Builder.
Import ListNotations.
Local Open Scope Z_scope.

Definition dec_call (t : tree) : option call :=
  match t with
  | L [A 0; n] => option_map MaxAll (tN n)
  | L [A 1; k; n] => olet k := tnat k in olet n := tN n in Some (MaxOf k n)
  | L [A 2; k; l] => olet k := tnat k in olet l := tlist tZ l in Some (Values k l)
  | L [A 3; l] => olet l := tlist tZ l in Some (Program l)
  | L [A 4] => Some NoProgram
  | L [A 5; k; A name; A v] => olet k := tnat k in Some (Input k name v)
  | L [A 6; n] => option_map StepLimit (tN n)
  | L [A 7] => Some Build
  | _ => None
  end.

Fixpoint zl_eqb (a b : list Z) : bool :=
  match a, b with [], [] => true | x :: a', y :: b' => (x =? y) && zl_eqb a' b' | _, _ => false end.

(* observed stack [contents; max]; absent stacks (struct without that stack) are [[]; -1] *)
Definition stack_ok (st : sstack Z) (t : tree) : bool :=
  match t with
  | L [c; A m] => if m =? -1 then true
                  else match tlist tZ c with Some c => zl_eqb c (elems st) && (m =? Z.of_N (smax st)) | None => false end
  | _ => false
  end.
Fixpoint stacks_ok (l : list (sstack Z)) (ts : list tree) : bool :=
  match l, ts with
  | [], [] => true
  | s :: l', t :: ts' => stack_ok s t && stacks_ok l' ts'
  | _, _ => false
  end.
Definition input_ok (ins : list (Z * (nat * Z))) (t : tree) : bool :=
  match t with
  | L [A name; A k; A v] => match blookup name ins with Some (k', v') => Nat.eqb (Z.to_nat k) k' && (v =? v') | None => false end
  | _ => false
  end.
Definition names_of (cs : list call) : list Z := flat_map (fun c => match c with Input _ n _ => [n] | _ => [] end) cs.

Definition judge (t : tree) : option (list Z) :=
  match t with
  | L [L [A 0; A sid; _; cs]; o] =>
    olet cs := tlist dec_call cs in
    let n := 3%nat in
    if negb (typed n cs) then Some [2; 7] else   (* it compiled: it must be typed *)
    match brun (binit n) cs, o with
    | BOverflow, L [A 1] => Some [0]
    | BOk s, L [A 0; e; A emax; L sts; A lim; L ins] =>
      olet e := tlist tZ e in
      let ok := zl_eqb e (elems (b_exec s)) && (emax =? Z.of_N (smax (b_exec s)))
                && stacks_ok (b_stacks s) sts && (lim =? Z.of_N (b_limit s))
                && forallb (input_ok (b_inputs s)) ins
                && Nat.eqb (length ins) (length (nodup Z.eq_dec (names_of cs))) in
      Some [if ok then 0 else 2]
    | _, _ => Some [2; 8]
    end
  (* only the START state of the builder is Default: [start; sizes+program+limit without values; everything; the state itself] *)
  | L [L [A 2]; o] => olet o := tlist tZ o in Some [if zl_eqb o [1; 0; 0; 1] then 0 else 2]
  | L [L [A 1; A nstacks; cs]; L [A compiled]] =>
    olet cs := tlist dec_call cs in
    Some [if Bool.eqb (typed (Z.to_nat nstacks) cs) (compiled =? 1) then 0 else 2; if typed (Z.to_nat nstacks) cs then 1 else 0]
  | _ => None
  end.
