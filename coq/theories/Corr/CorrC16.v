(* Correspondence for C16.  Kind 0 cases are code against code: the same call from cloned generators,
   on reused and on fresh operator values - every recorded run must coincide.  Kind 1 cases are Push
   programs evaluated under every permutation of their input declarations: all runs must coincide
   AND equal the model's run. *)
From Coq Require Import List ZArith Bool.
From UEC Require Import Base.Wire Push.Stack Push.Syntax Push.Run Corr.PushWire Corr.CorrPush.
Import ListNotations.
Local Open Scope Z_scope.

Fixpoint tree_eqb (a b : tree) {struct a} : bool :=
  match a, b with
  | A x, A y => x =? y
  | L l, L m => (fix go (l m : list tree) : bool :=
                   match l, m with [], [] => true | x :: l', y :: m' => tree_eqb x y && go l' m' | _, _ => false end) l m
  | _, _ => false
  end.

(* kind 2: a program reading n distinctly named inputs (input i bound to 7 i + 1) once each, in order: whatever the
   order of the declarations, the int stack ends up holding the n values, the last one read on top
   (Props/C16: C16_input_order_irrelevant); compared through its length and a polynomial hash, top first *)
Definition hash_p : Z := 2^61 - 1.
Definition many_names_expected (n : Z) : Z :=
  snd (Z.iter n (fun ih => let '(i, h) := ih in (i - 1, (h * 1000003 + (7 * i + 1) mod hash_p) mod hash_p)) (n - 1, 0)).

(* ... and for up to 3000 inputs the closed form is not taken on trust: the interpreter model itself is run on that
   program (the state has n declarations and n InputVar instructions) and must arrive at the same stack *)
Definition many_names_state (n : nat) : state :=
  let names := seq 0 n in
  St (SS (N.of_nat n) (map (fun i => PI (InputVar (Z.of_nat i))) names)) (SS (N.of_nat n) []) (SS 0%N []) (SS 0%N [])
     (map (fun i => (Z.of_nat i, LInt (7 * Z.of_nat i + 1))) names) [] (N.of_nat n + 5).
Definition hash_top_first (l : list Z) : Z := fold_left (fun h x => (h * 1000003 + x mod hash_p) mod hash_p) l 0.
Definition many_names_model (n : nat) : option Z :=
  match run_alts (many_names_state n) with
  | r :: _ => match final_of_rs r with
              | FOk s => if Nat.eqb (length (elems (ints s))) n then Some (hash_top_first (elems (ints s))) else None
              | _ => None
              end
  | [] => None
  end.

Definition judge (t : tree) : option (list Z) :=
  match t with
  | L [L (A 0 :: _); L (first :: rest)] =>
    Some [if forallb (tree_eqb first) rest then 0 else 2]
  | L [L [A 2; A n; _]; L runs] =>
    if (n <=? 0) || (2000000 <? n) then None else
    let h := many_names_expected n in
    if (n <=? 3000) && negb (match many_names_model (Z.to_nat n) with Some h' => h' =? h | None => false end) then None else
    Some [if Nat.eqb (length runs) 3 && forallb (fun r => match r with L [A len; A hh] => (len =? n) && (hh =? h) | _ => false end) runs
          then 0 else 2]
  | L [L [A 3; _]; L runs] =>
    (* two DISTINCT names bound to 11 and 22, read in that order: [22; 11] top first, whatever the declaration order *)
    Some [if Nat.eqb (length runs) 2 && forallb (fun r => match r with L [A 22; A 11] => true | _ => false end) runs then 0 else 2]
  | L [L [A 1; strs; s; _]; o] =>
    (* reuse the C01 judgement on [mode 0; strings; state; []] and require all permutations equal *)
    match judge_c01 (L [L [A 0; strs; s; L []]; o]), o with
    | Some (v :: aux), L [_; _; _; A same] => Some ((if (v =? 0) && (same =? 1) then 0 else 2) :: aux)
    | Some (v :: aux), _ => Some (2 :: aux)
    | _, _ => None
    end
  | _ => None
  end.
