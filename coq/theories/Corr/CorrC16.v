(* Correspondence for C16.  Kind 0 cases are code against code: the same call from cloned generators,
   on reused and on fresh operator values - every recorded run must coincide.  Kind 1 cases are Push
   programs evaluated under every permutation of their input declarations: all runs must coincide
   AND equal the model's run. *)
From Coq Require Import List ZArith Bool.
From UEC Require Import Base.Wire Push.Syntax Push.Run Corr.PushWire Corr.CorrPush.
Import ListNotations.
Local Open Scope Z_scope.

Fixpoint tree_eqb (a b : tree) {struct a} : bool :=
  match a, b with
  | A x, A y => x =? y
  | L l, L m => (fix go (l m : list tree) : bool :=
                   match l, m with [], [] => true | x :: l', y :: m' => tree_eqb x y && go l' m' | _, _ => false end) l m
  | _, _ => false
  end.

Definition judge (t : tree) : option (list Z) :=
  match t with
  | L [L (A 0 :: _); L (first :: rest)] =>
    Some [if forallb (tree_eqb first) rest then 0 else 2]
  | L [L [A 1; strs; s; _]; o] =>
    (* reuse the C01 judgement on [mode 0; strings; state; []] and require all permutations equal *)
    match judge_c01 (L [L [A 0; strs; s; L []]; o]), o with
    | Some (v :: aux), L [_; _; _; A same] => Some ((if (v =? 0) && (same =? 1) then 0 else 2) :: aux)
    | Some (v :: aux), _ => Some (2 :: aux)
    | _, _ => None
    end
  | _ => None
  end.
