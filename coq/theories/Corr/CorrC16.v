(* Correspondence for C16.  Kind 0 cases are code against code: the same call from cloned generators,
   on reused and on fresh operator values - every recorded run must coincide.  Kind 1 cases are Push
   programs evaluated under every permutation of their input declarations: all runs must coincide
   AND equal the model's run. *)
From Coq Require Import List ZArith Bool.
From UEC Require Import Base.Wire Push.Syntax Push.Run Corr.PushWire Corr.CorrPush.
Import ListNotations.
Local Open Scope Z_scope.

Fixpoint tree_eqb (a b : tree) {struct a} : bool :=
  match a, b with
  | A x, A y => x =? y
  | L l, L m => (fix go (l m : list tree) : bool :=
                   match l, m with [], [] => true | x :: l', y :: m' => tree_eqb x y && go l' m' | _, _ => false end) l m
  | _, _ => false
  end.

(* kind 2: a program reading n distinctly named inputs (input i bound to 7 i + 1) once each, in order: whatever the
   order of the declarations, the int stack ends up holding the n values, the last one read on top
   (Props/C16: C16_input_order_irrelevant); compared through its length and a polynomial hash, top first *)
Definition hash_p : Z := 2^61 - 1.
Definition many_names_expected (n : Z) : Z :=
  snd (Z.iter n (fun ih => let '(i, h) := ih in (i - 1, (h * 1000003 + (7 * i + 1) mod hash_p) mod hash_p)) (n - 1, 0)).

Definition judge (t : tree) : option (list Z) :=
  match t with
  | L [L (A 0 :: _); L (first :: rest)] =>
    Some [if forallb (tree_eqb first) rest then 0 else 2]
  | L [L [A 2; A n; _]; L runs] =>
    if (n <=? 0) || (2000000 <? n) then None else
    let h := many_names_expected n in
    Some [if Nat.eqb (length runs) 3 && forallb (fun r => match r with L [A len; A hh] => (len =? n) && (hh =? h) | _ => false end) runs
          then 0 else 2]
  | L [L [A 3; _]; L runs] =>
    (* two DISTINCT names bound to 11 and 22, read in that order: [22; 11] top first, whatever the declaration order *)
    Some [if Nat.eqb (length runs) 2 && forallb (fun r => match r with L [A 22; A 11] => true | _ => false end) runs then 0 else 2]
  | L [L [A 1; strs; s; _]; o] =>
    (* reuse the C01 judgement on [mode 0; strings; state; []] and require all permutations equal *)
    match judge_c01 (L [L [A 0; strs; s; L []]; o]), o with
    | Some (v :: aux), L [_; _; _; A same] => Some ((if (v =? 0) && (same =? 1) then 0 else 2) :: aux)
    | Some (v :: aux), _ => Some (2 :: aux)
    | _, _ => None
    end
  | _ => None
  end.
