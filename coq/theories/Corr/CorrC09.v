(* Correspondence for C09: an instrumented child maker under Generation::serial_next / par_next. *)
From Coq Require Import List ZArith Bool Arith Lia.
From UEC Require Import Base.Wire Ec.Compose Ec.Generation.
Import ListNotations.
Local Open Scope Z_scope.

(* w3: the tail of a bulk draw whose length is not a multiple of the word size (reported for small populations only) *)
Record entry := { saw_addr : bool; saw_contents : bool; w1 : Z; w2 : Z; w3 : option Z; outcome : Z + Z (* child | error *) }.
Definition dec_entry (t : tree) : option entry :=
  match t with
  | L [a; c; A x; A y; A k; A v] =>
    olet a := tbool a in olet c := tbool c in
    Some {| saw_addr := a; saw_contents := c; w1 := x; w2 := y; w3 := None; outcome := if k =? 0 then inl v else inr v |}
  | L [a; c; A x; A y; A k; A v; A z] =>
    olet a := tbool a in olet c := tbool c in
    Some {| saw_addr := a; saw_contents := c; w1 := x; w2 := y; w3 := Some z; outcome := if k =? 0 then inl v else inr v |}
  | _ => None
  end.

Fixpoint zl_eqb (a b : list Z) : bool :=
  match a, b with [], [] => true | x :: a', y :: b' => (x =? y) && zl_eqb a' b' | _, _ => false end.
Definition countz (x : Z) (l : list Z) : nat := length (filter (Z.eqb x) l).
Definition perm_b (a b : list Z) : bool :=
  Nat.eqb (length a) (length b) && forallb (fun x => Nat.eqb (countz x a) (countz x b)) a.
Fixpoint nodup_b (l : list Z) : bool :=
  match l with [] => true | x :: r => negb (existsb (Z.eqb x) r) && nodup_b r end.

(* the child maker as the log says it behaved: the state is the call counter *)
Definition cm_log (outs : list (Z + Z)) : op nat (list Z) Z Z :=
  fun _ k => match nth_error outs k with
             | Some (inl c) => (inl c, S k)
             | Some (inr e) => (inr e, S k)
             | None => (inr (-99), S k)
             end.

(* set-typed populations: Generation.sort_dedup is what an ordered set keeps of a list (C09_set_population) *)
(* one step of one Generation value: the population before it, what was asked, what was observed *)
Definition step_ok (seen : list Z) (mode0 : Z) (pop : list Z) (fail_at : Z) (res final_t lg_t : tree) : option (bool * bool * bool * list Z * list Z) :=
    (* mode 100 + T: scored individuals, child maker through GenomeScorer - judged exactly like mode T *)
    (* mode 200 + T: an ordered set as population (duplicate children collapse); mode 300 + T: a double-ended queue *)
    let setmode := (200 <=? mode0) && (mode0 <? 300) in
    let norm := if setmode then sort_dedup else (fun l => l) in
    let mode := if 300 <=? mode0 then mode0 - 300 else if 200 <=? mode0 then mode0 - 200 else if 100 <=? mode0 then mode0 - 100 else mode0 in
    let pop := norm pop in
    olet final := tlist tZ final_t in olet lg := tlist dec_entry lg_t in
    let n := length pop in
    let outs := map outcome lg in
    let children := flat_map (fun o => match o with inl c => [c] | inr _ => [] end) outs in
    let errors := flat_map (fun o => match o with inr e => [e] | inl _ => [] end) outs in
    let saw_old := forallb (fun e => saw_addr e && saw_contents e) lg in
    (* the words handed to the children of this step are new: distinct from each other AND from every word handed out in
       an earlier step of the same Generation value (a failed step must not rewind the randomness) *)
    let words := flat_map (fun e => [w1 e; w2 e] ++ match w3 e with Some z => [z] | None => [] end) lg in
    let fresh := nodup_b (seen ++ words) in
    let injected := (0 <=? fail_at) && (fail_at <? Z.of_nat n) in
    let ok :=
      saw_old && fresh &&
      match res with
      | L [A 0] =>
        negb injected && Nat.eqb (length final) (length (norm children)) && Nat.eqb (length lg) n && Nat.eqb (length children) n
        && (if mode =? 0
            then (* serial: exactly what the model computes from the same per-call behaviour *)
              match serial_next_c (@length Z) norm (cm_log outs) pop 0%nat with
              | (inl _, pop', k) => zl_eqb pop' final && Nat.eqb k (length lg)
              | _ => false
              end
            else perm_b final (norm children))
      | L [A 1; A e] =>
        injected && zl_eqb final pop && existsb (Z.eqb e) errors && (e =? fail_at)
        && (if mode =? 0
            then match serial_next_c (@length Z) norm (cm_log outs) pop 0%nat with
                 | (inr e', pop', k) => (e' =? e) && zl_eqb pop' final && Nat.eqb k (length lg)
                 | _ => false
                 end
            else (Z.of_nat (length lg) <=? Z.of_nat n))
      | _ => false
      end in
    Some (ok, saw_old, fresh, final, seen ++ words).

(* further steps of the SAME Generation value: each is judged from the population the previous step left *)
Fixpoint steps_ok (seen : list Z) (pop : list Z) (steps obs : list tree) : option bool :=
  match steps, obs with
  | [], [] => Some true
  | L [A mode; A fail_at] :: steps', L [res; final; lg] :: obs' =>
    olet r := step_ok seen mode pop fail_at res final lg in
    let '(ok, _, _, final, seen') := r in
    olet rest := steps_ok seen' final steps' obs' in Some (ok && rest)
  | _, _ => None
  end.

(* BULK steps (mode 400 + T): a population of n individuals (genomes 0..n-1) stepped once; the harness reduces the log to
   counts.  What is demanded is what step_ok demands of the full log, expressed on the counts: the population afterwards
   has the old size and is the children (success) / the old population (failure); every call saw the old population; the
   calls drew pairwise distinct (word1, word2) pairs; a success made exactly n calls and n children, a failure is the
   injected one, made exactly one child fewer than calls, and (serial) stopped at the failing call. *)
Definition bulk_ok (mode n fail_at : Z) (res : tree) (flen fexp calls saw pairs nchildren : Z) : bool :=
  let injected := (0 <=? fail_at) && (fail_at <? n) in
  (flen =? n) && (fexp =? 1) && (saw =? 1) && (pairs =? calls) &&
  match res with
  | L [A 0] => negb injected && (calls =? n) && (nchildren =? n)
  | L [A 1; A e] => injected && (e =? fail_at) && (nchildren =? calls - 1)
                    && (if mode =? 0 then calls =? fail_at + 1 else calls <=? n)
  | _ => false
  end.

(* the counts any run of the model's serial step produces pass bulk_ok (with pairwise distinct draws and calls that saw the
   old population): the bulk judgement demands nothing the model does not deliver *)
Lemma bulk_ok_model {Ind R E} (cm : op R (list Ind) Ind E) pop r :
  let n := Z.of_nat (length pop) in
  let cs := calls cm (length pop) pop r in
  let c := Z.of_nat (length cs) in
  match serial_next cm pop r with
  | (inl _, pop', _) => bulk_ok 0 n (-1) (L [A 0]) (Z.of_nat (length pop')) 1 c 1 c (Z.of_nat (made cs)) = true
  | (inr _, pop', _) => bulk_ok 0 n (c - 1) (L [A 1; A (c - 1)]) (Z.of_nat (length pop')) 1 c 1 c (Z.of_nat (made cs)) = true
  end.
Proof.
  cbv zeta. pose proof (serial_counts cm pop r) as H.
  destruct (serial_next cm pop r) as [[[children|e] pop'] r'].
  - destruct H as (H1 & H2 & _ & H4). rewrite H1, H2, H4. unfold bulk_ok.
    rewrite !Z.eqb_refl. cbn [andb negb]. destruct (Z.ltb_spec (-1) (Z.of_nat (length pop))); reflexivity.
  - destruct H as (-> & H2 & H3). unfold bulk_ok. rewrite !Z.eqb_refl. cbn [andb].
    set (c := length (calls cm (length pop) pop r)) in *.
    assert (Hm : Z.of_nat (made (calls cm (length pop) pop r)) = Z.of_nat c - 1) by lia.
    rewrite Hm, Z.eqb_refl.
    replace (Z.of_nat c - 1 + 1) with (Z.of_nat c) by lia. rewrite Z.eqb_refl. cbn [andb].
    destruct (Z.leb_spec 0 (Z.of_nat c - 1)); [|lia]. destruct (Z.ltb_spec (Z.of_nat c - 1) (Z.of_nat (length pop))); [reflexivity|lia].
Qed.

Definition judge_general (t : tree) : option (list Z) :=
  match t with
  | L [L [A mode0; pop; A fail_at0]; L [res; final; lg]] =>
    (* mode 500 + T: islands - the observed Generation value never fails (the failing call belongs to ANOTHER value that
       steps at the same time), so its step is judged as a parallel step in T threads without an injected failure *)
    let island := (500 <=? mode0) && (mode0 <? 600) in
    let mode := if island then mode0 - 500 else mode0 in
    let fail_at := if island then -1 else fail_at0 in
    olet pop := tlist tZ pop in
    olet r := step_ok [] mode pop fail_at res final lg in
    let '(ok, saw_old, fresh, _, _) := r in
    Some [if ok then 0 else 2; if saw_old then 0 else 1; if fresh then 0 else 1]
  | L [L [A mode; pop; A fail_at; L steps]; L [res; final; lg; L obs]] =>
    olet pop := tlist tZ pop in
    olet r := step_ok [] mode pop fail_at res final lg in
    let '(ok, saw_old, fresh, final, seen) := r in
    olet rest := steps_ok seen final steps obs in
    Some [if ok && rest then 0 else 2; if saw_old then 0 else 1; if fresh then 0 else 1]
  | L [_; L [A (-1)]] => Some [2; 9]
  | _ => None
  end.

Definition judge (t : tree) : option (list Z) :=
  match t with
  | L [L [A mode; L [A n]; A fail_at]; L [res; L [A flen; A fexp]; L [A calls; A saw; A pairs; A nchildren]]] =>
    if (400 <=? mode) && (mode <? 500) && (0 <=? n)
    then Some [if bulk_ok (mode - 400) n fail_at res flen fexp calls saw pairs nchildren then 0 else 2;
               if saw =? 1 then 0 else 1; if pairs =? calls then 0 else 1]
    else judge_general t
  | _ => judge_general t
  end.
