(* Correspondence for C17 (thin by design): the concrete operator's observed behaviour is the
   model's [f x s]; the erased form must behave as [erase into f] with [into] = "same message". *)
From Coq Require Import List ZArith Bool.
From UEC Require Import Base.Wire Ec.Compose Ec.Erased.
Import ListNotations.
Local Open Scope Z_scope.

Fixpoint tree_eqb (a b : tree) {struct a} : bool :=
  match a, b with
  | A x, A y => x =? y
  | L l, L m => (fix go (l m : list tree) : bool :=
                   match l, m with [], [] => true | x :: l', y :: m' => tree_eqb x y && go l' m' | _, _ => false end) l m
  | _, _ => false
  end.

(* outcome [0; v] / [1; msg] with the generator's next word as the state *)
Definition as_op (o : tree) (next : Z) : option (op unit unit tree tree) :=
  match o with
  | L [A 0; v] => Some (fun _ _ => (inl v, tt))
  | L [A 1; m] => Some (fun _ _ => (inr m, tt))
  | _ => None
  end.

(* DynWeighted as a consumer of erased selectors, on forced lists: [0; k] a leaf that selects index k (k >= 0) or fails
   with code -k; [1; [[member; weight]..]] a list.  Observed: [55; [0; index] | [1; shape]] with shape
   [0] EmptyPopulation, [1] ZeroWeightSum, [2; shape] Other(..), [3; code] the leaf's own error *)
Fixpoint dec_dspec (fuel : nat) (t : tree) : option dspec :=
  match fuel with
  | O => None
  | S f =>
    match t with
    | L [A 0; A k] => if k <? 8 then Some (DL k) else None
    | L [A 1; ms] =>
      olet ms := tlist (fun m => match m with L [s; A w] => olet s := dec_dspec f s in Some (s, w) | _ => None end) ms in Some (DD ms)
    | _ => None
    end
  end.
Fixpoint enc_derr (e : derr) : tree :=
  match e with DEmptyPop => L [A 0] | DZero => L [A 1] | DOther e' => L [A 2; enc_derr e'] | DLeaf c => L [A 3; A c] end.
Definition judge_consumer (spec out : tree) : option (list Z) :=
  olet d := dec_dspec 64 spec in
  match forced 64 d with
  | Some (inl k) => Some [if tree_eqb out (L [A 0; A k]) then 0 else 2]
  | Some (inr e) => Some [if tree_eqb out (L [A 1; enc_derr e]) then 0 else 2]
  | None => None
  end.

Definition judge (t : tree) : option (list Z) :=
  match t with
  | L [L [A 5; _; _; _; spec]; L [A 55; out]] => judge_consumer spec out
  | L [_; L [c; A cn; e; A en]] =>
    olet f := as_op c cn in
    let expected := fst (erase (fun m => m) f tt tt) in
    let ok := match expected, e with
              | inl v, L [A 0; v'] => tree_eqb v v'
              | inr m, L [A 1; m'] => tree_eqb m m'
              | _, _ => false
              end && (cn =? en) in
    Some [if ok then 0 else 2]
  | L [_; L [A (-1)]] => Some [2]
  | _ => None
  end.
