(* Correspondence for C17 (thin by design): the concrete operator's observed behaviour is the
   model's [f x s]; the erased form must behave as [erase into f] with [into] = "same message". *)
From Coq Require Import List ZArith Bool.
From UEC Require Import Base.Wire Ec.Compose Ec.Erased.
Import ListNotations.
Local Open Scope Z_scope.

Fixpoint tree_eqb (a b : tree) {struct a} : bool :=
  match a, b with
  | A x, A y => x =? y
  | L l, L m => (fix go (l m : list tree) : bool :=
                   match l, m with [], [] => true | x :: l', y :: m' => tree_eqb x y && go l' m' | _, _ => false end) l m
  | _, _ => false
  end.

(* outcome [0; v] / [1; msg] with the generator's next word as the state *)
Definition as_op (o : tree) (next : Z) : option (op unit unit tree tree) :=
  match o with
  | L [A 0; v] => Some (fun _ _ => (inl v, tt))
  | L [A 1; m] => Some (fun _ _ => (inr m, tt))
  | _ => None
  end.

Definition judge (t : tree) : option (list Z) :=
  match t with
  | L [_; L [c; A cn; e; A en]] =>
    olet f := as_op c cn in
    let expected := fst (erase (fun m => m) f tt tt) in
    let ok := match expected, e with
              | inl v, L [A 0; v'] => tree_eqb v v'
              | inr m, L [A 1; m'] => tree_eqb m m'
              | _, _ => false
              end && (cn =? en) in
    Some [if ok then 0 else 2]
  | L [_; L [A (-1)]] => Some [2]
  | _ => None
  end.
