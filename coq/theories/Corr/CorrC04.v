(* Correspondence for C04: decode a recorded history of stack operations with
   what Stack<T> answered after each, evaluate the model on the same history. *)
From Coq Require Import List ZArith NArith Bool.
From UEC Require Import Base.Wire Push.Stack.
Import ListNotations.
Local Open Scope Z_scope.

(* a history step: a stack operation, or a bulk insertion by an exact-size iterator of a CLAIMED length far too
   large to write down (the harness only generates it where it cannot fit) *)
Inductive cop := Op (o : op Z) | PushManyClaimed (n : N)
  (* try_extend from an iterator that is NOT fused: it yields l1, then None, then goes on with l2 *)
  | TryExtendResuming (l1 l2 : list Z).
Definition cstep (s : sstack Z) (c : cop) : sstack Z * res Z :=
  match c with
  | Op o => sstep s o
  | PushManyClaimed n => if (smax s <? n + ssize s)%N then (s, ROverflow) else (s, RNum 0)   (* else: never generated *)
  | TryExtendResuming l1 l2 =>
    (* the code takes at most as many items as there is room and then asks once whether more would come: when the first
       None came early and the iterator resumes, it sees more and answers Overflow - with the stack as it was *)
    if (N.of_nat (length l1) + ssize s <? smax s)%N && negb (match l2 with [] => true | _ => false end)
    then (s, ROverflow) else sstep s (OTryExtend l1)
  end.
(* ... an implementation that stops at the first None and extends by l1 is as good: all of what the iterator offered
   before its end, or nothing *)
Definition cstep_alt (s : sstack Z) (c : cop) : option (sstack Z * res Z) :=
  match c with
  | TryExtendResuming l1 _ => Some (sstep s (OTryExtend l1))
  | _ => None
  end.
(* it is exactly what push_many does with any list of that length *)
Lemma claimed_is_push_many s l : (smax s <? N.of_nat (length l) + ssize s)%N = true ->
  cstep s (PushManyClaimed (N.of_nat (length l))) = sstep s (OPushMany l).
Proof. intros H. cbn [cstep sstep]. now rewrite H. Qed.

Definition dec_op0 (t : tree) : option (op Z) :=
  match t with
  | L [A 0; A v] => Some (OPush v)
  | L [A 1] => Some OPop | L [A 2] => Some OPop2 | L [A 3] => Some OPop3
  | L [A 4] => Some OTop | L [A 5] => Some OTop2 | L [A 6] => Some OTop3
  | L [A 7; n] => olet n := tN n in Some (ODiscard n)
  | L [A 8; l] => olet l := tlist tZ l in Some (OPushMany l)
  | L [A 9; l] => olet l := tlist tZ l in Some (OTryExtend l)
  | L [A 10; n] => olet n := tN n in Some (OSetMax n)
  | L [A 11] => Some OSize | L [A 12] => Some OIsEmpty | L [A 13] => Some OIsFull
  | L [A 14] => Some OMax
  | L [A 15; l] => olet l := tlist tZ l in Some (OTryExtend l)   (* an iterator with no upper size hint *)
  | _ => None
  end.
Definition dec_op (t : tree) : option cop :=
  match t with
  | L [A 16; n] => olet n := tN n in Some (PushManyClaimed n)
  | L [A 17; l] => olet l := tlist tZ l in Some (Op (OTryExtend l))   (* try_extend_from_slice *)
  | L [A 19; l; _] => olet l := tlist tZ l in Some (Op (OTryExtend l))  (* a loose upper size hint: what counts is what it yields *)
  | L [A 18; l1; l2] => olet l1 := tlist tZ l1 in olet l2 := tlist tZ l2 in Some (TryExtendResuming l1 l2)
  | _ => olet o := dec_op0 t in Some (Op o)
  end.

(* an observed result; [None] inside = the implementation panicked *)
Definition dec_res (t : tree) : option (option (res Z)) :=
  match t with
  | L [A 0] => Some (Some RUnit)
  | L [A 1; l] => olet l := tlist tZ l in Some (Some (RVals l))
  | L [A 2; n] => olet n := tN n in Some (Some (RNum n))
  | L [A 3; b] => olet b := tbool b in Some (Some (RBool b))
  | L [A 4; a; b] => olet a := tN a in olet b := tN b in Some (Some (RUnderflow a b))
  | L [A 5] => Some (Some ROverflow)
  | L [A 9] => Some None
  | _ => None
  end.

Record obs := { o_res : option (res Z); o_elems : list Z; o_max : N }.

Definition dec_obs (t : tree) : option obs :=
  match t with
  | L [r; c; m] => olet r := dec_res r in olet c := tlist tZ c in olet m := tN m in
                   Some {| o_res := r; o_elems := c; o_max := m |}
  | _ => None
  end.

Fixpoint list_eqb {X} (e : X -> X -> bool) (a b : list X) : bool :=
  match a, b with
  | [], [] => true
  | x :: a', y :: b' => e x y && list_eqb e a' b'
  | _, _ => false
  end.

Definition res_eqb (a b : res Z) : bool :=
  match a, b with
  | RUnit, RUnit => true
  | RVals x, RVals y => list_eqb Z.eqb x y
  | RNum x, RNum y => N.eqb x y
  | RBool x, RBool y => Bool.eqb x y
  | RUnderflow a1 b1, RUnderflow a2 b2 => N.eqb a1 a2 && N.eqb b1 b2
  | ROverflow, ROverflow => true
  | _, _ => false
  end.

Definition obs_matches (s : sstack Z) (r : res Z) (o : obs) : bool :=
  match o_res o with
  | Some r' => res_eqb r r' && list_eqb Z.eqb (elems s) (o_elems o) && N.eqb (smax s) (o_max o)
  | None => false
  end.

(* agreement with the model run from the initial state *)
Fixpoint agree (s : sstack Z) (h : list cop) (os : list obs) : bool :=
  match h, os with
  | [], [] => true
  | o :: h', ob :: os' =>
    let '(s1, r) := cstep s o in
    if obs_matches s1 r ob then agree s1 h' os'
    else match cstep_alt s o with
         | Some (s2, r2) => obs_matches s2 r2 ob && agree s2 h' os'
         | None => false
         end
  | _, _ => false
  end.

(* the property evaluated on the implementation's own observations: every
   observed transition is the LIFO transition from the state observed before it *)
Fixpoint holds (pre : sstack Z) (h : list cop) (os : list obs) : bool :=
  match h, os with
  | [], [] => true
  | o :: h', ob :: os' =>
    let '(s1, r) := cstep pre o in
    (obs_matches s1 r ob || match cstep_alt pre o with Some (s2, r2) => obs_matches s2 r2 ob | None => false end)
    && holds (SS (o_max ob) (o_elems ob)) h' os'
  | _, _ => false
  end.

Definition usize_max : N := 18446744073709551615.
Definition init : sstack Z := SS usize_max [].

Definition judge (t : tree) : option (list Z) :=
  match t with
  | L [L [A _; h]; os] =>
    olet h := tlist dec_op h in olet os := tlist dec_obs os in
    Some [verdict (agree init h os) (holds init h os)]
  | _ => None
  end.

(* what the model answers, for replay display *)
Definition enc_res (r : res Z) : list Z :=
  match r with
  | RUnit => [0] | RVals l => 1 :: l | RNum n => [2; Z.of_N n] | RBool b => [3; if b then 1 else 0]
  | RUnderflow a b => [4; Z.of_N a; Z.of_N b] | ROverflow => [5]
  end.
Fixpoint model_trace (s : sstack Z) (h : list cop) : list (list Z * list Z * Z) :=
  match h with
  | [] => []
  | o :: h' => let '(s1, r) := cstep s o in (enc_res r, elems s1, Z.of_N (smax s1)) :: model_trace s1 h'
  end.
Definition show (t : tree) : option (list (list Z * list Z * Z)) :=
  match t with
  | L (L [A _; h] :: _) => olet h := tlist dec_op h in Some (model_trace init h)
  | _ => None
  end.
