(* Correspondence for C06 / C07 / C08 / C13: the exact law of a selector configuration on a
   population, as (class of outcome, probability) pairs for the statistical comparison. *)
From Coq Require Import List ZArith QArith Bool Arith.
From UEC Require Import Base.Wire Base.Dist Ec.Select Ec.BinomN.
Import ListNotations.
Local Open Scope Z_scope.

(* [10; style; weights]: a statically typed chain built with the builder idioms - whatever the idiom, the left-nested
   chain of the members (best / worst / random in turn) with those weights *)
Definition marker (i : nat) : sel := match Nat.modulo i 3 with O => SBest | S O => SWorst | _ => SRandom end.
Fixpoint chain_from (acc : sel) (i : nat) (ws : list Z) : sel :=
  match ws with [] => acc | w :: r => chain_from (SPair acc (SLeaf (Z.to_N w) (marker i))) (S i) r end.
Definition dec_chain (ws : list tree) : option sel :=
  match tlist tZ (L ws) with
  | Some (w0 :: r) => if forallb (fun w => 0 <=? w) (w0 :: r) then Some (chain_from (SLeaf (Z.to_N w0) (marker 0)) 1 r) else None
  | _ => None
  end.

Fixpoint dec_sel (t : tree) : option sel :=
  match t with
  | L [A 0] => Some SBest | L [A 1] => Some SWorst | L [A 2] => Some SRandom
  | L [A 3; A k] => if 0 <? k then Some (STournament (Z.to_nat k)) else None
  | L [A 4; A n] => if 0 <=? n then Some (SLexicase (Z.to_nat n)) else None
  | L [A 5; A w; s] => if 0 <=? w then option_map (SLeaf (Z.to_N w)) (dec_sel s) else None
  | L [A 6; a; b] => match dec_sel a, dec_sel b with Some x, Some y => Some (SPair x y) | _, _ => None end
  | L [A 9; s] => dec_sel s   (* a probe around a member: transparent for what is selected *)
  | L [A 10; A _; L ws] => dec_chain ws
  | L [A 7] => Some SDynNil
  | L [A 8; s; A w; r] => if 0 <=? w then
                            match dec_sel s, dec_sel r with Some x, Some y => Some (SDynCons x (Z.to_N w) y) | _, _ => None end
                          else None
  | _ => None
  end.

Fixpoint zl_eqb (a b : list Z) : bool :=
  match a, b with [], [] => true | x :: a', y :: b' => (x =? y) && zl_eqb a' b' | _, _ => false end.

(* individuals with identical result vectors are interchangeable: the class of i is the first such index *)
Fixpoint first_same (pop : population) (r : list Z) (j : nat) : nat :=
  match pop with
  | [] => j
  | x :: rest => if zl_eqb x r then j else first_same rest r (S j)
  end.
(* best / worst / tournament look at totals only and resolve ties in an unspecified way: when such a
   selector occurs, individuals with equal totals are one class *)
Fixpoint order_based (s : sel) : bool :=
  match s with
  | SBest | SWorst | STournament _ => true
  | SLeaf _ s' => order_based s'
  | SPair a b => order_based a || order_based b
  | SDynCons s' _ r => order_based s' || order_based r
  | _ => false
  end.
Fixpoint first_total (pop : population) (t : Z) (j : nat) : nat :=
  match pop with
  | [] => j
  | x :: rest => if total x =? t then j else first_total rest t (S j)
  end.
Definition class_of (coarse : bool) (pop : population) (i : nat) : Z :=
  if coarse then Z.of_nat (first_total pop (total (nth i pop [])) 0)
  else Z.of_nat (first_same pop (nth i pop []) 0).

Definition code (coarse : bool) (pop : population) (o : outcome) : Z :=
  match o with
  | inl i => class_of coarse pop i
  | inr EEmpty => -1 | inr ETournamentSize => -2 | inr EMissingCase => -3 | inr EZeroWeight => -4
  end.

Definition law (pol : bool) (pop : population) (s : sel) : list (Z * Q) :=
  tally Z.eqb (map (fun op => (code (order_based s) pop (fst op), snd op)) (select pol pop s)).

(* populations too large to enumerate their k-subsets: a bare tournament over individuals with pairwise distinct
   totals is judged by the RANK LAW (Props/C07: C07_rank_law) - the individual that is r-th from the bottom wins
   with probability C(r-1, k-1) / C(n, k) - evaluated with the multiplicative binomial (BinomN.binomN_spec) *)
Fixpoint zdistinct (l : list Z) : bool :=
  match l with [] => true | x :: r => negb (existsb (Z.eqb x) r) && zdistinct r end.
Definition rank_law (pol : bool) (pop : population) (k : nat) : list (Z * Q) :=
  let n := length pop in
  let keys := map (ikey pol pop) (seq 0 n) in
  let den := Z.to_pos (Z.of_N (binomN (N.of_nat n) k)) in
  flat_map (fun i => let r := length (filter (fun x => x <=? nth i keys 0) keys) in
                     let num := Z.of_N (binomN (N.of_nat (r - 1)) (k - 1)) in
                     if num =? 0 then [] else [(Z.of_nat i, Qred (Qmake num den))]) (seq 0 n).
Definition big_tournament (pol : bool) (pop : population) (s : sel) : option nat :=
  match s with
  | STournament k => if (12 <? length pop)%nat && (1 <=? k)%nat && (k <=? length pop)%nat
                        && zdistinct (map (ikey pol pop) (seq 0 (length pop))) then Some k else None
  | _ => None
  end.

(* lexicase with more cases than can be enumerated (> 8: 9! orders and up): when every configured case has results for
   everybody and exactly ONE best individual, the first case of the order decides and individual i wins with probability
   #{cases whose unique best is i} / #cases (Props/C08: C08_decisive_cases) *)
Definition decisive_law (pol : bool) (pop : population) (n : nat) : option (list (Z * Q)) :=
  let all := seq 0 (length pop) in
  if (2 <=? length pop)%nat && (1 <=? n)%nat then
    let ws := map (fun c => if missing pol pop c all then None
                            else match filter_case pol pop c all with [w] => Some w | _ => None end) (seq 0 n) in
    if forallb (fun o => match o with Some _ => true | None => false end) ws
    then Some (tally Z.eqb (flat_map (fun o => match o with Some w => [(Z.of_nat w, Qmake 1 (Pos.of_nat n))] | None => [] end) ws))
    else None
  else None.
Fixpoint zlist_eqb (a b : list Z) : bool :=
  match a, b with [], [] => true | x :: a', y :: b' => (x =? y)%Z && zlist_eqb a' b' | _, _ => false end.
(* lexicase with many cases on which ALL individuals tie (identical results on each of the first n cases): nobody is ever
   eliminated, the selection is uniform over the population - LexTied.lexicase_all_tied / C08_all_tied_uniform; the law is
   expressed over the classes of identical individuals, like [law] *)
Definition all_tied_law (pol : bool) (pop : population) (n : nat) : option (list (Z * Q)) :=
  let all := seq 0 (length pop) in
  (* every individual has at least n results, and the first n results of all individuals coincide (linear in the size of
     the matrix: the case counts here run to tens of thousands) - which is tied_on (seq 0 n) all *)
  match pop with
  | r0 :: _ =>
    if (2 <=? length pop)%nat && (n <=? length r0)%nat &&
       forallb (fun r => zlist_eqb (firstn n r) (firstn n r0)) pop
    then Some (tally Z.eqb (map (fun i => (class_of false pop i, Qmake 1 (Pos.of_nat (length pop)))) all))
    else None
  | [] => None
  end.
Definition big_lexicase (pol : bool) (pop : population) (s : sel) : option (list (Z * Q)) :=
  match s with
  | SLexicase n => if (8 <? n)%nat
                   then match all_tied_law pol pop n with Some l => Some l | None => decisive_law pol pop n end
                   else None
  | _ => None
  end.

Definition enc_law (l : list (Z * Q)) : list Z :=
  flat_map (fun cq => [fst cq; Qnum (snd cq); Z.pos (Qden (snd cq))]) l.

(* probes (a member wrapped so that its uses are counted), in the order the specification lists them; true = the
   member sits under a weight of zero and must therefore never be used *)
Fixpoint probes (zero : bool) (t : tree) : list bool :=
  match t with
  | L [A 9; _] => [zero]
  | L [A 10; _; L ws] => map (fun w => match w with A x => zero || (x =? 0) | _ => zero end) ws
  | L [A 5; A w; s] => probes (zero || (w =? 0)) s
  | L [A 6; a; b] => probes zero a ++ probes zero b
  | L [A 8; s; A w; r] => probes (zero || (w =? 0)) s ++ probes zero r
  | _ => []
  end.
(* every member is probed *)
Fixpoint all_probed (t : tree) : bool :=
  match t with
  | L [A 9; _] => true
  | L [A 10; _; _] => true
  | L [A 5; _; s] => all_probed s
  | L [A 6; a; b] => all_probed a && all_probed b
  | L [A 7] => true
  | L [A 8; s; _; r] => all_probed s && all_probed r
  | _ => false
  end.
Definition hist_total (h : list tree) (keep : Z -> bool) : Z :=
  fold_right (fun e acc => match e with L [A c; A k] => if keep c then k + acc else acc | _ => acc end) 0 h.
(* members of weight zero are never used; when every member is probed and the population is not empty, each
   selection that is not a zero-total-weight error used exactly one member *)
Definition probes_ok (spec : tree) (nonempty : bool) (h : list tree) (calls : list Z) : bool :=
  let zs := probes false spec in
  Nat.eqb (length zs) (length calls)
  && forallb (fun zc => negb (fst zc) || (snd zc =? 0)) (combine zs calls)
  && (negb (all_probed spec && nonempty) || (fold_right Z.add 0 calls =? hist_total h (fun c => negb (c =? -4)))).

(* a dynamic list whose usize weights do not sum within usize: rand's weighted index rejects it (WeightError::Overflow),
   which DynWeighted reports through its weight-error variant - an error value on every selection, never a panic *)
Fixpoint dyn_weight_sum (t : tree) : Z :=
  match t with
  | L [A 8; _; A w; r] => w + dyn_weight_sum r
  | _ => 0
  end.
Definition dyn_overflows (t : tree) : bool := match t with L [A 8; _; _; _] => 2^64 <=? dyn_weight_sum t | _ => false end.

(* input = [seed; draws; [pol; pop; spec]] or [seed; draws; [pol; pop; spec; warm-up population sizes]]: the selector
   value may have been used on other populations before - which must not matter; the frequencies are judged by the driver *)
Definition judge (t : tree) : option (list Z) :=
  match t with
  | L [L [_; _; L (pol :: pop :: spec :: _)]; o] =>
    if dyn_overflows spec then
      Some [match o with
            | L h => if negb (match h with [] => true | _ => false end)
                        && forallb (fun e => match e with L [A (-4); _] => true | _ => false end) h then 0 else 2
            | _ => 2 end; 8]
    else
    olet pol := option_map Z.odd (tZ pol) in olet pop := tlist (tlist tZ) pop in olet s := dec_sel spec in
    let probe_verdict := match o with
                         | L [A (-50); L h; calls] => option_map (probes_ok spec (negb (Nat.eqb (length pop) 0)) h) (tlist tZ calls)
                         | L [L [A (-10); _; _]] => Some true   (* rejected when built: nothing was selected *)
                         | _ => Some (match probes false spec with [] => true | _ => false end)
                         end in
    let o := match o with L [A (-50); h; _] => h | _ => o end in
    match probe_verdict with None => None | Some false => Some [2; 7] | Some true =>
    match build_error s with
    | Some (a, b) =>
      Some [match o with
            | L [L [A (-10); A x; A y]] => if (x =? Z.of_N a) && (y =? Z.of_N b) then 0 else 2
            | _ => 2 end; 5; Z.of_N a; Z.of_N b]
    | None =>
      match o with
      | L [L [A (-10); _; _]] => Some [2; 6]
      | _ => Some (4 :: Z.of_nat (length pop) :: map (class_of (order_based s) pop) (seq 0 (length pop))
                     ++ enc_law (match big_tournament pol pop s, big_lexicase pol pop s with
                                 | Some k, _ => rank_law pol pop k
                                 | None, Some l => l
                                 | None, None => law pol pop s
                                 end))
      end
    end end
  | _ => None
  end.
