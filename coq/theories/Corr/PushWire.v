(* Decoding of Push instructions, programs, states and observations from case trees
   (the encoding is fixed by harness/src/pushio.rs). *)
From Coq Require Import List ZArith NArith Floats Bool.
From UEC Require Import Base.Wire Base.F64 Push.Stack Push.Syntax.
Import ListNotations.
Local Open Scope Z_scope.

Definition dec_stk (z : Z) : option stk :=
  match z with 0 => Some KInt | 1 => Some KFloat | 2 => Some KBool | 3 => Some KExec | _ => None end.
Definition dec_vk (z : Z) : option vk :=
  match z with 0 => Some VInt | 1 => Some VFloat | 2 => Some VBool | _ => None end.
Definition dec_cmp (z : Z) : option cmp :=
  match z with 0 => Some CEq | 1 => Some CNe | 2 => Some CLt | 3 => Some CLe | 4 => Some CGt | 5 => Some CGe | _ => None end.

Definition dec_flat (t : tree) : option instr :=
  match t with
  | L [A 0; A k] => option_map Pop (dec_stk k)
  | L [A 1; A k] => option_map Dup (dec_stk k)
  | L [A 2; A k] => option_map Swap (dec_stk k)
  | L [A 3; A k] => option_map IsEmpty (dec_stk k)
  | L [A 4; A k] => option_map StackDepth (dec_stk k)
  | L [A 5; A k] => option_map Flush (dec_stk k)
  | L [A 6; A z] => Some (PushI z)
  | L [A 7; A b] => Some (PushF (of_bits b))
  | L [A 8; b] => option_map PushB (tbool b)
  | L [A 10; A k; nl] => match dec_vk k, tbool nl with Some k, Some nl => Some (Print k nl) | _, _ => None end
  | L [A 11; A 0] => Some (IUn Inc) | L [A 11; A 1] => Some (IUn Dec) | L [A 11; A 2] => Some (IUn Square)
  | L [A 12; A 0] => Some (ISat Negate) | L [A 12; A 1] => Some (ISat Abs)
  | L [A 13; A 0] => Some (IBin Add) | L [A 13; A 1] => Some (IBin Sub) | L [A 13; A 2] => Some (IBin Mul)
  | L [A 13; A 3] => Some (IBin Div) | L [A 13; A 4] => Some (IBin Mod) | L [A 13; A 5] => Some (IBin Pow)
  | L [A 14; A 0] => Some (IMm Min) | L [A 14; A 1] => Some (IMm Max)
  | L [A 15] => Some Clamp
  | L [A 16; A 0] => Some (IPred IsZero) | L [A 16; A 1] => Some (IPred IsPositive)
  | L [A 16; A 2] => Some (IPred IsNegative) | L [A 16; A 3] => Some (IPred IsEven) | L [A 16; A 4] => Some (IPred IsOdd)
  | L [A 17; A c] => option_map ICmp (dec_cmp c)
  | L [A 18] => Some FromBoolean | L [A 19] => Some FromFloatApprox
  | L [A 20; A 0] => Some (FBin FAdd) | L [A 20; A 1] => Some (FBin FSub)
  | L [A 20; A 2] => Some (FBin FMul) | L [A 20; A 3] => Some (FBin FDiv)
  | L [A 21; A c] => option_map FCmp (dec_cmp c)
  | L [A 22] => Some FromIntApprox
  | L [A 23] => Some BNot
  | L [A 24; A 0] => Some (BBin BAnd) | L [A 24; A 1] => Some (BBin BOr)
  | L [A 24; A 2] => Some (BBin BXor) | L [A 24; A 3] => Some (BBin BImplies)
  | L [A 25] => Some BFromInt
  | L [A 26] => Some Noop | L [A 27] => Some DupBlock | L [A 28] => Some When
  | L [A 29] => Some Unless | L [A 30] => Some IfElse
  | L [A 31; A n] => Some (InputVar n)
  | L [A 32] => Some PrintSpace | L [A 33] => Some PrintNewline | L [A 34] => Some PrintPeriod
  | L [A 35; A id] => Some (PrintString id)
  | _ => None
  end.

Fixpoint dec_prog (t : tree) : option prog :=
  match t with
  | L (A 100 :: ps) =>
    option_map PB
      ((fix go (l : list tree) : option (list prog) :=
          match l with
          | [] => Some []
          | x :: r => match dec_prog x, go r with Some p, Some q => Some (p :: q) | _, _ => None end
          end) ps)
  | L [A 9; p] => match dec_prog p with Some p' => Some (PI (PushE p')) | None => None end
  | _ => option_map PI (dec_flat t)
  end.

Definition dec_lit (t : tree) : option (Z * lit) :=
  match t with
  | L [A n; A 0; A z] => Some (n, LInt z)
  | L [A n; A 1; A b] => Some (n, LFloat (of_bits b))
  | L [A n; A 2; b] => option_map (fun b => (n, LBool b)) (tbool b)
  | _ => None
  end.

Definition tfloat (t : tree) : option float := option_map of_bits (tZ t).

(* input state *)
Definition dec_state (t : tree) : option state :=
  match t with
  | L [ce; xe; ci; xi; cf; xf; cb; xb; ins; lim] =>
    olet ce := tN ce in olet xe := tlist dec_prog xe in
    olet ci := tN ci in olet xi := tlist tZ xi in
    olet cf := tN cf in olet xf := tlist tfloat xf in
    olet cb := tN cb in olet xb := tlist tbool xb in
    olet ins := tlist dec_lit ins in olet lim := tN lim in
    Some (St (SS ce xe) (SS ci xi) (SS cf xf) (SS cb xb) ins [] lim)
  | _ => None
  end.

(* observed state: output is raw bytes *)
Record ostate := OS { o_exec : sstack prog; o_ints : sstack Z; o_floats : sstack Z (* bits *);
                      o_bools : sstack bool; o_out : list Z; o_lim : N }.
Definition dec_ostate (t : tree) : option ostate :=
  match t with
  | L [ce; xe; ci; xi; cf; xf; cb; xb; out; lim] =>
    olet ce := tN ce in olet xe := tlist dec_prog xe in
    olet ci := tN ci in olet xi := tlist tZ xi in
    olet cf := tN cf in olet xf := tlist tZ xf in
    olet cb := tN cb in olet xb := tlist tbool xb in
    olet out := tlist tZ out in olet lim := tN lim in
    Some (OS (SS ce xe) (SS ci xi) (SS cf xf) (SS cb xb) out lim)
  | _ => None
  end.

(* ---- decidable equalities used by the comparison ---- *)
Fixpoint list_eqb {X} (e : X -> X -> bool) (a b : list X) : bool :=
  match a, b with
  | [], [] => true
  | x :: a', y :: b' => e x y && list_eqb e a' b'
  | _, _ => false
  end.
Definition stk_eqb (a b : stk) : bool :=
  match a, b with KInt, KInt | KFloat, KFloat | KBool, KBool | KExec, KExec => true | _, _ => false end.
Definition vk_eqb (a b : vk) : bool :=
  match a, b with VInt, VInt | VFloat, VFloat | VBool, VBool => true | _, _ => false end.
Definition cmp_eqb (a b : cmp) : bool :=
  match a, b with CEq, CEq | CNe, CNe | CLt, CLt | CLe, CLe | CGt, CGt | CGe, CGe => true | _, _ => false end.
Definition feqb (a b : float) : bool := Z.eqb (bits a) (bits b).

Fixpoint instr_eqb (a b : instr) {struct a} : bool :=
  match a, b with
  | Pop x, Pop y | Dup x, Dup y | Swap x, Swap y | IsEmpty x, IsEmpty y
  | StackDepth x, StackDepth y | Flush x, Flush y => stk_eqb x y
  | PushI x, PushI y => Z.eqb x y
  | PushF x, PushF y => feqb x y
  | PushB x, PushB y => Bool.eqb x y
  | PushE p, PushE q => prog_eqb p q
  | Print k n, Print k' n' => vk_eqb k k' && Bool.eqb n n'
  | IUn Inc, IUn Inc | IUn Dec, IUn Dec | IUn Square, IUn Square => true
  | ISat Negate, ISat Negate | ISat Abs, ISat Abs => true
  | IBin Add, IBin Add | IBin Sub, IBin Sub | IBin Mul, IBin Mul
  | IBin Div, IBin Div | IBin Mod, IBin Mod | IBin Pow, IBin Pow => true
  | IMm Min, IMm Min | IMm Max, IMm Max => true
  | Clamp, Clamp => true
  | IPred IsZero, IPred IsZero | IPred IsPositive, IPred IsPositive | IPred IsNegative, IPred IsNegative
  | IPred IsEven, IPred IsEven | IPred IsOdd, IPred IsOdd => true
  | ICmp x, ICmp y | FCmp x, FCmp y => cmp_eqb x y
  | FromBoolean, FromBoolean | FromFloatApprox, FromFloatApprox | FromIntApprox, FromIntApprox => true
  | FBin FAdd, FBin FAdd | FBin FSub, FBin FSub | FBin FMul, FBin FMul | FBin FDiv, FBin FDiv => true
  | BNot, BNot | BFromInt, BFromInt => true
  | BBin BAnd, BBin BAnd | BBin BOr, BBin BOr | BBin BXor, BBin BXor | BBin BImplies, BBin BImplies => true
  | Noop, Noop | DupBlock, DupBlock | When, When | Unless, Unless | IfElse, IfElse => true
  | InputVar x, InputVar y => Z.eqb x y
  | PrintSpace, PrintSpace | PrintNewline, PrintNewline | PrintPeriod, PrintPeriod => true
  | PrintString x, PrintString y => Z.eqb x y
  | _, _ => false
  end
with prog_eqb (a b : prog) {struct a} : bool :=
  match a, b with
  | PI x, PI y => instr_eqb x y
  | PB x, PB y =>
    (fix go (l m : list prog) : bool :=
       match l, m with
       | [], [] => true
       | p :: l', q :: m' => prog_eqb p q && go l' m'
       | _, _ => false
       end) x y
  | _, _ => false
  end.

Definition sstack_eqb {X} (e : X -> X -> bool) (a b : sstack X) : bool :=
  N.eqb (smax a) (smax b) && list_eqb e (elems a) (elems b).

(* model state vs observed state, everything but the output text *)
Definition state_matches (s : state) (o : ostate) : bool :=
  sstack_eqb prog_eqb (exec s) (o_exec o) && sstack_eqb Z.eqb (ints s) (o_ints o)
  && sstack_eqb Z.eqb (SS (smax (floats s)) (map bits (elems (floats s)))) (o_floats o)
  && sstack_eqb Bool.eqb (bools s) (o_bools o) && N.eqb (max_steps s) (o_lim o).

(* the model's output tokens, flattened for the driver: TInt [1;z] TFloat [2;bits] TBool [3;b] TStr [4;id] TChar [5;c] *)
Definition enc_token (t : token) : list Z :=
  match t with
  | TInt z => [1; z] | TFloat f => [2; bits f] | TBool b => [3; if b then 1 else 0]
  | TStr id => [4; id] | TChar c => [5; c]
  end.
Definition enc_out (s : state) : list Z := flat_map enc_token (out s).

Definition err_kind (e : err) : Z := match e with EUnderflow _ _ => 1 | EOverflow => 2 | EIntOverflow => 3 end.
