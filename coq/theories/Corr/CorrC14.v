(* Correspondence for C14: composition shapes built from probe operators, interpreted
   through the combinators of Ec/Compose.v over an explicit word stream. *)
From Coq Require Import List ZArith Bool Lia.
From UEC Require Import Base.Wire Ec.Compose.
Import ListNotations.
Local Open Scope Z_scope.

Inductive val := VI (z : Z) | VP (a b : val) | VL (l : list val).
Inductive perr := EProbe (id : Z) | EFirst (e : perr) | ESecond (e : perr) | EMap (e : perr) (i : nat) | EType.

Inductive shape :=
| SP (id : Z) | SQ (id : Z) | SD (id : Z) | SV (id : Z) | SR (id : Z)
| SThen (a b : shape) | SAnd (a b : shape) | SMapPair (a : shape) | SMapVec (a : shape)
| SRep (n : nat) (a : shape) | SId | SConst (z : Z) | SWrap (a : shape) | SSel (id : Z) | SGenome.

Record st := { words : list Z; log : list (Z * val * Z); calls : Z; fail_at : Z }.

Definition base (id w : Z) : Z := id * 1000 + w mod 997.

(* a probe: draws exactly one word, logs (id, input seen, word), fails on the fail_at-th call overall *)
Definition probe (id : Z) (f : val -> Z -> option val) : op st val val perr :=
  fun x s =>
    match words s with
    | [] => (inr EType, s)
    | w :: ws =>
      let s' := {| words := ws; log := log s ++ [(id, x, w)]; calls := calls s + 1; fail_at := fail_at s |} in
      if calls s =? fail_at s then (inr (EProbe id), s')
      else match f x w with Some v => (inl v, s') | None => (inr EType, s') end
    end.

Definition lift2 (o : op st val val (two_err perr perr)) : op st val val perr :=
  fun x s => match o x s with
             | (inl v, s') => (inl v, s')
             | (inr (First e), s') => (inr (EFirst e), s')
             | (inr (Second e), s') => (inr (ESecond e), s')
             end.
Definition liftm {B} (k : B -> val) (o : st -> (B + map_err perr) * st) : st -> (val + perr) * st :=
  fun s => match o s with
           | (inl v, s') => (inl (k v), s')
           | (inr (MapError e i), s') => (inr (EMap e i), s')
           end.

Fixpoint interp (sh : shape) : op st val val perr :=
  match sh with
  | SP id => probe id (fun _ w => Some (VI (base id w)))
  | SQ id => probe id (fun x _ => Some x)
  | SD id => probe id (fun _ w => Some (VP (VI (base id w)) (VI (base id w + 1))))
  | SV id => probe id (fun _ w => Some (VL [VI (base id w); VI (base id w + 1); VI (base id w + 2)]))
  | SR id => probe id (fun _ w => Some (VL [VI (base id w); VI (base id w + 1)]))
  | SThen a b => lift2 (then_ (interp a) (interp b))
  | SAnd a b => fun x s => match lift2 (fun x s => match and_ (interp a) (interp b) x s with
                                                    | (inl (u, v), s') => (inl (VP u v), s')
                                                    | (inr e, s') => (inr e, s') end) x s with r => r end
  | SMapPair a => fun x s => match x with
                             | VP u v => liftm (fun '(p, q) => VP p q) (map_pair (interp a) (u, v)) s
                             | _ => (inr EType, s) end
  | SMapVec a => fun x s => match x with
                            | VL l => liftm VL (map_vec (interp a) l) s
                            | _ => (inr EType, s) end
  | SRep n a => fun x s => match repeat_ n (interp a) x s with
                           | (inl l, s') => (inl (VL l), s')
                           | (inr e, s') => (inr e, s') end
  | SId => identity
  | SConst z => constant (VI z)
  | SWrap a => wrap (interp a)
  | SSel id => probe id (fun x w => match x with
                                    | VL l => nth_error l (Z.to_nat (w mod Z.of_nat (length l)))
                                    | _ => None end)
  | SGenome => fun x s => match x with VP g _ => (inl g, s) | _ => (inr EType, s) end
  end.

(* ---- decoding ---- *)
Fixpoint dec_val (t : tree) : option val :=
  match t with
  | L [A 0; A z] => Some (VI z)
  | L [A 1; a; b] => match dec_val a, dec_val b with Some x, Some y => Some (VP x y) | _, _ => None end
  | L (A 2 :: l) =>
    option_map VL ((fix go (l : list tree) : option (list val) :=
       match l with [] => Some [] | x :: r => match dec_val x, go r with Some v, Some vs => Some (v :: vs) | _, _ => None end end) l)
  | _ => None
  end.
Fixpoint dec_shape (t : tree) : option shape :=
  match t with
  | L [A 0; A id] => Some (SP id) | L [A 10; A id] => Some (SQ id) | L [A 11; A id] => Some (SD id)
  | L [A 12; A id] => Some (SV id) | L [A 13; A id] => Some (SR id)
  | L [A 1; a; b] => match dec_shape a, dec_shape b with Some x, Some y => Some (SThen x y) | _, _ => None end
  | L [A 2; a; b] => match dec_shape a, dec_shape b with Some x, Some y => Some (SAnd x y) | _, _ => None end
  | L [A 3; a] => option_map SMapPair (dec_shape a)
  | L [A 5; a] => option_map SMapVec (dec_shape a)
  | L [A 6; A n; a] => option_map (SRep (Z.to_nat n)) (dec_shape a)
  | L [A 7] => Some SId
  | L [A 8; A z] => Some (SConst z)
  | L [A 9; a] => option_map SWrap (dec_shape a)
  | L [A 14; A id] => Some (SSel id)
  | L [A 15] => Some SGenome
  | _ => None
  end.
Fixpoint dec_err (t : tree) : option perr :=
  match t with
  | L [A 0; A id] => Some (EProbe id)
  | L [A 1; e] => option_map EFirst (dec_err e)
  | L [A 2; e] => option_map ESecond (dec_err e)
  | L [A 3; e; A i] => option_map (fun e => EMap e (Z.to_nat i)) (dec_err e)
  | _ => None
  end.

Fixpoint val_eqb (a b : val) {struct a} : bool :=
  match a, b with
  | VI x, VI y => x =? y
  | VP a1 a2, VP b1 b2 => val_eqb a1 b1 && val_eqb a2 b2
  | VL l, VL m => (fix go (l m : list val) : bool :=
                     match l, m with [], [] => true | x :: l', y :: m' => val_eqb x y && go l' m' | _, _ => false end) l m
  | _, _ => false
  end.
Fixpoint err_eqb (a b : perr) : bool :=
  match a, b with
  | EProbe x, EProbe y => x =? y
  | EFirst x, EFirst y | ESecond x, ESecond y => err_eqb x y
  | EMap x i, EMap y j => err_eqb x y && Nat.eqb i j
  | _, _ => false
  end.
Fixpoint log_eqb (a b : list (Z * val * Z)) : bool :=
  match a, b with
  | [], [] => true
  | (i, v, w) :: a', (j, u, x) :: b' => (i =? j) && val_eqb v u && (w =? x) && log_eqb a' b'
  | _, _ => false
  end.
Definition dec_log (t : tree) : option (list (Z * val * Z)) :=
  tlist (fun e => match e with L [A id; v; A w] => option_map (fun v => (id, v, w)) (dec_val v) | _ => None end) t.

(* input = [shape; x; fail_at; words]   observation = [result; log; words consumed] *)
Definition judge (t : tree) : option (list Z) :=
  match t with
  | L [L [sh; x; A f; ws]; L [r; lg; A used]] =>
    olet sh := dec_shape sh in olet x := dec_val x in olet ws := tlist tZ ws in olet lg := dec_log lg in
    let '(res, s') := interp sh x {| words := ws; log := []; calls := 0; fail_at := f |} in
    let res_ok := match res, r with
                  | inl v, L [A 0; v'] => match dec_val v' with Some u => val_eqb v u | None => false end
                  | inr e, L [A 1; e'] => match dec_err e' with Some u => err_eqb e u | None => false end
                  | _, _ => false
                  end in
    let ok := res_ok && log_eqb (log s') lg && (Z.of_nat (length ws - length (words s')) =? used) in
    Some [if ok then 0 else 2]
  | _ => None
  end.

Fixpoint enc_val (v : val) : list Z :=
  match v with VI z => [0; z] | VP a b => 1 :: enc_val a ++ enc_val b | VL l => 2 :: Z.of_nat (length l) :: flat_map enc_val l end.
Fixpoint enc_err (e : perr) : list Z :=
  match e with EProbe id => [100; id] | EFirst e => 101 :: enc_err e | ESecond e => 102 :: enc_err e
             | EMap e i => 103 :: Z.of_nat i :: enc_err e | EType => [199] end.
Definition show (t : tree) : option (list (list Z)) :=
  match t with
  | L (L [sh; x; A f; ws] :: _) =>
    olet sh := dec_shape sh in olet x := dec_val x in olet ws := tlist tZ ws in
    let '(res, s') := interp sh x {| words := ws; log := []; calls := 0; fail_at := f |} in
    Some [match res with inl v => 0 :: enc_val v | inr e => 1 :: enc_err e end;
          flat_map (fun '(i, v, w) => i :: w :: enc_val v) (log s');
          [Z.of_nat (length ws - length (words s'))]]
  | _ => None
  end.

(* every probe call consumes exactly one word and logs it: the stream is read strictly left to right *)
Lemma probe_trace id f x s r s' :
  probe id f x s = (r, s') ->
  exists new, log s' = log s ++ new /\ words s = map (fun e => snd e) new ++ words s' /\ fail_at s' = fail_at s /\
              calls s' = calls s + Z.of_nat (length new).
Proof.
  unfold probe. destruct (words s) as [|w ws] eqn:W.
  - intros H; inversion H; subst. exists []. rewrite app_nil_r, W. cbn. repeat split; lia.
  - destruct (calls s =? fail_at s); [|destruct (f x w)]; intros H; inversion H; subst; cbn;
      exists [(id, x, w)]; cbn; repeat split; lia.
Qed.
