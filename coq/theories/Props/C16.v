(* C16 - all randomness comes from the supplied generator; evaluation is deterministic.
   What a Gallina model can carry here is stated plainly: a Gallina function is a function, so
   "two runs give equal results" is true of the model by construction and says nothing about the
   code - that half of the property is decided by the code-against-code correspondence (double runs
   from cloned generators, reuse of operator values, permuted input declarations).  The theorems
   below are the parts with content. *)
From Coq Require Import List ZArith Permutation.
From UEC Require Import Push.Stack Push.Syntax Push.Spec Push.Run Push.InputOrder Ec.Compose.
Import ListNotations.

(* named inputs resolve to their values regardless of the order in which they were declared *)
Theorem C16_lookup_order_free : forall l l' n,
  NoDup (map fst l) -> Permutation l l' -> lookup n l' = lookup n l.
Proof. exact lookup_perm. Qed.
Print Assumptions C16_lookup_order_free.

(* hence evaluating a program is independent of the declaration order: same stacks, output, limits,
   outcome and number of steps, for every program, every state and every step limit *)
Theorem C16_input_order : forall prec l l' s,
  NoDup (map fst l) -> Permutation l l' -> inputs s = l ->
  run prec (with_inputs l' s) = map_rs (with_inputs l') (run prec s).
Proof. exact run_input_order. Qed.
Print Assumptions C16_input_order.

(* operators built from the combinators have no hidden state: the threaded state (the random stream)
   after a composition is exactly what its parts left, in order - in particular a part that did not
   run did not draw *)
Theorem C16_then_threads_state : forall (S A B C E1 E2 : Type) (f : op S A B E1) (g : op S B C E2) x s,
  snd (then_ f g x s) = match f x s with (inl y, s1) => snd (g y s1) | (inr _, s1) => s1 end.
Proof. exact @then_threads_state. Qed.
Print Assumptions C16_then_threads_state.

Theorem C16_and_threads_state : forall (S A B C E1 E2 : Type) (f : op S A B E1) (g : op S A C E2) x s,
  snd (and_ f g x s) = match f x s with (inl _, s1) => snd (g x s1) | (inr _, s1) => s1 end.
Proof. exact @and_threads_state. Qed.
Print Assumptions C16_and_threads_state.

Example C16_example :
  let prog := [PI (InputVar 1); PI (InputVar 2); PI (IBin Sub)] in
  let st l := St (SS 10%N prog) (SS 10%N []) (SS 10%N []) (SS 10%N []) l [] 10%N in
  match run code_prec (st [(1, LInt 5); (2, LInt 8)]%Z), run code_prec (st [(2, LInt 8); (1, LInt 5)]%Z) with
  | Finished a _, Finished b _ => elems (ints a) = [3]%Z /\ elems (ints b) = [3]%Z
  | _, _ => False
  end.
Proof. vm_compute. split; reflexivity. Qed.
