(* C16 - all randomness comes from the supplied generator; evaluation is deterministic.
   What a Gallina model can carry here is stated plainly: a Gallina function is a function, so
   "two runs give equal results" is true of the model by construction and says nothing about the
   code - that half of the property is decided by the code-against-code correspondence (double runs
   from cloned generators, reuse of operator values, permuted input declarations).  The theorems
   below are the parts with content. *)
From Coq Require Import List ZArith Permutation.
From UEC Require Import Push.Stack Push.Syntax Push.Spec Push.Run Push.InputOrder Push.ReadInputs Ec.Compose.
From UEC Require Import Ec.Locality.
Import ListNotations.

(* named inputs resolve to their values regardless of the order in which they were declared *)
Theorem C16_lookup_order_free : forall l l' n,
  NoDup (map fst l) -> Permutation l l' -> lookup n l' = lookup n l.
Proof. exact lookup_perm. Qed.
Print Assumptions C16_lookup_order_free.

(* hence evaluating a program is independent of the declaration order: same stacks, output, limits,
   outcome and number of steps, for every program, every state and every step limit *)
Theorem C16_input_order : forall prec l l' s,
  NoDup (map fst l) -> Permutation l l' -> inputs s = l ->
  run prec (with_inputs l' s) = map_rs (with_inputs l') (run prec s).
Proof. exact run_input_order. Qed.
Print Assumptions C16_input_order.

(* a program that reads DISTINCTLY named integer inputs, each once: however many there are and in whatever order
   they were declared, it ends with exactly their values on the int stack, the last one read on top, the rest of
   the state as it was (names are told apart by the whole name - the closed form the correspondence compares the
   evaluation of thousands of inputs with) *)
Theorem C16_reads_any_declaration_order : forall prec names vs decls s,
  NoDup names -> length names = length vs ->
  Permutation (combine names (map LInt vs)) decls -> inputs s = decls ->
  elems (exec s) = reads names ->
  (ssize (ints s) + N.of_nat (length names) <= smax (ints s))%N ->
  (N.of_nat (length names) <= max_steps s)%N ->
  state_of (run prec s) = Some (after_reads s [] vs).
Proof. exact reads_any_declaration_order. Qed.
Print Assumptions C16_reads_any_declaration_order.

(* operators built from the combinators have no hidden state: the threaded state (the random stream)
   after a composition is exactly what its parts left, in order - in particular a part that did not
   run did not draw *)
Theorem C16_then_threads_state : forall (S A B C E1 E2 : Type) (f : op S A B E1) (g : op S B C E2) x s,
  snd (then_ f g x s) = match f x s with (inl y, s1) => snd (g y s1) | (inr _, s1) => s1 end.
Proof. exact @then_threads_state. Qed.
Print Assumptions C16_then_threads_state.

Theorem C16_and_threads_state : forall (S A B C E1 E2 : Type) (f : op S A B E1) (g : op S A C E2) x s,
  snd (and_ f g x s) = match f x s with (inl _, s1) => snd (g x s1) | (inr _, s1) => s1 end.
Proof. exact @and_threads_state. Qed.
Print Assumptions C16_and_threads_state.

(* stream locality: with the generator modelled as (word stream, position), an operator is [local] when its
   result and the position it leaves depend only on the stretch of the stream it consumed (and it never
   rewinds or replaces the stream).  Drawing a word is local, and every combinator preserves locality - so
   every composition, of any nesting depth, built from local parts is local ... *)
Theorem C16_draw_is_local : forall (W A : Type), local (@draw W A).
Proof. exact @local_draw. Qed.
Print Assumptions C16_draw_is_local.

Theorem C16_combinators_preserve_locality :
  (forall (W A B C E1 E2 : Type) (f : op (@gen W) A B E1) (g : op gen B C E2), local f -> local g -> local (then_ f g)) /\
  (forall (W A B C E1 E2 : Type) (f : op (@gen W) A B E1) (g : op gen A C E2), local f -> local g -> local (and_ f g)) /\
  (forall (W A B E : Type) (f : op (@gen W) A B E), local f -> local (map_vec f)) /\
  (forall (W A B E : Type) (f : op (@gen W) A B E) n, local f -> local (repeat_ n f)) /\
  (forall (W A B E : Type) (f : op (@gen W) A B E), local f -> local (wrap f)) /\
  (forall (W A E : Type), local (@identity (@gen W) A E)) /\
  (forall (W A B E : Type) (v : B), local (@constant (@gen W) A B E v)).
Proof.
  exact (conj (@local_then) (conj (@local_and) (conj (@local_map_vec) (conj (@local_repeat) (conj (@local_wrap) (conj (@local_identity) (@local_constant))))))).
Qed.
Print Assumptions C16_combinators_preserve_locality.

(* ... and a local operator run from two generators in the same state (equal streams from the current
   position on) gives the same result and leaves both at the same position, with the stream untouched *)
Theorem C16_equal_generator_states_equal_results : forall (W A B E : Type) (f : op (@gen W) A B E) x s s' p,
  local f -> (forall i, p <= i -> s i = s' i) ->
  fst (f x (s, p)) = fst (f x (s', p)) /\ snd (snd (f x (s, p))) = snd (snd (f x (s', p))) /\
  fst (snd (f x (s, p))) = s.
Proof. exact @local_deterministic. Qed.
Print Assumptions C16_equal_generator_states_equal_results.

Example C16_example :
  let prog := [PI (InputVar 1); PI (InputVar 2); PI (IBin Sub)] in
  let st l := St (SS 10%N prog) (SS 10%N []) (SS 10%N []) (SS 10%N []) l [] 10%N in
  match run code_prec (st [(1, LInt 5); (2, LInt 8)]%Z), run code_prec (st [(2, LInt 8); (1, LInt 5)]%Z) with
  | Finished a _, Finished b _ => elems (ints a) = [3]%Z /\ elems (ints b) = [3]%Z
  | _, _ => False
  end.
Proof. vm_compute. split; reflexivity. Qed.
