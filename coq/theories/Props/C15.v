(* C15 - scores, errors and individuals are ordered and aggregated consistently. *)
From Coq Require Import List ZArith Bool Floats.
From UEC Require Import Base.F64 Ec.Order.
Import ListNotations.
Local Open Scope Z_scope.

Theorem C15_score_total_order : forall a b c,
  score_cmp a a = Eq /\ (score_cmp a b = Eq <-> a = b) /\ score_cmp b a = CompOpp (score_cmp a b) /\
  (le_of score_cmp a b -> le_of score_cmp b c -> le_of score_cmp a c) /\
  (le_of score_cmp a b \/ le_of score_cmp b a) /\ (score_cmp a b = Lt <-> a < b).
Proof. exact score_total_order. Qed.
Print Assumptions C15_score_total_order.

Theorem C15_error_total_order : forall a b c,
  error_cmp a a = Eq /\ (error_cmp a b = Eq <-> a = b) /\ error_cmp b a = CompOpp (error_cmp a b) /\
  (le_of error_cmp a b -> le_of error_cmp b c -> le_of error_cmp a c) /\
  (le_of error_cmp a b \/ le_of error_cmp b a) /\ (error_cmp a b = Lt <-> b < a).
Proof. exact error_total_order. Qed.
Print Assumptions C15_error_total_order.

Theorem C15_error_reverses : forall a b, error_cmp a b = CompOpp (score_cmp a b).
Proof. exact error_reverses. Qed.
Print Assumptions C15_error_reverses.

Theorem C15_ops_agree : forall c,
  let o := ops_of c in
  (o_le o = o_lt o || match c with Some Eq => true | _ => false end) /\
  (o_ge o = o_gt o || match c with Some Eq => true | _ => false end) /\
  (o_lt o && o_gt o = false) /\
  (c <> None -> o_le o = negb (o_gt o) /\ o_ge o = negb (o_lt o)) /\
  (c = None -> o_lt o = false /\ o_le o = false /\ o_gt o = false /\ o_ge o = false).
Proof. exact ops_consistent. Qed.
Print Assumptions C15_ops_agree.

Theorem C15_score_error_incomparable : forall x y,
  tres_pcmp (RScore x) (RError y) = None /\ tres_pcmp (RError y) (RScore x) = None /\
  tres_eqb (RScore x) (RError y) = false.
Proof. exact score_error_incomparable. Qed.
Print Assumptions C15_score_error_incomparable.

Theorem C15_total_is_sum : forall l,
  cases (results_from l) = l /\ total (results_from l) = fold_right Z.add 0 l.
Proof. exact total_is_sum. Qed.
Print Assumptions C15_total_is_sum.

Theorem C15_results_cmp_by_total : forall c a b, results_cmp c a b = c (total a) (total b).
Proof. exact results_cmp_by_total. Qed.
Print Assumptions C15_results_cmp_by_total.

Theorem C15_individual_cmp_by_results : forall (G : Type) c (a b : individual G),
  individual_cmp c a b = results_cmp c (res a) (res b) /\
  forall g g' : G, individual_cmp c {| genome := g; res := res a |} {| genome := g'; res := res b |} = individual_cmp c a b.
Proof. exact @individual_cmp_by_results. Qed.
Print Assumptions C15_individual_cmp_by_results.

Theorem C15_scorer_consistent : forall (G St E : Type) (maker : St -> (G + E) * St) scorer st i st',
  score_genome maker scorer st = (inl i, st') ->
  maker st = (inl (genome i), st') /\ res i = scorer (genome i).
Proof. exact @scorer_consistent. Qed.
Print Assumptions C15_scorer_consistent.

(* Ord's provided methods agree with the order: for scores max / min are the numerical ones, for errors they are
   swapped (the better error is the smaller number); in either order max is an upper and min a lower bound and
   both return one of their arguments *)
Theorem C15_min_max : forall a b,
  (omax score_cmp a b = Z.max a b /\ omin score_cmp a b = Z.min a b) /\
  (omax error_cmp a b = Z.min a b /\ omin error_cmp a b = Z.max a b) /\
  (forall c, c = score_cmp \/ c = error_cmp ->
     c (omax c a b) a <> Lt /\ c (omax c a b) b <> Lt /\ c (omin c a b) a <> Gt /\ c (omin c a b) b <> Gt /\
     (omax c a b = a \/ omax c a b = b) /\ (omin c a b = a \/ omin c a b = b)).
Proof. exact (fun a b => conj (omax_omin_score a b) (conj (omax_omin_error a b) (fun c H => omax_bound c a b H))). Qed.
Print Assumptions C15_min_max.

(* results need not be integers: for floating-point results the total is the left-to-right sum, one addition per
   case in the order given, and no regrouping of the cases (block-wise or pairwise summation) is equivalent *)
Theorem C15_float_total_in_order : forall z l x,
  ftotal z [] = z /\ ftotal z (l ++ [x]) = PrimFloat.add (ftotal z l) x /\
  (let big := i2f 10000000000000000 in
   ftotal (fzero true) [big; PrimFloat.one; PrimFloat.one]
   <> PrimFloat.add (ftotal (fzero true) [big]) (ftotal (fzero true) [PrimFloat.one; PrimFloat.one])).
Proof. exact (fun z l x => conj eq_refl (conj (ftotal_snoc z l x) ftotal_grouping_matters)). Qed.
Print Assumptions C15_float_total_in_order.

(* float results compare by IEEE comparison of their in-order totals: a total that is NaN - which +inf + -inf is,
   although no case is NaN - is comparable with nothing (no fallback to the per-case vectors) *)
Theorem C15_float_totals_may_be_incomparable :
  fresults_pcmp false (fzero true) [infinity; neg_infinity] [PrimFloat.one] = None /\
  fresults_pcmp true (fzero true) [PrimFloat.one] [infinity; neg_infinity] = None.
Proof. exact incomparable_total. Qed.
Print Assumptions C15_float_totals_may_be_incomparable.

Example C15_nonvacuous :
  score_cmp 3 5 = Lt /\ error_cmp 3 5 = Gt /\ total (results_from [5; -8; 0; 6]) = 3 /\
  results_cmp error_cmp (results_from [1; 2]) (results_from [3]) = Eq.
Proof. repeat split. Qed.
