(* C11 - mutation keeps genome structure: flips stay in place, UMAD only inserts / deletes. *)
From Coq Require Import List ZArith QArith.
From UEC Require Import Base.Dist Ec.Mutation.
Import ListNotations.

Theorem C11_flip_shape : forall r g c, 0 <= r <= 1 -> possible (with_rate r g) c ->
  length c = length g /\ forall p, nth_error c p = nth_error g p \/ nth_error c p = option_map negb (nth_error g p).
Proof. exact flip_shape. Qed.
Print Assumptions C11_flip_shape.

Theorem C11_flip_rate_0_identity : forall g P, prob (with_rate 0 g) P == if P g then 1 else 0.
Proof. exact flip_rate_0. Qed.
Print Assumptions C11_flip_rate_0_identity.

Theorem C11_flip_rate_1_all_flipped : forall g P, prob (with_rate 1 g) P == if P (map negb g) then 1 else 0.
Proof. exact flip_rate_1. Qed.
Print Assumptions C11_flip_rate_1_all_flipped.

(* UMAD children lie in the language "for each parent gene in order: optionally that gene, then
   optionally ONE gene drawn from the generator" *)
Theorem C11_umad_shape : forall (G : Type) (gen : dist G) a d,
  nonneg gen -> 0 <= a <= 1 -> 0 <= d <= 1 ->
  forall g c, possible (umad_loop gen a d g) c -> lang gen g c.
Proof. exact @umad_shape. Qed.
Print Assumptions C11_umad_shape.

Theorem C11_umad_empty_parent : forall (G : Type) (gen : dist G) a d,
  nonneg gen ->
  forall e c, (match e with Some r => 0 <= r <= 1 | None => True end) ->
  possible (umad gen a d e []) c ->
  match e with
  | None => c = []
  | Some _ => c = [] \/ exists y, possible gen y /\ c = [y]
  end.
Proof. exact @umad_empty_parent. Qed.
Print Assumptions C11_umad_empty_parent.

(* addition rate 0 and deletion rate 0 (and, for an empty parent, empty-genome addition disabled or at rate 0): the identity *)
Theorem C11_umad_rate_0_identity : forall (G : Type) (gen : dist G) e g P,
  (e = None \/ e = Some 0) -> prob (umad gen 0 0 e g) P == if P g then 1 else 0.
Proof. exact @umad_rate_0_any_parent. Qed.
Print Assumptions C11_umad_rate_0_identity.

Theorem C11_umad_delete_all : forall (G : Type) (gen : dist G) a g P,
  prob (umad_loop gen a 1 g) P == if P [] then 1 else 0.
Proof. exact @umad_delete_all. Qed.
Print Assumptions C11_umad_delete_all.

(* addition rate 1 and deletion rate 0: each parent gene is kept and followed by exactly one new gene *)
Theorem C11_umad_add_all_block : forall (G : Type) (gen : dist G) x (h : list G -> Q),
  expect (block gen 1 0 x) h == expect gen (fun y => h [x; y]).
Proof. exact @block_add_all. Qed.
Print Assumptions C11_umad_add_all_block.

Example C11_example :
  let gen := uniform [7; 8]%Z in
  prob (umad_loop gen (1#2) (1#4) [1; 2]%Z) (fun c => match c with [1; 7; 2]%Z => true | _ => false end) == 135 # 2048 /\
  prob (umad gen (1#2) (1#4) (Some (1#2)) []) (fun c => match c with [8]%Z => true | _ => false end) == 1 # 4.
Proof. vm_compute. split; reflexivity. Qed.
