(* C03 - program evaluation is total and bounded; only stack overflow aborts it. *)
From Coq Require Import List ZArith NArith Floats Bool.
From UEC Require Import Base.I64 Base.Iter Push.Stack Push.Syntax Push.Spec Push.SpecProps Push.Run Push.RunProps Push.RunRefine.
Import ListNotations.

(* totality: [run] is a Gallina function (structural recursion on the binary step
   budget); this theorem says that budget IS the while loop of the interpreter *)
Theorem C03_run_is_the_loop : forall prec s,
  run prec s = iter_nat halted (step prec) (N.to_nat (max_steps s)) (Running s 0).
Proof. exact run_run_nat. Qed.
Print Assumptions C03_run_is_the_loop.

Theorem C03_steps : forall prec s, (steps_of (run prec s) <= max_steps s)%N.
Proof. exact run_steps. Qed.
Print Assumptions C03_steps.

(* no stack ever holds more than its maximum: wf is preserved by every program element ... *)
Theorem C03_sizes_step : forall prec p s s', wf s -> perform_prog prec p s = Ok s' -> wf s'.
Proof. exact perform_prog_wf. Qed.
Print Assumptions C03_sizes_step.

(* ... and by every iteration of the loop, so it holds at every intermediate and at the final state *)
Theorem C03_sizes_loop : forall prec r, rs_wf r -> rs_wf (step prec r).
Proof. exact step_wf. Qed.
Print Assumptions C03_sizes_loop.

Theorem C03_sizes : forall prec s, wf s -> rs_wf (run prec s).
Proof. exact run_wf. Qed.
Print Assumptions C03_sizes.

(* an element aborts evaluation only through an overflow of a destination that lacks room *)
Theorem C03_fatal_only_overflow : forall prec p s s' e,
  perform_prog prec p s = Fatal s' e ->
  e = EOverflow /\
  match p with
  | PB l => (smax (exec s) < N.of_nat (length l) + ssize (exec s))%N
  | PI (InputVar n) => exists l k, lookup n (inputs s) = Some l /\ dest (lit_instr l) = Some k /\ kfull k s = true
  | PI i => exists k, dest i = Some k /\ kfull k s = true
  end.
Proof. exact perform_prog_fatal. Qed.
Print Assumptions C03_fatal_only_overflow.

Theorem C03_run_fails_only_overflow : forall prec s, fails_only_overflow (run prec s).
Proof. exact run_fails_only_overflow. Qed.
Print Assumptions C03_run_fails_only_overflow.

(* missing operands and arithmetic faults never abort *)
Theorem C03_underflow_and_arith_never_fatal : forall prec p s s' e,
  perform_prog prec p s = Fatal s' e -> e <> EIntOverflow /\ forall a b, e <> EUnderflow a b.
Proof.
  intros prec p s s' e H. apply perform_prog_fatal in H. destruct H as [-> _]. split; [|intros a b]; discriminate.
Qed.
Print Assumptions C03_underflow_and_arith_never_fatal.

(* the one panic of the VM is an unbound input variable ... *)
Theorem C03_panic_iff_unbound : forall prec i s,
  perform prec i s = Panic <-> exists n, i = InputVar n /\ lookup n (inputs s) = None.
Proof. exact perform_panic_iff. Qed.
Print Assumptions C03_panic_iff_unbound.

(* ... so a program all of whose input variables (also inside nested blocks and exec
   literals) are bound never panics, however it loops or grows *)
Theorem C03_no_panic : forall prec s, inputs_bound s -> run prec s <> Panicked.
Proof. exact run_no_panic. Qed.
Print Assumptions C03_no_panic.

(* the same guarantees for the interpreter over the code AS IT IS COMPOSED (the Impl layer: pops followed by
   pushes, pre-checks, discards), through the refinement C01_run *)
Theorem C03_composed_code : forall s, wf s ->
  rs_wf (irun s) /\ (steps_of (irun s) <= max_steps s)%N /\ fails_only_overflow (irun s) /\
  (inputs_bound s -> irun s <> Panicked).
Proof. exact (fun s W => conj (irun_wf s W) (conj (irun_steps s W) (conj (irun_fails_only_overflow s W) (irun_no_panic s W)))). Qed.
Print Assumptions C03_composed_code.

(* non-vacuity: a self-replicating program hits the step limit; one that
   keeps producing data ends with a stack overflowing; capacity 0 is a state like any other *)
Example C03_looping_examples :
  let loop := [PI DupBlock; PB [PI DupBlock]] in
  let grow := [PI (Dup KExec); PB [PI (PushI 1); PI (Dup KExec)]] in
  let st prog (cap lim : N) := St (SS cap prog) (SS 3%N []) (SS 3%N []) (SS 3%N []) [] [] lim in
  (match run code_prec (st loop 10%N 1000%N) with Running _ n => n = 1000 | _ => False end)%N /\
  (match run code_prec (st grow 6%N 1000%N) with Failed _ EOverflow _ => True | _ => False end) /\
  (match run code_prec (st [] 0%N 5%N) with Finished _ n => n = 0 | _ => False end)%N /\
  inputs_bound (st loop 10%N 1000%N) /\ wf (st grow 6%N 1000%N).
Proof. vm_compute. repeat split; discriminate. Qed.
