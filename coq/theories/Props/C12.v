(* C12 - configured probabilities are the probabilities applied. *)
From Coq Require Import List ZArith QArith.
From UEC Require Import Base.Dist Ec.Mutation Ec.UmadBlock Ec.Generators.
Import ListNotations.

(* bit-flip: the exact product law - each gene flipped independently with the given rate *)
Theorem C12_flip_law : forall r g c, prob (with_rate r g) (leqb c) == flip_law_of r g c.
Proof. exact flip_law. Qed.
Print Assumptions C12_flip_law.

Theorem C12_expected_flips : forall r g, expect (with_rate r g) (flips g) == r * qnat (length g).
Proof. exact expected_flips. Qed.
Print Assumptions C12_expected_flips.

(* the length-scaled variant: one expected flip *)
Theorem C12_one_expected_flip : forall g, g <> [] -> expect (one_over_length g) (flips g) == 1.
Proof. exact one_expected_flip. Qed.
Print Assumptions C12_one_expected_flip.

(* UMAD, gene by gene: the old gene survives with probability 1-d; independently, a new gene is inserted after it
   with probability a(1-d) - added with probability a and itself subject to deletion - and it is drawn from the
   generator; a genome is processed gene after gene, independently *)
Theorem C12_umad_block : forall (G : Type) (gen : dist G) a d (x : G) (P : list G -> bool),
  prob (block gen a d x) P ==
    (1 - d) * (1 - a * (1 - d)) * ind (P [x]) + (1 - d) * (a * (1 - d)) * prob gen (fun y => P [x; y]) +
    d * (1 - a * (1 - d)) * ind (P []) + d * (a * (1 - d)) * prob gen (fun y => P [y]).
Proof. exact @block_law. Qed.
Print Assumptions C12_umad_block.

Theorem C12_umad_gene_after_gene : forall (G : Type) (gen : dist G) a d x t,
  umad_loop gen a d (x :: t) = dbind (block gen a d x) (fun b => dbind (umad_loop gen a d t) (fun r => dret (b ++ r))).
Proof. exact @umad_loop_cons. Qed.
Print Assumptions C12_umad_gene_after_gene.

(* UMAD: expected child size n (1 - d)(1 + a); new genes are subject to deletion too *)
Theorem C12_umad_size : forall (G : Type) (gen : dist G) a d, mass gen == 1 ->
  forall g, expect (umad_loop gen a d g) len == len g * ((1 - d) * (1 + a)).
Proof. exact @umad_size. Qed.
Print Assumptions C12_umad_size.

Theorem C12_umad_size_neutral : forall (G : Type) (gen : dist G) a d, mass gen == 1 ->
  forall g, 0 <= a -> d == a / (1 + a) -> expect (umad_loop gen a d g) len == len g.
Proof. exact @umad_size_neutral. Qed.
Print Assumptions C12_umad_size_neutral.

(* uniform crossover: every position from either parent with probability 1/2, independently *)
Theorem C12_uniform_xo_law : forall (a b : list Z) (m : list bool),
  length a = length b -> length m = length a ->
  prob (uniform_xo_masks (length a)) (leqb m) == 1 / qnat (Nat.pow 2 (length a)).
Proof. exact uniform_xo_mask_law. Qed.
Print Assumptions C12_uniform_xo_law.

(* random bitstrings: each bit set with the requested probability *)
Theorem C12_bitstring_law : forall p n c, prob (random_bits p n) (leqb c) == bits_law_of p n c.
Proof. exact random_bits_law. Qed.
Print Assumptions C12_bitstring_law.

(* genomes of any length, seen through single positions and pairs of positions: each flip / coin / bit has
   the configured rate, and two different positions are independent (how genomes far too long to tabulate
   their children are compared with the code) *)
Theorem C12_flip_marginals : forall r g i j a b, (i < j)%nat -> (j < length g)%nat ->
  prob (with_rate r g) (fun c => Bool.eqb (flipped g c i) a) == bern r a /\
  prob (with_rate r g) (fun c => Bool.eqb (flipped g c i) a && Bool.eqb (flipped g c j) b) == bern r a * bern r b.
Proof. exact (fun r g i j a b Hij Hj => conj (flip_marginal r g i a (Nat.lt_trans _ _ _ Hij Hj)) (flip_pair_marginal r g i j a b Hij Hj)). Qed.
Print Assumptions C12_flip_marginals.

Theorem C12_bitstring_pairs : forall p n i j a b, (i < j)%nat -> (j < n)%nat ->
  prob (random_bits p n) (fun l => Bool.eqb (nth i l false) a && Bool.eqb (nth j l false) b) == bern p a * bern p b.
Proof. exact random_bits_pair. Qed.
Print Assumptions C12_bitstring_pairs.

Theorem C12_uniform_xo_pairs : forall n i j a b, (i < j)%nat -> (j < n)%nat ->
  prob (uniform_xo_masks n) (fun l => Bool.eqb (nth i l false) a && Bool.eqb (nth j l false) b) == 1 # 4.
Proof. exact uniform_xo_pair. Qed.
Print Assumptions C12_uniform_xo_pairs.

(* random Plushy genes: a close marker with the close probability, else an instruction from the supplied distribution *)
Theorem C12_gene_law : forall (I : Type) (instrs : dist I) c P,
  prob (gene_gen c instrs) P ==
  c * (if P None then 1 else 0) + (1 - c) * prob instrs (fun i => P (Some i)).
Proof. exact @gene_gen_law. Qed.
Print Assumptions C12_gene_law.

(* default close probability 1/(n+1): with n equally likely instructions all n+1 outcomes are equally likely *)
Theorem C12_default_close_uniform : forall (I : Type) (l : list I) P, l <> [] ->
  prob (gene_gen (default_close (length l)) (uniform l)) P ==
  (qnat (length (filter (fun i => P (Some i)) l)) + (if P None then 1 else 0)) / qnat (S (length l)).
Proof. exact @default_close_law. Qed.
Print Assumptions C12_default_close_uniform.
