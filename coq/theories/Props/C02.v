(* C02 - a failed instruction leaves the machine state untouched and is skipped. *)
From Coq Require Import List ZArith NArith Floats Bool.
From UEC Require Import Base.Iter Base.I64 Push.Stack Push.Syntax Push.Spec Push.SpecProps Push.Run Push.RunProps Push.Impl Push.Refine.
Import ListNotations.

(* the state carried by ANY error - recoverable or fatal - of ANY program element
   (instruction, literal, input variable, block) is the input state: record
   equality, i.e. every stack with its capacity, the output buffer, the inputs and
   the step limit.  For every state and every report order. *)
Theorem C02_err_state : forall prec p s s',
  err_state (Spec.perform_prog prec p s) = Some s' -> s' = s.
Proof. exact perform_prog_err_unchanged. Qed.
Print Assumptions C02_err_state.

(* the same for the code AS IT IS COMPOSED (pop-then-push, push-then-discard, pre-checks): here the
   hypothesis that every stack is within its capacity is needed - and it is an invariant of every state
   a program can reach (C03_sizes) and of every state the builder produces *)
Theorem C02_err_state_impl : forall p s s',
  wf s -> err_state (Impl.perform_prog p s) = Some s' -> s' = s.
Proof. exact impl_err_unchanged. Qed.
Print Assumptions C02_err_state_impl.

(* recoverable = a missing operand or an arithmetic fault; fatal = an overflow *)
Theorem C02_recoverable_kinds : forall prec p s s' e,
  Spec.perform_prog prec p s = Rec s' e -> e = EIntOverflow \/ exists a b, e = EUnderflow a b.
Proof. exact perform_prog_rec. Qed.
Print Assumptions C02_recoverable_kinds.

(* after a recoverable error the interpreter is exactly where it would be had the
   failed instruction been a no-op *)
Theorem C02_skip : forall prec s n p s1 s2 e,
  pop_exec s = Some (p, s1) -> Spec.perform_prog prec p s1 = Rec s2 e ->
  step prec (Running s n) = Running s1 (n + 1) /\
  step prec (Running s n) = step prec (Running (set_exec (with_elems (PI Noop :: elems (exec s1)) (exec s1)) s1) n).
Proof. exact step_skips. Qed.
Print Assumptions C02_skip.

(* ... and for every number of further steps: the run after the failed instruction is the run a no-op would have had *)
Theorem C02_skip_carries_on : forall prec s n p s1 s2 e k,
  pop_exec s = Some (p, s1) -> Spec.perform_prog prec p s1 = Rec s2 e ->
  Iter.iter_nat halted (step prec) (S k) (Running s n) =
    Iter.iter_nat halted (step prec) (S k) (Running (set_exec (with_elems (PI Noop :: elems (exec s1)) (exec s1)) s1) n) /\
  Iter.iter_nat halted (step prec) (S k) (Running s n) = Iter.iter_nat halted (step prec) k (Running s1 (n + 1)).
Proof. exact skips_carry_on. Qed.
Print Assumptions C02_skip_carries_on.

(* non-vacuity: each fault class on a state with data in the other stacks and a non-empty output *)
Example C02_examples :
  let s := St (SS 3%N [PI Noop]) (SS 2%N [9223372036854775807; 1]%Z) (SS 1%N []) (SS 1%N [true]) [(0, LInt 5)]%Z [TInt 1%Z] 9%N in
  Spec.perform_prog code_prec (PI (IBin Add)) s = Rec s EIntOverflow /\
  Spec.perform_prog code_prec (PI (FBin FAdd)) s = Rec s (EUnderflow 2 0) /\
  Spec.perform_prog code_prec (PI (IPred IsZero)) s = Fatal s EOverflow /\
  Spec.perform_prog code_prec (PI (InputVar 0)) s = Fatal s EOverflow /\
  Spec.perform_prog code_prec (PB [PI Noop; PI Noop; PI Noop]) s = Fatal s EOverflow.
Proof. repeat split. Qed.
