(* C05 - genome-to-program translation is total and structure preserving. *)
From Coq Require Import List Arith ZArith.
From UEC Require Import Push.Syntax Push.Plushy Push.PlushyRT.
Import ListNotations.

(* never fails: the fuel S (length g) handed to the recursive descent always suffices *)
Theorem C05_total : forall g, exists p, parse_top g = Some p.
Proof. exact parse_top_total. Qed.
Print Assumptions C05_total.

(* reading the program depth-first yields the genome's instructions in order *)
Theorem C05_flatten : forall g p, parse_top g = Some p -> flats p = instrs g.
Proof. exact parse_top_flat. Qed.
Print Assumptions C05_flatten.

(* each instruction opening k blocks is immediately followed by exactly k blocks; blocks occur nowhere else *)
Theorem C05_shape : forall g p, parse_top g = Some p -> shaped 0 p.
Proof. exact parse_top_shaped. Qed.
Print Assumptions C05_shape.

(* a close marker with no open block is ignored *)
Theorem C05_close_toplevel : forall g, parse_top (Close :: g) = parse_top g.
Proof. exact close_toplevel. Qed.
Print Assumptions C05_close_toplevel.

(* blocks still open when the genome ends are closed there: a trailing close changes nothing *)
Theorem C05_close_at_end : forall g, parse_top (g ++ [Close]) = parse_top g.
Proof. exact close_at_end. Qed.
Print Assumptions C05_close_at_end.

(* an independent printer (instruction = its gene; block = its items then a close) is inverted by the
   parser on every well-shaped program: a close ends the INNERMOST open block, and the blocks an
   instruction opens are exactly the ones that follow it *)
Theorem C05_roundtrip : forall p, shaped 0 p -> parse_top (unparse p) = Some p.
Proof. exact parse_unparse. Qed.
Print Assumptions C05_roundtrip.

(* hence every parsed program is the parse of its own printed form (printing loses nothing the parser keeps) *)
Theorem C05_canonical : forall g p, parse_top g = Some p -> parse_top (unparse p) = Some p /\ instrs (unparse p) = instrs g.
Proof. exact parse_canonical_full. Qed.
Print Assumptions C05_canonical.

(* non-vacuity, and "a close ends the INNERMOST open block" on a concrete genome *)
Example C05_example :
  parse_top [G IfElse; G When; G (PushI 1%Z); Close; G (PushI 2%Z); Close; G (PushI 3%Z); Close; Close; G Noop; G Unless]
  = Some [PI IfElse; PB [PI When; PB [PI (PushI 1%Z)]; PI (PushI 2%Z)]; PB [PI (PushI 3%Z)]; PI Noop; PI Unless; PB []].
Proof. reflexivity. Qed.

Example C05_roundtrip_example :
  shaped 0 [PI IfElse; PB [PI When; PB [PI (PushI 1%Z)]]; PB []; PI Noop] /\
  unparse [PI IfElse; PB [PI When; PB [PI (PushI 1%Z)]]; PB []; PI Noop]
  = [G IfElse; G When; G (PushI 1%Z); Close; Close; Close; G Noop].
Proof. split; [repeat constructor|reflexivity]. Qed.
