(* C13 - weighted selector combinations choose members in proportion to their weights. *)
From Coq Require Import List ZArith QArith.
Import ListNotations.
From UEC Require Import Base.Dist Ec.Select Ec.SelectProps Ec.Weighted.

(* for EVERY tree shape (hence any nesting and construction order) *)
Theorem C13_leaf_prob : forall t id, (0 < tweight t)%N ->
  prob (delegate t) (is_id id) == qN (wleaf t id) / qN (tweight t).
Proof. exact leaf_prob. Qed.
Print Assumptions C13_leaf_prob.

Theorem C13_zero_never : forall t id, (0 < tweight t)%N -> wleaf t id = 0%N -> prob (delegate t) (is_id id) == 0.
Proof. exact zero_never. Qed.
Print Assumptions C13_zero_never.

Theorem C13_all_zero : forall t, tweight t = 0%N -> delegate t = dret None.
Proof. exact all_zero. Qed.
Print Assumptions C13_all_zero.

Theorem C13_exactly_one_member : forall t, (0 < tweight t)%N -> prob (delegate t) is_none == 0.
Proof. exact no_error_when_positive. Qed.
Print Assumptions C13_exactly_one_member.

(* the combination IS: pick the member by weight, then let that member select *)
Theorem C13_factorises : forall pol pop m t P,
  prob (select pol pop (to_sel m t)) P ==
  expect (delegate t) (fun o => match o with
                                | None => if P (inr EZeroWeight) then 1 else 0
                                | Some id => prob (select pol pop (m id)) P end).
Proof. exact select_factorises. Qed.
Print Assumptions C13_factorises.

Theorem C13_dynamic_list : forall pol pop m l P,
  prob (select pol pop (dyn_sel m l)) P == prob (select pol pop (to_sel m (dyn_tree l))) P.
Proof. exact dyn_as_chain. Qed.
Print Assumptions C13_dynamic_list.

(* statically typed chains: accepted exactly when the total fits in 32 bits ... *)
Theorem C13_chain_build : forall m l acc,
  build_error acc = None -> (weight acc < u32_limit)%N -> (forall id, build_error (m id) = None) ->
  (build_error (chain_from m acc l) = None <-> (weight acc + wsum l < u32_limit)%N).
Proof. exact chain_build. Qed.
Print Assumptions C13_chain_build.

(* ... an overflow is reported where it happens, and it sticks however the chain continues *)
Theorem C13_overflow_report : forall m id w acc l,
  build_error acc = None -> build_error (m id) = None -> (u32_limit <= weight acc + w)%N ->
  build_error (chain_from m acc (cons (id, w) l)) = Some (weight acc, w).
Proof. exact chain_overflow_report. Qed.
Print Assumptions C13_overflow_report.

(* an overflow met while building a chain stays reported however many members are added afterwards *)
Theorem C13_overflow_sticky : forall m l acc e, build_error acc = Some e -> build_error (chain_from m acc l) = Some e.
Proof. exact chain_error_sticky. Qed.
Print Assumptions C13_overflow_sticky.

Example C13_example :
  let t := Node (Node (Leaf 0 1) (Leaf 1 0)) (Node (Leaf 2 3) (Leaf 0 4)) in
  prob (delegate t) (is_id 0) == 5 # 8 /\ prob (delegate t) (is_id 1) == 0 /\ prob (delegate t) (is_id 2) == 3 # 8.
Proof. vm_compute. repeat split. Qed.
