(* C17 - type-erased (dyn) forms behave exactly like the operators they wrap. *)
From Coq Require Import List.
From UEC Require Import Ec.Compose Ec.Erased.

Theorem C17_same_value : forall (S A B E E' : Type) (into : E -> E') (f : op S A B E) x s v s',
  f x s = (inl v, s') -> erase into f x s = (inl v, s').
Proof. exact @erase_value. Qed.
Print Assumptions C17_same_value.

Theorem C17_same_error_converted : forall (S A B E E' : Type) (into : E -> E') (f : op S A B E) x s e s',
  f x s = (inr e, s') -> erase into f x s = (inr (into e), s').
Proof. exact @erase_error. Qed.
Print Assumptions C17_same_error_converted.

Theorem C17_same_stream : forall (S A B E E' : Type) (into : E -> E') (f : op S A B E) x s,
  snd (erase into f x s) = snd (f x s).
Proof. exact @erase_state. Qed.
Print Assumptions C17_same_stream.

Theorem C17_pointer_flavours_transparent : forall (S A B E E' : Type) (into : E -> E') (f : op S A B E) x s,
  through_pointer (erase into f) x s = erase into f x s.
Proof. exact @pointer_transparent. Qed.
Print Assumptions C17_pointer_flavours_transparent.

Theorem C17_erasing_twice : forall (S A B E E' E'' : Type) (i1 : E -> E') (i2 : E' -> E'') (f : op S A B E) x s,
  erase i2 (erase i1 f) x s = erase (fun e => i2 (i1 e)) f x s.
Proof. exact @erase_twice. Qed.
Print Assumptions C17_erasing_twice.

Example C17_example :
  let f : op nat nat nat nat := fun x n => if Nat.eqb x 0 then (inr 7, S n) else (inl (x + n), S (S n)) in
  erase (fun e => (e, true)) f 3 10 = (inl 13, 12) /\ erase (fun e => (e, true)) f 0 10 = (inr (7, true), 11).
Proof. split; reflexivity. Qed.
