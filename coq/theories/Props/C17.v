(* C17 - type-erased (dyn) forms behave exactly like the operators they wrap. *)
From Coq Require Import List ZArith.
Import ListNotations.
From UEC Require Import Ec.Compose Ec.Erased.

Theorem C17_same_value : forall (S A B E E' : Type) (into : E -> E') (f : op S A B E) x s v s',
  f x s = (inl v, s') -> erase into f x s = (inl v, s').
Proof. exact @erase_value. Qed.
Print Assumptions C17_same_value.

Theorem C17_same_error_converted : forall (S A B E E' : Type) (into : E -> E') (f : op S A B E) x s e s',
  f x s = (inr e, s') -> erase into f x s = (inr (into e), s').
Proof. exact @erase_error. Qed.
Print Assumptions C17_same_error_converted.

Theorem C17_same_stream : forall (S A B E E' : Type) (into : E -> E') (f : op S A B E) x s,
  snd (erase into f x s) = snd (f x s).
Proof. exact @erase_state. Qed.
Print Assumptions C17_same_stream.

Theorem C17_pointer_flavours_transparent : forall (S A B E E' : Type) (into : E -> E') (f : op S A B E) x s,
  through_pointer (erase into f) x s = erase into f x s.
Proof. exact @pointer_transparent. Qed.
Print Assumptions C17_pointer_flavours_transparent.

Theorem C17_erasing_twice : forall (S A B E E' E'' : Type) (i1 : E -> E') (i2 : E' -> E'') (f : op S A B E) x s,
  erase i2 (erase i1 f) x s = erase (fun e => i2 (i1 e)) f x s.
Proof. exact @erase_twice. Qed.
Print Assumptions C17_erasing_twice.

(* a consumer of erased selectors (the dynamic weighted list): the error of the option used arrives as Other(that error) -
   wrapped exactly once per level of nesting, never un-nested, never reported as the list's own; options of weight zero
   are never used *)
Theorem C17_consumer_reports_the_erased_options_error : forall f m w ms e,
  (forall r, fst (erase DOther (fun (_ : unit) (s : unit) => (r, s)) tt tt) = wrap_other r) /\
  ((0 < w)%Z -> forced (S f) (DD [(m, w)]) = option_map wrap_other (forced f m)) /\
  forced (S f) (DD ((m, 0%Z) :: ms)) = forced (S f) (DD ms) /\
  (forced f (DD ms) = Some (inr e) -> e = DZero \/ exists e', e = DOther e') /\
  ((0 < w)%Z -> forced f m = Some (inr e) -> exists e', forced (S f) (DD [(m, w)]) = Some (inr e') /\ others e' = S (others e)).
Proof.
  exact (fun f m w ms e => conj wrap_other_is_erase (conj (forced_only_member f m w) (conj (forced_zero_weight_ignored f m ms)
         (conj (forced_never_unwraps f ms e) (forced_nested_once_more f m w e))))).
Qed.
Print Assumptions C17_consumer_reports_the_erased_options_error.

Example C17_example :
  let f : op nat nat nat nat := fun x n => if Nat.eqb x 0 then (inr 7, S n) else (inl (x + n), S (S n)) in
  erase (fun e => (e, true)) f 3 10 = (inl 13, 12) /\ erase (fun e => (e, true)) f 0 10 = (inr (7, true), 11).
Proof. split; reflexivity. Qed.
Example C17_consumer_example :
  forced 9 (DD [(DL 1, 0); (DD [(DL 9, 0); (DD [(DL (-2), 1)], 7)], 2); (DL 0, 0)])%Z = Some (inr (DOther (DOther (DOther (DLeaf 2))))) /\
  forced 9 (DD [(DD [(DL 2, 0)], 1)])%Z = Some (inr (DOther DZero)) /\ forced 9 (DD [(DD [(DL 4, 1)], 3)])%Z = Some (inl 4%Z).
Proof. repeat split. Qed.
