(* C18 - generators deliver exactly the requested collections and uniform member choices. *)
From Coq Require Import List ZArith QArith.
From UEC Require Import Base.Dist Ec.Generators.
Import ListNotations.

(* a collection generator yields exactly n elements, each drawn from the element generator *)
Theorem C18_collection : forall (A : Type) n (g : dist A) c, nonneg g -> possible (collection n g) c ->
  length c = n /\ forall x, In x c -> possible g x.
Proof. exact collection_length. Qed.
Print Assumptions C18_collection.

Theorem C18_collection_total : forall (A : Type) n (g : dist A), mass g == 1 -> mass (collection n g) == 1.
Proof. exact collection_mass. Qed.
Print Assumptions C18_collection_total.

(* uniform choice: only members (by index), each with probability 1/length; empty sources are rejected *)
(* the n elements are INDEPENDENT draws: the probability of a given collection is the product of the
   probabilities of its elements; a collection of another length has probability 0 *)
Theorem C18_collection_iid : forall (A : Type) (eqb : A -> A -> bool) n (g : dist A) c, length c = n ->
  prob (collection n g) (list_eqb eqb c) == product_law eqb g c.
Proof. exact collection_iid. Qed.
Print Assumptions C18_collection_iid.

Theorem C18_collection_wrong_length : forall (A : Type) (eqb : A -> A -> bool) n (g : dist A) c, length c <> n ->
  prob (collection n g) (list_eqb eqb c) == 0.
Proof. exact collection_wrong_length. Qed.
Print Assumptions C18_collection_wrong_length.

Theorem C18_choice_member : forall (A : Type) (l : list A) d i, one_of l = Some d -> possible d i -> (i < length l)%nat.
Proof. exact one_of_member. Qed.
Print Assumptions C18_choice_member.

Theorem C18_choice_uniform : forall (A : Type) (l : list A) d i, one_of l = Some d -> (i < length l)%nat ->
  prob d (Nat.eqb i) == 1 / qnat (length l).
Proof. exact one_of_uniform. Qed.
Print Assumptions C18_choice_uniform.

(* the same law seen through residue classes of the index (how sources of millions of members are
   compared with the code): class r modulo m has probability #{i < length l : i mod m = r} / length l *)
Theorem C18_choice_uniform_classes : forall (A : Type) (l : list A) d m r, one_of l = Some d -> (0 < m)%nat -> (r < m)%nat ->
  prob d (fun i => (i mod m =? r)%nat) == qnat (class_count (length l) m r) / qnat (length l).
Proof. exact one_of_class_prob. Qed.
Print Assumptions C18_choice_uniform_classes.

(* the choice reports the number of members it was built from: every member can be chosen and nothing else, the number
   of outcomes is the length of the collection, and the outcomes' probabilities add up to one *)
Theorem C18_choice_support_is_the_collection : forall (A : Type) (l : list A) d, one_of l = Some d ->
  (forall i, possible d i <-> (i < length l)%nat) /\ length d = length l /\ mass d == 1.
Proof. exact one_of_support. Qed.
Print Assumptions C18_choice_support_is_the_collection.

Theorem C18_empty_rejected : forall A : Type, @one_of A [] = None.
Proof. exact one_of_empty_rejected. Qed.
Print Assumptions C18_empty_rejected.

Example C18_example :
  prob (collection 3 (uniform [1; 2]%Z)) (fun c => match c with [1; 2; 2]%Z => true | _ => false end) == 1 # 8.
Proof. vm_compute. reflexivity. Qed.
