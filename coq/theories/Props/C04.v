(* C04 - the bounded stack is a faithful, all-or-nothing LIFO.
   Statements only; every proof is [exact <lemma>]. *)
From Coq Require Import List NArith.
From UEC Require Import Push.Stack Push.StackRefine Push.StackProps.
Import ListNotations.

(* The Vec-level stack (the transcription of stack.rs) refines the abstract LIFO
   over EVERY history of operations: same final abstract state, same results. *)
Theorem C04_refines : forall (T : Type) (h : list (op T)) (s : vstack T),
  let '(s', rs) := vrun h s in srun h (abs s) = (abs s', rs).
Proof. exact @vrun_refines. Qed.
Print Assumptions C04_refines.

Theorem C04_lifo_push_pop : forall (T : Type) (s : sstack T) v s1,
  sstep s (OPush v) = (s1, RUnit) -> sstep s1 OPop = (s, RVals [v]).
Proof. exact @push_pop. Qed.
Print Assumptions C04_lifo_push_pop.

(* top/top2/top3/pop/pop2/pop3 return the most recent elements, top first; the
   pops remove exactly those, the tops remove nothing *)
Theorem C04_read_recent : forall (T : Type) (s : sstack T) o s' l,
  sstep s o = (s', RVals l) ->
  l = firstn (length l) (elems s) /\ N.of_nat (length l) = requested o /\
  elems s' = if is_query o then elems s else skipn (length l) (elems s).
Proof. exact @read_recent. Qed.
Print Assumptions C04_read_recent.

(* bulk insertion, both forms: the first supplied value is the new top *)
Theorem C04_bulk_order : forall (T : Type) (s : sstack T) o l s',
  (o = OPushMany l \/ o = OTryExtend l) -> sstep s o = (s', RUnit) ->
  elems s' = l ++ elems s /\ smax s' = smax s.
Proof. exact @bulk_order. Qed.
Print Assumptions C04_bulk_order.

Theorem C04_bulk_as_pushes : forall (T : Type) (s : sstack T) l s',
  sstep s (OPushMany l) = (s', RUnit) -> fst (srun (map OPush (rev l)) s) = s'.
Proof. exact @bulk_as_pushes. Qed.
Print Assumptions C04_bulk_as_pushes.

Theorem C04_discard_exact : forall (T : Type) (s : sstack T) n s',
  sstep s (ODiscard n) = (s', RUnit) ->
  elems s' = skipn (N.to_nat n) (elems s) /\ smax s' = smax s /\ (ssize s' + n = ssize s)%N.
Proof. exact @discard_exact. Qed.
Print Assumptions C04_discard_exact.

(* all-or-nothing, at the Vec level: an error hands back the very same stack
   (contents and capacity), including the partially consumed try_extend *)
Theorem C04_all_or_nothing : forall (T : Type) (s : vstack T) o (s' : vstack T) r,
  vstep s o = (s', r) -> is_err r = true -> s' = s.
Proof. exact @vec_all_or_nothing. Qed.
Print Assumptions C04_all_or_nothing.

Theorem C04_underflow_payload : forall (T : Type) (s : vstack T) o (s' : vstack T) req pres,
  vstep s o = (s', RUnderflow req pres) ->
  req = requested o /\ pres = vsize s /\ (pres < req)%N.
Proof. exact @vec_underflow_payload. Qed.
Print Assumptions C04_underflow_payload.

Theorem C04_underflow_iff : forall (T : Type) (s : sstack T) o,
  (exists a b, snd (sstep s o) = RUnderflow a b) <-> (ssize s < requested o)%N.
Proof. exact @underflow_iff. Qed.
Print Assumptions C04_underflow_iff.

(* no hypothesis that the stack was within its capacity before: the capacity may
   have been lowered beneath the contents *)
Theorem C04_insert_respects_max : forall (T : Type) (s : vstack T) o (s' : vstack T),
  inserts o = true -> vstep s o = (s', RUnit) -> (vsize s' <= vmax s')%N.
Proof. exact @vec_insert_respects_max. Qed.
Print Assumptions C04_insert_respects_max.

Theorem C04_query_pure : forall (T : Type) (s : sstack T) o, is_query o = true -> fst (sstep s o) = s.
Proof. exact @query_pure. Qed.
Print Assumptions C04_query_pure.

Theorem C04_capacity_only_by_setmax : forall (T : Type) (s : sstack T) o,
  smax (fst (sstep s o)) = match o with OSetMax n => n | _ => smax s end.
Proof. exact @capacity_only_by_setmax. Qed.
Print Assumptions C04_capacity_only_by_setmax.

(* non-vacuity: an over-full stack (capacity lowered under the contents) rejects
   a push, accepts an empty bulk insertion, and the hypotheses above are met *)
Example C04_nonvacuous :
  let s := VS 3%N [1; 2; 3; 4; 5]%N in
  vstep s (OPush 9%N) = (s, ROverflow) /\
  vstep (VS 6%N [1; 2; 3; 4; 5]%N) (OPush 9%N) = (VS 6%N [1; 2; 3; 4; 5; 9]%N, RUnit) /\
  vstep (VS 4%N [1; 2]%N) (OTryExtend [7; 8; 9]%N) = (VS 4%N [1; 2]%N, ROverflow) /\
  vstep (VS 5%N [1; 2]%N) (OTryExtend [7; 8; 9]%N) = (VS 5%N [1; 2; 9; 8; 7]%N, RUnit) /\
  vstep (VS 5%N [1; 2]%N) OPop3 = (VS 5%N [1; 2]%N, RUnderflow 3 2).
Proof. repeat split. Qed.
