(* C01 - Push programs evaluate to the state the instruction semantics prescribe.
   Statements only.  Every theorem is for ALL operand values, ALL states and EVERY
   admissible report order [prec] of coinciding faults. *)
From Coq Require Import List ZArith NArith Floats Bool.
From UEC Require Import Base.I64 Base.F64 Push.Stack Push.Syntax Push.Spec Push.SpecProps Push.Run Push.RunProps Push.Clauses Push.Impl Push.Refine Push.RunRefine.
Import ListNotations.
Local Open Scope Z_scope.

(* the instructions as the Rust composes them (Impl.v: top / pop / push / discard threaded through the
   helper combinators) compute exactly the semantics table, on every well-formed state *)
Theorem C01_refine : forall p s, wf s -> Impl.perform_prog p s = Spec.perform_prog code_prec p s.
Proof. exact refine_prog. Qed.
Print Assumptions C01_refine.

(* and so does the interpreter loop, for every program, all limits, from every well-formed state *)
Theorem C01_run : forall s, wf s -> irun s = run code_prec s.
Proof. exact run_refines. Qed.
Print Assumptions C01_run.

Theorem C01_checked_pow_spec : forall x y : Z, 0 <= y < 4294967296 -> checked_pow x y = chk (x ^ y).
Proof. exact checked_pow_spec. Qed.
Print Assumptions C01_checked_pow_spec.

(* arithmetic is top-op-second and replaces exactly its two operands; a result outside i64 skips the instruction *)
Theorem C01_arith_perform : forall prec o x y r s,
  elems (ints s) = x :: y :: r ->
  Spec.perform prec (IBin o) s = match ibin_fn o x y with Some v => Ok (ints_to (v :: r) s) | None => Rec s EIntOverflow end.
Proof. exact ibin_perform. Qed.
Print Assumptions C01_arith_perform.

Theorem C01_arith_table : forall x y,
  ibin_fn Add x y = chk (x + y) /\ ibin_fn Sub x y = chk (x - y) /\ ibin_fn Mul x y = chk (x * y) /\
  ibin_fn Div x 0 = Some 1 /\ ibin_fn Mod x 0 = Some 0 /\
  (y <> 0 -> ~ (x = i64_min /\ y = -1) -> ibin_fn Div x y = Some (Z.quot x y) /\ ibin_fn Mod x y = Some (Z.rem x y)) /\
  ibin_fn Div i64_min (-1) = None /\ ibin_fn Mod i64_min (-1) = None /\
  (0 <= y < 4294967296 -> ibin_fn Pow x y = chk (x ^ y)) /\
  (y < 0 \/ 4294967296 <= y -> ibin_fn Pow x y = None).
Proof. exact ibin_table. Qed.
Print Assumptions C01_arith_table.

Theorem C01_arith_never_wraps : forall o x y v,
  in_i64 x = true -> in_i64 y = true -> ibin_fn o x y = Some v -> in_i64 v = true.
Proof. exact ibin_in_range. Qed.
Print Assumptions C01_arith_never_wraps.

Theorem C01_arith_underflow : forall prec o s,
  (ssize (ints s) < 2)%N -> exists a b, Spec.perform prec (IBin o) s = Rec s (EUnderflow a b).
Proof. exact ibin_underflow. Qed.
Print Assumptions C01_arith_underflow.

Theorem C01_unary_table : forall x,
  iun_fn Inc x = chk (x + 1) /\ iun_fn Dec x = chk (x - 1) /\ iun_fn Square x = chk (x * x).
Proof. exact iun_table. Qed.
Print Assumptions C01_unary_table.

Theorem C01_negate_abs_saturate : forall x,
  isat_fn Negate i64_min = i64_max /\ isat_fn Abs i64_min = i64_max /\
  (x <> i64_min -> isat_fn Negate x = - x /\ isat_fn Abs x = Z.abs x).
Proof. exact isat_table. Qed.
Print Assumptions C01_negate_abs_saturate.

Theorem C01_saturating_perform : forall prec o x r s,
  elems (ints s) = x :: r -> Spec.perform prec (ISat o) s = Ok (ints_to (isat_fn o x :: r) s).
Proof. exact isat_perform. Qed.
Print Assumptions C01_saturating_perform.

Theorem C01_predicates_mathematical : forall p x,
  ipred_fn p x = match p with
                 | IsZero => x =? 0 | IsPositive => 0 <? x | IsNegative => x <? 0
                 | IsEven => Z.even x | IsOdd => Z.odd x end.
Proof. exact ipred_math. Qed.
Print Assumptions C01_predicates_mathematical.

Theorem C01_parity_of_negatives :
  ipred_fn IsOdd (-3) = true /\ ipred_fn IsOdd (-1) = true /\ ipred_fn IsEven (-2) = true
  /\ forall x, ipred_fn IsOdd x = negb (ipred_fn IsEven x).
Proof. exact odd_negative. Qed.
Print Assumptions C01_parity_of_negatives.

Theorem C01_predicate_consumes_operand : forall prec p x r s,
  elems (ints s) = x :: r -> full (bools s) = false ->
  Spec.perform prec (IPred p) s = Ok (pushB (ipred_fn p x) (ints_to r s)).
Proof. exact ipred_perform. Qed.
Print Assumptions C01_predicate_consumes_operand.

Theorem C01_comparisons_mathematical : forall c x y,
  icmp_fn c x y = match c with
                  | CEq => x =? y | CNe => negb (x =? y) | CLt => x <? y | CLe => x <=? y
                  | CGt => y <? x | CGe => y <=? x end.
Proof. exact icmp_math. Qed.
Print Assumptions C01_comparisons_mathematical.

Theorem C01_int_comparison_consumes_both : forall prec c x y r s,
  elems (ints s) = x :: y :: r -> full (bools s) = false ->
  Spec.perform prec (ICmp c) s = Ok (pushB (icmp_fn c x y) (ints_to r s)).
Proof. exact icmp_perform. Qed.
Print Assumptions C01_int_comparison_consumes_both.

Theorem C01_float_comparison_consumes_both : forall prec c x y r s,
  elems (floats s) = x :: y :: r -> full (bools s) = false ->
  Spec.perform prec (FCmp c) s = Ok (pushB (fcmp_fn c x y) (floats_to r s)).
Proof. exact fcmp_perform. Qed.
Print Assumptions C01_float_comparison_consumes_both.

Theorem C01_float_arith_perform : forall prec o x y r s,
  elems (floats s) = x :: y :: r -> Spec.perform prec (FBin o) s = Ok (floats_to (fbin_fn o x y :: r) s).
Proof. exact fbin_perform. Qed.
Print Assumptions C01_float_arith_perform.

Theorem C01_bool_perform : forall prec o x y r s,
  elems (bools s) = x :: y :: r -> Spec.perform prec (BBin o) s = Ok (bools_to (bbin_fn o x y :: r) s).
Proof. exact bbin_perform. Qed.
Print Assumptions C01_bool_perform.

Theorem C01_clamp : forall prec x y z r s,
  elems (ints s) = x :: y :: z :: r ->
  Spec.perform prec Clamp s = Ok (ints_to (clamp_fn x y z :: r) s) /\
  Z.min y z <= clamp_fn x y z <= Z.max y z /\ (Z.min y z <= x <= Z.max y z -> clamp_fn x y z = x).
Proof. exact clamp_perform. Qed.
Print Assumptions C01_clamp.

Theorem C01_when_table : forall prec s,
  Spec.perform prec When s = when_table (cond_of (elems (bools s))) (has_block s) s.
Proof. exact when_is_table. Qed.
Print Assumptions C01_when_table.

Theorem C01_unless_table : forall prec s,
  Spec.perform prec Unless s = unless_table (cond_of (elems (bools s))) (has_block s) s.
Proof. exact unless_is_table. Qed.
Print Assumptions C01_unless_table.

Theorem C01_ifelse_table : forall prec s,
  Spec.perform prec IfElse s =
  match cond_of (elems (bools s)), elems (exec s) with
  | CTrue, t :: _ :: r => Ok (exec_to (t :: r) (pop_bool s))
  | CFalse, _ :: e :: r => Ok (exec_to (e :: r) (pop_bool s))
  | c, [_] => when_table c true s
  | CMissing, _ :: _ :: _ => Ok (drop_block s)
  | _, [] => Rec s (EUnderflow 2 0)
  end.
Proof. exact ifelse_table. Qed.
Print Assumptions C01_ifelse_table.

Theorem C01_block_unfolds_in_order : forall prec l s,
  (N.of_nat (length l) + ssize (exec s) <= smax (exec s))%N ->
  Spec.perform_prog prec (PB l) s = Ok (exec_to (l ++ elems (exec s)) s).
Proof. exact block_unfolds. Qed.
Print Assumptions C01_block_unfolds_in_order.

Theorem C01_front_to_back : forall prec p r s n,
  elems (exec s) = p :: r ->
  step prec (Running s n) =
  match Spec.perform_prog prec p (exec_to r s) with
  | Ok s' | Rec s' _ => Running s' (n + 1) | Fatal s' e => Failed s' e n | Panic => Panicked end.
Proof. exact step_front_to_back. Qed.
Print Assumptions C01_front_to_back.

Theorem C01_input_var_is_its_literal : forall prec n l s,
  lookup n (inputs s) = Some l -> Spec.perform prec (InputVar n) s = Spec.perform prec (lit_instr l) s.
Proof. exact input_var_is_literal. Qed.
Print Assumptions C01_input_var_is_its_literal.

(* non-vacuity: a nested program with a conditional, an overflowing addition that is
   skipped, a negative parity test and a two-operand comparison, run by the model *)
Example C01_run_example :
  let prog := [PI (PushI 9223372036854775807); PI (PushI 1); PI (IBin Add);      (* skipped: overflow *)
               PI (IBin Sub);                                                     (* 1 - MAX *)
               PI (PushI (-3)); PI (IPred IsOdd);                                 (* true *)
               PI When; PB [PI (PushI 5); PI (PushI 7); PI (ICmp CLt)];          (* 7 < 5 = false *)
               PI (Print VBool true)] in
  let s := St (SS 20%N prog) (SS 20%N []) (SS 20%N []) (SS 20%N []) [] [] 100%N in
  match run code_prec s with
  | Finished s' n => elems (ints s') = [-9223372036854775806] /\ elems (bools s') = [] /\
                     out s' = [TBool false; TChar 10] /\ n = 12%N
  | _ => False
  end.
Proof. vm_compute. repeat split. Qed.
