(* C10 - crossover recombines parental genes position-wise and reports misuse as errors. *)
From Coq Require Import List Arith Bool.
From UEC Require Import Ec.Crossover.
Import ListNotations.

(* two-point: same length, position-wise from a parent, the genes from the second parent form ONE segment *)
Theorem C10_two_point_child : forall (T : Type) (a b : list T) l c,
  two_point_support a b = Some l -> In c l ->
  length c = length a /\
  exists lo hi, lo <= hi <= length a /\ c = splice a b lo hi /\
    forall p, nth_error c p = if (lo <=? p) && (p <? hi) then nth_error b p else nth_error a p.
Proof. exact @two_point_child. Qed.
Print Assumptions C10_two_point_child.

(* every segment can occur, including those touching either end (lo = 0, hi = n) *)
Theorem C10_every_segment : forall (T : Type) (a b : list T) lo hi,
  length a = length b -> lo <= hi <= length a ->
  exists l, two_point_support a b = Some l /\ In (splice a b lo hi) l.
Proof. exact @two_point_every_segment. Qed.
Print Assumptions C10_every_segment.

Theorem C10_empty_parents : forall T : Type, two_point_support (@nil T) [] = Some [[]].
Proof. exact @two_point_empty. Qed.
Print Assumptions C10_empty_parents.

Theorem C10_length_mismatch_is_error : forall (T : Type) (a b : list T),
  length a <> length b -> two_point_support a b = None /\ uniform_support a b = None.
Proof. exact @two_point_mismatch. Qed.
Print Assumptions C10_length_mismatch_is_error.

(* uniform: same length, every position from one of the parents ... *)
Theorem C10_uniform_child : forall (T : Type) (a b : list T) l c,
  uniform_support a b = Some l -> In c l ->
  length c = length a /\ forall p, p < length a -> nth_error c p = nth_error a p \/ nth_error c p = nth_error b p.
Proof. exact @uniform_child. Qed.
Print Assumptions C10_uniform_child.

(* ... and every position is decided on its own: every combination of choices can occur *)
Theorem C10_uniform_every_choice : forall (T : Type) (a b : list T) m,
  length a = length b -> length m = length a ->
  exists l, uniform_support a b = Some l /\ In (mix m a b) l.
Proof. exact @uniform_every_choice. Qed.
Print Assumptions C10_uniform_every_choice.

(* exchange primitives: exactly the addressed genes are swapped, nothing else; misuse is an error *)
Theorem C10_segment_exchange_exact : forall (T : Type) (a b : list T) lo hi a' b',
  length a = length b -> crossover_segment a b lo hi = Some (a', b') ->
  length a' = length a /\ length b' = length b /\
  forall p, nth_error a' p = (if (lo <=? p) && (p <? hi) then nth_error b p else nth_error a p) /\
            nth_error b' p = (if (lo <=? p) && (p <? hi) then nth_error a p else nth_error b p).
Proof. exact @crossover_segment_exact. Qed.
Print Assumptions C10_segment_exchange_exact.

Theorem C10_segment_exchange_error : forall (T : Type) (a b : list T) lo hi,
  (hi < lo \/ length a < hi \/ length b < hi) -> crossover_segment a b lo hi = None.
Proof. exact @crossover_segment_error. Qed.
Print Assumptions C10_segment_exchange_error.

Theorem C10_gene_exchange_exact : forall (T : Type) (a b : list T) i a' b',
  crossover_gene a b i = Some (a', b') ->
  forall p, nth_error a' p = (if Nat.eqb p i then nth_error b i else nth_error a p) /\
            nth_error b' p = (if Nat.eqb p i then nth_error a i else nth_error b p).
Proof. exact @crossover_gene_exact. Qed.
Print Assumptions C10_gene_exchange_exact.

Theorem C10_gene_exchange_error : forall (T : Type) (a b : list T) i,
  (length a <= i \/ length b <= i) -> crossover_gene a b i = None.
Proof. exact @crossover_gene_error. Qed.
Print Assumptions C10_gene_exchange_error.

Example C10_example :
  two_point_support [1; 2] [7; 8] = Some [[1; 2]; [7; 2]; [7; 8]; [1; 2]; [1; 8]; [1; 2]] /\
  uniform_support [1; 2] [7; 8] = Some [[1; 2]; [7; 2]; [1; 8]; [7; 8]] /\
  crossover_segment [1; 2; 3] [7; 8; 9] 1 3 = Some ([1; 8; 9], [7; 2; 3]) /\
  crossover_segment [1; 2; 3] [7; 8; 9] 2 1 = None /\ crossover_gene [1; 2] [7; 8] 2 = None.
Proof. repeat split. Qed.
