(* C19 - the generated state builder builds the configured state and rejects misuse. *)
From Coq Require Import List Arith NArith ZArith.
From UEC Require Import Push.Stack Push.Builder.
Import ListNotations.

(* compile time: [typed n cs] transcribes the trait bounds of the generated builder methods for a state
   with n value stacks; a call sequence is accepted by the compiler iff it is typed *)
Theorem C19_build_requires : forall n cs, typed n (cs ++ [Build]) = true ->
  existsb is_maxall cs = true /\ existsb is_program cs = true /\ existsb is_limit cs = true.
Proof. exact build_requires. Qed.
Print Assumptions C19_build_requires.

Theorem C19_no_resize_after_values : forall n a k l b,
  typed n (a ++ Values k l :: b) = true ->
  forall c, In c b -> match c with MaxAll _ => False | MaxOf j _ => j <> k | _ => True end.
Proof. exact no_resize_after_values. Qed.
Print Assumptions C19_no_resize_after_values.

(* the values of the exec stack are the program: after the program decision the general size (the only way to size
   the exec stack) can no longer be set, nor the decision repeated *)
Theorem C19_no_resize_after_program : forall n a p b,
  typed n (a ++ p :: b) = true -> is_program p = true ->
  forall c, In c b -> is_maxall c = false /\ is_program c = false.
Proof. exact no_resize_after_program. Qed.
Print Assumptions C19_no_resize_after_program.

Theorem C19_typed_prefix_closed : forall n a b, typed n (a ++ b) = true -> typed n a = true.
Proof. exact typed_prefix_closed. Qed.
Print Assumptions C19_typed_prefix_closed.

(* run time *)
Theorem C19_values_order : forall s k l st s',
  nth_error (b_stacks s) k = Some st -> bstep s (Values k l) = BOk s' ->
  exists st', nth_error (b_stacks s') k = Some st' /\ elems st' = l ++ elems st /\ smax st' = smax st /\
              (N.of_nat (length l) + ssize st <= smax st)%N.
Proof. exact values_order. Qed.
Print Assumptions C19_values_order.

Theorem C19_values_overflow : forall s k l st,
  nth_error (b_stacks s) k = Some st -> (smax st < N.of_nat (length l) + ssize st)%N ->
  bstep s (Values k l) = BOverflow /\ forall r, brun s (Values k l :: r) = BOverflow.
Proof. exact values_overflow. Qed.
Print Assumptions C19_values_overflow.

Theorem C19_program_first_executes_first : forall s l s', bstep s (Program l) = BOk s' ->
  elems (b_exec s') = l ++ elems (b_exec s) /\ b_stacks s' = b_stacks s.
Proof. exact program_order. Qed.
Print Assumptions C19_program_first_executes_first.

Theorem C19_program_overflow : forall s l,
  (smax (b_exec s) < N.of_nat (length l) + ssize (b_exec s))%N -> bstep s (Program l) = BOverflow.
Proof. exact program_overflow. Qed.
Print Assumptions C19_program_overflow.

(* the maximum size last set for a stack - globally or individually - is the one it has *)
Theorem C19_last_max_wins : forall s c s' k st,
  bstep s c = BOk s' -> nth_error (b_stacks s) k = Some st ->
  exists st', nth_error (b_stacks s') k = Some st' /\ smax st' = max_after c k (smax st).
Proof. exact step_max. Qed.
Print Assumptions C19_last_max_wins.

Theorem C19_inputs_resolve : forall name v other w l,
  blookup name (insert_input name v l) = Some v /\
  (other <> name -> blookup name (insert_input other w l) = blookup name l).
Proof. exact input_lookup. Qed.
Print Assumptions C19_inputs_resolve.

Theorem C19_inputs_order_free : forall n1 v1 n2 v2 l name, n1 <> n2 ->
  blookup name (insert_input n1 v1 (insert_input n2 v2 l)) = blookup name (insert_input n2 v2 (insert_input n1 v1 l)).
Proof. exact inputs_commute. Qed.
Print Assumptions C19_inputs_order_free.

(* the two halves meet: every state a WELL-TYPED call sequence builds has every stack within its maximum -
   the well-formedness from which C02 and C03 start (sizes can only be set while a stack is still empty,
   and loading checks the room) *)
Theorem C19_built_state_within_maxima : forall n cs s, typed n cs = true -> brun (binit n) cs = BOk s ->
  swf (b_exec s) /\ forall st, In st (b_stacks s) -> swf st.
Proof. exact typed_built_wf. Qed.
Print Assumptions C19_built_state_within_maxima.

Example C19_example :
  typed 3 [MaxAll 5; Values 0 [1; 2]%Z; NoProgram; StepLimit 9; Build] = true /\
  typed 3 [MaxAll 5; Values 0 [1; 2]%Z; MaxOf 0 9; NoProgram; StepLimit 9; Build] = false /\
  typed 3 [MaxAll 5; NoProgram; Build] = false /\ typed 3 [Values 0 [1]%Z] = false /\
  match brun (binit 3) [MaxAll 5; Values 0 [1; 2]%Z; Values 0 [7]%Z; Program [100; 101]%Z; StepLimit 9; Build] with
  | BOk s => nth_error (b_stacks s) 0 = Some (SS 5 [7; 1; 2]%Z) /\ elems (b_exec s) = [100; 101]%Z /\ b_limit s = 9%N
  | BOverflow => False
  end /\
  brun (binit 3) [MaxAll 2; Values 1 [1; 2; 3]%Z; NoProgram; StepLimit 1; Build] = BOverflow.
Proof. repeat split. Qed.
