(* C07 - best, worst and tournament selection apply the intended selection pressure. *)
From Coq Require Import List ZArith QArith.
Import ListNotations.
From UEC Require Import Base.Dist Ec.Select Ec.SelectProps Ec.LexProps Ec.TournamentCor Ec.TournamentLaw Ec.BinomN.

Theorem C07_best_is_maximal : forall pol pop i,
  possible (select pol pop SBest) (inl i) ->
  (i < length pop)%nat /\ forall j, (j < length pop)%nat -> (ikey pol pop j <= ikey pol pop i)%Z.
Proof. exact best_is_maximal. Qed.
Print Assumptions C07_best_is_maximal.

Theorem C07_worst_is_minimal : forall pol pop i,
  possible (select pol pop SWorst) (inl i) ->
  (i < length pop)%nat /\ forall j, (j < length pop)%nat -> (ikey pol pop i <= ikey pol pop j)%Z.
Proof. exact worst_is_minimal. Qed.
Print Assumptions C07_worst_is_minimal.

(* a tournament is k DISTINCT individuals of the population, and its winner is at least as good as
   each of them - hence as k-1 other members *)
Theorem C07_tournament_winner : forall pol pop k i,
  possible (select pol pop (STournament k)) (inl i) ->
  exists t, In t (sublists k (seq 0 (length pop))) /\ length t = k /\ NoDup t /\ In i t /\
            (forall j, In j t -> (j < length pop)%nat /\ (ikey pol pop j <= ikey pol pop i)%Z).
Proof. exact tournament_support. Qed.
Print Assumptions C07_tournament_winner.

(* there are C(n,k) tournaments (all equally likely by construction of the model: uniform) *)
Theorem C07_number_of_tournaments : forall (A : Type) k (l : list A), length (sublists k l) = binom (length l) k.
Proof. exact sublists_length. Qed.
Print Assumptions C07_number_of_tournaments.

(* the law, ties included: P(winner <= v) = C(#{individuals <= v}, k) / C(n, k) *)
Theorem C07_cdf : forall pol pop k v,
  (1 <= k <= length pop)%nat ->
  prob (select pol pop (STournament k)) (key_le pol pop v)
  == qnat (binom (count (fun j => (ikey pol pop j <=? v)%Z) (seq 0 (length pop))) k) / qnat (binom (length pop) k).
Proof. exact tournament_cdf. Qed.
Print Assumptions C07_cdf.

(* the law per individual when there are no ties: the individual of rank r (r = how many are at most as good,
   itself included) wins a tournament of size k with probability C(r-1, k-1) / C(n, k) *)
Theorem C07_rank_law : forall pol pop k i,
  (1 <= k <= length pop)%nat -> (i < length pop)%nat ->
  (forall a b, (a < length pop)%nat -> (b < length pop)%nat -> ikey pol pop a = ikey pol pop b -> a = b) ->
  let r := count (fun j => (ikey pol pop j <=? ikey pol pop i)%Z) (seq 0 (length pop)) in
  prob (select pol pop (STournament k)) (is_idx i) == qnat (binom (r - 1) (k - 1)) / qnat (binom (length pop) k).
Proof. exact tournament_rank_law. Qed.
Print Assumptions C07_rank_law.

(* the binomial coefficients of the rank law can be computed multiplicatively - C(n,k) = C(n,k-1) (n-k+1) / k over N -
   which is how the law is evaluated for populations of hundreds of individuals in the correspondence check *)
Theorem C07_binomial_multiplicative : forall n k, binomN (N.of_nat n) k = N.of_nat (binom n k).
Proof. exact binomN_spec. Qed.
Print Assumptions C07_binomial_multiplicative.

(* a tournament of size 1 is uniform random choice: every individual with probability exactly 1/n *)
Theorem C07_size_1_is_uniform : forall pol pop i, (i < length pop)%nat ->
  prob (select pol pop (STournament 1)) (is_idx i) == 1 / qnat (length pop).
Proof. exact tournament_1_uniform. Qed.
Print Assumptions C07_size_1_is_uniform.

(* a tournament over the whole population is best selection: the same distribution over outcomes *)
Theorem C07_size_n_is_best : forall pol pop P,
  prob (select pol pop (STournament (length pop))) P == prob (select pol pop SBest) P.
Proof. exact tournament_n_is_best. Qed.
Print Assumptions C07_size_n_is_best.

Example C07_example :
  (* four individuals 3 < 5 = 5 < 8, tournament of 2: P(winner <= 5) = C(3,2)/C(4,2) = 1/2 *)
  prob (select true [[3%Z]; [5%Z]; [8%Z]; [5%Z]] (STournament 2)) (key_le true [[3%Z]; [5%Z]; [8%Z]; [5%Z]] 5) == 1 # 2.
Proof. vm_compute. reflexivity. Qed.

Example C07_rank_example :
  (* values 3 < 5 < 8 < 9, tournament of 2: the best wins with probability C(3,1)/C(4,2) = 1/2, the second with 1/3, the third 1/6, the worst never *)
  let pop : population := [[5%Z]; [9%Z]; [3%Z]; [8%Z]] in
  prob (select true pop (STournament 2)) (is_idx 1) == 1 # 2 /\ prob (select true pop (STournament 2)) (is_idx 3) == 1 # 3 /\
  prob (select true pop (STournament 2)) (is_idx 0) == 1 # 6 /\ prob (select true pop (STournament 2)) (is_idx 2) == 0.
Proof. vm_compute. repeat split. Qed.
