(* C08 - lexicase filters by randomly ordered cases; winners are never dominated. *)
From Coq Require Import List ZArith QArith.
Import ListNotations.
From UEC Require Import Base.Dist Ec.Select Ec.SelectProps Ec.LexProps Ec.TournamentCor Ec.LexDecisive Ec.LexTied.

(* at each case exactly the candidates with the best result on that case remain *)
Theorem C08_filter_keeps_best : forall pol pop c C i,
  In i (filter_case pol pop c C) <->
  In i C /\ exists v, case_result pol pop i c = Some v /\ v = best_on pol pop c C /\
                      forall j w, In j C -> case_result pol pop j c = Some w -> (w <= v)%Z.
Proof. exact filter_keeps_best. Qed.
Print Assumptions C08_filter_keeps_best.

(* a survivor of the filtering (early exit included) is not dominated by any candidate - for either
   polarity: [case_result] carries the polarity *)
Theorem C08_survivor_not_dominated : forall pol pop cases C S i,
  complete pol pop cases C -> lex_run pol pop cases C = inl S -> In i S ->
  ~ exists j, In j C /\ j <> i /\ dominates pol pop cases j i.
Proof. exact survivor_not_dominated. Qed.
Print Assumptions C08_survivor_not_dominated.

Theorem C08_winner_not_dominated : forall pol pop n i,
  complete pol pop (seq 0 n) (seq 0 (length pop)) ->
  possible (lexicase pol pop n) (inl i) ->
  (i < length pop)%nat /\ ~ exists j, (j < length pop)%nat /\ j <> i /\ dominates pol pop (seq 0 n) j i.
Proof. exact lexicase_winner_not_dominated. Qed.
Print Assumptions C08_winner_not_dominated.

(* with complete results the filtering never fails and never ends with no candidate *)
Theorem C08_filtering_succeeds : forall pol pop cases C,
  C <> nil -> complete pol pop cases C -> exists S, lex_run pol pop cases C = inl S /\ S <> nil.
Proof. exact lex_run_ok. Qed.
Print Assumptions C08_filtering_succeeds.

(* a closed form for ANY number of cases (no enumeration of the n! case orders): when every configured case has results
   for everybody and exactly one best individual w c, the first case of the shuffled order decides, so individual i is
   selected with probability #{c < n : w c = i} / n; rests on counting the permutations by their head *)
Theorem C08_permutations_by_head : forall P l,
  length (filter (hdP P) (perms l)) = (length (filter P l) * fact (length l - 1))%nat.
Proof. exact perms_heads. Qed.
Print Assumptions C08_permutations_by_head.

Theorem C08_decisive_cases : forall pol pop n w,
  (2 <= length pop)%nat ->
  (forall c, (c < n)%nat -> missing pol pop c (seq 0 (length pop)) = false /\
                           filter_case pol pop c (seq 0 (length pop)) = [w c]) ->
  forall i, (1 <= n)%nat ->
  prob (lexicase pol pop n) (is_idx i) == qnat (length (filter (fun c => Nat.eqb (w c) i) (seq 0 n))) / qnat n.
Proof. exact lexicase_decisive. Qed.
Print Assumptions C08_decisive_cases.

(* selection probability = average over the case orders of the share among the final survivors *)
Theorem C08_law : forall pol pop n i,
  prob (lexicase pol pop n) (is_idx i) ==
  expect (uniform (perms (seq 0 n)))
         (fun order => match lex_run pol pop order (seq 0 (length pop)) with
                       | inl (c :: C) => qnat (length (filter (Nat.eqb i) (c :: C))) / qnat (length (c :: C))
                       | _ => 0
                       end).
Proof. exact lexicase_law. Qed.
Print Assumptions C08_law.

Theorem C08_zero_cases_uniform : forall pol pop, pop <> nil ->
  lexicase pol pop 0 = dbind (uniform (cons (@nil nat) nil)) (fun _ => dmap inl (uniform (seq 0 (length pop)))).
Proof. exact lexicase_zero_cases. Qed.
Print Assumptions C08_zero_cases_uniform.

(* a single individual is returned with certainty, whatever the configured number of cases *)
Theorem C08_singleton : forall pol r n, prob (lexicase pol [r] n) (is_idx 0) == 1.
Proof. exact lexicase_singleton. Qed.
Print Assumptions C08_singleton.

(* when all individuals have the same result on every case considered nobody is ever eliminated: each is selected with
   probability 1 / (population size), for any number of cases (the closed form used for thousands of cases) *)
Theorem C08_all_tied_uniform : forall pol pop n i,
  (2 <= length pop)%nat -> tied_on pol pop (seq 0 n) (seq 0 (length pop)) -> (i < length pop)%nat ->
  prob (lexicase pol pop n) (is_idx i) == 1 / qnat (length pop).
Proof. exact lexicase_all_tied. Qed.
Print Assumptions C08_all_tied_uniform.

Example C08_example :
  (* individual 0 is best on case 0, individual 1 on case 1, individual 2 is dominated by 0 *)
  let pop : population := [[9; 1]; [2; 8]; [8; 1]]%Z in
  prob (lexicase true pop 2) (is_idx 0) == 1 # 2 /\ prob (lexicase true pop 2) (is_idx 1) == 1 # 2 /\
  prob (lexicase true pop 2) (is_idx 2) == 0 /\
  prob (lexicase false pop 2) (is_idx 2) == 1 # 2.
Proof. vm_compute. repeat split. Qed.
