(* C14 - composed operators run their parts in order and stop at the first failure.
   Operators are ARBITRARY functions  input -> state -> (output + error) * state ; the
   state is whatever is threaded through the calls, in particular the shared random stream. *)
From Coq Require Import List ZArith.
From UEC Require Import Ec.Compose.
Import ListNotations.

Theorem C14_then : forall (S A B C E1 E2 : Type) (f : op S A B E1) (g : op S B C E2) x s y s1 z s2,
  f x s = (inl y, s1) -> g y s1 = (inl z, s2) -> then_ f g x s = (inl z, s2).
Proof. exact @then_ok. Qed.
Print Assumptions C14_then.

(* the first failing part stops the pipeline: the final state is the state the failing part
   left - the later part neither ran nor drew from the stream - and the error says which part *)
Theorem C14_then_first_failure : forall (S A B C E1 E2 : Type) (f : op S A B E1) (g : op S B C E2) x s e s1,
  f x s = (inr e, s1) -> then_ f g x s = (inr (First e), s1).
Proof. exact @then_first_fails. Qed.
Print Assumptions C14_then_first_failure.

Theorem C14_then_second_failure : forall (S A B C E1 E2 : Type) (f : op S A B E1) (g : op S B C E2) x s y s1 e s2,
  f x s = (inl y, s1) -> g y s1 = (inr e, s2) -> then_ f g x s = (inr (Second e), s2).
Proof. exact @then_second_fails. Qed.
Print Assumptions C14_then_second_failure.

(* `and` applies both operators to the SAME input, first then second, and pairs the results *)
Theorem C14_and : forall (S A B C E1 E2 : Type) (f : op S A B E1) (g : op S A C E2) x s y s1 z s2,
  f x s = (inl y, s1) -> g x s1 = (inl z, s2) -> and_ f g x s = (inl (y, z), s2).
Proof. exact @and_ok. Qed.
Print Assumptions C14_and.

Theorem C14_and_first_failure : forall (S A B C E1 E2 : Type) (f : op S A B E1) (g : op S A C E2) x s e s1,
  f x s = (inr e, s1) -> and_ f g x s = (inr (First e), s1).
Proof. exact @and_first_fails. Qed.
Print Assumptions C14_and_first_failure.

Theorem C14_and_second_failure : forall (S A B C E1 E2 : Type) (f : op S A B E1) (g : op S A C E2) x s y s1 e s2,
  f x s = (inl y, s1) -> g x s1 = (inr e, s2) -> and_ f g x s = (inr (Second e), s2).
Proof. exact @and_second_fails. Qed.
Print Assumptions C14_and_second_failure.

(* map goes through the elements in index order: mapping over l1 ++ l2 is mapping over l1 and then,
   from the state that leaves, over l2 (indices continuing) *)
Theorem C14_map_in_order : forall (S A B E : Type) (f : op S A B E) l1 l2 i s,
  map_from f i (l1 ++ l2) s =
  match map_from f i l1 s with
  | (inr e, s1) => (inr e, s1)
  | (inl ys, s1) =>
    match map_from f (i + length l1) l2 s1 with
    | (inr e, s2) => (inr e, s2)
    | (inl zs, s2) => (inl (ys ++ zs), s2)
    end
  end.
Proof. exact @map_from_app. Qed.
Print Assumptions C14_map_in_order.

(* the error names the failing element; everything before it succeeded, nothing after it ran *)
Theorem C14_map_error_position : forall (S A B E : Type) (f : op S A B E) l i s e k s',
  map_from f i l s = (inr (MapError e k), s') ->
  exists pre x post ys s0, l = pre ++ x :: post /\ k = i + length pre /\
    map_from f i pre s = (inl ys, s0) /\ f x s0 = (inr e, s').
Proof. exact @map_vec_error_index. Qed.
Print Assumptions C14_map_error_position.

Theorem C14_map_length : forall (S A B E : Type) (f : op S A B E) l i s ys s',
  map_from f i l s = (inl ys, s') -> length ys = length l.
Proof. exact @map_vec_ok_length. Qed.
Print Assumptions C14_map_length.

Theorem C14_map_pair_is_map : forall (S A B E : Type) (f : op S A B E) x y s,
  match map_pair f (x, y) s, map_vec f [x; y] s with
  | (inl (a, b), s1), (inl l, s2) => l = [a; b] /\ s1 = s2
  | (inr e1, s1), (inr e2, s2) => e1 = e2 /\ s1 = s2
  | _, _ => False
  end.
Proof. exact @map_pair_spec. Qed.
Print Assumptions C14_map_pair_is_map.

(* repetition = the operator applied to N copies of the input, left to right *)
Theorem C14_repeat : forall (S A B E : Type) (f : op S A B E) n x s i,
  match repeat_ n f x s, map_from f i (repeat x n) s with
  | (inl l1, s1), (inl l2, s2) => l1 = l2 /\ s1 = s2
  | (inr e1, s1), (inr (MapError e2 _), s2) => e1 = e2 /\ s1 = s2
  | _, _ => False
  end.
Proof. exact @repeat_as_map. Qed.
Print Assumptions C14_repeat.

Theorem C14_repeat_length : forall (S A B E : Type) (f : op S A B E) n x s l s',
  repeat_ n f x s = (inl l, s') -> length l = n.
Proof. exact @repeat_length. Qed.
Print Assumptions C14_repeat_length.

(* identity, constant and the selector/mutator/recombinator wrappers add no behaviour *)
Theorem C14_identity_left : forall (S A B E E0 : Type) (f : op S A B E) x s,
  then_ (@identity S A E0) f x s = match f x s with (inl y, s') => (inl y, s') | (inr e, s') => (inr (Second e), s') end.
Proof. exact @identity_left. Qed.
Print Assumptions C14_identity_left.

Theorem C14_identity_right : forall (S A B E E0 : Type) (f : op S A B E) x s,
  then_ f (@identity S B E0) x s = match f x s with (inl y, s') => (inl y, s') | (inr e, s') => (inr (First e), s') end.
Proof. exact @identity_right. Qed.
Print Assumptions C14_identity_right.

Theorem C14_wrappers_transparent : forall (S A B E : Type) (f : op S A B E) x s, wrap f x s = f x s.
Proof. exact @wrap_transparent. Qed.
Print Assumptions C14_wrappers_transparent.

Theorem C14_constant : forall (S A B E : Type) (v : B) (x y : A) (s : S),
  @constant S A B E v x s = @constant S A B E v y s /\ snd (@constant S A B E v x s) = s.
Proof. exact @constant_ignores. Qed.
Print Assumptions C14_constant.

(* nesting: `then` is associative up to re-nesting of the error path *)
Theorem C14_then_assoc : forall (S A B C D E1 E2 E3 : Type) (f : op S A B E1) (g : op S B C E2) (h : op S C D E3) x s,
  then_ f (then_ g h) x s =
  match then_ (then_ f g) h x s with (inl z, s') => (inl z, s') | (inr e, s') => (inr (reassoc e), s') end.
Proof. exact @then_assoc. Qed.
Print Assumptions C14_then_assoc.

(* non-vacuity: a state-threading operator (the state counts the calls) that fails on its third call *)
Example C14_example :
  let f : op nat nat nat unit := fun x n => if Nat.eqb n 2 then (inr tt, S n) else (inl (x + n), S n) in
  then_ f f 10 0 = (inl 11, 2) /\
  map_vec f [5; 6; 7; 8] 0 = (inr (MapError tt 2), 3) /\
  repeat_ 2 f 4 0 = (inl [4; 5], 2) /\
  and_ f (then_ f f) 1 0 = (inr (Second (Second tt)), 3).
Proof. repeat split. Qed.
