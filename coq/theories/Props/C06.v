(* C06 - selectors return a member of the given population or a documented error.
   [sel] is a deep embedding of ALL combinations: best, worst, random, tournament, lexicase,
   weighted leaves / pairs nested arbitrarily, and dynamic weighted lists. *)
From Coq Require Import List ZArith QArith.
Import ListNotations.
From UEC Require Import Base.Dist Ec.Select Ec.SelectProps.

(* whatever a combination can return is an index INTO THE GIVEN POPULATION *)
Theorem C06_member : forall pol pop s i, possible (select pol pop s) (inl i) -> (i < length pop)%nat.
Proof. exact select_member. Qed.
Print Assumptions C06_member.

(* selection is total: the outcomes (members and documented errors) carry all the probability -
   the model has no stuck or panicking outcome, for any population, configuration and weights *)
Theorem C06_total : forall pol pop s, mass (select pol pop s) == 1.
Proof. exact select_total. Qed.
Print Assumptions C06_total.

Theorem C06_tournament_too_large : forall pol pop k,
  (length pop < k)%nat -> select pol pop (STournament k) = dret (inr ETournamentSize).
Proof. exact tournament_too_large. Qed.
Print Assumptions C06_tournament_too_large.

Example C06_examples :
  select true [] SBest = dret (inr EEmpty) /\ select true [] SRandom = dret (inr EEmpty) /\
  select true [[1%Z]] (SLeaf 0 SBest) = dret (inr EZeroWeight) /\
  select true [[1%Z]] (SPair (SLeaf 0 SBest) (SLeaf 0 SWorst)) = dret (inr EZeroWeight) /\
  select true [[1%Z]; [2%Z]] (STournament 3) = dret (inr ETournamentSize) /\
  select true [[5%Z]; [9%Z]; [7%Z]] SBest = dret (inl 1%nat) /\ select false [[5%Z]; [9%Z]; [7%Z]] SBest = dret (inl 0%nat).
Proof. repeat split. Qed.
