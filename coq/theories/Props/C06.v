(* C06 - selectors return a member of the given population or a documented error.
   [sel] is a deep embedding of ALL combinations: best, worst, random, tournament, lexicase,
   weighted leaves / pairs nested arbitrarily, and dynamic weighted lists. *)
From Coq Require Import List ZArith QArith.
Import ListNotations.
From UEC Require Import Base.Dist Ec.Select Ec.SelectProps Ec.Documented.

(* whatever a combination can return is an index INTO THE GIVEN POPULATION *)
Theorem C06_member : forall pol pop s i, possible (select pol pop s) (inl i) -> (i < length pop)%nat.
Proof. exact select_member. Qed.
Print Assumptions C06_member.

(* selection is total: the outcomes (members and documented errors) carry all the probability -
   the model has no stuck or panicking outcome, for any population, configuration and weights *)
Theorem C06_total : forall pol pop s, mass (select pol pop s) == 1.
Proof. exact select_total. Qed.
Print Assumptions C06_total.

Theorem C06_tournament_too_large : forall pol pop k,
  (length pop < k)%nat -> select pol pop (STournament k) = dret (inr ETournamentSize).
Proof. exact tournament_too_large. Qed.
Print Assumptions C06_tournament_too_large.

(* an error is reported only in its documented situation, for EVERY combination (tournament sizes are
   NonZeroUsize in the code: sel_wf):  Empty <-> the population is empty (best / worst / random / lexicase);
   TournamentSize only when the population is smaller than the tournament; MissingCase only when some
   individual has fewer results than the configured number of cases; ZeroWeight only at a weighted
   (sub)combination whose total weight is 0 *)
Theorem C06_documented : forall pol pop s e, sel_wf s -> possible (select pol pop s) (inr e) -> can_report e pop s.
Proof. exact select_documented. Qed.
Print Assumptions C06_documented.

(* and those situations are reported, not answered with a member or a panic *)
Theorem C06_empty_population_errors : forall pol,
  select pol [] SBest = dret (inr EEmpty) /\ select pol [] SWorst = dret (inr EEmpty) /\
  select pol [] SRandom = dret (inr EEmpty) /\
  (forall k, (1 <= k)%nat -> select pol [] (STournament k) = dret (inr ETournamentSize)).
Proof. exact empty_population_errors. Qed.
Print Assumptions C06_empty_population_errors.

Theorem C06_zero_weight_errors : forall pol pop s, weight s = 0%N ->
  match s with SLeaf _ _ | SPair _ _ | SDynNil | SDynCons _ _ _ => select pol pop s = dret (inr EZeroWeight) | _ => True end.
Proof. exact zero_weight_errors. Qed.
Print Assumptions C06_zero_weight_errors.

Example C06_examples :
  select true [] SBest = dret (inr EEmpty) /\ select true [] SRandom = dret (inr EEmpty) /\
  select true [[1%Z]] (SLeaf 0 SBest) = dret (inr EZeroWeight) /\
  select true [[1%Z]] (SPair (SLeaf 0 SBest) (SLeaf 0 SWorst)) = dret (inr EZeroWeight) /\
  select true [[1%Z]; [2%Z]] (STournament 3) = dret (inr ETournamentSize) /\
  select true [[5%Z]; [9%Z]; [7%Z]] SBest = dret (inl 1%nat) /\ select false [[5%Z]; [9%Z]; [7%Z]] SBest = dret (inl 0%nat).
Proof. repeat split. Qed.
