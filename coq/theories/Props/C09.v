(* C09 - a generation step atomically replaces the population with as many fresh children. *)
From Coq Require Import List Arith.
From UEC Require Import Ec.Compose Ec.Generation.
Import ListNotations.

Theorem C09_len : forall (Ind R E : Type) (cm : op R (list Ind) Ind E) pop r children pop' r',
  serial_next cm pop r = (inl children, pop', r') -> pop' = children /\ length pop' = length pop.
Proof. exact @serial_len. Qed.
Print Assumptions C09_len.

Theorem C09_atomic : forall (Ind R E : Type) (cm : op R (list Ind) Ind E) pop r e pop' r',
  serial_next cm pop r = (inr e, pop', r') -> pop' = pop.
Proof. exact @serial_atomic. Qed.
Print Assumptions C09_atomic.

(* each child is made from the previous, unmodified population ... *)
Theorem C09_child_sees_old_population : forall (Ind R E : Type) (cm : op R (list Ind) Ind E) n pop r k r_k res,
  nth_error (calls cm n pop r) k = Some (r_k, res) -> res = cm pop r_k.
Proof. exact @calls_see_old_population. Qed.
Print Assumptions C09_child_sees_old_population.

(* ... with its own live randomness: the generator state is threaded from one call to the next
   (the randomness of different children are consecutive disjoint stretches of the stream), and
   nothing is made after a failure *)
Theorem C09_randomness_threaded : forall (Ind R E : Type) (cm : op R (list Ind) Ind E) n pop r k r_k res r_k1 res1,
  nth_error (calls cm n pop r) k = Some (r_k, res) -> nth_error (calls cm n pop r) (S k) = Some (r_k1, res1) ->
  r_k1 = snd res /\ exists c, fst res = inl c.
Proof. exact @calls_chain. Qed.
Print Assumptions C09_randomness_threaded.

Theorem C09_at_most_n_calls : forall (Ind R E : Type) (cm : op R (list Ind) Ind E) n pop r,
  length (calls cm n pop r) <= n.
Proof. exact @calls_at_most. Qed.
Print Assumptions C09_at_most_n_calls.

(* stepping IS that chain of calls: the new population is exactly the children the calls returned, in call
   order (every member was made by the child maker from the old population; none is an old individual) *)
Theorem C09_new_population_is_the_children : forall (Ind R E : Type) (cm : op R (list Ind) Ind E) pop r children pop' r',
  serial_next cm pop r = (inl children, pop', r') ->
  length (calls cm (length pop) pop r) = length pop /\
  map (fun c => fst (snd c)) (calls cm (length pop) pop r) = map inl pop'.
Proof. exact @serial_children_are_the_calls. Qed.
Print Assumptions C09_new_population_is_the_children.

(* the error reported is the error of the LAST call that was made - a child maker's error, never swallowed *)
Theorem C09_error_is_a_childs : forall (Ind R E : Type) (cm : op R (list Ind) Ind E) pop r e pop' r',
  serial_next cm pop r = (inr e, pop', r') ->
  exists k r_k, nth_error (calls cm (length pop) pop r) k = Some (r_k, (inr e, r')) /\
                length (calls cm (length pop) pop r) = S k /\ k < length pop.
Proof. exact @serial_error_is_a_childs. Qed.
Print Assumptions C09_error_is_a_childs.

Theorem C09_empty_population : forall (Ind R E : Type) (cm : op R (list Ind) Ind E) r, serial_next cm [] r = (inl [], [], r).
Proof. exact @serial_empty. Qed.
Print Assumptions C09_empty_population.

(* the parallel variant, for every assignment of independent streams and every schedule admitted by the relation *)
Theorem C09_par_len : forall (Ind R E : Type) (cm : op R (list Ind) Ind E) pop streams children pop',
  par_next_ok cm pop streams (POk children) pop' -> (forall r, In r streams -> exists c, child_of cm pop r = inl c) ->
  pop' = children /\ length pop' = length pop.
Proof. exact @par_len. Qed.
Print Assumptions C09_par_len.

Theorem C09_par_atomic : forall (Ind R E : Type) (cm : op R (list Ind) Ind E) pop streams e pop',
  par_next_ok cm pop streams (PErr e) pop' -> (exists r e0, In r streams /\ child_of cm pop r = inr e0) ->
  pop' = pop /\ exists r, In r streams /\ child_of cm pop r = inr e.
Proof. exact @par_atomic. Qed.
Print Assumptions C09_par_atomic.

(* any population type (size + collection from the children): exactly size-many children made from the old population
   are collected; on failure nothing changes *)
Theorem C09_any_collection_step : forall (P Ind R E : Type) (size : P -> nat) (collect : list Ind -> P) (cm : op R P Ind E) pop r,
  (forall pop' r', serial_next_c size collect cm pop r = (inl tt, pop', r') ->
     exists children, repeat_ (size pop) cm pop r = (inl children, r') /\ length children = size pop /\ pop' = collect children) /\
  (forall e pop' r', serial_next_c size collect cm pop r = (inr e, pop', r') ->
     pop' = pop /\ repeat_ (size pop) cm pop r = (inr e, r')).
Proof. exact (fun P Ind R E size collect cm pop r => conj (serial_c_success size collect cm pop r) (fun e => serial_c_atomic size collect cm pop r e)). Qed.
Print Assumptions C09_any_collection_step.

(* over several steps of one Generation value each step makes as many children as the population has AT THAT STEP
   (for a set-typed population, whose equal children merge, that number changes from step to step) *)
Theorem C09_steps_follow_current_size : forall (P Ind R E : Type) (size : P -> nat) (collect : list Ind -> P) (cm : op R P Ind E) k pop r i p_i p_next,
  nth_error (pop :: steps_c size collect cm k pop r) i = Some p_i ->
  nth_error (pop :: steps_c size collect cm k pop r) (S i) = Some p_next ->
  exists children, length children = size p_i /\ p_next = collect children.
Proof. exact @steps_follow_current_size. Qed.
Print Assumptions C09_steps_follow_current_size.

(* an ordered set of integers keeps exactly the distinct children, in order, and is never larger than their number *)
Theorem C09_set_population : forall l,
  (forall y, In y (sort_dedup l) <-> In y l) /\ Sorted.StronglySorted BinInt.Z.lt (sort_dedup l) /\ length (sort_dedup l) <= length l.
Proof. exact sort_dedup_spec. Qed.
Print Assumptions C09_set_population.

(* counting (what the bulk correspondence demands of the reduced log): success = n calls, n children, the children
   installed; failure = one child fewer than calls, at most n calls, the population untouched *)
Theorem C09_call_and_child_counts : forall (Ind R E : Type) (cm : op R (list Ind) Ind E) pop r,
  match serial_next cm pop r with
  | (inl children, pop', _) => length (calls cm (length pop) pop r) = length pop /\ made (calls cm (length pop) pop r) = length pop /\
                               pop' = children /\ length pop' = length pop
  | (inr _, pop', _) => pop' = pop /\ length (calls cm (length pop) pop r) = S (made (calls cm (length pop) pop r)) /\
                        length (calls cm (length pop) pop r) <= length pop
  end.
Proof. exact @serial_counts. Qed.
Print Assumptions C09_call_and_child_counts.

Example C09_example :
  let cm : op nat (list nat) nat unit := fun pop r => if Nat.eqb r 12 then (inr tt, S r) else (inl (length pop * 100 + r), S r) in
  serial_next cm [7; 8; 9] 5 = (inl [305; 306; 307], [305; 306; 307], 8) /\
  serial_next cm [7; 8; 9] 11 = (inr tt, [7; 8; 9], 13) /\ serial_next cm [] 3 = (inl [], [], 3).
Proof. repeat split. Qed.
