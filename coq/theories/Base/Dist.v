(* Finite probability distributions over Q: the model of the library's randomised
   operators.  The primitives of the `rand` crate (choose, choose_multiple, shuffle,
   random_bool, ...) enter as the distributions their documentation specifies; what is
   proved is what the operators built from them do. *)
From Coq Require Import List ZArith QArith Lia Bool Lqa.
Import ListNotations.
Local Open Scope Q_scope.

Definition dist (A : Type) := list (A * Q).
Definition dret {A} (a : A) : dist A := [(a, 1)].
Definition dbind {A B} (d : dist A) (f : A -> dist B) : dist B :=
  flat_map (fun ap => map (fun bq => (fst bq, snd ap * snd bq)) (f (fst ap))) d.
Definition dmap {A B} (f : A -> B) (d : dist A) : dist B := map (fun ap => (f (fst ap), snd ap)) d.
Definition bernoulli (p : Q) : dist bool := [(true, p); (false, 1 - p)].
Definition qnat (n : nat) : Q := inject_Z (Z.of_nat n).
Definition uniform {A} (l : list A) : dist A := map (fun a => (a, 1 / qnat (length l))) l.

Fixpoint prob {A} (d : dist A) (P : A -> bool) : Q :=
  match d with [] => 0 | (a, p) :: r => (if P a then p else 0) + prob r P end.
Fixpoint expect {A} (d : dist A) (g : A -> Q) : Q :=
  match d with [] => 0 | (a, p) :: r => p * g a + expect r g end.
Definition mass {A} (d : dist A) : Q := prob d (fun _ => true).

(* an outcome of positive weight *)
Definition possible {A} (d : dist A) (a : A) : Prop := exists p, In (a, p) d /\ 0 < p.
Definition nonneg {A} (d : dist A) : Prop := forall a p, In (a, p) d -> 0 <= p.

(* merge equal outcomes (for display and comparison) *)
Fixpoint tally_add {A} (eqb : A -> A -> bool) (a : A) (p : Q) (t : list (A * Q)) : list (A * Q) :=
  match t with
  | [] => [(a, Qred p)]
  | (b, q) :: r => if eqb a b then (b, Qred (p + q)) :: r else (b, q) :: tally_add eqb a p r
  end.
Definition tally {A} (eqb : A -> A -> bool) (d : dist A) : list (A * Q) :=
  fold_left (fun t ap => tally_add eqb (fst ap) (snd ap) t) d [].

(* ---------- laws ---------- *)
Lemma prob_app A (d1 d2 : dist A) P : prob (d1 ++ d2) P == prob d1 P + prob d2 P.
Proof. induction d1 as [|[a p] d1 IH]; cbn; [ring|]. rewrite IH. ring. Qed.

Lemma prob_scale A (d : dist A) (q : Q) P :
  prob (map (fun bq => (fst bq, q * snd bq)) d) P == q * prob d P.
Proof. induction d as [|[a p] d IH]; cbn; [ring|]. rewrite IH. destruct (P a); ring. Qed.

Lemma prob_bind A B (d : dist A) (f : A -> dist B) P :
  prob (dbind d f) P == expect d (fun a => prob (f a) P).
Proof.
  induction d as [|[a p] d IH]; cbn; [reflexivity|].
  rewrite prob_app, prob_scale. unfold dbind in IH. rewrite IH. reflexivity.
Qed.

Lemma prob_ret A (a : A) P : prob (dret a) P == if P a then 1 else 0.
Proof. cbn. destruct (P a); ring. Qed.

Lemma prob_ext A (d : dist A) P Q' : (forall a, P a = Q' a) -> prob d P == prob d Q'.
Proof. intros H. induction d as [|[a p] d IH]; cbn; [reflexivity|]. rewrite H, IH. reflexivity. Qed.

Lemma expect_ext A (d : dist A) g h : (forall a, g a == h a) -> expect d g == expect d h.
Proof. intros H. induction d as [|[a p] d IH]; cbn; [reflexivity|]. rewrite H, IH. reflexivity. Qed.

Lemma expect_plus A (d : dist A) g h : expect d (fun a => g a + h a) == expect d g + expect d h.
Proof. induction d as [|[a p] d IH]; cbn; [ring|]. rewrite IH. ring. Qed.

Lemma expect_scale A (d : dist A) (c : Q) g : expect d (fun a => c * g a) == c * expect d g.
Proof. induction d as [|[a p] d IH]; cbn; [ring|]. rewrite IH. ring. Qed.

Lemma expect_const A (d : dist A) (c : Q) : expect d (fun _ => c) == mass d * c.
Proof. unfold mass. induction d as [|[a p] d IH]; cbn; [ring|]. rewrite IH. ring. Qed.

Lemma expect_app A (d1 d2 : dist A) g : expect (d1 ++ d2) g == expect d1 g + expect d2 g.
Proof. induction d1 as [|[a p] d1 IH]; cbn; [ring|]. rewrite IH. ring. Qed.

Lemma expect_scale_d A (d : dist A) (q : Q) g :
  expect (map (fun bq => (fst bq, q * snd bq)) d) g == q * expect d g.
Proof. induction d as [|[a p] d IH]; cbn; [ring|]. rewrite IH. ring. Qed.

Lemma expect_bind A B (d : dist A) (f : A -> dist B) g :
  expect (dbind d f) g == expect d (fun a => expect (f a) g).
Proof.
  induction d as [|[a p] d IH]; cbn; [reflexivity|].
  rewrite expect_app, expect_scale_d. unfold dbind in IH. rewrite IH. reflexivity.
Qed.

Lemma expect_ret A (a : A) g : expect (dret a) g == g a.
Proof. cbn. ring. Qed.

Lemma prob_as_expect A (d : dist A) P : prob d P == expect d (fun a => if P a then 1 else 0).
Proof. induction d as [|[a p] d IH]; cbn; [reflexivity|]. rewrite IH. destruct (P a); ring. Qed.

Lemma mass_ret A (a : A) : mass (dret a) == 1.
Proof. unfold mass. cbn. ring. Qed.
Lemma mass_bernoulli p : mass (bernoulli p) == 1.
Proof. unfold mass. cbn. ring. Qed.
Lemma mass_bind A B (d : dist A) (f : A -> dist B) :
  (forall a, mass (f a) == 1) -> mass (dbind d f) == mass d.
Proof.
  intros H. unfold mass at 1. rewrite prob_bind. rewrite (expect_ext _ _ _ (fun _ => 1)) by (intros a; apply H).
  rewrite expect_const. ring.
Qed.

Lemma qnat_pos n : (0 < n)%nat -> 0 < qnat n.
Proof. intros H. unfold qnat. change 0 with (inject_Z 0). rewrite <- Zlt_Qlt. lia. Qed.

Lemma qnat_S n : qnat (S n) == qnat n + 1.
Proof. unfold qnat. rewrite Nat2Z.inj_succ, <- Z.add_1_r, inject_Z_plus. reflexivity. Qed.

Lemma prob_const_weight A (l : list A) (w : Q) P :
  prob (map (fun a => (a, w)) l) P == qnat (length (filter P l)) * w.
Proof.
  induction l as [|a l IH]; cbn [map prob filter].
  - cbn [length]. change (qnat 0) with 0. ring.
  - rewrite IH. destruct (P a); cbn [length]; [rewrite qnat_S|]; ring.
Qed.

Lemma prob_uniform_count A (l : list A) P :
  prob (uniform l) P == qnat (length (filter P l)) / qnat (length l).
Proof. unfold uniform. rewrite prob_const_weight. unfold Qdiv. ring. Qed.

Lemma filter_true A (l : list A) : filter (fun _ => true) l = l.
Proof. induction l as [|a l IH]; [reflexivity|]. cbn. now rewrite IH. Qed.

Lemma mass_uniform A (l : list A) : l <> [] -> mass (uniform l) == 1.
Proof.
  intros H. unfold mass. rewrite prob_uniform_count, filter_true.
  assert (0 < qnat (length l)) by (apply qnat_pos; destruct l; [contradiction|cbn; lia]).
  field. lra.
Qed.

(* ---------- support ---------- *)
Lemma possible_ret A (a b : A) : possible (dret a) b <-> b = a.
Proof.
  unfold possible, dret. split.
  - intros (p & [H|[]] & _). now inversion H.
  - intros ->. exists 1. split; [now left|reflexivity].
Qed.

Lemma possible_bind A B (d : dist A) (f : A -> dist B) b :
  nonneg d -> (forall a, nonneg (f a)) ->
  (possible (dbind d f) b <-> exists a, possible d a /\ possible (f a) b).
Proof.
  intros Hd Hf. unfold possible, dbind. split.
  - intros (p & Hin & Hp). apply in_flat_map in Hin as ([a pa] & Ha & Hin).
    apply in_map_iff in Hin as ([b' q] & E & Hb). cbn in E. inversion E; subst.
    pose proof (Hd _ _ Ha) as Hpa. pose proof (Hf _ _ _ Hb) as Hq. cbn in *.
    assert (0 < pa) by nra. assert (0 < q) by nra.
    exists a. split; eauto.
  - intros (a & (pa & Ha & Hpa) & (q & Hb & Hq)).
    exists (pa * q). split; [|nra].
    apply in_flat_map. exists (a, pa). split; [exact Ha|].
    apply in_map_iff. exists (b, q). auto.
Qed.

Lemma nonneg_ret A (a : A) : nonneg (dret a).
Proof. intros x p [H|[]]. inversion H; subst. unfold Qle; cbn; lia. Qed.
Lemma nonneg_bind A B (d : dist A) (f : A -> dist B) : nonneg d -> (forall a, nonneg (f a)) -> nonneg (dbind d f).
Proof.
  intros Hd Hf b p Hin. unfold dbind in Hin. apply in_flat_map in Hin as ([a pa] & Ha & Hin).
  apply in_map_iff in Hin as ([b' q] & E & Hb). cbn in E. inversion E; subst.
  pose proof (Hd _ _ Ha). pose proof (Hf _ _ _ Hb). cbn in *. nra.
Qed.
Lemma nonneg_bernoulli p : 0 <= p <= 1 -> nonneg (bernoulli p).
Proof. intros [H0 H1] b q [H|[H|[]]]; inversion H; subst; lra. Qed.
Lemma nonneg_uniform A (l : list A) : nonneg (uniform l).
Proof.
  intros a p H. unfold uniform in H. apply in_map_iff in H. destruct H as [x [E _]]. inversion E; subst.
  destruct l as [|y l]; [cbn; unfold Qdiv, Qinv; cbn; lra|].
  apply Qle_shift_div_l; [apply qnat_pos; cbn; lia|lra].
Qed.
Lemma possible_uniform A (l : list A) a : possible (uniform l) a <-> In a l.
Proof.
  unfold possible, uniform. split.
  - intros (p & H & _). apply in_map_iff in H. destruct H as [x [E Hx]]. inversion E; subst. exact Hx.
  - intros H. exists (1 / qnat (length l)). split; [apply in_map_iff; eauto|].
    apply Qlt_shift_div_l; [apply qnat_pos; destruct l; [contradiction|cbn; lia]|lra].
Qed.
Lemma nonneg_dmap A B (f : A -> B) d : nonneg d -> nonneg (dmap f d).
Proof. intros H b p Hin. unfold dmap in Hin. apply in_map_iff in Hin. destruct Hin as [[a q] [E Hq]]. inversion E; subst. eapply H; eassumption. Qed.
Lemma possible_dmap A B (f : A -> B) d b : possible (dmap f d) b <-> exists a, possible d a /\ b = f a.
Proof.
  unfold possible, dmap. split.
  - intros (p & H & Hp). apply in_map_iff in H. destruct H as [[a q] [E Hq]]. inversion E; subst. exists a. split; eauto.
  - intros (a & (p & H & Hp) & ->). exists p. split; [|exact Hp]. apply in_map_iff. exists (a, p). auto.
Qed.
