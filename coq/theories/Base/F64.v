(* IEEE-754 binary64 as Coq's primitive floats (the same hardware arithmetic Rust's
   f64 uses), their bit patterns, OrderedFloat's total order, and the two casts. *)
From Coq Require Import Floats ZArith Bool Uint63.
Local Open Scope Z_scope.

Definition nan_bits : Z := 9221120237041090560.  (* 0x7FF8000000000000: all NaNs are identified *)

Definition bits (f : float) : Z :=
  match Prim2SF f with
  | S754_zero s => if s then 2^63 else 0
  | S754_infinity s => (if s then 2^63 else 0) + 2047 * 2^52
  | S754_nan => nan_bits
  | S754_finite s m e =>
     let sgn := if s then 2^63 else 0 in
     if Z.pos m <? 2^52 then sgn + Z.pos m
     else sgn + (e + 1075) * 2^52 + (Z.pos m - 2^52)
  end.

Definition fzero (s : bool) : float := if s then PrimFloat.opp PrimFloat.zero else PrimFloat.zero.

Definition of_bits (z : Z) : float :=
  let s := Z.leb (2^63) z in
  let r := Z.modulo z (2^63) in
  let ef := Z.div r (2^52) in
  let mf := Z.modulo r (2^52) in
  if Z.eqb ef 2047 then (if Z.eqb mf 0 then (if s then neg_infinity else infinity) else nan)
  else if Z.eqb ef 0 then
    match mf return float with
    | Zpos p => SF2Prim (S754_finite s p (-1074))
    | _ => fzero s
    end
  else match Z.add mf (2^52) return float with
       | Zpos p => SF2Prim (S754_finite s p (Z.sub ef 1075))
       | _ => nan
       end.

Definition is_nan (x : float) : bool := negb (PrimFloat.eqb x x).

(* ordered_float::OrderedFloat: all NaNs equal, NaN greatest, -0 = +0 *)
Definition oge (x y : float) : bool := is_nan x || PrimFloat.leb y x.
Definition olt (x y : float) : bool := negb (oge x y).
Definition ole (x y : float) : bool := oge y x.
Definition ogt (x y : float) : bool := negb (oge y x).
Definition oeq (x y : float) : bool := if is_nan x then is_nan y else PrimFloat.eqb x y.

(* `f as i64`: truncate toward zero, saturate, NaN -> 0 *)
Definition f2i (f : float) : Z :=
  match Prim2SF f with
  | S754_zero _ => 0
  | S754_nan => 0
  | S754_infinity s => if s then -9223372036854775808 else 9223372036854775807
  | S754_finite s m e =>
    let mag := if 0 <=? e then Z.pos m * 2 ^ e else Z.pos m / 2 ^ (- e) in
    let v := if s then - mag else mag in
    if v <? -9223372036854775808 then -9223372036854775808
    else if 9223372036854775807 <? v then 9223372036854775807 else v
  end.

(* `i as f64`: round to nearest even *)
Definition i2f (z : Z) : float :=
  if z =? -9223372036854775808 then PrimFloat.opp (PrimFloat.of_uint63 (Uint63.of_Z 4611686018427387904) * 2)%float
  else if z <? 0 then PrimFloat.opp (PrimFloat.of_uint63 (Uint63.of_Z (- z)))
  else PrimFloat.of_uint63 (Uint63.of_Z z).

(* float instruction `ProtectedDivide`: `if y == 0.0 { 1.0 } else { x / y }` (IEEE ==) *)
Definition fdiv_protected (x y : float) : float :=
  if PrimFloat.eqb y PrimFloat.zero then PrimFloat.one else PrimFloat.div x y.
