(* A binary step budget: structural recursion on a [positive], so a budget of
   usize::MAX is representable and evaluation costs only the steps taken.  It is
   equal to the unary test-then-step loop, on which invariants are proved. *)
From Coq Require Import PArith NArith Arith Lia.

Section Iter.
  Context {St : Type} (halted : St -> bool) (f : St -> St).

  Fixpoint iter (p : positive) (s : St) : St :=
    if halted s then s else
    match p with
    | xH => f s
    | xO p' => iter p' (iter p' s)
    | xI p' => iter p' (iter p' (f s))
    end.

  Fixpoint iter_nat (n : nat) (s : St) : St :=
    match n with O => s | S n' => if halted s then s else iter_nat n' (f s) end.

  Definition iterN (n : N) (s : St) : St := match n with N0 => s | Npos p => iter p s end.

  Lemma iter_nat_halted n s : halted s = true -> iter_nat n s = s.
  Proof. destruct n; cbn; [reflexivity|]. now intros ->. Qed.

  Lemma iter_nat_add n : forall m s, iter_nat (n + m) s = iter_nat m (iter_nat n s).
  Proof.
    induction n as [|n IH]; intros m s; cbn; [reflexivity|].
    destruct (halted s) eqn:E; [now rewrite iter_nat_halted|apply IH].
  Qed.

  Lemma iter_spec p : forall s, iter p s = iter_nat (Pos.to_nat p) s.
  Proof.
    induction p as [p IH|p IH|]; intros s; cbn [iter].
    - rewrite Pos2Nat.inj_xI. cbn [iter_nat]. destruct (halted s); [reflexivity|].
      rewrite !IH, <- iter_nat_add. f_equal. lia.
    - rewrite Pos2Nat.inj_xO. destruct (halted s) eqn:E; [now rewrite iter_nat_halted|].
      rewrite !IH, <- iter_nat_add. f_equal. lia.
    - change (Pos.to_nat 1) with 1. cbn [iter_nat]. destruct (halted s); reflexivity.
  Qed.

  Lemma iterN_spec n s : iterN n s = iter_nat (N.to_nat n) s.
  Proof. destruct n as [|p]; [reflexivity|]. cbn [iterN N.to_nat]. apply iter_spec. Qed.

  Lemma iter_nat_inv (Inv : St -> Prop) :
    (forall s, halted s = false -> Inv s -> Inv (f s)) ->
    forall n s, Inv s -> Inv (iter_nat n s).
  Proof.
    intros Hf n. induction n as [|n IH]; intros s H; cbn; [exact H|].
    destruct (halted s) eqn:E; [exact H|]. apply IH, Hf; assumption.
  Qed.

  Lemma iter_nat_steps (cnt : St -> nat) :
    (forall s, halted s = false -> cnt (f s) <= S (cnt s)) ->
    forall n s, cnt (iter_nat n s) <= cnt s + n.
  Proof.
    intros Hf n. induction n as [|n IH]; intros s; cbn; [lia|].
    destruct (halted s) eqn:E; [lia|]. specialize (IH (f s)). specialize (Hf s E). lia.
  Qed.
End Iter.

(* two loop bodies that agree on the states of an invariant give the same loop *)
Lemma iter_nat_agree {St : Type} (halted : St -> bool) (f g : St -> St) (Inv : St -> Prop) :
  (forall s, Inv s -> f s = g s) -> (forall s, halted s = false -> Inv s -> Inv (g s)) ->
  forall n s, Inv s -> iter_nat halted f n s = iter_nat halted g n s.
Proof.
  intros Hfg Hinv n. induction n as [|n IH]; intros s Hs; cbn; [reflexivity|].
  destruct (halted s) eqn:E; [reflexivity|]. rewrite (Hfg s Hs). apply IH, Hinv; assumption.
Qed.
