(* Wire format of the correspondence case files.

   The Rust harness serialises every case (input and observation) as a tree of
   integers and flattens it into primitive 63-bit words; the generated case file
   contains nothing but [list int] literals (cheapest thing for [coqc] to
   elaborate).  [decode] below rebuilds the tree; the per-property decoders in
   Corr/ are ordinary Gallina functions over [tree].

     word w, w mod 4 = 0 : atom  w/4
                      1 : atom  -(w/4)
                      2 : list with w/4 children (which follow)
                      3 : 64-bit value in the next two words (hi32, lo32);
                          w/4 = 0: signed (two's complement), w/4 = 1: unsigned *)
From Coq Require Import List ZArith Uint63 Lia Bool.
Import ListNotations.
Local Open Scope Z_scope.

Inductive tree := A (z : Z) | L (l : list tree).

Definition two32 : Z := 4294967296.
Definition two63 : Z := 9223372036854775808.
Definition two64 : Z := 18446744073709551616.

Fixpoint kids (P : list Z -> option (tree * list Z)) (n : nat) (r : list Z) {struct n} : option (list tree * list Z) :=
  match n with
  | O => Some ([], r)
  | S n' =>
    match P r with
    | Some (t, r') =>
      match kids P n' r' with
      | Some (ts, r'') => Some (t :: ts, r'')
      | None => None
      end
    | None => None
    end
  end.

Fixpoint parse (fuel : nat) (ws : list Z) {struct fuel} : option (tree * list Z) :=
  match fuel with
  | O => None
  | S f =>
    match ws with
    | [] => None
    | w :: r =>
      let k := w / 4 in
      match w mod 4 with
      | 0 => Some (A k, r)
      | 1 => Some (A (- k), r)
      | 2 => match kids (parse f) (Z.to_nat k) r with
             | Some (ts, r') => Some (L ts, r')
             | None => None
             end
      | _ =>
        match r with
        | hi :: lo :: r' =>
          let v := hi * two32 + lo in
          if k =? 0 then Some (A (if v <? two63 then v else v - two64), r')
          else Some (A v, r')
        | _ => None
        end
      end
    end
  end.

Definition decode (ws : list int) : option tree :=
  let zs := map Uint63.to_Z ws in
  match parse (S (length zs)) zs with
  | Some (t, []) => Some t
  | _ => None
  end.

(* encoder: the inverse direction, used to show that the decoder loses nothing *)
Definition enc_atom (z : Z) : list Z :=
  if (0 <=? z) && (z <? 1152921504606846976) then [4 * z]
  else if (z <? 0) && (-1152921504606846976 <? z) then [4 * (- z) + 1]
  else if (z <? 0) then [3; (z + two64) / two32; (z + two64) mod two32]
  else if (z <? two63) then [3; z / two32; z mod two32]
  else [7; z / two32; z mod two32].

Fixpoint encode (t : tree) : list Z :=
  match t with
  | A z => enc_atom z
  | L l => (4 * Z.of_nat (length l) + 2) :: flat_map encode l
  end.

(* accessors *)
Definition tZ (t : tree) : option Z := match t with A z => Some z | _ => None end.
Definition tN (t : tree) : option N := match t with A z => if 0 <=? z then Some (Z.to_N z) else None | _ => None end.
Definition tnat (t : tree) : option nat := match t with A z => if 0 <=? z then Some (Z.to_nat z) else None | _ => None end.
Definition tbool (t : tree) : option bool := match t with A 0 => Some false | A 1 => Some true | _ => None end.
Definition tL (t : tree) : option (list tree) := match t with L l => Some l | _ => None end.

Fixpoint omap {X Y} (f : X -> option Y) (l : list X) : option (list Y) :=
  match l with
  | [] => Some []
  | x :: r => match f x, omap f r with Some y, Some ys => Some (y :: ys) | _, _ => None end
  end.

Definition tlist {Y} (f : tree -> option Y) (t : tree) : option (list Y) :=
  match t with L l => omap f l | _ => None end.

Notation "'olet' x ':=' e 'in' k" := (match e with Some x => k | None => None end)
  (at level 200, x pattern, e at level 100, k at level 200, only parsing).

(* The result of judging a batch of cases: for every case its verdict and
   auxiliary numbers.  Verdicts:
     0 agree            (model value = implementation's observation)
     1 disagree, but the property predicate holds of the implementation's output
     2 the property predicate FAILS of the implementation's output
     3 the case could not be decoded (harness and model out of step)       *)
Definition verdict (agree holds : bool) : Z := if agree then 0 else if holds then 1 else 2.

(* every case file also re-encodes what it decoded and compares with the words it was given
   ([3;1] otherwise): together with WireProps.parse_encode (the decoder inverts the encoder) this
   shows that on the words actually seen the decoder lost nothing. *)
Fixpoint zlist_eqb (a b : list Z) : bool :=
  match a, b with
  | [], [] => true
  | x :: a', y :: b' => (x =? y) && zlist_eqb a' b'
  | _, _ => false
  end.

Definition reencodes (t : tree) (ws : list int) : bool := zlist_eqb (encode t) (map Uint63.to_Z ws).

Definition judge_cases (judge : tree -> option (list Z)) (cases : list (list int)) : list (list Z) :=
  map (fun ws => match decode ws with
                 | Some t => if reencodes t ws then match judge t with Some v => v | None => [3] end else [3; 1]
                 | None => [3; 0] end) cases.

Definition show_cases {X} (f : tree -> option X) (d : X) (cases : list (list int)) : list X :=
  map (fun ws => match decode ws with
                 | Some t => match f t with Some x => x | None => d end
                 | None => d end) cases.
