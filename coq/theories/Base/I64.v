(* 64-bit signed integer arithmetic as the Rust code uses it: Z with explicit
   range tests; nothing wraps silently. *)
From Coq Require Import ZArith Lia Bool.
Local Open Scope Z_scope.

Definition i64_min : Z := -9223372036854775808.
Definition i64_max : Z := 9223372036854775807.
Definition in_i64 (z : Z) : bool := (i64_min <=? z) && (z <=? i64_max).
Definition chk (z : Z) : option Z := if in_i64 z then Some z else None.

Definition checked_add x y := chk (x + y).
Definition checked_sub x y := chk (x - y).
Definition checked_mul x y := chk (x * y).
(* i64::checked_div / checked_rem: None for a zero divisor and for MIN / -1 *)
Definition checked_div x y :=
  if y =? 0 then None else if (x =? i64_min) && (y =? -1) then None else Some (Z.quot x y).
Definition checked_rem x y :=
  if y =? 0 then None else if (x =? i64_min) && (y =? -1) then None else Some (Z.rem x y).
Definition saturating_neg x := if x =? i64_min then i64_max else - x.
Definition saturating_abs x := if x =? i64_min then i64_max else Z.abs x.

(* i64::checked_pow(x, y as u32): the mathematical power when it fits.  Closed
   form that never builds an astronomically large number: for |x| >= 2 any
   exponent >= 64 is out of range. *)
Definition checked_pow (x y : Z) : option Z :=
  if (y <? 0) || (4294967296 <=? y) then None
  else if x =? 0 then Some (if y =? 0 then 1 else 0)
  else if x =? 1 then Some 1
  else if x =? -1 then Some (if Z.even y then 1 else -1)
  else if 64 <=? y then None
  else chk (x ^ y).

Lemma in_i64_iff z : in_i64 z = true <-> i64_min <= z <= i64_max.
Proof. unfold in_i64. rewrite andb_true_iff, !Z.leb_le. tauto. Qed.

Lemma chk_Some z r : chk z = Some r -> r = z /\ in_i64 r = true.
Proof. unfold chk. destruct (in_i64 z) eqn:E; intros H; inversion H; subst; auto. Qed.

Lemma pow_big x y : 2 <= Z.abs x -> 64 <= y -> in_i64 (x ^ y) = false.
Proof.
  intros Hx Hy. apply not_true_is_false. rewrite in_i64_iff. intros [Hlo Hhi].
  assert (H2 : 2 ^ 64 <= Z.abs x ^ y).
  { transitivity (2 ^ y); [apply Z.pow_le_mono_r; lia | apply Z.pow_le_mono_l; lia]. }
  rewrite <- Z.abs_pow in H2. change (2 ^ 64) with 18446744073709551616 in H2.
  unfold i64_min, i64_max in *. lia.
Qed.

(* the closed form IS the mathematical power with a range test *)
Theorem checked_pow_spec x y :
  0 <= y < 4294967296 -> checked_pow x y = chk (x ^ y).
Proof.
  intros [H0 H1]. unfold checked_pow.
  destruct (Z.ltb_spec y 0) as [?|_]; [lia|]. destruct (Z.leb_spec 4294967296 y) as [?|_]; [lia|].
  cbn [orb].
  destruct (Z.eqb_spec x 0) as [->|N0].
  { destruct (Z.eqb_spec y 0) as [->|Ny]; [reflexivity|]. rewrite Z.pow_0_l by lia. reflexivity. }
  destruct (Z.eqb_spec x 1) as [->|N1]; [now rewrite Z.pow_1_l by lia|].
  destruct (Z.eqb_spec x (-1)) as [->|Nm1].
  { destruct (Z.even y) eqn:E.
    - apply Z.even_spec in E. destruct E as [k ->]. rewrite Z.pow_mul_r by lia. change ((-1) ^ 2) with 1.
      now rewrite Z.pow_1_l by lia.
    - rewrite <- Z.negb_odd in E. apply negb_false_iff, Z.odd_spec in E. destruct E as [k ->].
      rewrite Z.pow_add_r, Z.pow_mul_r by lia. change ((-1) ^ 2) with 1. rewrite Z.pow_1_l by lia. reflexivity. }
  destruct (Z.leb_spec 64 y) as [Hb|_]; [|reflexivity].
  unfold chk. rewrite pow_big; [reflexivity|lia|assumption].
Qed.

Theorem checked_pow_out_of_range x y : (y < 0 \/ 4294967296 <= y) -> checked_pow x y = None.
Proof.
  intros H. unfold checked_pow.
  destruct (Z.ltb_spec y 0), (Z.leb_spec 4294967296 y); cbn [orb]; try reflexivity; lia.
Qed.
