(* The wire decoder inverts the wire encoder: parse (encode t ++ rest) = (t, rest) for every tree
   whose atoms are at least -2^63 (everything the driver can emit: i64, u64 and small tags), so
   [encode] is injective and a case decoded as [t] whose re-encoding equals the words received
   (checked in every case file by [Wire.reencodes]) is the unique tree with that encoding. *)
From Coq Require Import List ZArith Lia Bool.
From UEC Require Import Base.Wire.
Import ListNotations.
Local Open Scope Z_scope.

Fixpoint atoms_ok (t : tree) : Prop :=
  match t with
  | A z => - two63 <= z
  | L l => (fix all (l : list tree) : Prop := match l with [] => True | x :: r => atoms_ok x /\ all r end) l
  end.

Fixpoint depth (t : tree) : nat :=
  match t with
  | A _ => O
  | L l => S ((fix mx (l : list tree) : nat := match l with [] => O | x :: r => Nat.max (depth x) (mx r) end) l)
  end.

Definition all_ok (l : list tree) : Prop :=
  (fix all (l : list tree) : Prop := match l with [] => True | x :: r => atoms_ok x /\ all r end) l.
Definition maxdepth (l : list tree) : nat :=
  (fix mx (l : list tree) : nat := match l with [] => O | x :: r => Nat.max (depth x) (mx r) end) l.

Lemma div4_0 k : (4 * k) / 4 = k /\ (4 * k) mod 4 = 0.
Proof. split; [rewrite Z.mul_comm; apply Z.div_mul; lia | rewrite Z.mul_comm; apply Z.mod_mul; lia]. Qed.
Lemma div4_r k r : 0 <= r < 4 -> (4 * k + r) / 4 = k /\ (4 * k + r) mod 4 = r.
Proof.
  intros Hr. split.
  - symmetry. apply (Z.div_unique _ 4 k r); lia.
  - symmetry. apply (Z.mod_unique _ 4 k r); lia.
Qed.

Lemma hi_lo v : (v / two32) * two32 + v mod two32 = v.
Proof. unfold two32. pose proof (Z.div_mod v 4294967296 ltac:(lia)). lia. Qed.

Lemma parse_atom z f rest : - two63 <= z -> parse (S f) (enc_atom z ++ rest) = Some (A z, rest).
Proof.
  intros Hz. unfold enc_atom.
  destruct ((0 <=? z) && (z <? 1152921504606846976)) eqn:E1.
  { cbn [app parse]. destruct (div4_0 z) as [-> ->]. reflexivity. }
  destruct ((z <? 0) && (-1152921504606846976 <? z)) eqn:E2.
  { cbn [app parse]. destruct (div4_r (- z) 1 ltac:(lia)) as [-> ->]. now rewrite Z.opp_involutive. }
  destruct (z <? 0) eqn:E3.
  { cbn [app parse]. change (3 / 4) with 0. change (3 mod 4) with 3. cbn [Z.eqb].
    rewrite hi_lo. apply Z.ltb_lt in E3. unfold two63, two64 in *.
    destruct (z + 18446744073709551616 <? 9223372036854775808) eqn:E4; [apply Z.ltb_lt in E4; lia|].
    replace (z + 18446744073709551616 - 18446744073709551616) with z by lia. reflexivity. }
  destruct (z <? two63) eqn:E4.
  { cbn [app parse]. change (3 / 4) with 0. change (3 mod 4) with 3. cbn [Z.eqb].
    rewrite hi_lo, E4. reflexivity. }
  cbn [app parse]. change (7 / 4) with 1. change (7 mod 4) with 3. cbn [Z.eqb]. rewrite hi_lo. reflexivity.
Qed.

Lemma kids_encode P l : forall rest,
  (forall t, In t l -> forall rest, P (encode t ++ rest) = Some (t, rest)) ->
  kids P (length l) (flat_map encode l ++ rest) = Some (l, rest).
Proof.
  induction l as [|x l IH]; intros rest HP; cbn [length kids flat_map app]; [reflexivity|].
  rewrite <- app_assoc, (HP x (or_introl eq_refl)), IH; [reflexivity|].
  intros t Ht. apply HP. now right.
Qed.

Lemma parse_encode_gen : forall t, atoms_ok t -> forall f rest, (depth t < f)%nat ->
  parse f (encode t ++ rest) = Some (t, rest).
Proof.
  fix IH 1. intros [z|l] Hok f rest Hf.
  - destruct f as [|f]; [lia|]. cbn [encode]. apply parse_atom. exact Hok.
  - destruct f as [|f]; [lia|]. cbn [encode app parse].
    destruct (div4_r (Z.of_nat (length l)) 2 ltac:(lia)) as [-> ->]. rewrite Nat2Z.id.
    change (atoms_ok (L l)) with (all_ok l) in Hok. change (depth (L l)) with (S (maxdepth l)) in Hf.
    rewrite kids_encode; [reflexivity|].
    revert Hok Hf. clear rest. induction l as [|x l IHl]; intros Hok Hf t Hin rest; [destruct Hin|destruct Hin as [ |Ht]].
    + subst t. apply IH; [exact (proj1 Hok)|]. cbn [maxdepth] in Hf.
      change ((fix mx (l : list tree) : nat := match l with [] => O | x :: r => Nat.max (depth x) (mx r) end) l) with (maxdepth l) in Hf. lia.
    + apply IHl; [exact (proj2 Hok)| |exact Ht]. cbn [maxdepth] in Hf.
      change ((fix mx (l : list tree) : nat := match l with [] => O | x :: r => Nat.max (depth x) (mx r) end) l) with (maxdepth l) in Hf. lia.
Qed.

Lemma encode_nonempty t : (1 <= length (encode t))%nat.
Proof. destruct t as [z|l]; [|cbn; lia]. cbn [encode]. unfold enc_atom. repeat (destruct (_ : bool)); cbn; lia. Qed.

Lemma depth_le_length : forall t, (depth t <= length (encode t))%nat.
Proof.
  fix IH 1. intros [z|l]; [cbn; lia|].
  cbn [encode length]. change (depth (L l)) with (S (maxdepth l)). apply -> Nat.succ_le_mono.
  induction l as [|x l IHl]; cbn [flat_map maxdepth]; [cbn; lia|].
  change ((fix mx (l : list tree) : nat := match l with [] => O | x :: r => Nat.max (depth x) (mx r) end) l) with (maxdepth l).
  rewrite app_length. pose proof (IH x). lia.
Qed.

(* the statement used: with the fuel the decoder actually passes *)
Theorem parse_encode t : atoms_ok t -> parse (S (length (encode t))) (encode t) = Some (t, []).
Proof.
  intros H. rewrite <- (app_nil_r (encode t)) at 2. apply parse_encode_gen; [exact H|].
  pose proof (depth_le_length t). lia.
Qed.

Corollary encode_injective t u : atoms_ok t -> atoms_ok u -> encode t = encode u -> t = u.
Proof.
  intros Ht Hu E. pose proof (parse_encode t Ht) as A1. pose proof (parse_encode u Hu) as A2.
  rewrite E in A1. rewrite A1 in A2. now injection A2.
Qed.

(* The same at the level of the primitive words in the case files.  This statement (only)
   relies on the standard library's specification axioms of the Uint63 primitives. *)
From Coq Require Import Uint63.

Fixpoint sizes_ok (t : tree) : Prop :=
  match t with
  | A z => z < two64
  | L l => Z.of_nat (length l) < 1152921504606846976 /\
           (fix all (l : list tree) : Prop := match l with [] => True | x :: r => sizes_ok x /\ all r end) l
  end.

Definition word_ok (w : Z) : Prop := 0 <= w < 9223372036854775808.

Lemma atom_words z : - two63 <= z < two64 -> Forall word_ok (enc_atom z).
Proof.
  intros Hz. unfold enc_atom, word_ok, two63, two64, two32 in *.
  destruct ((0 <=? z) && (z <? 1152921504606846976)) eqn:E1.
  { apply andb_prop in E1 as [E1a E1b]. apply Z.leb_le in E1a. apply Z.ltb_lt in E1b. repeat constructor; lia. }
  destruct ((z <? 0) && (-1152921504606846976 <? z)) eqn:E2.
  { apply andb_prop in E2 as [E2a E2b]. apply Z.ltb_lt in E2a. apply Z.ltb_lt in E2b. repeat constructor; lia. }
  destruct (z <? 0) eqn:E3.
  { apply Z.ltb_lt in E3.
    pose proof (Z.div_pos (z + 18446744073709551616) 4294967296 ltac:(lia) ltac:(lia)).
    pose proof (Z.div_lt_upper_bound (z + 18446744073709551616) 4294967296 4294967296 ltac:(lia) ltac:(lia)).
    pose proof (Z.mod_pos_bound (z + 18446744073709551616) 4294967296 ltac:(lia)).
    repeat constructor; lia. }
  apply Z.ltb_ge in E3.
  pose proof (Z.div_pos z 4294967296 ltac:(lia) ltac:(lia)).
  pose proof (Z.div_lt_upper_bound z 4294967296 4294967296 ltac:(lia) ltac:(lia)).
  pose proof (Z.mod_pos_bound z 4294967296 ltac:(lia)).
  destruct (z <? 9223372036854775808); repeat constructor; lia.
Qed.

Lemma encode_words : forall t, atoms_ok t -> sizes_ok t -> Forall word_ok (encode t).
Proof.
  fix IH 1. intros [z|l] Ha Hs.
  - apply atom_words. split; [exact Ha|exact Hs].
  - cbn [encode]. destruct Hs as [Hl Hs]. constructor; [unfold word_ok; lia|].
    change (atoms_ok (L l)) with (all_ok l) in Ha. clear Hl.
    induction l as [|x l IHl]; cbn [flat_map]; [constructor|].
    apply Forall_app. split; [apply IH; [exact (proj1 Ha)|exact (proj1 Hs)]|apply IHl; [exact (proj2 Ha)|exact (proj2 Hs)]].
Qed.

Lemma to_of_words ws : Forall word_ok ws -> map Uint63.to_Z (map Uint63.of_Z ws) = ws.
Proof.
  induction 1 as [|w ws Hw _ IH]; cbn [map]; [reflexivity|]. rewrite IH. f_equal.
  rewrite Uint63.of_Z_spec. apply Z.mod_small. unfold word_ok in Hw. unfold wB. cbn. lia.
Qed.

Theorem decode_encode t : atoms_ok t -> sizes_ok t -> decode (map Uint63.of_Z (encode t)) = Some t.
Proof.
  intros Ha Hs. unfold decode. rewrite (to_of_words _ (encode_words t Ha Hs)).
  rewrite (parse_encode t Ha). reflexivity.
Qed.

Print Assumptions parse_encode.
Print Assumptions encode_injective.
Print Assumptions decode_encode.
