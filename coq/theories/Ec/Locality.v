(* Stream locality (C16): an operator that uses randomness only through the generator it is handed
   produces a result, and leaves the generator at a position, that depend ONLY on the stretch of the
   stream it consumed.  The generator is modelled as (stream, position); [local f] says exactly that,
   and the combinators preserve it - so it holds of every composition, of any nesting depth, built from
   local parts (induction over the composition is the closure lemmas below). *)
From Coq Require Import List Arith Lia.
From UEC Require Import Ec.Compose.
Import ListNotations.

Section Loc.
Context {W : Type}.
Definition gen := ((nat -> W) * nat)%type.     (* the word stream and how far it has been consumed *)

Definition agree (s s' : nat -> W) (lo hi : nat) : Prop := forall i, lo <= i < hi -> s i = s' i.

(* f never rewinds or swaps the stream, and on any other stream that agrees with this one on the
   consumed stretch it does exactly the same *)
Definition local {A B E} (f : op gen A B E) : Prop :=
  forall x s p r s1 p1, f x (s, p) = (r, (s1, p1)) ->
    s1 = s /\ p <= p1 /\ forall s', agree s s' p p1 -> f x (s', p) = (r, (s', p1)).

Lemma agree_sub s s' a b c d : agree s s' a d -> a <= b -> c <= d -> agree s s' b c.
Proof. intros H ? ? i Hi. apply H. lia. Qed.

(* the primitive: draw one word *)
Definition draw {A} : op gen A W False := fun _ '(s, p) => (inl (s p), (s, S p)).
Lemma local_draw A : local (@draw A).
Proof.
  intros x s p r s1 p1 H. cbn in H. injection H as <- <- <-. split; [reflexivity|]. split; [lia|].
  intros s' H. cbn. rewrite (H p) by lia. reflexivity.
Qed.
(* a pure function of its input, and one that may fail *)
Lemma local_pure {A B E} (h : A -> B + E) : local (fun x g => (h x, g)).
Proof. intros x s p r s1 p1 H. cbv in H. injection H as <- <- <-. split; [reflexivity|split; [lia|intros; reflexivity]]. Qed.
Lemma local_identity {A E} : local (@identity gen A E).
Proof. intros x s p r s1 p1 H. cbv in H. injection H as <- <- <-. split; [reflexivity|split; [lia|intros; reflexivity]]. Qed.
Lemma local_constant {A B E} (v : B) : local (@constant gen A B E v).
Proof. intros x s p r s1 p1 H. cbv in H. injection H as <- <- <-. split; [reflexivity|split; [lia|intros; reflexivity]]. Qed.
Lemma local_wrap {A B E} (f : op gen A B E) : local f -> local (wrap f).
Proof. exact (fun H => H). Qed.

Lemma local_then {A B C E1 E2} (f : op gen A B E1) (g : op gen B C E2) :
  local f -> local g -> local (then_ f g).
Proof.
  intros Hf Hg x s p r s2 p2. unfold then_.
  destruct (f x (s, p)) as [[y|e] [sa pa]] eqn:Ef.
  - destruct (Hf _ _ _ _ _ _ Ef) as (-> & Hp & Hloc).
    destruct (g y (s, pa)) as [[z|e] [sb pb]] eqn:Eg;
      destruct (Hg _ _ _ _ _ _ Eg) as (-> & Hp' & Hloc'); intros [= <- <- <-];
      (split; [reflexivity|]; split; [lia|]; intros s' Ha;
       rewrite (Hloc s' (agree_sub _ _ _ _ _ _ Ha (le_n _) Hp')), (Hloc' s' (agree_sub _ _ _ _ _ _ Ha Hp (le_n _))); reflexivity).
  - destruct (Hf _ _ _ _ _ _ Ef) as (-> & Hp & Hloc). intros [= <- <- <-].
    split; [reflexivity|]. split; [lia|]. intros s' Ha. now rewrite (Hloc s' Ha).
Qed.

Lemma local_and {A B C E1 E2} (f : op gen A B E1) (g : op gen A C E2) :
  local f -> local g -> local (and_ f g).
Proof.
  intros Hf Hg x s p r s2 p2. unfold and_.
  destruct (f x (s, p)) as [[y|e] [sa pa]] eqn:Ef.
  - destruct (Hf _ _ _ _ _ _ Ef) as (-> & Hp & Hloc).
    destruct (g x (s, pa)) as [[z|e] [sb pb]] eqn:Eg;
      destruct (Hg _ _ _ _ _ _ Eg) as (-> & Hp' & Hloc'); intros [= <- <- <-];
      (split; [reflexivity|]; split; [lia|]; intros s' Ha;
       rewrite (Hloc s' (agree_sub _ _ _ _ _ _ Ha (le_n _) Hp')), (Hloc' s' (agree_sub _ _ _ _ _ _ Ha Hp (le_n _))); reflexivity).
  - destruct (Hf _ _ _ _ _ _ Ef) as (-> & Hp & Hloc). intros [= <- <- <-].
    split; [reflexivity|]. split; [lia|]. intros s' Ha. now rewrite (Hloc s' Ha).
Qed.

Lemma local_map_from {A B E} (f : op gen A B E) : local f -> forall i, local (map_from f i).
Proof.
  intros Hf i l. revert i. induction l as [|x l IH]; intros i s p r s2 p2; cbn [map_from].
  - intros [= <- <- <-]. split; [reflexivity|split; [lia|intros; reflexivity]].
  - destruct (f x (s, p)) as [[y|e] [sa pa]] eqn:Ef.
    + destruct (Hf _ _ _ _ _ _ Ef) as (-> & Hp & Hloc).
      destruct (map_from f (S i) l (s, pa)) as [[ys|e] [sb pb]] eqn:Em;
        destruct (IH _ _ _ _ _ _ Em) as (-> & Hp' & Hloc'); intros [= <- <- <-];
        (split; [reflexivity|]; split; [lia|]; intros s' Ha;
         rewrite (Hloc s' (agree_sub _ _ _ _ _ _ Ha (le_n _) Hp')), (Hloc' s' (agree_sub _ _ _ _ _ _ Ha Hp (le_n _))); reflexivity).
    + destruct (Hf _ _ _ _ _ _ Ef) as (-> & Hp & Hloc). intros [= <- <- <-].
      split; [reflexivity|]. split; [lia|]. intros s' Ha. now rewrite (Hloc s' Ha).
Qed.
Lemma local_map_vec {A B E} (f : op gen A B E) : local f -> local (map_vec f).
Proof. intros Hf. apply local_map_from. exact Hf. Qed.

Lemma local_repeat {A B E} (f : op gen A B E) n : local f -> local (repeat_ n f).
Proof.
  intros Hf. induction n as [|n IH]; intros x s p r s2 p2; cbn [repeat_].
  - intros [= <- <- <-]. split; [reflexivity|split; [lia|intros; reflexivity]].
  - destruct (f x (s, p)) as [[y|e] [sa pa]] eqn:Ef.
    + destruct (Hf _ _ _ _ _ _ Ef) as (-> & Hp & Hloc).
      destruct (repeat_ n f x (s, pa)) as [[ys|e] [sb pb]] eqn:Em;
        destruct (IH _ _ _ _ _ _ Em) as (-> & Hp' & Hloc'); intros [= <- <- <-];
        (split; [reflexivity|]; split; [lia|]; intros s' Ha;
         rewrite (Hloc s' (agree_sub _ _ _ _ _ _ Ha (le_n _) Hp')), (Hloc' s' (agree_sub _ _ _ _ _ _ Ha Hp (le_n _))); reflexivity).
    + destruct (Hf _ _ _ _ _ _ Ef) as (-> & Hp & Hloc). intros [= <- <- <-].
      split; [reflexivity|]. split; [lia|]. intros s' Ha. now rewrite (Hloc s' Ha).
Qed.

(* what locality buys: two generators in the same state (equal streams from the current position on)
   give equal results and equal positions - and the future of the stream is untouched *)
Theorem local_deterministic {A B E} (f : op gen A B E) x s s' p :
  local f -> (forall i, p <= i -> s i = s' i) ->
  fst (f x (s, p)) = fst (f x (s', p)) /\ snd (snd (f x (s, p))) = snd (snd (f x (s', p))) /\
  fst (snd (f x (s, p))) = s.
Proof.
  intros Hf Ha. destruct (f x (s, p)) as [r [s1 p1]] eqn:Ef.
  destruct (Hf _ _ _ _ _ _ Ef) as (-> & Hp & Hloc).
  rewrite (Hloc s' (fun i Hi => Ha i (proj1 Hi))). cbn. auto.
Qed.
End Loc.
