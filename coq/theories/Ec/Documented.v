(* C06, second half: an error a selector combination reports is a DOCUMENTED one, and is
   reported only in the documented situation (SelectProps.can_report), for every combination. *)
From Coq Require Import List ZArith QArith Lia Bool Arith.
From UEC Require Import Base.Dist Ec.Select Ec.SelectProps Ec.LexProps.
Import ListNotations.
Local Open Scope nat_scope.

(* tournament sizes are NonZeroUsize in the code *)
Fixpoint sel_wf (s : sel) : Prop :=
  match s with
  | STournament k => 1 <= k
  | SLeaf _ s' => sel_wf s'
  | SPair a b => sel_wf a /\ sel_wf b
  | SDynCons s' _ r => sel_wf s' /\ sel_wf r
  | _ => True
  end.

Section Lex.
Context (pol : bool) (pop : population).
Notation cr := (case_result pol pop).

Lemma not_missing c C : missing pol pop c C = false -> forall i, In i C -> exists v, cr i c = Some v.
Proof.
  unfold missing. intros H i Hi. destruct (cr i c) as [v|] eqn:E; [eauto|].
  assert (X : existsb (fun i => match cr i c with None => true | Some _ => false end) C = true).
  { apply existsb_exists. exists i. split; [exact Hi|now rewrite E]. }
  rewrite X in H. discriminate.
Qed.

Lemma is_missing c C : missing pol pop c C = true -> exists i, In i C /\ cr i c = None.
Proof.
  unfold missing. intros H. apply existsb_exists in H. destruct H as (i & Hi & H).
  exists i. split; [exact Hi|]. destruct (cr i c); [discriminate|reflexivity].
Qed.

Lemma filter_nonempty c C : C <> [] -> missing pol pop c C = false -> filter_case pol pop c C <> [].
Proof.
  intros Hne Hm. destruct (best_attained pol pop c C Hne (not_missing c C Hm)) as [i [Hi Hv]].
  intros E. assert (X : In i (filter_case pol pop c C)) by (apply in_filter_case; auto).
  rewrite E in X. destruct X.
Qed.

Lemma lex_run_nil cases : forall C, lex_run pol pop cases C = inl [] -> C = [].
Proof.
  induction cases as [|c cases IH]; intros C; cbn [lex_run]; [now intros [= ->]|].
  destruct C as [|x [|y C]]; [reflexivity|discriminate|].
  destruct (missing pol pop c (x :: y :: C)) eqn:M; [discriminate|].
  intros H. apply IH in H. exfalso. revert H. apply filter_nonempty; [discriminate|exact M].
Qed.

Lemma lex_run_err cases : forall C e, lex_run pol pop cases C = inr e ->
  (e = EEmpty /\ C = []) \/
  (e = EMissingCase /\ exists c i, In c cases /\ In i C /\ cr i c = None).
Proof.
  induction cases as [|c cases IH]; intros C e; cbn [lex_run]; [discriminate|].
  destruct C as [|x [|y C]]; [intros [= <-]; now left|discriminate|].
  destruct (missing pol pop c (x :: y :: C)) eqn:M.
  - intros [= <-]. right. split; [reflexivity|]. destruct (is_missing _ _ M) as (i & Hi & Hn).
    exists c, i. split; [now left|]. split; assumption.
  - intros H. apply IH in H. destruct H as [[-> H]|[-> (c' & i & Hc & Hi & Hn)]].
    + exfalso. revert H. apply filter_nonempty; [discriminate|exact M].
    + right. split; [reflexivity|]. exists c', i. split; [now right|]. split; [|exact Hn].
      now apply in_filter_case in Hi.
Qed.
End Lex.

Lemma lexicase_documented pol pop n e : possible (lexicase pol pop n) (inr e) ->
  (e = EEmpty /\ pop = []) \/ (e = EMissingCase /\ exists i r, nth_error pop i = Some r /\ length r < n).
Proof.
  unfold lexicase. rewrite possible_bind; [|apply nonneg_uniform|].
  2:{ intros order. destruct (lex_run pol pop order (seq 0 (length pop))) as [[|c C]|e']; try apply nonneg_ret.
      apply nonneg_dmap, nonneg_uniform. }
  intros (order & Ho & H). apply possible_uniform in Ho.
  destruct (lex_run pol pop order (seq 0 (length pop))) as [[|c C]|e'] eqn:R.
  - apply possible_ret in H. injection H as ->. left. split; [reflexivity|].
    apply lex_run_nil in R. destruct pop; [reflexivity|discriminate].
  - apply possible_dmap in H. destruct H as (a & _ & [=]).
  - apply possible_ret in H. injection H as ->. apply lex_run_err in R.
    destruct R as [[-> R]|[-> (c & i & Hc & Hi & Hn)]].
    + left. split; [reflexivity|]. destruct pop; [reflexivity|discriminate].
    + right. split; [reflexivity|]. apply in_seq in Hi. cbn in Hi.
      destruct (nth_error pop i) as [r|] eqn:E; [|apply nth_error_None in E; lia].
      exists i, r. split; [exact E|].
      unfold case_result in Hn. rewrite (nth_error_nth _ _ _ E) in Hn.
      destruct (nth_error r c) eqn:E2; [discriminate|]. apply nth_error_None in E2.
      pose proof (proj1 (perms_spec _ _ _ Ho c) Hc) as Hin.
      apply in_seq in Hin. lia.
Qed.

Lemma last_max_seq_none k n : last_max k (seq 0 n) None = None -> n = 0.
Proof. destruct n; [reflexivity|]. intros H. exfalso. revert H. apply last_max_some. left. discriminate. Qed.
Lemma first_min_seq_none k n : first_min k (seq 0 n) None = None -> n = 0.
Proof. destruct n; [reflexivity|]. intros H. exfalso. revert H. apply first_min_some. left. discriminate. Qed.

Theorem select_documented pol pop s e : sel_wf s -> possible (select pol pop s) (inr e) -> can_report e pop s.
Proof.
  induction s as [| | |k|n|w s IH|a IHa b IHb| |s IHs w rest IHr]; cbn [select can_report sel_wf]; intros Hwf.
  - rewrite possible_ret. destruct (last_max _ _ _) eqn:E; [discriminate|]. intros [= ->].
    apply last_max_seq_none in E. split; [reflexivity|]. destruct pop; [reflexivity|discriminate].
  - rewrite possible_ret. destruct (first_min _ _ _) eqn:E; [discriminate|]. intros [= ->].
    apply first_min_seq_none in E. split; [reflexivity|]. destruct pop; [reflexivity|discriminate].
  - destruct pop as [|x pop']; cbn [length].
    + rewrite possible_ret. intros [= ->]. auto.
    + rewrite possible_dmap. intros (a & _ & [=]).
  - destruct (Nat.ltb_spec (length pop) k) as [Hlt|Hge].
    + rewrite possible_ret. intros [= ->]. auto.
    + rewrite possible_bind; [|apply nonneg_uniform|intros; apply nonneg_ret].
      intros (t & Ht & H). apply possible_ret in H. apply possible_uniform in Ht.
      destruct (last_max (ikey pol pop) t None) eqn:E; [discriminate|]. exfalso.
      apply sublists_spec in Ht. destruct Ht as [Hlen _].
      revert E. apply last_max_some. left. destruct t; [cbn in Hlen; lia|discriminate].
  - apply lexicase_documented.
  - destruct (N.eqb_spec w 0) as [->|Hw]; [rewrite possible_ret; intros [= ->]; auto|].
    intros H. right. now apply IH.
  - destruct (N.eqb_spec (weight a + weight b) 0) as [E0|Hne]; [rewrite possible_ret; intros [= ->]; auto|].
    rewrite possible_bind; [|apply nonneg_bernoulli, ratio_in_unit; lia|intros []; apply nonneg_select].
    intros ([] & _ & H); right; [left; apply IHa|right; apply IHb]; tauto.
  - rewrite possible_ret. now intros [= ->].
  - destruct (N.eqb_spec (w + weight rest) 0) as [E0|Hne]; [rewrite possible_ret; intros [= ->]; auto|].
    rewrite possible_bind; [|apply nonneg_bernoulli, ratio_in_unit; lia|intros []; apply nonneg_select].
    intros ([] & _ & H); right; [left; apply IHs|right; apply IHr]; tauto.
Qed.

(* and conversely the basic situations DO produce their documented error, with certainty *)
Theorem empty_population_errors pol :
  select pol [] SBest = dret (inr EEmpty) /\ select pol [] SWorst = dret (inr EEmpty) /\
  select pol [] SRandom = dret (inr EEmpty) /\
  (forall k, 1 <= k -> select pol [] (STournament k) = dret (inr ETournamentSize)).
Proof.
  repeat split. intros k Hk. cbn [select length]. destruct (Nat.ltb_spec 0 k); [reflexivity|lia].
Qed.

Theorem zero_weight_errors pol pop s : weight s = 0%N ->
  match s with SLeaf _ _ | SPair _ _ | SDynNil | SDynCons _ _ _ => select pol pop s = dret (inr EZeroWeight) | _ => True end.
Proof.
  destruct s; cbn [weight select]; auto; intros H; try rewrite H; try reflexivity.
Qed.
