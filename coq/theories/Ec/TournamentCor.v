(* C07 corollaries: a tournament of size 1 is uniform random choice; a tournament over the whole
   population is best selection. *)
From Coq Require Import List ZArith QArith Lia Bool Arith.
From UEC Require Import Base.Dist Ec.Select Ec.SelectProps Ec.LexProps Ec.Generators.
Import ListNotations.
Local Open Scope nat_scope.

Lemma sublists_1 A (l : list A) : sublists 1 l = map (fun x => [x]) l.
Proof.
  induction l as [|x l IH]; [reflexivity|]. cbn [sublists map]. rewrite IH.
  destruct l; reflexivity.
Qed.

Lemma sublists_gt A k (l : list A) : length l < k -> sublists k l = [].
Proof.
  revert k. induction l as [|x l IH]; intros [|k] H; cbn in H; try lia; [reflexivity|].
  cbn [sublists]. rewrite (IH k), (IH (S k)) by lia. reflexivity.
Qed.

Lemma sublists_all A (l : list A) : sublists (length l) l = [l].
Proof.
  induction l as [|x l IH]; [reflexivity|]. cbn [length sublists]. rewrite IH, (sublists_gt _ (S (length l)) l) by lia.
  reflexivity.
Qed.

Lemma dbind_uniform_map A B C (f : A -> B) (g : B -> dist C) (l : list A) P :
  (prob (dbind (uniform (map f l)) g) P == prob (dbind (uniform l) (fun a => g (f a))) P)%Q.
Proof.
  rewrite !prob_bind. unfold uniform. rewrite map_length, map_map.
  induction l as [|a l IH]; [reflexivity|].
  cbn [map expect]. cbn [fst snd].
  assert (E : forall w, (expect (map (fun x : A => (f x, w)) l) (fun b => prob (g b) P)
                        == expect (map (fun x : A => (x, w)) l) (fun a => prob (g (f a)) P))%Q).
  { intros w. clear IH. induction l as [|a' l IHl]; [reflexivity|]. cbn [map expect fst snd]. rewrite IHl. reflexivity. }
  rewrite E. reflexivity.
Qed.

(* size 1: every individual is selected with probability exactly 1/n *)
Theorem tournament_1_uniform pol pop i : i < length pop ->
  (prob (select pol pop (STournament 1)) (is_idx i) == 1 / qnat (length pop))%Q.
Proof.
  intros Hi. cbn [select]. destruct (Nat.ltb_spec (length pop) 1) as [?|_]; [lia|].
  rewrite sublists_1, dbind_uniform_map.
  rewrite prob_bind.
  rewrite (expect_ext _ _ _ (fun a => if Nat.eqb i a then 1 else 0)%Q).
  2:{ intros a. rewrite prob_ret. cbn [last_max of_opt is_idx]. reflexivity. }
  rewrite <- prob_as_expect. apply (uniform_idx_prob (length pop) i Hi).
Qed.

(* size n: the whole population is the tournament, the winner is the best individual *)
Theorem tournament_n_is_best pol pop P :
  (prob (select pol pop (STournament (length pop))) P == prob (select pol pop SBest) P)%Q.
Proof.
  cbn [select]. rewrite Nat.ltb_irrefl.
  rewrite <- (seq_length (length pop) 0) at 1. rewrite sublists_all.
  rewrite prob_bind. unfold uniform. cbn [map length expect fst snd].
  change (qnat 1) with 1%Q. field.
Qed.

(* C08: a population of one individual yields that individual, whatever the number of cases
   (also more cases than it has results: the early exit comes before the lookup) *)
Lemma lex_run_single pol r cases : lex_run pol [r] cases [0] = inl [0].
Proof. destruct cases; reflexivity. Qed.

Theorem lexicase_singleton pol r n : (prob (lexicase pol [r] n) (is_idx 0) == 1)%Q.
Proof.
  rewrite lexicase_law. cbn [length seq].
  rewrite (expect_ext _ _ _ (fun _ => 1%Q)).
  2:{ intros order. rewrite lex_run_single. cbn. reflexivity. }
  rewrite expect_const. rewrite mass_uniform by apply perms_nonempty. ring.
Qed.
