(* The per-gene law of UMAD (C12): what happens at one parent gene, as an explicit four-way mixture. *)
From Coq Require Import List ZArith QArith Lia Bool Lqa Arith.
From UEC Require Import Base.Dist Ec.Mutation.
Import ListNotations.
Local Open Scope Q_scope.

Section B.
Context {G : Type} (gen : dist G) (a d : Q).
Definition ind (b : bool) : Q := if b then 1 else 0.

Lemma prob_gen_ret (old : list G) (P : list G -> bool) :
  prob (dbind gen (fun y => dret (old ++ [y]))) P == prob gen (fun y => P (old ++ [y])).
Proof.
  rewrite prob_bind, prob_as_expect. apply expect_ext. intros y. rewrite prob_ret. reflexivity.
Qed.

(* the per-gene law of UMAD: the old gene survives with probability 1-d; independently of that a new gene
   is inserted after it with probability a(1-d) (it is added with probability a and is itself subject to
   deletion), and the new gene is drawn from the generator *)
Theorem block_law (x : G) (P : list G -> bool) :
  prob (block gen a d x) P ==
    (1 - d) * (1 - a * (1 - d)) * ind (P [x]) + (1 - d) * (a * (1 - d)) * prob gen (fun y => P [x; y]) +
    d * (1 - a * (1 - d)) * ind (P []) + d * (a * (1 - d)) * prob gen (fun y => P [y]).
Proof.
  unfold block. rewrite prob_bind. cbn [bernoulli expect].
  rewrite !prob_bind. cbn [bernoulli expect].
  rewrite !prob_bind. cbn [bernoulli expect dret andb negb].
  rewrite !prob_gen_ret. cbn [app]. rewrite !prob_ret. unfold ind.
  destruct (P [x]), (P []); ring.
Qed.
End B.

(* and UMAD on a non-empty genome is that block, gene after gene, independently *)
Lemma umad_loop_cons {G} (gen : dist G) a d x t :
  umad_loop gen a d (x :: t) = dbind (block gen a d x) (fun b => dbind (umad_loop gen a d t) (fun r => dret (b ++ r))).
Proof. reflexivity. Qed.
