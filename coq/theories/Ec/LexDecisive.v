(* Lexicase with many cases: when every case has a UNIQUE best individual, the first case of the (uniformly shuffled)
   order decides, so individual i is selected with probability #{cases whose unique best is i} / #cases - a closed
   form that needs no enumeration of the n! case orders.  Rests on a counting lemma about [perms]: among the
   permutations of a list, those whose head satisfies P number (#elements satisfying P) * (n-1)!. *)
From Coq Require Import List ZArith QArith Lia Bool Arith Lqa.
From UEC Require Import Base.Dist Ec.Select Ec.SelectProps Ec.LexProps.
Import ListNotations.
Local Open Scope nat_scope.

Definition hdP (P : nat -> bool) (p : list nat) : bool := match p with c :: _ => P c | [] => false end.
Definition b2n (b : bool) : nat := if b then 1 else 0.
Definition cnt {A} (f : A -> bool) (l : list A) : nat := length (filter f l).

Lemma cnt_cons {A} (f : A -> bool) a l : cnt f (a :: l) = b2n (f a) + cnt f l.
Proof. unfold cnt. cbn [filter]. destruct (f a); reflexivity. Qed.

Lemma insert_all_length A (x : A) l : length (insert_all x l) = S (length l).
Proof. induction l as [|y l IH]; cbn [insert_all length]; [reflexivity|]. rewrite map_length, IH. reflexivity. Qed.

Lemma cnt_map_cons P (y : nat) (L : list (list nat)) : cnt (hdP P) (map (cons y) L) = length L * b2n (P y).
Proof.
  unfold cnt. induction L as [|p L IH]; cbn [map filter hdP length]; [reflexivity|].
  destruct (P y); cbn [length b2n] in *; lia.
Qed.

Lemma insert_all_heads P x p : cnt (hdP P) (insert_all x p) = b2n (P x) + length p * b2n (hdP P p).
Proof.
  destruct p as [|y p]; cbn [insert_all].
  - unfold cnt. cbn [filter hdP length]. destruct (P x); cbn; lia.
  - pose proof (cnt_map_cons P y (insert_all x p)) as Hm. rewrite insert_all_length in Hm.
    unfold cnt in *. cbn [filter hdP length]. destruct (P x); cbn [length b2n]; rewrite Hm; lia.
Qed.

Lemma cnt_flat_map {A B} (f : B -> bool) (g : A -> list B) l :
  cnt f (flat_map g l) = fold_right (fun a acc => cnt f (g a) + acc) 0 l.
Proof. unfold cnt. induction l as [|a l IH]; cbn [flat_map fold_right]; [reflexivity|]. rewrite filter_app, app_length, IH. reflexivity. Qed.

Lemma perms_lengths (l p : list nat) : In p (perms l) -> length p = length l.
Proof.
  revert p. induction l as [|x l IH]; intros p; cbn [perms].
  - intros [<-|[]]. reflexivity.
  - intros H. apply in_flat_map in H. destruct H as [q [Hq Hp]]. specialize (IH q Hq).
    clear Hq. revert p Hp. induction q as [|z q IHq]; intros p; cbn [insert_all].
    + intros [<-|[]]. cbn. cbn in IH. lia.
    + intros [<-|H]; [cbn in *; lia|]. apply in_map_iff in H. destruct H as [r [<- Hr]]. cbn [length] in *.
      assert (length r = S (length q)).
      { clear -Hr. revert r Hr. induction q as [|u q IHq]; intros r; cbn [insert_all].
        - intros [<-|[]]. reflexivity.
        - intros [<-|H]; [reflexivity|]. apply in_map_iff in H. destruct H as [t [<- Ht]]. cbn. f_equal. apply IHq. exact Ht. }
      lia.
Qed.

Lemma perms_count (l : list nat) : length (perms l) = fact (length l).
Proof.
  induction l as [|x l IH]; [reflexivity|]. cbn [perms].
  assert (H : forall L : list (list nat), (forall p, In p L -> length p = length l) ->
              length (flat_map (insert_all x) L) = length L * S (length l)).
  { induction L as [|p L IHL]; intros Hl; [reflexivity|]. cbn [flat_map]. rewrite app_length, insert_all_length, IHL.
    - rewrite (Hl p (or_introl eq_refl)). cbn [length]. lia.
    - intros q Hq. apply Hl. now right. }
  rewrite H by apply perms_lengths. rewrite IH. cbn [length fact]. lia.
Qed.

(* among the permutations of l, those whose head satisfies P *)
Theorem perms_heads P (l : list nat) : cnt (hdP P) (perms l) = cnt P l * fact (length l - 1).
Proof.
  induction l as [|x l IH]; [reflexivity|]. cbn [perms]. rewrite cnt_flat_map.
  assert (H : forall L : list (list nat), (forall p, In p L -> length p = length l) ->
              fold_right (fun p acc => cnt (hdP P) (insert_all x p) + acc) 0 L
              = length L * b2n (P x) + length l * cnt (hdP P) L).
  { induction L as [|p L IHL]; intros Hl; cbn [fold_right]; [unfold cnt; cbn; lia|].
    rewrite IHL by (intros q Hq; apply Hl; now right). rewrite insert_all_heads, (Hl p (or_introl eq_refl)), cnt_cons.
    cbn [length]. lia. }
  rewrite H by apply perms_lengths. rewrite IH, perms_count, cnt_cons.
  cbn [length]. replace (S (length l) - 1) with (length l) by lia.
  destruct l as [|y l']; [cbn; destruct (P x); reflexivity|].
  cbn [length]. replace (S (length l') - 1) with (length l') by lia.
  change (fact (S (length l'))) with (S (length l') * fact (length l')). nia.
Qed.

Lemma expect_ext_in A (d : dist A) g h : (forall a p, In (a, p) d -> g a == h a) -> expect d g == expect d h.
Proof.
  induction d as [|[a p] d IH]; intros H; cbn [expect]; [reflexivity|].
  rewrite (H a p (or_introl eq_refl)), IH; [reflexivity|]. intros b q Hb. apply (H b q). now right.
Qed.

Lemma qnat_mul a b : qnat (a * b) == qnat a * qnat b.
Proof. unfold qnat. rewrite Nat2Z.inj_mul, inject_Z_mult. reflexivity. Qed.

Section Decisive.
(* at least two individuals; every configured case has results for everybody and exactly one best individual, w c *)
Context (pol : bool) (pop : population) (n : nat) (w : nat -> nat)
        (Hpop : 2 <= length pop)
        (Hdec : forall c, c < n -> missing pol pop c (seq 0 (length pop)) = false /\
                                   filter_case pol pop c (seq 0 (length pop)) = [w c]).

Lemma lex_run_decisive c rest : c < n -> lex_run pol pop (c :: rest) (seq 0 (length pop)) = inl [w c].
Proof.
  intros Hc. destruct (Hdec c Hc) as [Hm Hf]. revert Hm Hf.
  destruct (length pop) as [|[|m]] eqn:E; [lia|lia|]. cbn [seq lex_run]. intros -> ->.
  destruct rest; reflexivity.
Qed.

Theorem lexicase_decisive i : 1 <= n ->
  (prob (lexicase pol pop n) (is_idx i) == qnat (cnt (fun c => Nat.eqb (w c) i) (seq 0 n)) / qnat n)%Q.
Proof.
  intros Hn. unfold lexicase. rewrite prob_bind.
  rewrite (expect_ext_in _ _ _ (fun order => if hdP (fun c => Nat.eqb (w c) i) order then 1 else 0)%Q).
  2:{ intros order p Hin. unfold uniform in Hin. apply in_map_iff in Hin. destruct Hin as [o [[= <- _] Ho]].
      destruct o as [|c rest].
      - apply perms_lengths in Ho. rewrite seq_length in Ho. cbn in Ho. lia.
      - assert (Hc : c < n). { pose proof (perms_spec _ _ _ Ho c) as Hs. assert (Hin : In c (seq 0 n)) by (apply Hs; now left). apply in_seq in Hin. lia. }
        rewrite (lex_run_decisive c rest Hc). cbn [hdP].
        unfold dmap, uniform. cbn [map length fst snd prob is_idx].
        destruct (Nat.eqb_spec (w c) i) as [->|Hne].
        + rewrite Nat.eqb_refl. unfold qnat. cbn. field.
        + destruct (Nat.eqb_spec i (w c)) as [->|_]; [contradiction|]. ring. }
  rewrite <- prob_as_expect, prob_uniform_count. fold (cnt (hdP (fun c => w c =? i)) (perms (seq 0 n))).
  rewrite perms_heads, perms_count, seq_length.
  destruct n as [|m]; [lia|]. replace (S m - 1) with m by lia.
  change (fact (S m)) with (S m * fact m). rewrite !qnat_mul.
  assert (Hf : ~ qnat (fact m) == 0).
  { pose proof (lt_O_fact m). pose proof (qnat_pos (fact m) H). lra. }
  assert (Hs : ~ qnat (S m) == 0) by (pose proof (qnat_pos (S m) ltac:(lia)); lra).
  field. split; assumption.
Qed.
End Decisive.
