(* Generators (ec-core/src/distributions, ec-linear bitstring, push plushy): collections of a
   requested size, uniform member choices, random bitstrings and random Plushy genes. *)
From Coq Require Import List ZArith QArith Lia Bool Lqa Arith.
From UEC Require Import Base.Dist Ec.Mutation.
Import ListNotations.
Local Open Scope Q_scope.

(* a collection generator: n independent draws from the element generator *)
Fixpoint collection {A} (n : nat) (g : dist A) : dist (list A) :=
  match n with
  | O => dret []
  | S n' => dbind g (fun x => dbind (collection n' g) (fun r => dret (x :: r)))
  end.

Theorem collection_length A n (g : dist A) c : nonneg g -> possible (collection n g) c ->
  length c = n /\ forall x, In x c -> possible g x.
Proof.
  intros Hg. revert c. induction n as [|n IH]; intros c; cbn [collection].
  - rewrite possible_ret. intros ->. split; [reflexivity|intros x []].
  - assert (Hn : forall k, nonneg (collection k g)).
    { induction k as [|k IHk]; cbn [collection]; [apply nonneg_ret|].
      apply nonneg_bind; [exact Hg|]. intros x. apply nonneg_bind; [exact IHk|intros; apply nonneg_ret]. }
    rewrite possible_bind; [|exact Hg|intros x; apply nonneg_bind; [apply Hn|intros; apply nonneg_ret]].
    intros (x & Hx & H). rewrite possible_bind in H; [|apply Hn|intros; apply nonneg_ret].
    destruct H as (r & Hr & H). apply possible_ret in H. subst c.
    destruct (IH r Hr) as [Hl Hin]. split; [cbn; now rewrite Hl|]. intros y [<-|Hy]; auto.
Qed.
Theorem collection_mass A n (g : dist A) : mass g == 1 -> mass (collection n g) == 1.
Proof.
  intros Hg. induction n as [|n IH]; cbn [collection]; [apply mass_ret|].
  rewrite mass_bind; [exact Hg|]. intros x. rewrite mass_bind; [exact IH|intros; apply mass_ret].
Qed.

(* the n elements are independent draws: the probability of a given collection is the product of the
   probabilities of its elements (for any decidable equality on the elements) *)
Fixpoint list_eqb {A} (eqb : A -> A -> bool) (a b : list A) : bool :=
  match a, b with
  | [], [] => true
  | x :: a', y :: b' => eqb x y && list_eqb eqb a' b'
  | _, _ => false
  end.
Fixpoint product_law {A} (eqb : A -> A -> bool) (g : dist A) (c : list A) : Q :=
  match c with
  | [] => 1
  | x :: c' => prob g (eqb x) * product_law eqb g c'
  end.

Lemma prob_false A (d : dist A) : prob d (fun _ => false) == 0.
Proof. induction d as [|[x q] d IH]; cbn; [reflexivity|rewrite IH; ring]. Qed.

Lemma prob_bind_ret_cons A (d : dist (list A)) (x : A) P :
  prob (dbind d (fun r => dret (x :: r))) P == prob d (fun r => P (x :: r)).
Proof.
  rewrite prob_bind. rewrite prob_as_expect. apply expect_ext. intros r. rewrite prob_ret. reflexivity.
Qed.

Theorem collection_iid A (eqb : A -> A -> bool) n (g : dist A) : forall c, length c = n ->
  prob (collection n g) (list_eqb eqb c) == product_law eqb g c.
Proof.
  induction n as [|n IH]; intros c Hc; cbn [collection].
  - destruct c; [|discriminate]. rewrite prob_ret. reflexivity.
  - destruct c as [|x c']; [discriminate|]. injection Hc as Hc. cbn [product_law].
    rewrite prob_bind.
    rewrite (expect_ext _ _ _ (fun y => (if eqb x y then 1 else 0) * product_law eqb g c')).
    2:{ intros y. rewrite prob_bind_ret_cons. cbn [list_eqb].
        destruct (eqb x y); cbn [andb]; [rewrite (IH c' Hc); ring|rewrite prob_false; ring]. }
    rewrite (expect_ext _ _ _ (fun y => product_law eqb g c' * (if eqb x y then 1 else 0))) by (intros; ring).
    rewrite expect_scale, <- prob_as_expect. ring.
Qed.

(* a collection of a different length has probability 0 *)
Theorem collection_wrong_length A (eqb : A -> A -> bool) n (g : dist A) : forall c, length c <> n ->
  prob (collection n g) (list_eqb eqb c) == 0.
Proof.
  induction n as [|n IH]; intros c Hc; cbn [collection].
  - destruct c; [contradiction|]. rewrite prob_ret. reflexivity.
  - rewrite prob_bind. rewrite (expect_ext _ _ _ (fun _ => 0)).
    + rewrite expect_const. ring.
    + intros y. rewrite prob_bind_ret_cons. destruct c as [|x c']; cbn [list_eqb].
      * apply prob_false.
      * destruct (eqb x y); cbn [andb]; [apply IH; cbn in Hc; lia|apply prob_false].
Qed.

(* Marginals of a collection of independent draws: one position follows the element law, two different
   positions are independent.  (How long genomes - far too many children to tabulate - are compared with
   the code: per-position and per-pair frequencies.) *)
Section Marg.
Context {A : Type} (g : dist A) (d : A) (Hmass : mass g == 1).

Lemma mass_collection n : mass (collection n g) == 1.
Proof. apply collection_mass. exact Hmass. Qed.

Lemma prob_const_true B (dd : dist B) : prob dd (fun _ => true) == mass dd.
Proof. reflexivity. Qed.

Lemma collection_step n (P : list A -> bool) :
  prob (collection (S n) g) P == expect g (fun x => prob (collection n g) (fun r => P (x :: r))).
Proof.
  cbn [collection]. rewrite prob_bind. apply expect_ext. intros x. apply prob_bind_ret_cons.
Qed.

Theorem collection_marginal n i (P : A -> bool) : (i < n)%nat ->
  prob (collection n g) (fun l => P (nth i l d)) == prob g P.
Proof.
  revert i. induction n as [|n IH]; intros i Hi; [lia|].
  rewrite collection_step. destruct i as [|i]; cbn [nth].
  - rewrite (expect_ext _ _ _ (fun x => (if P x then 1 else 0) * 1)).
    + rewrite (expect_ext _ _ _ (fun x => if P x then 1 else 0)) by (intros; ring). now rewrite <- prob_as_expect.
    + intros x. destruct (P x).
      * rewrite prob_const_true, mass_collection. ring.
      * rewrite prob_false. ring.
  - rewrite (expect_ext _ _ _ (fun _ => prob g P)) by (intros x; apply IH; lia).
    rewrite expect_const, Hmass. ring.
Qed.

Theorem collection_pair_marginal n i j (P Q : A -> bool) : (i < j)%nat -> (j < n)%nat ->
  prob (collection n g) (fun l => P (nth i l d) && Q (nth j l d)) == prob g P * prob g Q.
Proof.
  revert i j. induction n as [|n IH]; intros i j Hij Hj; [lia|].
  rewrite collection_step. destruct j as [|j]; [lia|]. destruct i as [|i]; cbn [nth].
  - rewrite (expect_ext _ _ _ (fun x => (if P x then 1 else 0) * prob g Q)).
    + rewrite (expect_ext _ _ _ (fun x => prob g Q * (if P x then 1 else 0))) by (intros; ring).
      rewrite expect_scale, <- prob_as_expect. ring.
    + intros x. destruct (P x); cbn [andb].
      * rewrite (collection_marginal n j Q) by lia. ring.
      * rewrite prob_false. ring.
  - rewrite (expect_ext _ _ _ (fun _ => prob g P * prob g Q)) by (intros x; apply IH; lia).
    rewrite expect_const, Hmass. ring.
Qed.
End Marg.

(* marginals of bit-flip mutation on genomes of any length: the flip at one position has probability r,
   the flips at two different positions are independent *)
Definition bern (r : Q) (a : bool) : Q := if a then r else 1 - r.
Definition flipped (g c : list bool) (k : nat) : bool := xorb (nth k c false) (nth k g false).


Lemma with_rate_step r b t (P : list bool -> bool) :
  prob (with_rate r (b :: t)) P ==
  r * prob (with_rate r t) (fun t' => P (negb b :: t')) + (1 - r) * prob (with_rate r t) (fun t' => P (b :: t')).
Proof.
  cbn [with_rate]. rewrite prob_bind. cbn [bernoulli expect].
  assert (S : forall v, prob (dbind (with_rate r t) (fun t' => dret (v :: t'))) P == prob (with_rate r t) (fun t' => P (v :: t'))).
  { intros v. rewrite prob_bind, prob_as_expect. apply expect_ext. intros t'. rewrite prob_ret. reflexivity. }
  rewrite !S. ring.
Qed.

Theorem flip_marginal r g i a : (i < length g)%nat ->
  prob (with_rate r g) (fun c => Bool.eqb (flipped g c i) a) == bern r a.
Proof.
  revert i. induction g as [|b t IH]; intros i Hi; [cbn in Hi; lia|].
  rewrite with_rate_step. destruct i as [|i]; unfold flipped; cbn [nth].
  - rewrite (prob_ext _ _ _ (fun _ => Bool.eqb true a)) by (intros; destruct b; reflexivity).
    rewrite (prob_ext _ _ (fun t' => Bool.eqb (xorb b b) a) (fun _ => Bool.eqb false a)) by (intros; destruct b; reflexivity).
    destruct a; cbn [Bool.eqb bern]; rewrite ?prob_false; change (prob (with_rate r t) (fun _ => true)) with (mass (with_rate r t));
      rewrite with_rate_mass; ring.
  - fold (flipped t). cbn in Hi.
    assert (E : prob (with_rate r t) (fun t' => Bool.eqb (xorb (nth i t' false) (nth i t false)) a) == bern r a)
      by (apply (IH i); lia).
    unfold flipped in E. rewrite E. ring.
Qed.

Theorem flip_pair_marginal r g i j a b : (i < j)%nat -> (j < length g)%nat ->
  prob (with_rate r g) (fun c => Bool.eqb (flipped g c i) a && Bool.eqb (flipped g c j) b) == bern r a * bern r b.
Proof.
  revert i j. induction g as [|x t IH]; intros i j Hij Hj; [cbn in Hj; lia|].
  rewrite with_rate_step. destruct j as [|j]; [lia|]. cbn in Hj.
  destruct i as [|i]; unfold flipped; cbn [nth].
  - pose proof (flip_marginal r t j b ltac:(lia)) as M. unfold flipped in M.
    rewrite (prob_ext _ _ _ (fun t' => if Bool.eqb true a then Bool.eqb (xorb (nth j t' false) (nth j t false)) b else false))
      by (intros; destruct x; cbn; destruct (Bool.eqb true a); reflexivity).
    rewrite (prob_ext _ _ (fun t' => Bool.eqb (xorb x x) a && Bool.eqb (xorb (nth j t' false) (nth j t false)) b) (fun t' => if Bool.eqb false a then Bool.eqb (xorb (nth j t' false) (nth j t false)) b else false))
      by (intros; destruct x; cbn; destruct (Bool.eqb false a); reflexivity).
    destruct a; cbn [Bool.eqb bern]; rewrite ?prob_false, ?M; ring.
  - pose proof (IH i j ltac:(lia) ltac:(lia)) as M. unfold flipped in M. rewrite !M. ring.
Qed.

(* random bitstrings: n independent bits, each set with probability p *)
Definition random_bits (p : Q) (n : nat) : dist (list bool) := collection n (bernoulli p).
Fixpoint bits_law_of (p : Q) (n : nat) (c : list bool) : Q :=
  match n, c with
  | O, [] => 1
  | S n', b :: c' => (if b then p else 1 - p) * bits_law_of p n' c'
  | _, _ => 0
  end.
Theorem random_bits_law p n : forall c, prob (random_bits p n) (leqb c) == bits_law_of p n c.
Proof.
  unfold random_bits. induction n as [|n IH]; intros c; cbn [collection bits_law_of].
  - rewrite prob_ret. destruct c; reflexivity.
  - rewrite prob_bind. cbn [bernoulli expect]. rewrite !prob_bind_ret.
    destruct c as [|b c'].
    + rewrite !(prob_ext _ _ _ (fun _ => false)) by reflexivity.
      assert (Z : forall A (dd : dist A), prob dd (fun _ => false) == 0) by (intros A dd; induction dd as [|[x q] dd IHd]; cbn; [reflexivity|rewrite IHd; ring]).
      rewrite !Z. ring.
    + cbn [leqb]. rewrite (prob_ext _ _ (fun x => Bool.eqb b true && leqb c' x) (fun x => if Bool.eqb b true then leqb c' x else false)) by (intros x; destruct (Bool.eqb b true); reflexivity).
      rewrite (prob_ext _ _ (fun x => Bool.eqb b false && leqb c' x) (fun x => if Bool.eqb b false then leqb c' x else false)) by (intros x; destruct (Bool.eqb b false); reflexivity).
      assert (Z : forall A (dd : dist A), prob dd (fun _ => false) == 0) by (intros A dd; induction dd as [|[x q] dd IHd]; cbn; [reflexivity|rewrite IHd; ring]).
      destruct b; cbn [Bool.eqb]; rewrite ?IH, ?Z; ring.
Qed.

(* uniform crossover as a distribution over masks: n fair coins *)
Definition uniform_xo_masks (n : nat) : dist (list bool) := random_bits (1 # 2) n.
Lemma half_pow n c : length c = n -> bits_law_of (1 # 2) n c == 1 / qnat (Nat.pow 2 n).
Proof.
  revert c. induction n as [|n IH]; intros [|b c] H; cbn in H; try lia.
  - cbn. reflexivity.
  - cbn [bits_law_of]. rewrite IH by lia.
    assert (E : qnat (Nat.pow 2 (S n)) == 2 * qnat (Nat.pow 2 n)).
    { unfold qnat. change (Nat.pow 2 (S n)) with (2 * Nat.pow 2 n)%nat. rewrite Nat2Z.inj_mul, inject_Z_mult. reflexivity. }
    assert (0 < qnat (Nat.pow 2 n)) by (apply qnat_pos; apply Nat.neq_0_lt_0, Nat.pow_nonzero; lia).
    rewrite E. destruct b; field; lra.
Qed.
Theorem uniform_xo_mask_law (a b : list Z) (m : list bool) :
  length a = length b -> length m = length a ->
  prob (uniform_xo_masks (length a)) (leqb m) == 1 / qnat (Nat.pow 2 (length a)).
Proof. intros _ Hm. unfold uniform_xo_masks. rewrite random_bits_law. now apply half_pow. Qed.

(* a uniform member choice, by index *)
Definition one_of {A} (l : list A) : option (dist nat) :=
  match l with [] => None | _ => Some (uniform (seq 0 (length l))) end.
Theorem one_of_empty_rejected A : @one_of A [] = None.
Proof. reflexivity. Qed.
Lemma filter_eq_seq i s n : length (filter (Nat.eqb i) (seq s n)) = if (s <=? i) && (i <? s + n) then 1%nat else 0%nat.
Proof.
  revert s. induction n as [|n IH]; intros s; cbn [seq filter].
  - destruct (Nat.leb_spec s i), (Nat.ltb_spec i (s + 0)); cbn [andb length]; try reflexivity; lia.
  - destruct (Nat.eqb_spec i s) as [->|Hne]; cbn [length]; rewrite IH.
    + destruct (Nat.leb_spec s s), (Nat.ltb_spec s (s + S n)), (Nat.leb_spec (S s) s); cbn [andb]; try lia; reflexivity.
    + destruct (Nat.leb_spec s i), (Nat.ltb_spec i (s + S n)), (Nat.leb_spec (S s) i), (Nat.ltb_spec i (S s + n)); cbn [andb]; try lia; reflexivity.
Qed.
Lemma uniform_idx_prob n i : (i < n)%nat -> prob (uniform (seq 0 n)) (Nat.eqb i) == 1 / qnat n.
Proof.
  intros Hi. rewrite prob_uniform_count, filter_eq_seq, seq_length.
  destruct (Nat.leb_spec 0 i), (Nat.ltb_spec i (0 + n)); cbn [andb]; try lia. reflexivity.
Qed.
Theorem one_of_uniform A (l : list A) d i : one_of l = Some d -> (i < length l)%nat ->
  prob d (Nat.eqb i) == 1 / qnat (length l).
Proof.
  destruct l as [|x l]; [discriminate|]. intros H Hi. unfold one_of in H.
  assert (E : d = uniform (seq 0 (length (x :: l)))) by congruence. rewrite E. now apply uniform_idx_prob.
Qed.
Theorem one_of_member A (l : list A) d i : one_of l = Some d -> possible d i -> (i < length l)%nat.
Proof.
  destruct l as [|x l]; [discriminate|]. intros H Hp. unfold one_of in H.
  assert (E : d = uniform (seq 0 (length (x :: l)))) by congruence. rewrite E in Hp.
  apply possible_uniform, in_seq in Hp. lia.
Qed.

(* the choice reports the number of members it was built from: its support is exactly the index range of the collection
   (every member can be chosen, nothing else can), its size is the collection's length, and it is a distribution *)
Theorem one_of_support A (l : list A) d : one_of l = Some d ->
  (forall i, possible d i <-> (i < length l)%nat) /\ length d = length l /\ mass d == 1.
Proof.
  destruct l as [|x l]; [discriminate|]. intros H. unfold one_of in H.
  assert (E : d = uniform (seq 0 (length (x :: l)))) by congruence. rewrite E. repeat split.
  - intros Hp. apply possible_uniform, in_seq in Hp. lia.
  - intros Hi. apply possible_uniform, in_seq. lia.
  - unfold uniform. now rewrite map_length, seq_length.
  - apply mass_uniform. cbn [length seq]. discriminate.
Qed.

(* residue classes of a uniform index *)
Definition class_count (n m r : nat) : nat := (n + m - 1 - r) / m.

Lemma class_count_S n m r : (0 < m)%nat -> (r < m)%nat ->
  class_count (S n) m r = (class_count n m r + if (n mod m =? r)%nat then 1 else 0)%nat.
Proof.
  intros Hm Hr. unfold class_count.
  pose proof (Nat.div_mod n m ltac:(lia)) as D. pose proof (Nat.mod_upper_bound n m ltac:(lia)) as B.
  set (q := (n / m)%nat) in *. set (t := (n mod m)%nat) in *.
  replace (S n + m - 1 - r)%nat with ((t + m - r) + q * m)%nat by nia.
  replace (n + m - 1 - r)%nat with ((t + m - 1 - r) + q * m)%nat by nia.
  rewrite !Nat.div_add by lia.
  destruct (Nat.eqb_spec t r) as [E|E].
  - subst r. replace (t + m - t)%nat with m by lia. rewrite Nat.div_same by lia.
    rewrite (Nat.div_small (t + m - 1 - t) m) by lia. lia.
  - destruct (Nat.lt_ge_cases t r).
    + rewrite (Nat.div_small (t + m - r) m), (Nat.div_small (t + m - 1 - r) m) by lia. lia.
    + replace (t + m - r)%nat with ((t - r) + 1 * m)%nat by lia.
      replace (t + m - 1 - r)%nat with ((t - r - 1) + 1 * m)%nat by lia.
      rewrite !Nat.div_add by lia. rewrite !Nat.div_small by lia. lia.
Qed.

Lemma class_filter_length n m r : (0 < m)%nat -> (r < m)%nat ->
  length (filter (fun i => (i mod m =? r)%nat) (seq 0 n)) = class_count n m r.
Proof.
  intros Hm Hr. induction n as [|n IH].
  - unfold class_count. cbn [seq filter length]. symmetry. apply Nat.div_small. lia.
  - rewrite seq_S, filter_app, app_length, IH, class_count_S by assumption. cbn [plus filter].
    destruct (n mod m =? r)%nat; reflexivity.
Qed.

Theorem uniform_class_prob n m r : (0 < m)%nat -> (r < m)%nat ->
  prob (uniform (seq 0 n)) (fun i => (i mod m =? r)%nat) == qnat (class_count n m r) / qnat n.
Proof. intros Hm Hr. rewrite prob_uniform_count, class_filter_length, seq_length by assumption. reflexivity. Qed.

Lemma class_count_Z n m r : (0 < m)%nat -> (r < m)%nat ->
  Z.of_nat (class_count n m r) = ((Z.of_nat n + Z.of_nat m - 1 - Z.of_nat r) / Z.of_nat m)%Z.
Proof.
  intros Hm Hr. unfold class_count. rewrite Nat2Z.inj_div. f_equal. lia.
Qed.

(* a uniform member choice, seen through residue classes of the index: used for sources far too
   large to tabulate member by member *)
Theorem one_of_class_prob A (l : list A) d m r : one_of l = Some d -> (0 < m)%nat -> (r < m)%nat ->
  prob d (fun i => (i mod m =? r)%nat) == qnat (class_count (length l) m r) / qnat (length l).
Proof.
  destruct l as [|x l]; [discriminate|]. intros H Hm Hr. unfold one_of in H.
  assert (E : d = uniform (seq 0 (length (x :: l)))) by congruence. rewrite E. now apply uniform_class_prob.
Qed.

(* Plushy genes: a close marker (None) with probability c, else an instruction *)
Definition gene_gen {I} (c : Q) (instrs : dist I) : dist (option I) :=
  dbind (bernoulli c) (fun close => if close then dret None else dmap Some instrs).
Definition default_close (n : nat) : Q := 1 / qnat (S n).

Lemma prob_dmap A B (f : A -> B) (dd : dist A) P : prob (dmap f dd) P == prob dd (fun x => P (f x)).
Proof. unfold dmap. induction dd as [|[x q] dd IH]; cbn; [reflexivity|]. rewrite IH. reflexivity. Qed.

Theorem gene_gen_law I (instrs : dist I) c P :
  prob (gene_gen c instrs) P ==
  c * (if P None then 1 else 0) + (1 - c) * prob instrs (fun i => P (Some i)).
Proof.
  unfold gene_gen. rewrite prob_bind. cbn [bernoulli expect]. rewrite prob_ret, prob_dmap. ring.
Qed.

Theorem default_close_law I (l : list I) P : l <> [] ->
  prob (gene_gen (default_close (length l)) (uniform l)) P ==
  (qnat (length (filter (fun i => P (Some i)) l)) + (if P None then 1 else 0)) / qnat (S (length l)).
Proof.
  intros Hl. rewrite gene_gen_law, prob_uniform_count. unfold default_close. rewrite qnat_S.
  assert (0 < qnat (length l)) by (apply qnat_pos; destruct l; [contradiction|cbn; lia]).
  field. lra.
Qed.

(* pair marginals of random bitstrings and of uniform-crossover masks (any length) *)
Lemma mass_bernoulli' p : mass (bernoulli p) == 1.
Proof. apply mass_bernoulli. Qed.
Theorem random_bits_pair p n i j a b : (i < j)%nat -> (j < n)%nat ->
  prob (random_bits p n) (fun l => Bool.eqb (nth i l false) a && Bool.eqb (nth j l false) b) == bern p a * bern p b.
Proof.
  intros Hij Hj. unfold random_bits.
  rewrite (collection_pair_marginal (bernoulli p) false (mass_bernoulli' p) n i j (fun x => Bool.eqb x a) (fun x => Bool.eqb x b) Hij Hj).
  unfold bernoulli, bern. cbn [prob]. destruct a, b; cbn [Bool.eqb]; ring.
Qed.
Corollary uniform_xo_pair n i j a b : (i < j)%nat -> (j < n)%nat ->
  prob (uniform_xo_masks n) (fun l => Bool.eqb (nth i l false) a && Bool.eqb (nth j l false) b) == 1 # 4.
Proof.
  intros Hij Hj. unfold uniform_xo_masks. rewrite random_bits_pair by assumption. unfold bern. destruct a, b; reflexivity.
Qed.
