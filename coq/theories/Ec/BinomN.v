(* The binomial coefficient computed multiplicatively over N - C(n,k) = C(n,k-1) (n-k+1) / k - equals the
   Pascal-recursion [binom] the tournament laws are stated with.  This is what lets the rank law be EVALUATED
   for populations of hundreds of individuals in the correspondence check. *)
From Coq Require Import Arith NArith Lia.
From UEC Require Import Ec.SelectProps.

Lemma binom_above n : forall k, n < k -> binom n k = 0.
Proof.
  induction n as [|n IH]; intros [|k] H; try lia; [reflexivity|]. cbn [binom].
  rewrite (IH k), (IH (S k)); lia.
Qed.

(* absorption: (k+1) C(n,k+1) = (n-k) C(n,k) *)
Lemma binom_absorb n : forall k, S k * binom n (S k) = (n - k) * binom n k.
Proof.
  induction n as [|n IH]; intros k.
  - cbn [binom]. lia.
  - change (binom (S n) (S k)) with (binom n k + binom n (S k)).
    destruct k as [|j].
    + rewrite !binom_0. specialize (IH 0). rewrite binom_0 in IH. lia.
    + change (binom (S n) (S j)) with (binom n j + binom n (S j)).
      pose proof (IH j) as Hj. pose proof (IH (S j)) as Hsj.
      destruct (le_lt_dec (S j) n) as [Hle|Hgt].
      * replace (S n - S j) with (S (n - S j)) by lia. replace (n - j) with (S (n - S j)) in Hj by lia. nia.
      * rewrite (binom_above n (S j)) in * by lia. rewrite (binom_above n (S (S j))) in * by lia.
        replace (S n - S j) with 0 by lia. lia.
Qed.

Fixpoint binomN (n : N) (k : nat) : N :=
  match k with
  | O => 1
  | S k' => (binomN n k' * (n - N.of_nat k') / N.of_nat k)%N
  end.

Theorem binomN_spec n k : binomN (N.of_nat n) k = N.of_nat (binom n k).
Proof.
  induction k as [|k IH]; [rewrite binom_0; reflexivity|].
  cbn [binomN]. rewrite IH.
  replace (N.of_nat (binom n k) * (N.of_nat n - N.of_nat k))%N with (N.of_nat (S k) * N.of_nat (binom n (S k)))%N.
  - rewrite N.mul_comm, N.div_mul by lia. reflexivity.
  - rewrite <- Nat2N.inj_sub, <- !Nat2N.inj_mul. f_equal. rewrite binom_absorb. lia.
Qed.
