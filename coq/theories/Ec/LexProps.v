(* Lexicase selection (C08): filtering keeps the best on each case; a survivor is never dominated. *)
From Coq Require Import List ZArith QArith Lia Bool Arith.
From UEC Require Import Base.Dist Ec.Select Ec.SelectProps.
Import ListNotations.
Local Open Scope nat_scope.

Section Lex.
Context (pol : bool) (pop : population).
Notation cr := (case_result pol pop).

(* every candidate has a result on every case considered (the configured case count does not
   exceed the results available) *)
Definition complete (cases C : list nat) : Prop :=
  forall i c, In i C -> In c cases -> exists v, cr i c = Some v.

Lemma best_ge c C i v : In i C -> cr i c = Some v -> (v <= best_on pol pop c C)%Z.
Proof.
  unfold best_on. generalize (match C with
                              | [] => 0%Z
                              | i0 :: _ => match cr i0 c with Some v0 => v0 | None => 0%Z end
                              end) as init.
  induction C as [|x C IH]; intros init Hi Hv; [destruct Hi|]. cbn [fold_right].
  destruct Hi as [->|Hi].
  - rewrite Hv. lia.
  - specialize (IH init Hi Hv). destruct (cr x c); lia.
Qed.

Lemma best_attained c C : C <> [] -> (forall i, In i C -> exists v, cr i c = Some v) ->
  exists i, In i C /\ cr i c = Some (best_on pol pop c C).
Proof.
  intros Hne Hall. unfold best_on. destruct C as [|h C]; [contradiction|].
  destruct (Hall h (or_introl eq_refl)) as [vh Hh]. rewrite Hh.
  assert (G : forall l, (forall i, In i l -> exists v, cr i c = Some v) ->
              (fold_right (fun i m => match cr i c with Some v => Z.max v m | None => m end) vh l = vh) \/
              exists i, In i l /\ cr i c = Some (fold_right (fun i m => match cr i c with Some v => Z.max v m | None => m end) vh l)).
  { induction l as [|x l IHl]; intros Hl; [now left|]. cbn [fold_right].
    destruct (Hl x (or_introl eq_refl)) as [vx Hx]. rewrite Hx.
    destruct (IHl (fun i Hi => Hl i (or_intror Hi))) as [E|[i [Hi Hv]]].
    - rewrite E. destruct (Z.max_spec vx vh) as [[_ ->]|[_ ->]]; [now left|right; exists x; split; [now left|exact Hx]].
    - set (m := fold_right _ vh l) in *.
      destruct (Z.max_spec vx m) as [[_ ->]|[_ ->]]; right; [exists i; split; [now right|exact Hv]|exists x; split; [now left|exact Hx]]. }
  destruct (G (h :: C) Hall) as [E|[i [Hi Hv]]].
  - exists h. split; [now left|]. now rewrite E.
  - exists i. split; assumption.
Qed.

Lemma in_filter_case c C i : In i (filter_case pol pop c C) <-> In i C /\ cr i c = Some (best_on pol pop c C).
Proof.
  unfold filter_case. rewrite filter_In. split; intros [H1 H2]; split; try exact H1.
  - destruct (cr i c) as [v|]; [apply Z.eqb_eq in H2; now subst|discriminate].
  - rewrite H2. apply Z.eqb_refl.
Qed.

(* at each case exactly the candidates with the best result on that case remain *)
Theorem filter_keeps_best c C i :
  In i (filter_case pol pop c C) <->
  In i C /\ exists v, cr i c = Some v /\ v = best_on pol pop c C /\ forall j w, In j C -> cr j c = Some w -> (w <= v)%Z.
Proof.
  rewrite in_filter_case. split.
  - intros [Hi Hv]. split; [exact Hi|]. exists (best_on pol pop c C). repeat split; try assumption.
    intros j w Hj Hw. exact (best_ge c C j w Hj Hw).
  - intros [Hi (v & Hv & -> & _)]. auto.
Qed.

Lemma missing_false cases C c : complete cases C -> In c cases -> missing pol pop c C = false.
Proof.
  intros Hc Hin. unfold missing. apply not_true_is_false. intros H. apply existsb_exists in H.
  destruct H as [i [Hi Hn]]. destruct (Hc i c Hi Hin) as [v Hv]. now rewrite Hv in Hn.
Qed.

Lemma complete_sub cases C C' : complete cases C -> (forall i, In i C' -> In i C) -> complete cases C'.
Proof. intros H S i c Hi Hc. apply H; auto. Qed.
Lemma complete_tail c cases C : complete (c :: cases) C -> complete cases C.
Proof. intros H i c' Hi Hc. apply H; [exact Hi|now right]. Qed.

(* invariant: if j is at least as good as i on every remaining case, j accompanies i *)
Lemma accompany cases : forall C S i j, i <> j -> complete cases C ->
  (forall c vi vj, In c cases -> cr i c = Some vi -> cr j c = Some vj -> (vi <= vj)%Z) ->
  In j C -> lex_run pol pop cases C = inl S -> In i S ->
  In j S /\ (forall c vi vj, In c cases -> cr i c = Some vi -> cr j c = Some vj -> (vj <= vi)%Z).
Proof.
  induction cases as [|c cases IH]; intros C S i j Hn Hcomp Hge Hj Hrun Hi; cbn [lex_run] in Hrun.
  - injection Hrun as <-. split; [exact Hj|]. intros c vi vj [].
  - destruct C as [|x [|y C]]; [discriminate| |].
    + injection Hrun as <-. destruct Hi as [<-|[]], Hj as [<-|[]]. congruence.
    + rewrite (missing_false (c :: cases) _ c Hcomp (or_introl eq_refl)) in Hrun.
      set (C0 := x :: y :: C) in *.
      assert (HiF : In i (filter_case pol pop c C0)) by (eapply lex_run_sub; eassumption).
      apply in_filter_case in HiF. destruct HiF as [HiC Hbest].
      destruct (Hcomp j c Hj (or_introl eq_refl)) as [vj Hvj].
      assert (Hle : (vj <= best_on pol pop c C0)%Z) by (exact (best_ge c C0 j vj Hj Hvj)).
      assert (Hge' : (best_on pol pop c C0 <= vj)%Z) by (eapply (Hge c); [now left|exact Hbest|exact Hvj]).
      assert (HjF : In j (filter_case pol pop c C0)).
      { apply in_filter_case. split; [exact Hj|]. rewrite Hvj. f_equal. lia. }
      assert (Hcomp' : complete cases (filter_case pol pop c C0)).
      { apply complete_tail in Hcomp. eapply complete_sub; [exact Hcomp|]. intros k Hk. now apply in_filter_case in Hk. }
      destruct (IH _ _ i j Hn Hcomp' (fun c' vi vj' Hc' => Hge c' vi vj' (or_intror Hc')) HjF Hrun Hi) as [H1 H2].
      split; [exact H1|]. intros c' vi vj' [<-|Hc'] Hvi Hvj'.
      * rewrite Hbest in Hvi. rewrite Hvj in Hvj'. injection Hvi as <-. injection Hvj' as <-. lia.
      * eapply H2; eassumption.
Qed.

(* j dominates i on the cases: at least as good everywhere, strictly better somewhere *)
Definition dominates (cases : list nat) (j i : nat) : Prop :=
  (forall c vi vj, In c cases -> cr i c = Some vi -> cr j c = Some vj -> (vi <= vj)%Z) /\
  (exists c vi vj, In c cases /\ cr i c = Some vi /\ cr j c = Some vj /\ (vi < vj)%Z).

Theorem survivor_not_dominated cases C S i :
  complete cases C -> lex_run pol pop cases C = inl S -> In i S ->
  ~ exists j, In j C /\ j <> i /\ dominates cases j i.
Proof.
  intros Hcomp Hrun Hi (j & Hj & Hn & Hge & c & vi & vj & Hc & Hvi & Hvj & Hlt).
  destruct (accompany cases C S i j (not_eq_sym Hn) Hcomp Hge Hj Hrun Hi) as [_ Hle].
  specialize (Hle c vi vj Hc Hvi Hvj). lia.
Qed.

(* with complete results the run never fails and never ends empty-handed *)
Lemma lex_run_ok cases : forall C, C <> [] -> complete cases C ->
  exists S, lex_run pol pop cases C = inl S /\ S <> [].
Proof.
  induction cases as [|c cases IH]; intros C Hne Hcomp; cbn [lex_run]; [eauto|].
  destruct C as [|x [|y C]]; [contradiction|eexists; split; [reflexivity|discriminate]|].
  rewrite (missing_false (c :: cases) _ c Hcomp (or_introl eq_refl)).
  apply IH.
  - destruct (best_attained c (x :: y :: C) ltac:(discriminate)) as [i [Hi Hv]].
    { intros i Hi. apply (Hcomp i c Hi). now left. }
    intros E. assert (In i (filter_case pol pop c (x :: y :: C))) by (apply in_filter_case; auto).
    rewrite E in H. destruct H.
  - apply complete_tail in Hcomp. eapply complete_sub; [exact Hcomp|]. intros k Hk. now apply in_filter_case in Hk.
Qed.
End Lex.

Lemma insert_all_spec A (x : A) l p : In p (insert_all x l) -> forall y, In y p <-> y = x \/ In y l.
Proof.
  revert p. induction l as [|z l IH]; intros p; cbn [insert_all].
  - intros [<-|[]] y. cbn. intuition congruence.
  - intros [<-|H] y; [cbn; intuition congruence|]. apply in_map_iff in H. destruct H as [q [<- Hq]].
    specialize (IH q Hq y). cbn. intuition congruence.
Qed.
Lemma perms_spec A (l p : list A) : In p (perms l) -> forall y, In y p <-> In y l.
Proof.
  revert p. induction l as [|x l IH]; intros p; cbn [perms].
  - intros [<-|[]]. tauto.
  - intros H y. apply in_flat_map in H. destruct H as [q [Hq Hp]].
    rewrite (insert_all_spec _ _ _ _ Hp y), (IH q Hq y). cbn. intuition congruence.
Qed.

(* the distribution-level statement: whoever lexicase can return is not Pareto-dominated on the
   configured cases by any other member of the population *)
Theorem lexicase_winner_not_dominated pol pop n i :
  complete pol pop (seq 0 n) (seq 0 (length pop)) ->
  possible (lexicase pol pop n) (inl i) ->
  i < length pop /\ ~ exists j, j < length pop /\ j <> i /\ dominates pol pop (seq 0 n) j i.
Proof.
  intros Hcomp H. split; [exact (select_member pol pop (SLexicase n) i H)|].
  unfold lexicase in H. rewrite possible_bind in H; [|apply nonneg_uniform|].
  2:{ intros order. destruct (lex_run pol pop order (seq 0 (length pop))) as [[|c C]|e]; try apply nonneg_ret.
      apply nonneg_dmap, nonneg_uniform. }
  destruct H as (order & Ho & H). apply possible_uniform in Ho.
  pose proof (perms_spec _ _ _ Ho) as Hperm.
  assert (Hcomp' : complete pol pop order (seq 0 (length pop))).
  { intros k c Hk Hc. apply Hcomp; [exact Hk|]. now apply Hperm. }
  destruct (lex_run pol pop order (seq 0 (length pop))) as [[|c C]|e] eqn:R.
  - apply possible_ret in H. discriminate.
  - apply possible_dmap in H. destruct H as (a & Ha & [= ->]). apply possible_uniform in Ha.
    intros (j & Hj & Hn & Hd).
    apply (survivor_not_dominated pol pop order _ _ a Hcomp' R Ha).
    exists j. split; [apply in_seq; lia|]. split; [exact Hn|].
    destruct Hd as [Hge (c0 & vi & vj & Hc0 & Hrest)]. split.
    + intros c1 vi1 vj1 Hc1. apply Hge. now apply Hperm.
    + exists c0, vi, vj. split; [now apply Hperm|exact Hrest].
  - apply possible_ret in H. discriminate.
Qed.

(* zero cases: uniform over the whole population; one individual: that individual *)
Theorem lexicase_zero_cases pol pop : pop <> [] ->
  lexicase pol pop 0 = dbind (uniform [@nil nat]) (fun _ => dmap inl (uniform (seq 0 (length pop)))).
Proof.
  intros H. unfold lexicase. cbn [seq perms]. destruct pop as [|x pop]; [contradiction|]. reflexivity.
Qed.

(* the law: the probability of selecting i is the average, over the case orders, of its share
   among the final survivors (0 when it did not survive) *)
Definition is_idx (i : nat) (o : outcome) : bool := match o with inl k => Nat.eqb i k | inr _ => false end.

Lemma prob_inl_const (C : list nat) i (w : Q) :
  (prob (map (fun x : nat => (@inl nat serr x, w)) C) (is_idx i) == qnat (length (filter (Nat.eqb i) C)) * w)%Q.
Proof.
  induction C as [|x C IH]; cbn [map prob filter is_idx].
  - cbn [length]. change (qnat 0) with 0%Q. ring.
  - rewrite IH. destruct (Nat.eqb i x); cbn [length]; [rewrite qnat_S|]; ring.
Qed.
Lemma prob_dmap_inl_uniform (C : list nat) i :
  (prob (dmap (@inl nat serr) (uniform C)) (is_idx i) == qnat (length (filter (Nat.eqb i) C)) / qnat (length C))%Q.
Proof.
  unfold dmap, uniform. rewrite map_map. cbn [fst snd]. rewrite prob_inl_const. unfold Qdiv. ring.
Qed.

Theorem lexicase_law pol pop n i :
  (prob (lexicase pol pop n) (is_idx i) ==
   expect (uniform (perms (seq 0 n)))
          (fun order => match lex_run pol pop order (seq 0 (length pop)) with
                        | inl (c :: C) => qnat (length (filter (Nat.eqb i) (c :: C))) / qnat (length (c :: C))
                        | _ => 0
                        end))%Q.
Proof.
  unfold lexicase. rewrite prob_bind. apply expect_ext. intros order.
  destruct (lex_run pol pop order (seq 0 (length pop))) as [[|c C]|e].
  - rewrite prob_ret. reflexivity.
  - apply prob_dmap_inl_uniform.
  - rewrite prob_ret. reflexivity.
Qed.
