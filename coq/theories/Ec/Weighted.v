(* Weighted combinations of selectors (C13): which member a combination delegates to. *)
From Coq Require Import List ZArith QArith Lia Bool Lqa Arith.
From UEC Require Import Base.Dist Ec.Select Ec.SelectProps.
Import ListNotations.
Local Open Scope Q_scope.

(* the shape of a weighted combination: members are identified by a number *)
Inductive wtree := Leaf (id : nat) (w : N) | Node (a b : wtree).
Fixpoint tweight (t : wtree) : N := match t with Leaf _ w => w | Node a b => (tweight a + tweight b)%N end.
(* total weight carried by member id (a member may occur several times) *)
Fixpoint wleaf (t : wtree) (id : nat) : N :=
  match t with Leaf i w => if Nat.eqb i id then w else 0%N | Node a b => (wleaf a id + wleaf b id)%N end.

(* which member a selection is delegated to; None = the zero-weight error *)
Fixpoint delegate (t : wtree) : dist (option nat) :=
  match t with
  | Leaf id w => if (w =? 0)%N then dret None else dret (Some id)
  | Node a b =>
      let s := (tweight a + tweight b)%N in
      if (s =? 0)%N then dret None
      else dbind (bernoulli (qN (tweight a) / qN s)) (fun c => if c then delegate a else delegate b)
  end.
Definition is_id (id : nat) (o : option nat) : bool := match o with Some i => Nat.eqb i id | None => false end.
Definition is_none (o : option nat) : bool := match o with None => true | Some _ => false end.

(* the selector a shape stands for, given the member selectors *)
Fixpoint to_sel (m : nat -> sel) (t : wtree) : sel :=
  match t with Leaf id w => SLeaf w (m id) | Node a b => SPair (to_sel m a) (to_sel m b) end.
(* the dynamic list: entries (member, weight) *)
Fixpoint dyn_sel (m : nat -> sel) (l : list (nat * N)) : sel :=
  match l with [] => SDynNil | (id, w) :: r => SDynCons (m id) w (dyn_sel m r) end.
Fixpoint dyn_tree (l : list (nat * N)) : wtree :=
  match l with [] => Leaf 0 0 | (id, w) :: r => Node (Leaf id w) (dyn_tree r) end.

Lemma weight_to_sel m t : weight (to_sel m t) = tweight t.
Proof. induction t as [i w|a IHa b IHb]; cbn; [reflexivity|]. now rewrite IHa, IHb. Qed.
Lemma weight_dyn m l : weight (dyn_sel m l) = tweight (dyn_tree l).
Proof. induction l as [|[i w] l IH]; cbn; [reflexivity|]. now rewrite IH. Qed.

Lemma wleaf_le t id : (wleaf t id <= tweight t)%N.
Proof. induction t as [i w|a IHa b IHb]; cbn; [destruct (Nat.eqb i id); lia|lia]. Qed.

Lemma zero_tree t P : tweight t = 0%N -> prob (delegate t) P == if P None then 1 else 0.
Proof. destruct t as [i w|a b]; cbn [tweight delegate]; intros ->; cbn; destruct (P None); ring. Qed.

(* for EVERY tree shape: member id is delegated to with probability (its weight) / (total weight) *)
Theorem leaf_prob t id : (0 < tweight t)%N ->
  prob (delegate t) (is_id id) == qN (wleaf t id) / qN (tweight t).
Proof.
  induction t as [i w|a IHa b IHb]; cbn [tweight delegate wleaf]; intros Hpos.
  - destruct (N.eqb_spec w 0); [lia|]. rewrite prob_ret. cbn [is_id].
    pose proof (qN_pos w Hpos). destruct (Nat.eqb i id).
    + field. lra.
    + change (qN 0) with 0. field. lra.
  - destruct (N.eqb_spec (tweight a + tweight b) 0); [lia|].
    rewrite prob_bind. cbn [bernoulli expect].
    pose proof (qN_pos _ Hpos) as Hs. rewrite !qN_add in *.
    assert (Ha : prob (delegate a) (is_id id) * qN (tweight a) == qN (wleaf a id)).
    { destruct (N.eq_dec (tweight a) 0) as [E|E].
      - rewrite zero_tree by exact E. cbn [is_id]. pose proof (wleaf_le a id). replace (wleaf a id) with 0%N by lia.
        change (qN 0) with 0. ring.
      - rewrite IHa by lia. pose proof (qN_pos (tweight a) ltac:(lia)). field. lra. }
    assert (Hb : prob (delegate b) (is_id id) * qN (tweight b) == qN (wleaf b id)).
    { destruct (N.eq_dec (tweight b) 0) as [E|E].
      - rewrite zero_tree by exact E. cbn [is_id]. pose proof (wleaf_le b id). replace (wleaf b id) with 0%N by lia.
        change (qN 0) with 0. ring.
      - rewrite IHb by lia. pose proof (qN_pos (tweight b) ltac:(lia)). field. lra. }
    rewrite <- Ha, <- Hb. field. lra.
Qed.

(* a member of weight zero is never used *)
Corollary zero_never t id : (0 < tweight t)%N -> wleaf t id = 0%N -> prob (delegate t) (is_id id) == 0.
Proof. intros H Z. rewrite leaf_prob by exact H. rewrite Z. change (qN 0) with 0. pose proof (qN_pos _ H). field. lra. Qed.

(* total weight zero: the zero-weight error, with certainty *)
Theorem all_zero t : tweight t = 0%N -> delegate t = dret None.
Proof. destruct t as [i w|a b]; cbn [tweight delegate]; intros ->; reflexivity. Qed.

(* with positive total weight the zero-weight error has probability 0: exactly one member is used *)
Theorem no_error_when_positive t : (0 < tweight t)%N -> prob (delegate t) is_none == 0.
Proof.
  induction t as [i w|a IHa b IHb]; cbn [tweight delegate]; intros Hpos.
  - destruct (N.eqb_spec w 0); [lia|]. rewrite prob_ret. reflexivity.
  - destruct (N.eqb_spec (tweight a + tweight b) 0); [lia|].
    rewrite prob_bind. cbn [bernoulli expect].
    pose proof (qN_pos _ Hpos) as Hs. rewrite !qN_add in *.
    destruct (N.eq_dec (tweight a) 0) as [Ea|Ea], (N.eq_dec (tweight b) 0) as [Eb|Eb]; try lia.
    + rewrite (zero_tree a) by exact Ea. rewrite IHb by lia. cbn [is_none]. rewrite Ea. change (qN 0) with 0.
      pose proof (qN_pos (tweight b) ltac:(lia)). field. lra.
    + rewrite (zero_tree b) by exact Eb. rewrite IHa by lia. cbn [is_none]. rewrite Eb. change (qN 0) with 0.
      pose proof (qN_pos (tweight a) ltac:(lia)). field. lra.
    + rewrite IHa, IHb by lia. ring.
Qed.

(* a weighted combination = choose the member by [delegate], then let that member select:
   the event probabilities of the combination are the delegation-weighted member probabilities *)
Theorem select_factorises pol pop m t P :
  prob (select pol pop (to_sel m t)) P ==
  expect (delegate t) (fun o => match o with
                                | None => if P (inr EZeroWeight) then 1 else 0
                                | Some id => prob (select pol pop (m id)) P end).
Proof.
  induction t as [i w|a IHa b IHb]; cbn [to_sel select delegate].
  - destruct (w =? 0)%N; rewrite expect_ret; [apply prob_ret|reflexivity].
  - rewrite !weight_to_sel. destruct (tweight a + tweight b =? 0)%N.
    + rewrite expect_ret. apply prob_ret.
    + rewrite prob_bind, expect_bind. apply expect_ext. intros []; assumption.
Qed.

(* the dynamic list behaves as the right-nested chain of its entries *)
Theorem dyn_as_chain pol pop m l P :
  prob (select pol pop (dyn_sel m l)) P == prob (select pol pop (to_sel m (dyn_tree l))) P.
Proof.
  induction l as [|[i w] l IH]; cbn [dyn_sel dyn_tree to_sel select weight tweight].
  - reflexivity.
  - rewrite weight_dyn, weight_to_sel. destruct (N.eqb_spec (w + tweight (dyn_tree l)) 0) as [E|E]; [reflexivity|].
    rewrite !prob_bind. cbn [bernoulli expect]. rewrite IH.
    destruct (N.eqb_spec w 0) as [->|Hw]; [|reflexivity].
    change (qN 0) with 0. unfold Qdiv. ring.
Qed.

(* ---------- build-time overflow of statically typed chains ---------- *)
(* the `Weighted::new(..).with_item_and_weight(..)?.with_item_and_weight(..)?...` idiom: a left-nested chain *)
Fixpoint chain_from (m : nat -> sel) (acc : sel) (l : list (nat * N)) : sel :=
  match l with [] => acc | (id, w) :: r => chain_from m (SPair acc (SLeaf w (m id))) r end.
Definition wsum (l : list (nat * N)) : N := fold_right (fun e a => (snd e + a)%N) 0%N l.

Lemma build_error_sticky a b e : build_error a = Some e -> build_error (SPair a b) = Some e.
Proof. cbn. now intros ->. Qed.
Lemma build_error_pair_ok a b :
  build_error a = None -> build_error b = None ->
  build_error (SPair a b) = if (u32_limit <=? weight a + weight b)%N then Some (weight a, weight b) else None.
Proof. cbn. now intros -> ->. Qed.
Lemma build_ok_total_fits s :
  (forall w s', s = SLeaf w s' -> (w < u32_limit)%N) -> build_error s = None ->
  match s with SPair _ _ => (weight s < u32_limit)%N | _ => True end.
Proof.
  intros _. destruct s; try exact (fun _ => I). cbn [build_error weight].
  destruct (build_error s1); [discriminate|]. destruct (build_error s2); [discriminate|].
  destruct (N.leb_spec u32_limit (weight s1 + weight s2)); [discriminate|]. auto.
Qed.

Lemma chain_error_sticky m l : forall acc e, build_error acc = Some e -> build_error (chain_from m acc l) = Some e.
Proof.
  induction l as [|[id w] l IH]; intros acc e H; cbn [chain_from]; [exact H|].
  apply IH. now apply build_error_sticky.
Qed.

(* a chain is accepted exactly when the total weight fits in 32 bits; the overflow is detected at the
   first partial sum that does not fit - also when later items would be fine *)
Theorem chain_build m l : forall acc,
  build_error acc = None -> (weight acc < u32_limit)%N -> (forall id, build_error (m id) = None) ->
  (build_error (chain_from m acc l) = None <-> (weight acc + wsum l < u32_limit)%N).
Proof.
  induction l as [|[id w] l IH]; intros acc Hacc Hw Hm; cbn [chain_from].
  - change (wsum []) with 0%N. rewrite Hacc, N.add_0_r. tauto.
  - change (wsum ((id, w) :: l)) with (w + wsum l)%N.
    assert (Hleaf : build_error (SLeaf w (m id)) = None) by (cbn; apply Hm).
    pose proof (build_error_pair_ok acc (SLeaf w (m id)) Hacc Hleaf) as Hp. cbn [weight] in Hp.
    destruct (N.leb_spec u32_limit (weight acc + w)) as [Hov|Hfit].
    + rewrite (chain_error_sticky m l _ _ Hp). split; [discriminate|]. intros H. exfalso. unfold u32_limit in *. lia.
    + rewrite (IH (SPair acc (SLeaf w (m id))) Hp); [|cbn [weight]; unfold u32_limit in *; lia|exact Hm]. cbn [weight]. unfold u32_limit in *. split; intros H; lia.
Qed.

(* which pair is reported: the partial sum so far and the weight that did not fit *)
Theorem chain_overflow_report m id w acc l :
  build_error acc = None -> build_error (m id) = None -> (u32_limit <= weight acc + w)%N ->
  build_error (chain_from m acc ((id, w) :: l)) = Some (weight acc, w).
Proof.
  intros Hacc Hm Hov. cbn [chain_from]. apply chain_error_sticky.
  rewrite build_error_pair_ok; [|exact Hacc|cbn; exact Hm]. cbn [weight].
  destruct (N.leb_spec u32_limit (weight acc + w)); [reflexivity|unfold u32_limit in *; lia].
Qed.
